/-
  C01 — End-to-end call transparency across versions, transports and call styles.

  Composition theorems over models that exist: the message construction API (JRV.Model.Payload, C14), the
  client's reply handling (JRV.Model.Client, C06), the dispatcher (JRV.Model.Server with the normal forms of
  JRV.Lemmas.Server, C02/C03/C05) and the abstract JSON codec (JRV.Model.Backend), composed by
  JRV.Model.EndToEnd.  Every theorem holds for EVERY `Backend` (its laws `roundtrip` and `batch` are the
  only facts used about the text layer), every registry, every method name, every JSON-able payload,
  every client version and both server versions.

  Hypotheses that are not part of the property text, and why they are there:
  * `Gate20` — `check_for_errors` lets a reply with `"jsonrpc": "2.0"` through (`float("2.0") > 2.0` is
    false).  The Lean kernel cannot evaluate `String.splitOn`/`toNat?` on a literal (same situation as
    `C05_client`); the harness validates it by executing the model on every run.
  * `fresh ≠ ""` — the id drawn from `uuid4` is not the empty string (an empty id would make the request a
    notification).
  * `name ≠ ""` — the server refuses an empty method name before looking it up, WHATEVER is registered
    (`C01_empty_name_refused`: −32600 and no invocation, also for a function registered under `""`; confirmed on
    the real code).  The empty string is therefore the one name under which a registered callable cannot be
    reached; the hypothesis cannot be dropped.
  * (none about keyword names: since fix 04aca15 `_Method.__call__(*args, **kwargs)` and
    `MultiCallMethod.__call__(*args, **kwargs)` take their receiver positionally, so a keyword called
    `self` is an ordinary keyword — `methodParams` / `jobParams` do not look at the keys; see the example
    with a `"self"` key.)
  * `pool ≠ full` for calls (a full notification pool only matters for notifications), `pool = absent` for
    notifications (C01 is about the inline invocation; the pooled path is C04/C09).
  * `custom = none`: the server uses its own `_dispatch` (registry look-up), which is what "callable
    registered on a server" means.

  EQUALITY OF VALUES AND KEY ORDER.  `PyVal.dict` is an ordered association list and `=` on `PyVal` is structural,
  so "returns `normalise v`" / "invoked with `dict (normaliseKVs kwargs)`" / `Backend.roundtrip`
  (`parse (render v) = some (normalise v)`) all include the ORDER of dictionary entries.  That is a fact about
  order-preserving backends (CPython's `json` with insertion-ordered dicts, the backend the library selects; the
  witness `BackendInstance.godel`), and it is stronger than the property: JSON objects are unordered and Python's
  `==` on dicts ignores order, so "returns exactly its return value up to JSON normalisation" does not speak of
  key order.  The harness therefore compares values, call arguments and documents order-insensitively (monitor:
  Python equality with exact scalar types; projections: `pyval.enc(canon=True)` sorts entries), and reports how
  often the real backend kept the order (`backend_key_order_changed` in the evidence: 0 for the code as it
  stands).  A backend that re-orders keys (e.g. `sort_keys=True`) is outside the hypotheses of these theorems but
  does not violate the property; the check does not raise an alarm for it.

  Map: `C01_request` / `C01_single` / `C01_kwargs` / `C01_no_args` / `C01_dotted` / `C01_falsy` / `C01_raises` /
  `C01_notify` (class translation off), `C01_single_jsonclass` / `C01_notify_jsonclass` (translation on, any
  combination of flags), `C01_batch` (every call job returns), `C01_batch_mixed` (ANY mixture of returning,
  raising, unknown and non-binding jobs, calls and notifications, translation on or off: per-position outcome,
  invocations, History), `C01_batch_jsonclass`, `C01_batch_position`, `C01_batch_all_notifications`;
  names: `C01_dotted`, `C01_notify_dotted`, `C01_extendJobName`, `C01_mkJob`, `C01_dunder_test`,
  `C01_methodParams_shape`, `C01_jobParams_shape`, `C01_empty_name_refused`;
  kept helper objects (state between uses): `C01_method_object_immutable`, `C01_method_cells_never_change`,
  `C01_job_object_extended`, `C01_kept_namespace`, `C01_call_via_objects`, `C01_addJob`, `C01_addJobs`,
  `C01_multicall_call`, `C01_multicall_reuse`, `C01_multicall_keeps_on_failure`;
  transports and server classes: `C01_over_wire` (= `C01_over_wire_full_statement`, composing C17 and C19);
  satisfiability of the Backend laws: `C01_backend_exists`;
  the registry as a MUTABLE object over a history (JRV.Model.RegistryProg: register_function / del funcs[name] /
  register_instance / setattr, delattr on instance objects / register_introspection_functions interleaved with
  requests): `C01_registry_requests_leave_state`, `C01_registry_fresh_dispatcher` (a call after any program resolves as
  on a fresh dispatcher holding the final registry), `C01_registry_static` (a fixed registry is the empty program),
  what each operation does to what a name denotes (`C01_registry_function_wins/_other/_deleted`,
  `C01_registry_instance_replaced`, `C01_registry_attribute_rebound/_deleted`, `C01_registry_list_methods_current`),
  and `C01_single_after_program` / `C01_batch_after_program`.
  The companion theorems of the extracted facts (`C01_gen_*`) are in JRV/Properties/C01Gen.lean; this file does
  not import JRV.Generated.
-/
import JRV.Lemmas.EndToEnd
import JRV.Properties.C05
import JRV.Properties.C06
import JRV.Properties.C14
import JRV.Properties.C17
import JRV.Properties.C19
import JRV.Lemmas.BackendInstance
import JRV.Model.RegistryProg

set_option linter.unusedSimpArgs false
set_option linter.unusedVariables false

namespace JRV.Props
open JRV JRV.PyVal JRV.Callable JRV.Payload JRV.Server JRV.EndToEnd

/-- `check_for_errors` accepts the version marker of a 2.0 reply: `float("2.0") > 2.0` is false. -/
def Gate20 : Prop := Client.versionAbove2 (.str "2.0") = .ok false

/-- `jsonclass.dump` as `dump` applies it: only when `use_jsonclass` is set. -/
def effConv (cfg : Config) (conv : PyVal → PyM PyVal) (v : PyVal) : PyM PyVal :=
  if cfg.useJsonclass then conv v else pure v

/- ---------- small lemmas ---------- -/

private theorem verStr20 : verStr 20 = "2.0" := by decide

private theorem truthy_dict_of_lookup' {kvs : List (PyVal × PyVal)} {k : String} {v : PyVal}
    (h : lookupStr k kvs = some v) : (PyVal.dict kvs).truthy = true := by
  cases kvs with
  | nil => simp [lookupStr] at h
  | cons _ _ => simp [truthy]

private theorem serverParams_congr {p p' : PyVal} (h : p'.normalise = p.normalise) :
    serverParams p' = serverParams p := by
  have ht : p'.truthy = p.truthy := by rw [← truthy_normalise p', ← truthy_normalise p, h]
  simp [serverParams, ht, h]

private theorem requestConfig_uj (cfg : Config) (b : Bool) : (requestConfig cfg b).useJsonclass = cfg.useJsonclass := by
  simp only [requestConfig]; split <;> rfl

private theorem requestConfig_ver (cfg : Config) (b : Bool) (h : cfg.version = 10 ∨ cfg.version = 20) :
    (requestConfig cfg b).version = 10 ∨ (requestConfig cfg b).version = 20 := by
  simp only [requestConfig]; split <;> simp_all

private theorem wfJson_str (s : String) : (PyVal.str s).wfJson = true := by
  simp [wfJson, isJson, distinctKeys]

/-- The client accepts a result envelope of version 1.0 or 2.0 and hands out its `result`. -/
private theorem client_result (hg : Gate20) (ver : Nat) (hver : ver = 10 ∨ ver = 20) (rid v : PyVal) :
    Client.proxyResult (normalise (Payload.response ver rid v)) = .ok v.normalise := by
  obtain ⟨kvs, hk, look, _⟩ := response_look ver rid v
  rw [hk]
  simp only [normalise]
  apply C06_result_unchanged
  · simp only [envelopeOk, lookupStr_normaliseKVs, look.hjsonrpc]
    rcases hver with rfl | rfl
    · simp
    · simp [verStr20, normalise]; exact hg
  · simp [lookupStr_normaliseKVs, look.hresult]
  · intro e he
    simp only [lookupStr_normaliseKVs, Option.map_eq_some_iff] at he
    obtain ⟨e0, he0, rfl⟩ := he
    rw [truthy_normalise]
    exact look.herror e0 he0

/- ---------- the core: one request, with the class translators described by what they do ---------- -/

/-- What a run of one request through the composed system looks like when it succeeds. -/
structure Exchange (K : Codec) (p : Peer) (h : History) (r : Run PyVal) (req rep : String)
    (value : PyVal) (effects : List Effect) : Prop where
  /-- the server, given the request text, answers the reply text and causes exactly these effects -/
  served : serve K p req = (.ok rep, effects)
  value_eq : r.value = .ok value
  effects_eq : r.effects = effects
  /-- the History holds exactly the two texts, appended in order -/
  history_eq : r.history = { requests := h.requests ++ [req], responses := h.responses ++ [rep] }

private theorem serve_call (B : Backend) (p : Peer) (fresh name : String) (ver : Nat) (p' : PyVal)
    (hsv : p.srv.cfg.version = 10 ∨ p.srv.cfg.version = 20)
    (hcustom : p.srv.custom = Option.none) (hpool : p.srv.pool ≠ .full)
    (hfresh : fresh ≠ "") (hname : name ≠ "")
    (hp'wf : p'.wfJson = true) (hp's : p'.isTuple = true ∨ p'.isDict = true ∨ p'.isList = true)
    (hsu : Payload.load p.srv.cfg p.unconv (normalise (.dict (reqKVs ver (.str fresh) name p'))) =
             .ok (normalise (.dict (reqKVs ver (.str fresh) name p'))))
    (t : Target) (f : Callable) (hres : resolves p.srv.reg name = some (t, f))
    (hbind : binds f.sig (serverParams p') = true)
    (req : String) (hreq : B.parse req = some (normalise (.dict (reqKVs ver (.str fresh) name p')))) (hreqne : req ≠ "") :
    (Server.marshaledDispatch p.srv (.parsed (normalise (.dict (reqKVs ver (.str fresh) name p'))))) =
      (.ok (match some (respOf p.srv (requestConfig p.srv.cfg (decide (ver ≥ 20))) (.str fresh)
              (.ok (invoke t (some f) (.str name) (serverParams p')).1)) with
            | Option.none => Reply.empty
            | some d => finalReply p.srv d), (invoke t (some f) (.str name) (serverParams p')).2) ∧
    serverParse B.codec p req = .ok (.parsed (normalise (.dict (reqKVs ver (.str fresh) name p')))) := by
  have sh := reqKVs_shape ver (.str fresh) (wfJson_str fresh) name p'
  have hent := entry_call p.srv hcustom sh hname hfresh hp's t f hres hbind
  constructor
  · simp only [normalise]
    rw [marshaled_single p.srv hpool]
    · simp only [respond, entryEffects, hent]
    · exact truthy_dict_of_lookup' (by rw [lookupStr_normaliseKVs, sh.hmethod]; rfl)
    · rfl
  · have hne : (req == "") = false := by simpa using hreqne
    simp [serverParse, loadsK, Backend.codec, hne, hreq, hsu, pure, Except.pure]


/-- One call request through the composed system, the class translators described by their effect on
    the four values they meet (`hcc`, `hsu`, `hsc`, `hcu`). -/
private theorem core_request (B : Backend) (hg : Gate20) (c : Proxy) (p : Peer) (h : History)
    (fresh name : String) (params p' v v' : PyVal) (t : Target) (f : Callable)
    (hsv : p.srv.cfg.version = 10 ∨ p.srv.cfg.version = 20)
    (hcustom : p.srv.custom = Option.none) (hpool : p.srv.pool ≠ .full)
    (hfresh : fresh ≠ "") (hname : name ≠ "")
    (hshape : params.isTuple = true ∨ params.isDict = true)
    (hcc : effConv c.cfg c.conv params = .ok p')
    (hp'wf : p'.wfJson = true) (hp'n : p'.normalise = params.normalise)
    (hp's : p'.isTuple = true ∨ p'.isDict = true ∨ p'.isList = true)
    (hsu : ∀ ver, Payload.load p.srv.cfg p.unconv (normalise (.dict (reqKVs ver (.str fresh) name p'))) =
             .ok (normalise (.dict (reqKVs ver (.str fresh) name p'))))
    (hsc : effConv p.srv.cfg p.srv.conv v = .ok v')
    (hv'wf : v'.wfJson = true) (hv'n : v'.normalise = v.normalise)
    (hcu : ∀ ver, Payload.load c.cfg c.unconv (normalise (Payload.response ver (.str fresh) v')) =
             .ok (normalise (Payload.response ver (.str fresh) v')))
    (hres : resolves p.srv.reg name = some (t, f))
    (hbind : binds f.sig (serverParams params) = true) (hret : f.body (serverParams params) = .ret v) :
    ∃ req rep, dumpsK B.codec c.cfg c.conv fresh (.val params) (.str name) .none c.version false false = .ok req ∧
      req ≠ "" ∧ rep ≠ "" ∧
      Exchange B.codec p h (EndToEnd.request B.codec c p h fresh name params) req rep v.normalise
        [.call t (.str name) (serverParams params)] := by
  -- the request document and its text
  obtain ⟨ver, hverdef⟩ : ∃ x, x = resolveVersion c.cfg c.version := ⟨_, rfl⟩
  have hcont : containerParams params = true := by
    rcases hshape with h | h <;> simp [containerParams, h]
  have hdump : dump c.cfg c.conv fresh (.val params) (.str name) .none c.version false false =
      .ok (.dict (reqKVs ver (.str fresh) name p')) := by
    rw [C14_dump_request c.cfg c.conv fresh params p' name .none c.version false hcont hcc]
    simp [request_eq, hverdef]
  have sh := reqKVs_shape ver (.str fresh) (wfJson_str fresh) name p'
  obtain ⟨req, hrender, hreqne, hparse⟩ := B.roundtrip _ (sh.hwf hp'wf)
  have hsp : serverParams p' = serverParams params := serverParams_congr hp'n
  -- the server
  obtain ⟨hmd, hsparse⟩ := serve_call B p fresh name ver p' hsv hcustom hpool hfresh hname hp'wf hp's (hsu ver)
    t f hres (by rw [hsp]; exact hbind) req hparse hreqne
  rw [hsp, invoke_ret t f _ _ v hbind hret] at hmd
  -- the response document and its text
  obtain ⟨cfg', hcfg'⟩ : ∃ x, x = requestConfig p.srv.cfg (decide (ver ≥ 20)) := ⟨_, rfl⟩
  rw [← hcfg'] at hmd
  have hver' : cfg'.version = 10 ∨ cfg'.version = 20 := by
    rw [hcfg']; exact requestConfig_ver p.srv.cfg (decide (ver ≥ 20)) hsv
  have hbr : buildResponse p.srv cfg' (.str fresh) (.value v) = .ok (Payload.response cfg'.version (.str fresh) v') := by
    have := C14_dump_response cfg' p.srv.conv "" v v' .none (.str fresh) .none false (by first | rfl | (intro h; cases h)) (by simp)
      (by simpa [effConv, requestConfig_uj, hcfg'] using hsc)
    simpa [buildResponse, resolveVersion] using this
  obtain ⟨rkvs, hrk, look, hrwf⟩ := response_look cfg'.version (.str fresh) v'
  have hRwf : (Payload.response cfg'.version (.str fresh) v').wfJson = true := by
    rw [hrk]; exact hrwf (wfJson_str fresh) hv'wf
  obtain ⟨rep, hrender2, hrepne, hparse2⟩ := B.roundtrip _ hRwf
  have hserve : serve B.codec p req = (.ok rep, [.call t (.str name) (serverParams params)]) := by
    simp only [serve, hsparse, hmd, respOf, hbr, finalReply, serialisable_of_wfJson _ hRwf, ↓reduceIte]
    simp [Backend.codec, hrender2]
  refine ⟨req, rep, ?_, hreqne, hrepne, ?_⟩
  · simp [dumpsK, hdump, Backend.codec, hrender, bind, Except.bind]
  · have hd : dumpsK B.codec c.cfg c.conv fresh (.val params) (.str name) .none c.version false false = .ok req := by
      simp [dumpsK, hdump, Backend.codec, hrender, bind, Except.bind]
    have hne2 : (rep == "") = false := by simpa using hrepne
    have hparse2' : B.codec.parse rep = some (Payload.response cfg'.version (.str fresh) v').normalise := hparse2
    constructor
    · exact hserve
    · simp only [EndToEnd.request, hd, runRequest, hserve, hne2, Bool.false_eq_true, ↓reduceIte, loadsK,
        hparse2', hcu, Except.bind]
      rw [client_result hg _ hver', hv'n]
    · simp [EndToEnd.request, hd, runRequest, hserve]
    · simp [EndToEnd.request, hd, runRequest, hserve, History.addRequest, History.addResponse]


/- ---------- class translation off: the public statements ---------- -/

private theorem load_off (cfg : Config) (unconv : PyVal → PyM PyVal) (h : cfg.useJsonclass = false) (d : PyVal) :
    Payload.load cfg unconv d = .ok d := by
  cases d <;> simp [Payload.load, h, pure, Except.pure]

private theorem effConv_off (cfg : Config) (conv : PyVal → PyM PyVal) (h : cfg.useJsonclass = false) (v : PyVal) :
    effConv cfg conv v = .ok v := by
  simp [effConv, h, pure, Except.pure]

/-- `ServerProxy._request(name, params)` against a server on which `name` denotes a callable that accepts
    the (normalised) parameters and returns `v`: the call returns `normalise v`, the callable ran exactly
    once with exactly those parameters, and the History gained exactly the request text the client
    rendered (the one the server was given) and the reply text the server produced, in that order.
    Class translation off on both sides; every backend, registry, name, payload, client version. -/
theorem C01_request (B : Backend) (hg : Gate20) (c : Proxy) (p : Peer) (h : History)
    (fresh name : String) (params v : PyVal) (t : Target) (f : Callable)
    (hcoff : c.cfg.useJsonclass = false) (hsoff : p.srv.cfg.useJsonclass = false)
    (hsv : p.srv.cfg.version = 10 ∨ p.srv.cfg.version = 20)
    (hcustom : p.srv.custom = Option.none) (hpool : p.srv.pool ≠ .full)
    (hfresh : fresh ≠ "") (hname : name ≠ "")
    (hshape : params.isTuple = true ∨ params.isDict = true) (hwf : params.wfJson = true)
    (hres : resolves p.srv.reg name = some (t, f))
    (hbind : binds f.sig (serverParams params) = true) (hret : f.body (serverParams params) = .ret v)
    (hv : v.wfJson = true) :
    ∃ req rep, dumpsK B.codec c.cfg c.conv fresh (.val params) (.str name) .none c.version false false = .ok req ∧
      req ≠ "" ∧ rep ≠ "" ∧
      Exchange B.codec p h (EndToEnd.request B.codec c p h fresh name params) req rep v.normalise
        [.call t (.str name) (serverParams params)] :=
  core_request B hg c p h fresh name params params v v t f hsv hcustom hpool hfresh hname hshape
    (effConv_off _ _ hcoff _) hwf rfl (by rcases hshape with h | h <;> simp [h])
    (fun _ => load_off _ _ hsoff _) (effConv_off _ _ hsoff _) hv rfl (fun _ => load_off _ _ hcoff _) hres hbind hret

/-- The method name nested attribute access builds. -/
def dottedName : List String → String
  | [] => ""
  | first :: rest => rest.foldl (fun acc seg => acc ++ "." ++ seg) first

/-- Attribute names the property quantifies over: no dunder names, none of the proxy's / method object's
    own attributes (for which Python never consults `__getattr__`). -/
def segOk (seg : String) : Bool := !isDunder seg && !methodOwnAttrs.contains seg
def pathOk : List String → Bool
  | [] => false
  | first :: rest => !proxyOwnAttrs.contains first && !isDunder first && rest.all segOk

private theorem extendName_ok (acc : String) (rest : List String) (h : rest.all segOk = true) :
    extendName acc rest = .ok (rest.foldl (fun acc seg => acc ++ "." ++ seg) acc) := by
  induction rest generalizing acc with
  | nil => rfl
  | cons s rest ih =>
    simp only [List.all_cons, Bool.and_eq_true, segOk, Bool.not_eq_true'] at h
    have h2 : s ∉ methodOwnAttrs := by simpa using h.1.2
    simp [extendName, h.1.1, h2, ih _ h.2]

/-- `proxy.a.b.c` is the method named `"a.b.c"`. -/
theorem C01_dotted (path : List String) (h : pathOk path = true) :
    proxyAttr path = .ok (dottedName path) ∧ dottedName path = ".".intercalate path := by
  constructor
  · cases path with
    | nil => simp [pathOk] at h
    | cons a rest =>
      simp only [pathOk, Bool.and_eq_true, Bool.not_eq_true'] at h
      have h2 : a ∉ proxyOwnAttrs := by simpa using h.1.1
      simp [proxyAttr, h2, h.1.2, extendName_ok a rest h.2, dottedName]
  · cases path with
    | nil => rfl
    | cons a rest =>
      clear h
      simp only [dottedName, String.intercalate]
      induction rest generalizing a with
      | nil => rfl
      | cons b rest ih => exact ih (a ++ "." ++ b)

/-- The parameters `_Method.__call__` sends, and what the callable receives for them. -/
private theorem call_eq (K : Codec) (c : Proxy) (p : Peer) (h : History) (fresh : String) (path : List String)
    (args : List PyVal) (kwargs : List (PyVal × PyVal)) (params : PyVal)
    (hpath : pathOk path = true) (hmp : methodParams args kwargs = .ok params) :
    EndToEnd.call K c p h fresh path args kwargs = EndToEnd.request K c p h fresh (dottedName path) params := by
  simp [EndToEnd.call, (C01_dotted path hpath).1, hmp]

/-- Plain call with positional arguments: `proxy.<path>(*args)` invokes the callable exactly once with
    `args` (normalised) and returns exactly its (normalised) return value; History as in `C01_request`. -/
theorem C01_single (B : Backend) (hg : Gate20) (c : Proxy) (p : Peer) (h : History) (fresh : String)
    (path : List String) (args : List PyVal) (v : PyVal) (t : Target) (f : Callable)
    (hcoff : c.cfg.useJsonclass = false) (hsoff : p.srv.cfg.useJsonclass = false)
    (hsv : p.srv.cfg.version = 10 ∨ p.srv.cfg.version = 20)
    (hcustom : p.srv.custom = Option.none) (hpool : p.srv.pool ≠ .full)
    (hfresh : fresh ≠ "") (hpath : pathOk path = true) (hname : dottedName path ≠ "")
    (hargs : args ≠ []) (hwf : (PyVal.tuple args).wfJson = true)
    (hres : resolves p.srv.reg (dottedName path) = some (t, f))
    (hbind : binds f.sig (.list (args.map normalise)) = true)
    (hret : f.body (.list (args.map normalise)) = .ret v) (hv : v.wfJson = true) :
    ∃ req rep, req ≠ "" ∧ rep ≠ "" ∧
      Exchange B.codec p h (EndToEnd.call B.codec c p h fresh path args []) req rep v.normalise
        [.call t (.str (dottedName path)) (.list (args.map normalise))] := by
  have hmp : methodParams args [] = .ok (.tuple args) := by
    cases args <;> simp_all [methodParams, truthy, hasKeyStr, lookupStr, pure, Except.pure]
  have hsp : serverParams (.tuple args) = .list (args.map normalise) := by
    cases args <;> simp_all [serverParams, truthy, normalise, normaliseList_eq_map]
  rw [call_eq _ c p h fresh path args [] _ hpath hmp]
  obtain ⟨req, rep, _, h1, h2, ex⟩ := C01_request B hg c p h fresh (dottedName path) (.tuple args) v t f hcoff hsoff hsv
    hcustom hpool hfresh hname (Or.inl rfl) hwf hres (by rw [hsp]; exact hbind) (by rw [hsp]; exact hret) hv
  exact ⟨req, rep, h1, h2, by rw [hsp] at ex; exact ex⟩

/-- Keyword style: `proxy.<path>(**kwargs)` invokes the callable exactly once with those keywords. -/
theorem C01_kwargs (B : Backend) (hg : Gate20) (c : Proxy) (p : Peer) (h : History) (fresh : String)
    (path : List String) (kwargs : List (PyVal × PyVal)) (v : PyVal) (t : Target) (f : Callable)
    (hcoff : c.cfg.useJsonclass = false) (hsoff : p.srv.cfg.useJsonclass = false)
    (hsv : p.srv.cfg.version = 10 ∨ p.srv.cfg.version = 20)
    (hcustom : p.srv.custom = Option.none) (hpool : p.srv.pool ≠ .full)
    (hfresh : fresh ≠ "") (hpath : pathOk path = true) (hname : dottedName path ≠ "")
    (hkw : kwargs ≠ []) (hwf : (PyVal.dict kwargs).wfJson = true)
    (hres : resolves p.srv.reg (dottedName path) = some (t, f))
    (hbind : binds f.sig (.dict (normaliseKVs kwargs)) = true)
    (hret : f.body (.dict (normaliseKVs kwargs)) = .ret v) (hv : v.wfJson = true) :
    ∃ req rep, req ≠ "" ∧ rep ≠ "" ∧
      Exchange B.codec p h (EndToEnd.call B.codec c p h fresh path [] kwargs) req rep v.normalise
        [.call t (.str (dottedName path)) (.dict (normaliseKVs kwargs))] := by
  have hmp : methodParams [] kwargs = .ok (.dict kwargs) := by
    simp [methodParams, truthy, pure, Except.pure]
  have hsp : serverParams (.dict kwargs) = .dict (normaliseKVs kwargs) := by
    cases kwargs <;> simp_all [serverParams, truthy, normalise]
  rw [call_eq _ c p h fresh path [] kwargs _ hpath hmp]
  obtain ⟨req, rep, _, h1, h2, ex⟩ := C01_request B hg c p h fresh (dottedName path) (.dict kwargs) v t f hcoff hsoff hsv
    hcustom hpool hfresh hname (Or.inr rfl) hwf hres (by rw [hsp]; exact hbind) (by rw [hsp]; exact hret) hv
  exact ⟨req, rep, h1, h2, by rw [hsp] at ex; exact ex⟩

/-- No arguments: `proxy.<path>()` sends `{}`, which `Payload.request` omits (2.0) or replaces by `[]`
    (1.0); either way the server's `params` is `[]` and the callable is invoked with no argument. -/
theorem C01_no_args (B : Backend) (hg : Gate20) (c : Proxy) (p : Peer) (h : History) (fresh : String)
    (path : List String) (v : PyVal) (t : Target) (f : Callable)
    (hcoff : c.cfg.useJsonclass = false) (hsoff : p.srv.cfg.useJsonclass = false)
    (hsv : p.srv.cfg.version = 10 ∨ p.srv.cfg.version = 20)
    (hcustom : p.srv.custom = Option.none) (hpool : p.srv.pool ≠ .full)
    (hfresh : fresh ≠ "") (hpath : pathOk path = true) (hname : dottedName path ≠ "")
    (hres : resolves p.srv.reg (dottedName path) = some (t, f))
    (hbind : binds f.sig (.list []) = true) (hret : f.body (.list []) = .ret v) (hv : v.wfJson = true) :
    ∃ req rep, req ≠ "" ∧ rep ≠ "" ∧
      Exchange B.codec p h (EndToEnd.call B.codec c p h fresh path [] []) req rep v.normalise
        [.call t (.str (dottedName path)) (.list [])] := by
  have hmp : methodParams [] [] = .ok (.dict []) := by
    simp [methodParams, truthy, hasKeyStr, lookupStr, pure, Except.pure]
  have hsp : serverParams (.dict []) = .list [] := by simp [serverParams, truthy]
  rw [call_eq _ c p h fresh path [] [] _ hpath hmp]
  obtain ⟨req, rep, _, h1, h2, ex⟩ := C01_request B hg c p h fresh (dottedName path) (.dict []) v t f hcoff hsoff hsv
    hcustom hpool hfresh hname (Or.inr rfl) (by decide) hres (by rw [hsp]; exact hbind) (by rw [hsp]; exact hret) hv
  exact ⟨req, rep, h1, h2, by rw [hsp] at ex; exact ex⟩

/-- What no-argument requests look like on the wire: params omitted under 2.0, `[]` under 1.0. -/
theorem C01_no_args_wire (fresh m : String) :
    Payload.request 20 .none fresh (.str m) (.dict []) =
      .ok (.dict [(.str "id", .str fresh), (.str "method", .str m), (.str "jsonrpc", .str "2.0")]) ∧
    Payload.request 10 .none fresh (.str m) (.dict []) =
      .ok (.dict [(.str "id", .str fresh), (.str "method", .str m), (.str "params", .list [])]) := by
  constructor <;> simp [Payload.request, isStr, chooseId, truthy, verStr20, pure, Except.pure]

/-- Falsy results are not swallowed: `0`, `false`, `""`, `[]`, `{}`, `null` (and `0.0`, `()`) come back
    as such (`check_for_errors` returns early on a falsy *reply*, but a reply object is never falsy, and
    `response["result"]` is returned without any truthiness test). -/
def falsyResults : List PyVal :=
  [.int 0, .bool false, .str "", .list [], .dict [], .none, .float ⟨false, 0, 0⟩, .float ⟨true, 0, 0⟩, .tuple []]

theorem C01_falsy (B : Backend) (hg : Gate20) (c : Proxy) (p : Peer) (h : History)
    (fresh name : String) (params v : PyVal) (t : Target) (f : Callable)
    (hcoff : c.cfg.useJsonclass = false) (hsoff : p.srv.cfg.useJsonclass = false)
    (hsv : p.srv.cfg.version = 10 ∨ p.srv.cfg.version = 20)
    (hcustom : p.srv.custom = Option.none) (hpool : p.srv.pool ≠ .full)
    (hfresh : fresh ≠ "") (hname : name ≠ "")
    (hshape : params.isTuple = true ∨ params.isDict = true) (hwf : params.wfJson = true)
    (hres : resolves p.srv.reg name = some (t, f))
    (hbind : binds f.sig (serverParams params) = true) (hret : f.body (serverParams params) = .ret v)
    (hv : v ∈ falsyResults) :
    (EndToEnd.request B.codec c p h fresh name params).value = .ok v.normalise ∧
    v.normalise.truthy = false ∧ (v ≠ .tuple [] → v.normalise = v) := by
  have hvwf : v.wfJson = true := by
    simp only [falsyResults, List.mem_cons, List.not_mem_nil, or_false] at hv
    rcases hv with rfl | rfl | rfl | rfl | rfl | rfl | rfl | rfl | rfl <;> decide
  obtain ⟨req, rep, _, _, _, ex⟩ := C01_request B hg c p h fresh name params v t f hcoff hsoff hsv hcustom hpool hfresh
    hname hshape hwf hres hbind hret hvwf
  refine ⟨ex.value_eq, ?_, ?_⟩
  · simp only [falsyResults, List.mem_cons, List.not_mem_nil, or_false] at hv
    rcases hv with rfl | rfl | rfl | rfl | rfl | rfl | rfl | rfl | rfl <;> decide
  · simp only [falsyResults, List.mem_cons, List.not_mem_nil, or_false] at hv
    rcases hv with rfl | rfl | rfl | rfl | rfl | rfl | rfl | rfl | rfl <;> simp [normalise, normaliseList, normaliseKVs]


/- ---------- a raising callable ---------- -/

private theorem error_normal (ver : Nat) (fresh : String) (c : Int) (m : String) :
    normalise (Payload.error ver (.str fresh) (.int c) (.str m) .none) = Payload.error ver (.str fresh) (.int c) (.str m) .none ∧
    (Payload.error ver (.str fresh) (.int c) (.str m) .none).wfJson = true := by
  by_cases h : ver ≥ 20
  · rw [error_v2 ver h]; constructor
    · simp [normalise, normaliseKVs]
    · simp [wfJson, isJson, isJsonKVs, distinctKeys, distinctKeysKVs, isStr]
  · rw [error_v1 ver (by omega)]; constructor
    · simp [normalise, normaliseKVs]
    · simp [wfJson, isJson, isJsonKVs, distinctKeys, distinctKeysKVs, isStr]

/-- The callable raising: the proxy raises `ProtocolError((-32603, "Server error: … Cls: text"))` (C05's
    code and message, C06's exception class), the callable still ran exactly once with the sent
    parameters, and the History holds both texts.  Class translation off. -/
theorem C01_raises (B : Backend) (hg : Gate20) (c : Proxy) (p : Peer) (h : History)
    (fresh name : String) (params : PyVal) (t : Target) (f : Callable) (cls text : String) (te ae : Bool) (dp : Nat)
    (hcoff : c.cfg.useJsonclass = false) (hsoff : p.srv.cfg.useJsonclass = false)
    (hsv : p.srv.cfg.version = 10 ∨ p.srv.cfg.version = 20)
    (hcustom : p.srv.custom = Option.none) (hpool : p.srv.pool ≠ .full)
    (hfresh : fresh ≠ "") (hname : name ≠ "")
    (hshape : params.isTuple = true ∨ params.isDict = true) (hwf : params.wfJson = true)
    (hres : resolves p.srv.reg name = some (t, f))
    (hbind : binds f.sig (serverParams params) = true)
    (hraise : f.body (serverParams params) = .raised cls text te ae dp)
    (hdp : te = true → dp ≠ 0) :
    ∃ req rep, req ≠ "" ∧ rep ≠ "" ∧
      serve B.codec p req = (.ok rep, [.call t (.str name) (serverParams params)]) ∧
      (EndToEnd.request B.codec c p h fresh name params).value =
        .error { cls := "ProtocolError", arg := .tuple [.int (-32603), .str (msgServerError cls text)] } ∧
      (EndToEnd.request B.codec c p h fresh name params).effects = [.call t (.str name) (serverParams params)] ∧
      (EndToEnd.request B.codec c p h fresh name params).history =
        { requests := h.requests ++ [req], responses := h.responses ++ [rep] } := by
  obtain ⟨ver, hverdef⟩ : ∃ x, x = resolveVersion c.cfg c.version := ⟨_, rfl⟩
  have hcont : containerParams params = true := by
    rcases hshape with h | h <;> simp [containerParams, h]
  have hdump : dump c.cfg c.conv fresh (.val params) (.str name) .none c.version false false =
      .ok (.dict (reqKVs ver (.str fresh) name params)) := by
    rw [C14_dump_request c.cfg c.conv fresh params params name .none c.version false hcont (effConv_off _ _ hcoff _)]
    simp [request_eq, hverdef]
  have sh := reqKVs_shape ver (.str fresh) (wfJson_str fresh) name params
  obtain ⟨req, hrender, hreqne, hparse⟩ := B.roundtrip _ (sh.hwf hwf)
  obtain ⟨hmd, hsparse⟩ := serve_call B p fresh name ver params hsv hcustom hpool hfresh hname hwf
    (by rcases hshape with h | h <;> simp [h]) (load_off _ _ hsoff _) t f hres hbind req hparse hreqne
  rw [invoke_raised t f _ _ cls text te ae dp hbind hraise hdp] at hmd
  obtain ⟨cfg', hcfg'⟩ : ∃ x, x = requestConfig p.srv.cfg (decide (ver ≥ 20)) := ⟨_, rfl⟩
  rw [← hcfg'] at hmd
  have hver' : cfg'.version = 10 ∨ cfg'.version = 20 := by
    rw [hcfg']; exact requestConfig_ver p.srv.cfg (decide (ver ≥ 20)) hsv
  have hbr : buildResponse p.srv cfg' (.str fresh) (.fault codeInternal (msgServerError cls text)) =
      .ok (Payload.error cfg'.version (.str fresh) (.int codeInternal) (.str (msgServerError cls text)) .none) := by
    simp [buildResponse, C14_dump_fault, resolveVersion]
  obtain ⟨hEn, hEwf⟩ := error_normal cfg'.version fresh codeInternal (msgServerError cls text)
  obtain ⟨rep, hrender2, hrepne, hparse2⟩ := B.roundtrip _ hEwf
  have hserve : serve B.codec p req = (.ok rep, [.call t (.str name) (serverParams params)]) := by
    simp only [serve, hsparse, hmd, respOf, hbr, finalReply, serialisable_of_wfJson _ hEwf, ↓reduceIte]
    simp [Backend.codec, hrender2]
  have hd : dumpsK B.codec c.cfg c.conv fresh (.val params) (.str name) .none c.version false false = .ok req := by
    simp [dumpsK, hdump, Backend.codec, hrender, bind, Except.bind]
  have hne2 : (rep == "") = false := by simpa using hrepne
  have hparse2' : B.codec.parse rep = some (Payload.error cfg'.version (.str fresh) (.int codeInternal) (.str (msgServerError cls text)) .none) := by
    rw [← hEn]; exact hparse2
  have hgate : cfg'.version ≥ 20 → Client.versionAbove2 (.str (verStr cfg'.version)) = .ok false := by
    intro h20
    have : cfg'.version = 20 := by omega
    rw [this, verStr20]; exact hg
  have hcli := C05_client cfg'.version (.str fresh) codeInternal (by decide) (msgServerError cls text) hgate
  refine ⟨req, rep, hreqne, hrepne, hserve, ?_, ?_, ?_⟩
  · simp only [EndToEnd.request, hd, runRequest, hserve, hne2, Bool.false_eq_true, ↓reduceIte, loadsK,
      hparse2', load_off _ _ hcoff, Except.bind, Client.proxyResult, hcli, bind]
    rfl
  · simp [EndToEnd.request, hd, runRequest, hserve]
  · simp [EndToEnd.request, hd, runRequest, hserve, History.addRequest, History.addResponse]

/- ---------- notifications ---------- -/

/-- One notification through the composed system, the class translators described by their effect on the
    two values they meet (`hcc`: the client's `jsonclass.dump` on the parameters, `hsu`: the server's
    `jsonclass.load` on the parsed request). -/
private theorem core_notify (B : Backend) (c : Proxy) (p : Peer) (h : History)
    (fresh name : String) (params p' : PyVal) (t : Target) (f : Callable)
    (hcustom : p.srv.custom = Option.none) (hpool : p.srv.pool = .absent) (hname : name ≠ "")
    (hshape : params.isTuple = true ∨ params.isDict = true)
    (hcc : effConv c.cfg c.conv params = .ok p')
    (hp'wf : p'.wfJson = true) (hp'n : p'.normalise = params.normalise)
    (hp's : p'.isTuple = true ∨ p'.isDict = true ∨ p'.isList = true)
    (hsu : ∀ ver, Payload.load p.srv.cfg p.unconv (normalise (.dict (notifKVs ver (.str fresh) name p'))) =
             .ok (normalise (.dict (notifKVs ver (.str fresh) name p'))))
    (hres : resolves p.srv.reg name = some (t, f))
    (hbind : binds f.sig (serverParams params) = true) :
    ∃ req, req ≠ "" ∧
      dumpsK B.codec c.cfg c.conv fresh (.val params) (.str name) .none c.version false true = .ok req ∧
      Exchange B.codec p h (requestNotify B.codec c p h fresh name params) req "" .none
        [.call t (.str name) (serverParams params)] := by
  obtain ⟨ver, hverdef⟩ : ∃ x, x = resolveVersion c.cfg c.version := ⟨_, rfl⟩
  have hcont : containerParams params = true := by
    rcases hshape with h | h <;> simp [containerParams, h]
  have hdump : dump c.cfg c.conv fresh (.val params) (.str name) .none c.version false true =
      .ok (.dict (notifKVs ver (.str fresh) name p')) := by
    rw [C14_dump_request c.cfg c.conv fresh params p' name .none c.version true hcont hcc]
    simp [notify_eq, hverdef]
  have sh := notifKVs_shape ver (.str fresh) name p'
  obtain ⟨req, hrender, hreqne, hparse⟩ := B.roundtrip _ (sh.hwf hp'wf)
  have hsp : serverParams p' = serverParams params := serverParams_congr hp'n
  have hent := entry_notify p.srv hcustom hpool sh hname hp's t f hres (by rw [hsp]; exact hbind)
  rw [hsp] at hent
  have heff : (invoke t (some f) (.str name) (serverParams params)).2 = [.call t (.str name) (serverParams params)] := by
    simp only [invoke, hbind, ↓reduceIte]
    cases f.body (serverParams params) <;> rfl
  have hmd : Server.marshaledDispatch p.srv (.parsed (normalise (.dict (notifKVs ver (.str fresh) name p')))) =
      (.ok .empty, [.call t (.str name) (serverParams params)]) := by
    simp only [normalise]
    rw [marshaled_single p.srv (by simp [hpool])]
    · simp only [respond, entryEffects, hent, heff]
    · exact truthy_dict_of_lookup' (by rw [lookupStr_normaliseKVs, sh.hmethod]; rfl)
    · rfl
  have hne : (req == "") = false := by simpa using hreqne
  have hsparse : serverParse B.codec p req = .ok (.parsed (normalise (.dict (notifKVs ver (.str fresh) name p')))) := by
    have hparse' : B.codec.parse req = some (normalise (.dict (notifKVs ver (.str fresh) name p'))) := hparse
    simp [serverParse, loadsK, hne, hparse', hsu ver, pure, Except.pure]
  have hserve : serve B.codec p req = (.ok "", [.call t (.str name) (serverParams params)]) := by
    simp [serve, hsparse, hmd]
  have hd : dumpsK B.codec c.cfg c.conv fresh (.val params) (.str name) .none c.version false true = .ok req := by
    simp [dumpsK, hdump, Backend.codec, hrender, bind, Except.bind]
  refine ⟨req, hreqne, hd, hserve, ?_, ?_, ?_⟩
  · simp [requestNotify, hd, runRequest, hserve, Except.bind, Client.proxyNotify, Client.checkForErrors, truthy,
      pure, Except.pure, bind]
  · simp [requestNotify, hd, runRequest, hserve]
  · simp [requestNotify, hd, runRequest, hserve, History.addRequest, History.addResponse]

/-- `proxy._notify.<name>(…)`: returns `None`, the callable is invoked exactly once, inline (no
    notification pool), with the sent parameters — whether its body returns or raises —, and the History
    records the empty string as the response.  Class translation off (on: `C01_notify_jsonclass`). -/
theorem C01_notify (B : Backend) (c : Proxy) (p : Peer) (h : History)
    (fresh name : String) (params : PyVal) (t : Target) (f : Callable)
    (hcoff : c.cfg.useJsonclass = false) (hsoff : p.srv.cfg.useJsonclass = false)
    (hcustom : p.srv.custom = Option.none) (hpool : p.srv.pool = .absent) (hname : name ≠ "")
    (hshape : params.isTuple = true ∨ params.isDict = true) (hwf : params.wfJson = true)
    (hres : resolves p.srv.reg name = some (t, f))
    (hbind : binds f.sig (serverParams params) = true) :
    ∃ req, req ≠ "" ∧
      dumpsK B.codec c.cfg c.conv fresh (.val params) (.str name) .none c.version false true = .ok req ∧
      Exchange B.codec p h (requestNotify B.codec c p h fresh name params) req "" .none
        [.call t (.str name) (serverParams params)] :=
  core_notify B c p h fresh name params params t f hcustom hpool hname hshape (effConv_off _ _ hcoff _) hwf rfl
    (by rcases hshape with h | h <;> simp [h]) (fun _ => load_off _ _ hsoff _) hres hbind


/- ---------- MultiCall ---------- -/

/-- The jobs with the ids they draw: job `k` of the list draws `fresh (i + k)`. -/
def withIds (fresh : Nat → String) : Nat → List Job → List (String × Job)
  | _, [] => []
  | i, j :: rest => (fresh i, j) :: withIds fresh (i + 1) rest

/-- The request document of a job (rendered with `version=2.0`). -/
def jobDoc (x : String × Job) : PyVal :=
  .dict (if x.2.notify then notifKVs 20 (.str x.1) x.2.method x.2.params else reqKVs 20 (.str x.1) x.2.method x.2.params)

/-- What the theorem assumes of every job: its method denotes the callable `fn j` (of kind `tgt j`), which
    accepts the job's parameters; the parameters are JSON-able; a job that is not a notification returns
    `ret j` (JSON-able). -/
structure JobGood (reg : Registry) (tgt : Job → Target) (fn : Job → Callable) (ret : Job → PyVal) (j : Job) : Prop where
  hname : j.method ≠ ""
  hshape : j.params.isTuple = true ∨ j.params.isDict = true ∨ j.params.isList = true
  hwf : j.params.wfJson = true
  hres : resolves reg j.method = some (tgt j, fn j)
  hbind : binds (fn j).sig (serverParams j.params) = true
  hret : j.notify = false → (fn j).body (serverParams j.params) = .ret (ret j) ∧ (ret j).wfJson = true

private theorem jobDoc_wf (x : String × Job) (hwf : x.2.params.wfJson = true) : (jobDoc x).wfJson = true := by
  simp only [jobDoc]
  split
  · exact (notifKVs_shape 20 (.str x.1) x.2.method x.2.params).hwf hwf
  · exact (reqKVs_shape 20 (.str x.1) (wfJson_str x.1) x.2.method x.2.params).hwf hwf

private theorem jobRequest_doc (B : Backend) (m : McConfig) (hoff : m.cfg.useJsonclass = false) (x : String × Job)
    (hshape : x.2.params.isTuple = true ∨ x.2.params.isDict = true ∨ x.2.params.isList = true) :
    jobRequest B.codec m x.1 x.2 = B.render (jobDoc x) := by
  have hcont : containerParams x.2.params = true := by
    rcases hshape with h | h | h <;> simp [containerParams, h]
  have hd := C14_dump_request m.cfg m.conv x.1 x.2.params x.2.params x.2.method .none (.num 20) x.2.notify hcont
    (by simp [hoff, pure, Except.pure])
  simp only [jobRequest, dumpsK, hd, resolveVersion]
  cases hn : x.2.notify <;> simp [jobDoc, hn, notify_eq, request_eq, bind, Except.bind, Backend.codec]

private theorem render_jobs (B : Backend) (m : McConfig) (hoff : m.cfg.useJsonclass = false) (fresh : Nat → String)
    (jobs : List Job) (i : Nat)
    (hgood : ∀ j ∈ jobs, (j.params.isTuple = true ∨ j.params.isDict = true ∨ j.params.isList = true) ∧ j.params.wfJson = true) :
    ∃ ss, renderJobs B.codec m fresh i jobs = .ok ss ∧
      ((withIds fresh i jobs).map jobDoc).length = ss.length ∧
      ∀ k (h1 : k < ((withIds fresh i jobs).map jobDoc).length) (h2 : k < ss.length),
        (((withIds fresh i jobs).map jobDoc)[k]).wfJson = true ∧ B.render (((withIds fresh i jobs).map jobDoc)[k]) = .ok ss[k] := by
  induction jobs generalizing i with
  | nil => exact ⟨[], rfl, rfl, fun k h1 => absurd h1 (by simp [withIds])⟩
  | cons j rest ih =>
    obtain ⟨hs, hw⟩ := hgood j (by simp)
    obtain ⟨ss, hss, hlen, hall⟩ := ih (i + 1) (fun j' hj' => hgood j' (by simp [hj']))
    have hwfd := jobDoc_wf (fresh i, j) hw
    obtain ⟨s, hr, _, _⟩ := B.roundtrip _ hwfd
    refine ⟨s :: ss, ?_, by simp [withIds, hlen], ?_⟩
    · simp [renderJobs, jobRequest_doc B m hoff (fresh i, j) hs, hr, hss, bind, Except.bind, pure, Except.pure]
    · intro k h1 h2
      cases k with
      | zero => simpa [withIds] using ⟨hwfd, hr⟩
      | succ k =>
        have := hall k (by simpa [withIds] using h1) (by simpa using h2)
        simpa [withIds] using this


private theorem requestConfig_true (cfg : Config) : requestConfig cfg true = cfg := by
  simp [requestConfig]

/-- The server's treatment of one parsed job document. -/
private theorem entry_job (s : Server) (hsoff : s.cfg.useJsonclass = false) (hcustom : s.custom = Option.none)
    (hpool : s.pool = .absent) (tgt : Job → Target) (fn : Job → Callable) (ret : Job → PyVal)
    (x : String × Job) (hfresh : x.1 ≠ "") (hg : JobGood s.reg tgt fn ret x.2) :
    respond s (normalise (jobDoc x)) =
      (if x.2.notify then Option.none else some (Payload.response s.cfg.version (.str x.1) (ret x.2))) ∧
    entryEffects s (normalise (jobDoc x)) = [.call (tgt x.2) (.str x.2.method) (serverParams x.2.params)] := by
  have heff : (invoke (tgt x.2) (some (fn x.2)) (.str x.2.method) (serverParams x.2.params)).2 =
      [.call (tgt x.2) (.str x.2.method) (serverParams x.2.params)] := by
    simp only [invoke, hg.hbind, ↓reduceIte]
    cases (fn x.2).body (serverParams x.2.params) <;> rfl
  cases hn : x.2.notify with
  | true =>
    have sh := notifKVs_shape 20 (.str x.1) x.2.method x.2.params
    have hent := entry_notify s hcustom hpool sh hg.hname hg.hshape (tgt x.2) (fn x.2) hg.hres hg.hbind
    simp [jobDoc, hn, normalise, respond, entryEffects, hent, heff]
  | false =>
    have sh := reqKVs_shape 20 (.str x.1) (wfJson_str x.1) x.2.method x.2.params
    have hent := entry_call s hcustom sh hg.hname hfresh hg.hshape (tgt x.2) (fn x.2) hg.hres hg.hbind
    obtain ⟨hbody, hvwf⟩ := hg.hret hn
    rw [invoke_ret _ _ _ _ _ hg.hbind hbody] at hent
    have hbr : buildResponse s s.cfg (.str x.1) (.value (ret x.2)) =
        .ok (Payload.response s.cfg.version (.str x.1) (ret x.2)) := by
      have := C14_dump_response s.cfg s.conv "" (ret x.2) (ret x.2) .none (.str x.1) .none false (by first | rfl | (intro h; cases h)) (by simp)
        (by simp [hsoff, pure, Except.pure])
      simpa [buildResponse, resolveVersion] using this
    simp [jobDoc, hn, normalise, respond, entryEffects, hent, requestConfig_true, respOf, hbr]

/-- Responses and effects of a whole batch, by induction on the job list: one response per job that is
    not a notification, in job order, and one call per job, in job order. -/
private theorem batch_fold (s : Server) (hsoff : s.cfg.useJsonclass = false) (hcustom : s.custom = Option.none)
    (hpool : s.pool = .absent) (tgt : Job → Target) (fn : Job → Callable) (ret : Job → PyVal)
    (ids : List (String × Job)) (hall : ∀ x ∈ ids, x.1 ≠ "" ∧ JobGood s.reg tgt fn ret x.2) :
    ((ids.map jobDoc).map normalise).filterMap (respond s) =
      (ids.filter (fun x => !x.2.notify)).map (fun x => Payload.response s.cfg.version (.str x.1) (ret x.2)) ∧
    ((ids.map jobDoc).map normalise).flatMap (entryEffects s) =
      ids.map (fun x => Effect.call (tgt x.2) (.str x.2.method) (serverParams x.2.params)) := by
  induction ids with
  | nil => exact ⟨rfl, rfl⟩
  | cons x rest ih =>
    obtain ⟨hf, hg⟩ := hall x (by simp)
    obtain ⟨ih1, ih2⟩ := ih (fun y hy => hall y (by simp [hy]))
    obtain ⟨hr, he⟩ := entry_job s hsoff hcustom hpool tgt fn ret x hf hg
    constructor
    · simp only [List.map_cons, List.filterMap_cons, hr, ih1, List.filter_cons]
      cases x.2.notify <;> simp
    · simp only [List.map_cons, List.flatMap_cons, he, ih2]
      rfl

private theorem withIds_good (reg : Registry) (tgt : Job → Target) (fn : Job → Callable) (ret : Job → PyVal)
    (fresh : Nat → String) (hfresh : ∀ i, fresh i ≠ "") (jobs : List Job) (i : Nat)
    (hall : ∀ j ∈ jobs, JobGood reg tgt fn ret j) :
    (∀ x ∈ withIds fresh i jobs, x.1 ≠ "" ∧ JobGood reg tgt fn ret x.2) ∧
    (withIds fresh i jobs).map (·.2) = jobs := by
  induction jobs generalizing i with
  | nil => simp [withIds]
  | cons j rest ih =>
    obtain ⟨h1, h2⟩ := ih (i + 1) (fun j' hj' => hall j' (by simp [hj']))
    constructor
    · intro x hx
      simp only [withIds, List.mem_cons] at hx
      rcases hx with rfl | hx
      · exact ⟨hfresh i, hall j (by simp)⟩
      · exact h1 x hx
    · simp [withIds, h2]

/-- The client's reading of a list of result envelopes. -/
private theorem client_results (hg : Gate20) (ver : Nat) (hver : ver = 10 ∨ ver = 20) (ret : Job → PyVal)
    (xs : List (String × Job)) :
    (((xs.map (fun x => Payload.response ver (.str x.1) (ret x.2))).map normalise).mapM Client.proxyResult) =
      .ok (xs.map (fun x => (ret x.2).normalise)) := by
  induction xs with
  | nil => rfl
  | cons x rest ih =>
    simp only [List.map_cons, List.mapM_cons, client_result hg ver hver, ih, bind, Except.bind, pure, Except.pure]

private theorem wfJson_list (xs : List PyVal) (h : ∀ x ∈ xs, x.wfJson = true) : (PyVal.list xs).wfJson = true := by
  have : isJsonList xs = true ∧ distinctKeysList xs = true := by
    induction xs with
    | nil => exact ⟨rfl, rfl⟩
    | cons x rest ih =>
      have hx := h x (by simp)
      simp only [wfJson, Bool.and_eq_true] at hx
      obtain ⟨i1, i2⟩ := ih (fun y hy => h y (by simp [hy]))
      simp [isJsonList, distinctKeysList, hx.1, hx.2, i1, i2]
  simp [wfJson, isJson, distinctKeys, this.1, this.2]

private theorem batchBody_ne (ss : List String) : batchBody ss ≠ "" := by
  intro h
  have := congrArg String.length h
  simp [batchBody, String.length_append] at this

/-- MultiCall batch: for ANY non-empty job list mixing calls and notifications, the iterator yields the
    (normalised) returns of the jobs that are not notifications, in job order — position `i` of the
    iterator is the `i`-th such job (`C01_batch_position`) —, the server invoked every job's callable
    exactly once, in job order, with the job's parameters, and the History gained exactly the batch text
    `"[ r1,r2,… ]"` and the reply text.  By induction on the job list (`render_jobs`, `batch_fold`), using
    the backend law `batch` and the batch normal form of the dispatcher (C03's `marshaled_batch`). -/
theorem C01_batch (B : Backend) (hg : Gate20) (c : Proxy) (m : McConfig) (p : Peer) (h : History)
    (fresh : Nat → String) (jobs : List Job) (tgt : Job → Target) (fn : Job → Callable) (ret : Job → PyVal)
    (hcoff : c.cfg.useJsonclass = false) (hmoff : m.cfg.useJsonclass = false) (hsoff : p.srv.cfg.useJsonclass = false)
    (hsv : p.srv.cfg.version = 10 ∨ p.srv.cfg.version = 20)
    (hcustom : p.srv.custom = Option.none) (hpool : p.srv.pool = .absent)
    (hfresh : ∀ i, fresh i ≠ "") (hne : jobs ≠ [])
    (hall : ∀ j ∈ jobs, JobGood p.srv.reg tgt fn ret j) :
    ∃ texts rep results,
      renderJobs B.codec m fresh 0 jobs = .ok texts ∧
      serve B.codec p (batchBody texts) =
        (.ok rep, jobs.map (fun j => Effect.call (tgt j) (.str j.method) (serverParams j.params))) ∧
      (rep = "" ↔ ∀ j ∈ jobs, j.notify = true) ∧
      (multicall B.codec c m p h fresh jobs).value = .ok (.iterator results) ∧
      iterAll results = .ok ((jobs.filter (fun j => !j.notify)).map (fun j => (ret j).normalise)) ∧
      (multicall B.codec c m p h fresh jobs).effects =
        jobs.map (fun j => Effect.call (tgt j) (.str j.method) (serverParams j.params)) ∧
      (multicall B.codec c m p h fresh jobs).history =
        { requests := h.requests ++ [batchBody texts], responses := h.responses ++ [rep] } := by
  obtain ⟨hidsgood, hidsjobs⟩ := withIds_good p.srv.reg tgt fn ret fresh hfresh jobs 0 hall
  obtain ⟨ids, hids⟩ : ∃ x, x = withIds fresh 0 jobs := ⟨_, rfl⟩
  rw [← hids] at hidsgood hidsjobs
  obtain ⟨ss, hss, hlen, hrend⟩ := render_jobs B m hmoff fresh jobs 0 (fun j hj => ⟨(hall j hj).hshape, (hall j hj).hwf⟩)
  rw [← hids] at hlen hrend
  have hparse := B.batch (ids.map jobDoc) ss hlen hrend
  have hparse' : B.codec.parse (batchBody ss) = some (.list ((ids.map jobDoc).map normalise)) := hparse
  have hbne : (batchBody ss == "") = false := by simpa using batchBody_ne ss
  have hsparse : serverParse B.codec p (batchBody ss) = .ok (.parsed (.list ((ids.map jobDoc).map normalise))) := by
    simp [serverParse, loadsK, hbne, hparse', load_off _ _ hsoff, pure, Except.pure]
  have hentries : (ids.map jobDoc).map normalise ≠ [] := by
    have : ids ≠ [] := by
      intro h0; rw [h0] at hidsjobs; exact hne (by simpa using hidsjobs.symm)
    simpa using this
  obtain ⟨hresp, heffs⟩ := batch_fold p.srv hsoff hcustom hpool tgt fn ret ids hidsgood
  have hmd := marshaled_batch p.srv (by simp [hpool]) _ hentries
  rw [hresp, heffs] at hmd
  have heffjobs : ids.map (fun x => Effect.call (tgt x.2) (.str x.2.method) (serverParams x.2.params)) =
      jobs.map (fun j => Effect.call (tgt j) (.str j.method) (serverParams j.params)) := by
    rw [← hidsjobs, List.map_map]; rfl
  have hansjobs : (ids.filter (fun x => !x.2.notify)).map (fun x => (ret x.2).normalise) =
      (jobs.filter (fun j => !j.notify)).map (fun j => (ret j).normalise) := by
    rw [← hidsjobs, List.filter_map, List.map_map]; rfl
  have hallnotif : (ids.filter (fun x => !x.2.notify)) = [] ↔ ∀ j ∈ jobs, j.notify = true := by
    rw [← hidsjobs]
    simp [List.filter_eq_nil_iff]
    exact ⟨fun h j x hx => h x j hx, fun h a b hx => h b a hx⟩
  rw [heffjobs] at hmd
  have hd : renderJobs B.codec m fresh 0 jobs = .ok ss := hss
  have hjl : ¬ jobs.length < 1 := by
    cases jobs with
    | nil => exact absurd rfl hne
    | cons _ _ => simp
  cases hans : ids.filter (fun x => !x.2.notify) with
  | nil =>
    -- every job is a notification: empty body, empty result list
    simp only [hans, List.map_nil, List.isEmpty_nil, ↓reduceIte] at hmd
    have hserve : serve B.codec p (batchBody ss) =
        (.ok "", jobs.map (fun j => Effect.call (tgt j) (.str j.method) (serverParams j.params))) := by
      simp only [serve, hsparse, hmd]
    refine ⟨ss, "", .list [], hd, hserve, ?_, ?_, ?_, ?_, ?_⟩
    · simp [← hallnotif, hans]
    · simp [multicall, hjl, hd, runRequest, hserve, wrapResponses, Except.bind, pure, Except.pure, truthy]
    · rw [← hansjobs, hans]; rfl
    · simp [multicall, hjl, hd, runRequest, hserve]
    · simp [multicall, hjl, hd, runRequest, hserve, History.addRequest, History.addResponse]
  | cons a rest =>
    obtain ⟨resps, hrespsdef⟩ : ∃ r, r = (ids.filter (fun x => !x.2.notify)).map
        (fun x => Payload.response p.srv.cfg.version (.str x.1) (ret x.2)) := ⟨_, rfl⟩
    have hrne : resps.isEmpty = false := by simp [hrespsdef, hans]
    have hrwf : (PyVal.list resps).wfJson = true := by
      apply wfJson_list
      intro d hdm
      rw [hrespsdef] at hdm
      simp only [List.mem_map, List.mem_filter] at hdm
      obtain ⟨x, ⟨hxm, hxn⟩, rfl⟩ := hdm
      obtain ⟨kvs, hk, _, hwf⟩ := response_look p.srv.cfg.version (.str x.1) (ret x.2)
      rw [hk]
      exact hwf (wfJson_str _) ((hidsgood x hxm).2.hret (by simpa using hxn)).2
    rw [← hrespsdef] at hmd
    simp only [hrne, Bool.false_eq_true, ↓reduceIte, finalReply, serialisable_of_wfJson _ hrwf] at hmd
    obtain ⟨rep, hrender2, hrepne, hparse2⟩ := B.roundtrip _ hrwf
    have hserve : serve B.codec p (batchBody ss) =
        (.ok rep, jobs.map (fun j => Effect.call (tgt j) (.str j.method) (serverParams j.params))) := by
      simp only [serve, hsparse, hmd]
      simp [Backend.codec, hrender2]
    have hne2 : (rep == "") = false := by simpa using hrepne
    have hparse2' : B.codec.parse rep = some (.list (resps.map normalise)) := by
      have : B.parse rep = some (normalise (.list resps)) := hparse2
      simpa [normalise, normaliseList_eq_map, Backend.codec] using this
    have htr : (PyVal.list (resps.map normalise)).truthy = true := by
      cases resps <;> simp_all [truthy]
    refine ⟨ss, rep, .list (resps.map normalise), hd, hserve, ?_, ?_, ?_, ?_, ?_⟩
    · constructor
      · intro h0; exact absurd h0 hrepne
      · intro hn; rw [← hallnotif, hans] at hn; exact absurd hn (by simp)
    · simp [multicall, hjl, hd, runRequest, hserve, hne2, loadsK, hparse2', load_off _ _ hcoff, wrapResponses,
        Except.bind, htr, pure, Except.pure]
    · rw [← hansjobs, hrespsdef]
      exact client_results hg _ hsv ret _
    · simp [multicall, hjl, hd, runRequest, hserve]
    · simp [multicall, hjl, hd, runRequest, hserve, History.addRequest, History.addResponse]


private theorem mapM_ok_index (f : PyVal → PyM PyVal) (xs vs : List PyVal) (h : xs.mapM f = .ok vs) :
    xs.length = vs.length ∧ ∀ i (hi : i < vs.length), ∃ x, xs[i]? = some x ∧ f x = .ok vs[i] := by
  induction xs generalizing vs with
  | nil =>
    simp only [List.mapM_nil, pure, Except.pure, Except.ok.injEq] at h
    subst h
    exact ⟨rfl, fun i hi => absurd hi (by simp)⟩
  | cons x rest ih =>
    simp only [List.mapM_cons, bind, Except.bind] at h
    cases hx : f x with
    | error e => simp [hx] at h
    | ok y =>
      simp only [hx] at h
      cases hr : rest.mapM f with
      | error e => simp [hr] at h
      | ok ys =>
        simp only [hr, pure, Except.pure, Except.ok.injEq] at h
        subst h
        obtain ⟨hl, hidx⟩ := ih ys hr
        refine ⟨by simp [hl], ?_⟩
        intro i hi
        cases i with
        | zero => exact ⟨x, rfl, by simpa using hx⟩
        | succ i =>
          obtain ⟨x', hx', hfx'⟩ := hidx i (by simpa using hi)
          exact ⟨x', by simpa using hx', by simpa using hfx'⟩

/-- Positional access: whenever iterating a `MultiCallIterator` yields `vs`, its length is `|vs|` and
    `iterator[i]` is `vs[i]` — with `C01_batch`: position `i` is the `i`-th job that is not a notification. -/
theorem C01_batch_position (results : PyVal) (vs : List PyVal) (h : iterAll results = .ok vs) :
    iterLen results = .ok vs.length ∧ ∀ i (hi : i < vs.length), iterGet results i = .ok vs[i] := by
  cases results <;> try (simp [iterAll, raise] at h; done)
  rename_i xs
  obtain ⟨hl, hidx⟩ := mapM_ok_index Client.proxyResult xs vs h
  refine ⟨by simp [iterLen, hl, pure, Except.pure], ?_⟩
  intro i hi
  obtain ⟨x, hx, hfx⟩ := hidx i hi
  simp [iterGet, Client.multicallGet, hx, hfx]

/-- The all-notifications batch: empty reply body, empty result list, and still every job ran once. -/
theorem C01_batch_all_notifications (B : Backend) (hg : Gate20) (c : Proxy) (m : McConfig) (p : Peer) (h : History)
    (fresh : Nat → String) (jobs : List Job) (tgt : Job → Target) (fn : Job → Callable) (ret : Job → PyVal)
    (hcoff : c.cfg.useJsonclass = false) (hmoff : m.cfg.useJsonclass = false) (hsoff : p.srv.cfg.useJsonclass = false)
    (hsv : p.srv.cfg.version = 10 ∨ p.srv.cfg.version = 20)
    (hcustom : p.srv.custom = Option.none) (hpool : p.srv.pool = .absent)
    (hfresh : ∀ i, fresh i ≠ "") (hne : jobs ≠ [])
    (hall : ∀ j ∈ jobs, JobGood p.srv.reg tgt fn ret j) (hnotif : ∀ j ∈ jobs, j.notify = true) :
    ∃ texts results,
      (multicall B.codec c m p h fresh jobs).value = .ok (.iterator results) ∧
      iterAll results = .ok [] ∧ iterLen results = .ok 0 ∧
      (multicall B.codec c m p h fresh jobs).effects =
        jobs.map (fun j => Effect.call (tgt j) (.str j.method) (serverParams j.params)) ∧
      (multicall B.codec c m p h fresh jobs).history =
        { requests := h.requests ++ [batchBody texts], responses := h.responses ++ [""] } := by
  obtain ⟨texts, rep, results, _, _, hrep, hval, hiter, heff, hhist⟩ :=
    C01_batch B hg c m p h fresh jobs tgt fn ret hcoff hmoff hsoff hsv hcustom hpool hfresh hne hall
  have hf : jobs.filter (fun j => !j.notify) = [] := by
    simp [List.filter_eq_nil_iff]; exact hnotif
  rw [hf] at hiter
  have hrep' : rep = "" := hrep.mpr hnotif
  rw [hrep'] at hhist
  exact ⟨texts, results, hval, hiter, (C01_batch_position results [] hiter).1, heff, hhist⟩

/- ---------- class translation on, payloads free of "__jsonclass__" ---------- -/

/-- What C15 proves of the real translator on plain data, taken here as hypotheses on the abstract
    `conv`/`unconv`: on JSON-able values free of `"__jsonclass__"` keys `jsonclass.dump` is JSON
    normalisation (tuples become lists) and `jsonclass.load` is the identity.  Only required of a side
    whose `use_jsonclass` flag is set. -/
structure Transparent (cfg : Config) (conv unconv : PyVal → PyM PyVal) : Prop where
  conv_ok : cfg.useJsonclass = true → ∀ v, v.wfJson = true → jcFree v = true → conv v = .ok v.normalise
  unconv_ok : cfg.useJsonclass = true → ∀ v, jcFree v = true → unconv v = .ok v

mutual
  private theorem isJson_normalise : ∀ v : PyVal, v.isJson = true → v.normalise.isJson = true
    | .none, _ => rfl | .bool _, _ => rfl | .int _, _ => rfl | .float _, _ => rfl | .str _, _ => rfl
    | .list xs, h => by simp only [isJson] at h; simp [normalise, isJson, isJsonList_normalise xs h]
    | .tuple xs, h => by simp only [isJson] at h; simp [normalise, isJson, isJsonList_normalise xs h]
    | .dict kvs, h => by simp only [isJson] at h; simp [normalise, isJson, isJsonKVs_normalise kvs h]
    | .set _, h => by simp [isJson] at h
    | .frozenset _, h => by simp [isJson] at h
    | .obj _ _, h => by simp [isJson] at h
  private theorem isJsonList_normalise : ∀ xs : List PyVal, isJsonList xs = true → isJsonList (normaliseList xs) = true
    | [], _ => rfl
    | x :: xs, h => by
      simp only [isJsonList, Bool.and_eq_true] at h
      simp [normaliseList, isJsonList, isJson_normalise x h.1, isJsonList_normalise xs h.2]
  private theorem isJsonKVs_normalise : ∀ kvs : List (PyVal × PyVal), isJsonKVs kvs = true → isJsonKVs (normaliseKVs kvs) = true
    | [], _ => rfl
    | (k, v) :: xs, h => by
      simp only [isJsonKVs, Bool.and_eq_true] at h
      simp [normaliseKVs, isJsonKVs, h.1.1, isJson_normalise v h.1.2, isJsonKVs_normalise xs h.2]
end

mutual
  private theorem distinctKeys_normalise : ∀ v : PyVal, v.isJson = true → v.distinctKeys = true → v.normalise.distinctKeys = true
    | .none, _, _ => rfl | .bool _, _, _ => rfl | .int _, _, _ => rfl | .float _, _, _ => rfl | .str _, _, _ => rfl
    | .list xs, hj, h => by
      simp only [isJson] at hj; simp only [distinctKeys] at h
      simp [normalise, distinctKeys, distinctKeysList_normalise xs hj h]
    | .tuple xs, hj, h => by
      simp only [isJson] at hj; simp only [distinctKeys] at h
      simp [normalise, distinctKeys, distinctKeysList_normalise xs hj h]
    | .dict kvs, hj, h => by
      simp only [isJson] at hj; simp only [distinctKeys] at h
      simp [normalise, distinctKeys, distinctKeysKVs_normalise kvs [] hj h]
    | .set _, hj, _ => by simp [isJson] at hj
    | .frozenset _, hj, _ => by simp [isJson] at hj
    | .obj _ _, hj, _ => by simp [isJson] at hj
  private theorem distinctKeysList_normalise : ∀ xs : List PyVal, isJsonList xs = true → distinctKeysList xs = true →
      distinctKeysList (normaliseList xs) = true
    | [], _, _ => rfl
    | x :: xs, hj, h => by
      simp only [isJsonList, Bool.and_eq_true] at hj
      simp only [distinctKeysList, Bool.and_eq_true] at h
      simp [normaliseList, distinctKeysList, distinctKeys_normalise x hj.1 h.1, distinctKeysList_normalise xs hj.2 h.2]
  private theorem distinctKeysKVs_normalise : ∀ (kvs : List (PyVal × PyVal)) (seen : List String), isJsonKVs kvs = true →
      distinctKeysKVs kvs seen = true → distinctKeysKVs (normaliseKVs kvs) seen = true
    | [], _, _, _ => rfl
    | (k, v) :: xs, seen, hj, h => by
      simp only [isJsonKVs, Bool.and_eq_true] at hj
      cases k <;> simp [isStr] at hj
      rename_i ks
      simp only [distinctKeysKVs, Bool.and_eq_true] at h
      have hks : ks ∉ seen := by simpa using h.1.1
      simp [normaliseKVs, distinctKeysKVs, hks, distinctKeys_normalise v hj.1 h.1.2,
        distinctKeysKVs_normalise xs (ks :: seen) hj.2 h.2]
end

private theorem wfJson_normalise (v : PyVal) (h : v.wfJson = true) : v.normalise.wfJson = true := by
  simp only [wfJson, Bool.and_eq_true] at h ⊢
  exact ⟨isJson_normalise v h.1, distinctKeys_normalise v h.1 h.2⟩

mutual
  private theorem jcFree_normalise : ∀ v : PyVal, jcFree v = true → jcFree v.normalise = true
    | .none, _ => rfl | .bool _, _ => rfl | .int _, _ => rfl | .float _, _ => rfl | .str _, _ => rfl
    | .list xs, h => by simp only [jcFree] at h; simp [normalise, jcFree, jcFreeList_normalise xs h]
    | .tuple xs, h => by simp only [jcFree] at h; simp [normalise, jcFree, jcFreeList_normalise xs h]
    | .set xs, h => by simp only [jcFree] at h; simp [normalise, jcFree, jcFreeList_normalise xs h]
    | .frozenset xs, h => by simp only [jcFree] at h; simp [normalise, jcFree, jcFreeList_normalise xs h]
    | .dict kvs, h => by simp only [jcFree] at h; simp [normalise, jcFree, jcFreeKVs_normalise kvs h]
    | .obj _ _, h => by simp [jcFree] at h
  private theorem jcFreeList_normalise : ∀ xs : List PyVal, jcFreeList xs = true → jcFreeList (normaliseList xs) = true
    | [], _ => rfl
    | x :: xs, h => by
      simp only [jcFreeList, Bool.and_eq_true] at h
      simp [normaliseList, jcFreeList, jcFree_normalise x h.1, jcFreeList_normalise xs h.2]
  private theorem jcFreeKVs_normalise : ∀ kvs : List (PyVal × PyVal), jcFreeKVs kvs = true → jcFreeKVs (normaliseKVs kvs) = true
    | [], _ => rfl
    | (k, v) :: xs, h => by
      simp only [jcFreeKVs, Bool.and_eq_true] at h
      simp only [normaliseKVs, jcFreeKVs, Bool.and_eq_true]
      exact ⟨⟨h.1.1, jcFree_normalise v h.1.2⟩, jcFreeKVs_normalise xs h.2⟩
end

private theorem jcFree_request (ver : Nat) (fresh name : String) (p : PyVal) (hp : jcFree p = true) :
    jcFree (normalise (.dict (reqKVs ver (.str fresh) name p))) = true := by
  apply jcFree_normalise
  by_cases ht : p.truthy = true <;> by_cases h20 : ver ≥ 20 <;> by_cases h11 : ver < 11 <;>
    simp [reqKVs, jcFree, jcFreeKVs, jcFreeList, ht, h20, h11, hp]

private theorem jcFree_response (ver : Nat) (fresh : String) (v : PyVal) (hv : jcFree v = true) :
    jcFree (normalise (Payload.response ver (.str fresh) v)) = true := by
  apply jcFree_normalise
  by_cases h20 : ver ≥ 20
  · rw [response_v2 ver h20]; simp [jcFree, jcFreeKVs, hv]
  · rw [response_v1 ver (by omega)]; simp [jcFree, jcFreeKVs, hv]

private theorem load_transparent (cfg : Config) (conv unconv : PyVal → PyM PyVal) (T : Transparent cfg conv unconv)
    (d : PyVal) (hd : jcFree d = true) (hn : d ≠ .none) : Payload.load cfg unconv d = .ok d := by
  cases hu : cfg.useJsonclass with
  | false => exact load_off cfg unconv hu d
  | true => cases d <;> simp_all [Payload.load, T.unconv_ok hu _ hd]

private theorem effConv_transparent (cfg : Config) (conv unconv : PyVal → PyM PyVal) (T : Transparent cfg conv unconv)
    (v : PyVal) (hwf : v.wfJson = true) (hf : jcFree v = true) :
    ∃ v', effConv cfg conv v = .ok v' ∧ v'.wfJson = true ∧ v'.normalise = v.normalise ∧ jcFree v' = true ∧
      (v' = v ∨ v' = v.normalise) := by
  cases hu : cfg.useJsonclass with
  | false => exact ⟨v, by simp [effConv, hu, pure, Except.pure], hwf, rfl, hf, Or.inl rfl⟩
  | true =>
    exact ⟨v.normalise, by simp [effConv, hu, T.conv_ok hu v hwf hf], wfJson_normalise v hwf, normalise_idem v,
      jcFree_normalise v hf, Or.inr rfl⟩

/-- `C01_request` with class translation possibly ON on either side (any combination), for payloads free
    of `"__jsonclass__"` keys and translators that are transparent on such payloads (`Transparent`, what
    C15 establishes for the real `jsonclass`). -/
theorem C01_single_jsonclass (B : Backend) (hg : Gate20) (c : Proxy) (p : Peer) (h : History)
    (fresh name : String) (params v : PyVal) (t : Target) (f : Callable)
    (Tc : Transparent c.cfg c.conv c.unconv) (Ts : Transparent p.srv.cfg p.srv.conv p.unconv)
    (hsv : p.srv.cfg.version = 10 ∨ p.srv.cfg.version = 20)
    (hcustom : p.srv.custom = Option.none) (hpool : p.srv.pool ≠ .full)
    (hfresh : fresh ≠ "") (hname : name ≠ "")
    (hshape : params.isTuple = true ∨ params.isDict = true) (hwf : params.wfJson = true) (hfree : jcFree params = true)
    (hres : resolves p.srv.reg name = some (t, f))
    (hbind : binds f.sig (serverParams params) = true) (hret : f.body (serverParams params) = .ret v)
    (hv : v.wfJson = true) (hvfree : jcFree v = true) :
    ∃ req rep, dumpsK B.codec c.cfg c.conv fresh (.val params) (.str name) .none c.version false false = .ok req ∧
      req ≠ "" ∧ rep ≠ "" ∧
      Exchange B.codec p h (EndToEnd.request B.codec c p h fresh name params) req rep v.normalise
        [.call t (.str name) (serverParams params)] := by
  obtain ⟨p', hcc, hp'wf, hp'n, hp'free, hp'eq⟩ := effConv_transparent c.cfg c.conv c.unconv Tc params hwf hfree
  obtain ⟨v', hsc, hv'wf, hv'n, hv'free, _⟩ := effConv_transparent p.srv.cfg p.srv.conv p.unconv Ts v hv hvfree
  have hp's : p'.isTuple = true ∨ p'.isDict = true ∨ p'.isList = true := by
    rcases hp'eq with rfl | rfl
    · rcases hshape with h | h <;> simp [h]
    · cases params <;> simp_all [isTuple, isDict, isList, normalise]
  exact core_request B hg c p h fresh name params p' v v' t f hsv hcustom hpool hfresh hname hshape hcc hp'wf hp'n hp's
    (fun ver => load_transparent _ _ _ Ts _ (jcFree_request ver fresh name p' hp'free) (by simp [normalise]))
    hsc hv'wf hv'n
    (fun ver => load_transparent _ _ _ Tc _ (jcFree_response ver fresh v' hv'free) (by
      by_cases h20 : ver ≥ 20
      · rw [response_v2 ver h20]; simp [normalise]
      · rw [response_v1 ver (by omega)]; simp [normalise]))
    hres hbind hret

/- ---------- notifications with class translation on ---------- -/

private theorem jcFree_notif (ver : Nat) (fresh name : String) (p : PyVal) (hp : jcFree p = true) :
    jcFree (normalise (.dict (notifKVs ver (.str fresh) name p))) = true := by
  apply jcFree_normalise
  by_cases ht : p.truthy = true <;> by_cases h20 : ver ≥ 20 <;> by_cases h11 : ver < 11 <;>
    simp [notifKVs, reqKVs, delStr, setStr, jcFree, jcFreeKVs, jcFreeList, ht, h20, h11, hp]

/-- `C01_notify` with class translation possibly ON on either side, for parameters free of
    `"__jsonclass__"` keys and transparent translators. -/
theorem C01_notify_jsonclass (B : Backend) (c : Proxy) (p : Peer) (h : History)
    (fresh name : String) (params : PyVal) (t : Target) (f : Callable)
    (Tc : Transparent c.cfg c.conv c.unconv) (Ts : Transparent p.srv.cfg p.srv.conv p.unconv)
    (hcustom : p.srv.custom = Option.none) (hpool : p.srv.pool = .absent) (hname : name ≠ "")
    (hshape : params.isTuple = true ∨ params.isDict = true) (hwf : params.wfJson = true) (hfree : jcFree params = true)
    (hres : resolves p.srv.reg name = some (t, f))
    (hbind : binds f.sig (serverParams params) = true) :
    ∃ req, req ≠ "" ∧
      dumpsK B.codec c.cfg c.conv fresh (.val params) (.str name) .none c.version false true = .ok req ∧
      Exchange B.codec p h (requestNotify B.codec c p h fresh name params) req "" .none
        [.call t (.str name) (serverParams params)] := by
  obtain ⟨p', hcc, hp'wf, hp'n, hp'free, hp'eq⟩ := effConv_transparent c.cfg c.conv c.unconv Tc params hwf hfree
  have hp's : p'.isTuple = true ∨ p'.isDict = true ∨ p'.isList = true := by
    rcases hp'eq with rfl | rfl
    · rcases hshape with h | h <;> simp [h]
    · cases params <;> simp_all [isTuple, isDict, isList, normalise]
  exact core_notify B c p h fresh name params p' t f hcustom hpool hname hshape hcc hp'wf hp'n hp's
    (fun ver => load_transparent _ _ _ Ts _ (jcFree_notif ver fresh name p' hp'free) (by simp [normalise]))
    hres hbind

/-- The statement that used to be recorded as not proved; it is `C01_notify_jsonclass` read off. -/
def C01_notify_jsonclass_full_statement : Prop :=
  ∀ (B : Backend) (c : Proxy) (p : Peer) (h : History) (fresh name : String) (params : PyVal) (t : Target) (f : Callable),
    Transparent c.cfg c.conv c.unconv → Transparent p.srv.cfg p.srv.conv p.unconv →
    p.srv.custom = Option.none → p.srv.pool = .absent → name ≠ "" →
    (params.isTuple = true ∨ params.isDict = true) → params.wfJson = true → jcFree params = true →
    resolves p.srv.reg name = some (t, f) → binds f.sig (serverParams params) = true →
    (requestNotify B.codec c p h fresh name params).value = .ok .none ∧
    (requestNotify B.codec c p h fresh name params).effects = [.call t (.str name) (serverParams params)] ∧
    (requestNotify B.codec c p h fresh name params).history.responses = h.responses ++ [""]

theorem C01_notify_jsonclass_full : C01_notify_jsonclass_full_statement := by
  intro B c p h fresh name params t f Tc Ts hcustom hpool hname hshape hwf hfree hres hbind
  obtain ⟨req, _, _, ex⟩ := C01_notify_jsonclass B c p h fresh name params t f Tc Ts hcustom hpool hname hshape hwf
    hfree hres hbind
  exact ⟨ex.value_eq, ex.effects_eq, by rw [ex.history_eq]⟩

/- ---------- MultiCall, any mixture of outcomes, class translation on or off ---------- -/

/-- What the server does with one job of a batch. -/
inductive Fate where
  /-- the method denotes a callable that accepts the parameters and returns `v` -/
  | returns (t : Target) (f : Callable) (v : PyVal)
  /-- … that accepts the parameters and raises `cls(text)` -/
  | raises (t : Target) (f : Callable) (cls text : String)
  /-- the method is not known to the server -/
  | unknown
  /-- the method denotes a callable that does not accept the parameters -/
  | nobind

/-- The hypothesis that goes with each fate. -/
def Fate.holds (reg : Registry) (j : Job) : Fate → Prop
  | .returns t f v =>
    resolves reg j.method = some (t, f) ∧ binds f.sig (serverParams j.params) = true ∧
      f.body (serverParams j.params) = .ret v ∧ (j.notify = false → v.wfJson = true)
  | .raises t f cls text =>
    resolves reg j.method = some (t, f) ∧ binds f.sig (serverParams j.params) = true ∧
      ((∃ te ae dp, f.body (serverParams j.params) = .raised cls text te ae dp ∧ (te = true → dp ≠ 0)) ∨
        -- an exception that is not an instance of `Exception` (`sys.exit()` in the method, …): the bare `except:`
        -- of `_dispatch` reports it like any other
        ∃ dp, f.body (serverParams j.params) = .raisedBase cls text dp)
  | .unknown => unknownName reg j.method = true
  | .nobind => ∃ t f, resolves reg j.method = some (t, f) ∧ binds f.sig (serverParams j.params) = false

/-- What `_dispatch` returns for the job. -/
def Fate.disp (m : String) : Fate → DispResult
  | .returns _ _ v => .value v
  | .raises _ _ cls text => .fault codeInternal (msgServerError cls text)
  | .unknown => .fault codeUnknown (msgUnknown m)
  | .nobind => .fault codeParams msgParams

/-- The invocations the job causes: one for a callable that is entered, none otherwise. -/
def Fate.effects (m : String) (q : PyVal) : Fate → List Effect
  | .returns t _ _ => [.call t (.str m) q]
  | .raises t _ _ _ => [.call t (.str m) q]
  | .unknown => []
  | .nobind => []

/-- What the client gets when it accesses the job's position of the iterator. -/
def Fate.client (m : String) : Fate → PyM PyVal
  | .returns _ _ v => .ok v.normalise
  | .raises _ _ cls text =>
    .error { cls := "ProtocolError", arg := .tuple [.int (-32603), .str (msgServerError cls text)] }
  | .unknown => .error { cls := "ProtocolError", arg := .tuple [.int (-32601), .str (msgUnknown m)] }
  | .nobind => .error { cls := "ProtocolError", arg := .tuple [.int (-32602), .str msgParams] }

/-- What a transparent translator does to a plain value: JSON normalisation when it is switched on. -/
def tr (cfg : Config) (v : PyVal) : PyVal := if cfg.useJsonclass then v.normalise else v

/-- The response object of the job (`cfg`: the server's configuration). -/
def Fate.respDoc (cfg : Config) (rid : PyVal) (m : String) : Fate → PyVal
  | .returns _ _ v => Payload.response cfg.version rid (tr cfg v)
  | .raises _ _ cls text => Payload.error cfg.version rid (.int codeInternal) (.str (msgServerError cls text)) .none
  | .unknown => Payload.error cfg.version rid (.int codeUnknown) (.str (msgUnknown m)) .none
  | .nobind => Payload.error cfg.version rid (.int codeParams) (.str msgParams) .none

/-- A job with its fate: what `C01_batch_mixed` assumes of each. -/
structure JobSpec (reg : Registry) (x : Job × Fate) : Prop where
  hname : x.1.method ≠ ""
  hshape : x.1.params.isTuple = true ∨ x.1.params.isDict = true ∨ x.1.params.isList = true
  hwf : x.1.params.wfJson = true
  hfate : x.2.holds reg x.1

/-- "Payloads free of `__jsonclass__`": the parameters, and the value returned to a call. -/
structure JobFree (x : Job × Fate) : Prop where
  params : jcFree x.1.params = true
  result : ∀ t f v, x.2 = .returns t f v → x.1.notify = false → jcFree v = true

def answered (js : List (Job × Fate)) : List (Job × Fate) := js.filter (fun x => !x.1.notify)
def jobEffects (x : Job × Fate) : List Effect := x.2.effects x.1.method (serverParams x.1.params)
def jobClient (x : Job × Fate) : PyM PyVal := x.2.client x.1.method

private theorem tr_wf (cfg : Config) (v : PyVal) (h : v.wfJson = true) : (tr cfg v).wfJson = true := by
  simp only [tr]; split
  · exact wfJson_normalise v h
  · exact h

private theorem tr_norm (cfg : Config) (v : PyVal) : (tr cfg v).normalise = v.normalise := by
  simp only [tr]; split
  · exact normalise_idem v
  · rfl

private theorem tr_free (cfg : Config) (v : PyVal) (h : jcFree v = true) : jcFree (tr cfg v) = true := by
  simp only [tr]; split
  · exact jcFree_normalise v h
  · exact h

private theorem tr_shape (cfg : Config) (v : PyVal) (h : v.isTuple = true ∨ v.isDict = true ∨ v.isList = true) :
    (tr cfg v).isTuple = true ∨ (tr cfg v).isDict = true ∨ (tr cfg v).isList = true := by
  simp only [tr]; split
  · cases v <;> simp_all [isTuple, isDict, isList, normalise]
  · exact h

private theorem effConv_tr (cfg : Config) (conv unconv : PyVal → PyM PyVal) (T : Transparent cfg conv unconv)
    (v : PyVal) (hwf : v.wfJson = true) (hf : cfg.useJsonclass = true → jcFree v = true) :
    effConv cfg conv v = .ok (tr cfg v) := by
  cases hu : cfg.useJsonclass with
  | false => simp [effConv, tr, hu, pure, Except.pure]
  | true => simp [effConv, tr, hu, T.conv_ok hu v hwf (hf hu)]

private theorem load_tr (cfg : Config) (conv unconv : PyVal → PyM PyVal) (T : Transparent cfg conv unconv)
    (d : PyVal) (hd : cfg.useJsonclass = true → jcFree d = true) (hn : d ≠ .none) : Payload.load cfg unconv d = .ok d := by
  cases hu : cfg.useJsonclass with
  | false => exact load_off cfg unconv hu d
  | true => exact load_transparent cfg conv unconv T d (hd hu) hn

/-- `Transparent` asks nothing of a side whose translation is off. -/
theorem Transparent.of_off (cfg : Config) (conv unconv : PyVal → PyM PyVal) (h : cfg.useJsonclass = false) :
    Transparent cfg conv unconv :=
  { conv_ok := fun hu => (by rw [h] at hu; cases hu), unconv_ok := fun hu => (by rw [h] at hu; cases hu) }

/-- The dispatcher on a job, by its fate (−32601: `C05_unknown`). -/
private theorem fate_dispatch (s : Server) (hcustom : s.custom = Option.none) (j : Job) (o : Fate)
    (h : o.holds s.reg j) :
    runDispatcher s (.str j.method) (serverParams j.params) =
      (.ok (o.disp j.method), o.effects j.method (serverParams j.params)) := by
  cases o with
  | returns t f v =>
    obtain ⟨hr, hb, hbody, _⟩ := h
    rw [runDispatcher_resolves s hcustom _ _ t f hr, invoke_ret t f _ _ v hb hbody]; rfl
  | raises t f cls text =>
    obtain ⟨hr, hb, ⟨te, ae, dp, hbody, hdp⟩ | ⟨dp, hbody⟩⟩ := h
    · rw [runDispatcher_resolves s hcustom _ _ t f hr, invoke_raised t f _ _ cls text te ae dp hb hbody hdp]; rfl
    · rw [runDispatcher_resolves s hcustom _ _ t f hr, invoke_raisedBase t f _ _ cls text dp hb hbody]; rfl
  | unknown =>
    simp only [Fate.holds, unknownName, Bool.and_eq_true, Option.isNone_iff_eq_none] at h
    obtain ⟨hf, hi⟩ := h
    refine C05_unknown s hcustom j.method _ hf ?_
    cases hinst : s.reg.inst with
    | none => exact Or.inl rfl
    | some inst =>
      simp only [hinst, Bool.and_eq_true, Option.isNone_iff_eq_none] at hi
      exact Or.inr ⟨inst, rfl, hi.1, hi.2⟩
  | nobind =>
    obtain ⟨t, f, hr, hb⟩ := h
    rw [runDispatcher_resolves s hcustom _ _ t f hr]
    simp [invoke, hb, handleCallExc, Fate.disp, Fate.effects]

/-- The response object built from what `_dispatch` returned. -/
private theorem respOf_fate (s : Server) (unconv : PyVal → PyM PyVal) (Ts : Transparent s.cfg s.conv unconv)
    (fresh m : String) (o : Fate)
    (hwf : ∀ t f v, o = .returns t f v → v.wfJson = true)
    (hfree : s.cfg.useJsonclass = true → ∀ t f v, o = .returns t f v → jcFree v = true) :
    respOf s s.cfg (.str fresh) (.ok (o.disp m)) = o.respDoc s.cfg (.str fresh) m := by
  cases o with
  | returns t f v =>
    have hbr : buildResponse s s.cfg (.str fresh) (.value v) = .ok (Payload.response s.cfg.version (.str fresh) (tr s.cfg v)) := by
      have := C14_dump_response s.cfg s.conv "" v (tr s.cfg v) .none (.str fresh) .none false (by first | rfl | (intro h; cases h)) (by simp)
        (effConv_tr s.cfg s.conv unconv Ts v (hwf t f v rfl) (fun hu => hfree hu t f v rfl))
      simpa [buildResponse, resolveVersion] using this
    simp [Fate.disp, Fate.respDoc, respOf, hbr]
  | raises t f cls text => simp [Fate.disp, Fate.respDoc, respOf, buildResponse, C14_dump_fault, resolveVersion]
  | unknown => simp [Fate.disp, Fate.respDoc, respOf, buildResponse, C14_dump_fault, resolveVersion]
  | nobind => simp [Fate.disp, Fate.respDoc, respOf, buildResponse, C14_dump_fault, resolveVersion]

/-- The job as the MultiCall renders it: parameters through its (transparent) translator. -/
def cj (cfg : Config) (j : Job) : Job := { j with params := tr cfg j.params }

/-- The request documents of the batch, job `k` drawing the id `fresh (i + k)`. -/
def docsOf (mcfg : Config) (fresh : Nat → String) : Nat → List (Job × Fate) → List PyVal
  | _, [] => []
  | i, x :: rest => jobDoc (fresh i, cj mcfg x.1) :: docsOf mcfg fresh (i + 1) rest

/-- The response objects of the batch: one per job that is not a notification, in job order. -/
def repliesOf (cfg : Config) (fresh : Nat → String) : Nat → List (Job × Fate) → List PyVal
  | _, [] => []
  | i, x :: rest =>
    if x.1.notify then repliesOf cfg fresh (i + 1) rest
    else x.2.respDoc cfg (.str (fresh i)) x.1.method :: repliesOf cfg fresh (i + 1) rest

/-- The server's treatment of one parsed job document. -/
private theorem entry_fate (s : Server) (unconv : PyVal → PyM PyVal) (Ts : Transparent s.cfg s.conv unconv)
    (hcustom : s.custom = Option.none) (hpool : s.pool = .absent) (mcfg : Config)
    (fresh : String) (hfresh : fresh ≠ "") (x : Job × Fate) (hg : JobSpec s.reg x)
    (hfree : s.cfg.useJsonclass = true → JobFree x) :
    respond s (normalise (jobDoc (fresh, cj mcfg x.1))) =
      (if x.1.notify then Option.none else some (x.2.respDoc s.cfg (.str fresh) x.1.method)) ∧
    entryEffects s (normalise (jobDoc (fresh, cj mcfg x.1))) = jobEffects x := by
  have hsp : serverParams (tr mcfg x.1.params) = serverParams x.1.params := serverParams_congr (tr_norm _ _)
  have hd := fate_dispatch s hcustom x.1 x.2 hg.hfate
  rw [← hsp] at hd
  have hs' := tr_shape mcfg _ hg.hshape
  cases hn : x.1.notify with
  | true =>
    have sh := notifKVs_shape 20 (.str fresh) x.1.method (tr mcfg x.1.params)
    have hent := entry_notify_disp s hpool sh hg.hname hs' _ _ hd
    simp [jobDoc, cj, hn, normalise, respond, entryEffects, hent, jobEffects, hsp]
  | false =>
    have sh := reqKVs_shape 20 (.str fresh) (wfJson_str fresh) x.1.method (tr mcfg x.1.params)
    have hent := entry_call_disp s sh hg.hname hfresh hs' _ _ hd
    have hro := respOf_fate s unconv Ts fresh x.1.method x.2
      (by
        intro t f v ho
        have := hg.hfate
        rw [ho] at this
        exact this.2.2.2 hn)
      (fun hu t f v ho => (hfree hu).result t f v ho hn)
    simp [jobDoc, cj, hn, normalise, respond, entryEffects, hent, requestConfig_true, hro, jobEffects, hsp]

private theorem render_docs (B : Backend) (m : McConfig) (Tm : Transparent m.cfg m.conv pure) (fresh : Nat → String)
    (js : List (Job × Fate)) (i : Nat)
    (hgood : ∀ x ∈ js, (x.1.params.isTuple = true ∨ x.1.params.isDict = true ∨ x.1.params.isList = true) ∧
      x.1.params.wfJson = true ∧ (m.cfg.useJsonclass = true → jcFree x.1.params = true)) :
    ∃ ss, renderJobs B.codec m fresh i (js.map (·.1)) = .ok ss ∧
      (docsOf m.cfg fresh i js).length = ss.length ∧
      ∀ k (h1 : k < (docsOf m.cfg fresh i js).length) (h2 : k < ss.length),
        ((docsOf m.cfg fresh i js)[k]).wfJson = true ∧ B.render ((docsOf m.cfg fresh i js)[k]) = .ok ss[k] := by
  induction js generalizing i with
  | nil => exact ⟨[], rfl, rfl, fun k h1 => absurd h1 (by simp [docsOf])⟩
  | cons x rest ih =>
    obtain ⟨hs, hw, hf⟩ := hgood x (by simp)
    obtain ⟨ss, hss, hlen, hall⟩ := ih (i + 1) (fun y hy => hgood y (by simp [hy]))
    have hwfd : (jobDoc (fresh i, cj m.cfg x.1)).wfJson = true := jobDoc_wf _ (tr_wf _ _ hw)
    obtain ⟨s, hr, _, _⟩ := B.roundtrip _ hwfd
    have hcont : containerParams x.1.params = true := by
      rcases hs with h | h | h <;> simp [containerParams, h]
    have hdump := C14_dump_request m.cfg m.conv (fresh i) x.1.params (tr m.cfg x.1.params) x.1.method .none (.num 20)
      x.1.notify hcont (effConv_tr m.cfg m.conv pure Tm _ hw hf)
    have hjr : jobRequest B.codec m (fresh i) x.1 = B.render (jobDoc (fresh i, cj m.cfg x.1)) := by
      simp only [jobRequest, dumpsK, hdump, resolveVersion]
      cases hn : x.1.notify <;> simp [jobDoc, cj, hn, notify_eq, request_eq, bind, Except.bind, Backend.codec]
    refine ⟨s :: ss, ?_, by simp [docsOf, hlen], ?_⟩
    · simp [renderJobs, hjr, hr, hss, bind, Except.bind, pure, Except.pure]
    · intro k h1 h2
      cases k with
      | zero => simpa [docsOf] using ⟨hwfd, hr⟩
      | succ k =>
        have := hall k (by simpa [docsOf] using h1) (by simpa using h2)
        simpa [docsOf] using this

/-- Responses and effects of the whole batch, by induction on the job list. -/
private theorem batch_fold_fate (s : Server) (unconv : PyVal → PyM PyVal) (Ts : Transparent s.cfg s.conv unconv)
    (hcustom : s.custom = Option.none) (hpool : s.pool = .absent) (mcfg : Config)
    (fresh : Nat → String) (hfresh : ∀ i, fresh i ≠ "") (js : List (Job × Fate)) (i : Nat)
    (hall : ∀ x ∈ js, JobSpec s.reg x) (hfree : s.cfg.useJsonclass = true → ∀ x ∈ js, JobFree x) :
    ((docsOf mcfg fresh i js).map normalise).filterMap (respond s) = repliesOf s.cfg fresh i js ∧
    ((docsOf mcfg fresh i js).map normalise).flatMap (entryEffects s) = js.flatMap jobEffects := by
  induction js generalizing i with
  | nil => exact ⟨rfl, rfl⟩
  | cons x rest ih =>
    obtain ⟨ih1, ih2⟩ := ih (i + 1) (fun y hy => hall y (by simp [hy])) (fun hu y hy => hfree hu y (by simp [hy]))
    obtain ⟨hr, he⟩ := entry_fate s unconv Ts hcustom hpool mcfg (fresh i) (hfresh i) x (hall x (by simp))
      (fun hu => hfree hu x (by simp))
    constructor
    · simp only [docsOf, List.map_cons, List.filterMap_cons, hr, ih1, repliesOf]
      cases x.1.notify <;> simp
    · simp only [docsOf, List.map_cons, List.flatMap_cons, he, ih2]

private theorem repliesOf_length (cfg : Config) (fresh : Nat → String) (js : List (Job × Fate)) (i : Nat) :
    (repliesOf cfg fresh i js).length = (answered js).length := by
  induction js generalizing i with
  | nil => rfl
  | cons x rest ih =>
    simp only [repliesOf, answered, List.filter_cons]
    cases x.1.notify <;> simp [ih (i + 1), answered]

private theorem error_free (ver : Nat) (fresh : String) (c : Int) (m : String) :
    jcFree (Payload.error ver (.str fresh) (.int c) (.str m) .none) = true := by
  by_cases h : ver ≥ 20
  · rw [error_v2 ver h]; simp [jcFree, jcFreeKVs]
  · rw [error_v1 ver (by omega)]; simp [jcFree, jcFreeKVs]

/-- Every response object is JSON-able and (when it matters) free of `__jsonclass__`. -/
private theorem repliesOf_wf (reg : Registry) (cfg : Config) (fresh : Nat → String) (js : List (Job × Fate)) (i : Nat)
    (hall : ∀ x ∈ js, JobSpec reg x) :
    ∀ d ∈ repliesOf cfg fresh i js, d.wfJson = true := by
  induction js generalizing i with
  | nil => intro d hd; simp [repliesOf] at hd
  | cons x rest ih =>
    intro d hd
    have ih' := ih (i + 1) (fun y hy => hall y (by simp [hy]))
    simp only [repliesOf] at hd
    cases hn : x.1.notify with
    | true => simp only [hn, ↓reduceIte] at hd; exact ih' d hd
    | false =>
      simp only [hn, Bool.false_eq_true, ↓reduceIte, List.mem_cons] at hd
      rcases hd with rfl | hd
      · have hf := (hall x (by simp)).hfate
        cases ho : x.2 with
        | returns t f v =>
          rw [ho] at hf
          obtain ⟨kvs, hk, _, hwf⟩ := response_look cfg.version (.str (fresh i)) (tr cfg v)
          simp only [Fate.respDoc, hk]
          exact hwf (wfJson_str _) (tr_wf _ _ (hf.2.2.2 hn))
        | raises t f cls text => exact (error_normal _ _ _ _).2
        | unknown => exact (error_normal _ _ _ _).2
        | nobind => exact (error_normal _ _ _ _).2
      · exact ih' d hd

private theorem repliesOf_free (cfg : Config) (fresh : Nat → String) (js : List (Job × Fate)) (i : Nat)
    (hfree : ∀ x ∈ js, JobFree x) :
    jcFreeList ((repliesOf cfg fresh i js).map normalise) = true := by
  induction js generalizing i with
  | nil => rfl
  | cons x rest ih =>
    have ih' := ih (i + 1) (fun y hy => hfree y (by simp [hy]))
    simp only [repliesOf]
    cases hn : x.1.notify with
    | true => simpa using ih'
    | false =>
      simp only [Bool.false_eq_true, ↓reduceIte, List.map_cons, jcFreeList, ih', Bool.and_true]
      cases ho : x.2 with
      | returns t f v =>
        exact jcFree_response _ _ _ (tr_free _ _ ((hfree x (by simp)).result t f v ho hn))
      | raises t f cls text => exact jcFree_normalise _ (error_free _ _ _ _)
      | unknown => exact jcFree_normalise _ (error_free _ _ _ _)
      | nobind => exact jcFree_normalise _ (error_free _ _ _ _)

private theorem docsOf_free (mcfg : Config) (fresh : Nat → String) (js : List (Job × Fate)) (i : Nat)
    (hfree : ∀ x ∈ js, JobFree x) :
    jcFreeList ((docsOf mcfg fresh i js).map normalise) = true := by
  induction js generalizing i with
  | nil => rfl
  | cons x rest ih =>
    have ih' := ih (i + 1) (fun y hy => hfree y (by simp [hy]))
    have hp := tr_free mcfg _ (hfree x (by simp)).params
    simp only [docsOf, List.map_cons, jcFreeList, ih', Bool.and_true]
    cases hn : x.1.notify
    · have hd : jobDoc (fresh i, cj mcfg x.1) = .dict (reqKVs 20 (.str (fresh i)) x.1.method (tr mcfg x.1.params)) := by
        simp [jobDoc, cj, hn]
      rw [hd]; exact jcFree_request 20 (fresh i) x.1.method _ hp
    · have hd : jobDoc (fresh i, cj mcfg x.1) = .dict (notifKVs 20 (.str (fresh i)) x.1.method (tr mcfg x.1.params)) := by
        simp [jobDoc, cj, hn]
      rw [hd]; exact jcFree_notif 20 (fresh i) x.1.method _ hp

/-- The client's reading of the response objects: position by position, the job's own outcome. -/
private theorem client_replies (hg : Gate20) (cfg : Config) (hver : cfg.version = 10 ∨ cfg.version = 20)
    (fresh : Nat → String) (js : List (Job × Fate)) (i : Nat) :
    ((repliesOf cfg fresh i js).map normalise).map Client.proxyResult = (answered js).map jobClient := by
  have hgate : cfg.version ≥ 20 → Client.versionAbove2 (.str (verStr cfg.version)) = .ok false := by
    intro h20
    have : cfg.version = 20 := by omega
    rw [this, verStr20]; exact hg
  have herr : ∀ (fr : String) (c : Int) (hc : c ∈ standardCodes) (msg : String),
      Client.proxyResult (normalise (Payload.error cfg.version (.str fr) (.int c) (.str msg) .none)) =
        .error { cls := "ProtocolError", arg := .tuple [.int c, .str msg] } := by
    intro fr c hc msg
    rw [(error_normal cfg.version fr c msg).1]
    simp [Client.proxyResult, C05_client cfg.version (.str fr) c hc msg hgate, bind, Except.bind]
  induction js generalizing i with
  | nil => rfl
  | cons x rest ih =>
    simp only [repliesOf, answered, List.filter_cons]
    cases hn : x.1.notify with
    | true => simpa [answered] using ih (i + 1)
    | false =>
      simp only [Bool.false_eq_true, ↓reduceIte, Bool.not_false, List.map_cons]
      rw [ih (i + 1)]
      congr 1
      cases ho : x.2 with
      | returns t f v =>
        simp only [Fate.respDoc, jobClient, ho, Fate.client]
        rw [client_result hg _ hver, tr_norm]
      | raises t f cls text =>
        simp only [Fate.respDoc, jobClient, ho, Fate.client]
        exact herr _ _ (by decide) _
      | unknown =>
        simp only [Fate.respDoc, jobClient, ho, Fate.client]
        exact herr _ _ (by decide) _
      | nobind =>
        simp only [Fate.respDoc, jobClient, ho, Fate.client]
        exact herr _ _ (by decide) _

private theorem get_of_map_eq {α β γ : Type} (f : α → γ) (g : β → γ) (xs : List α) (ys : List β)
    (h : xs.map f = ys.map g) (i : Nat) (hi : i < ys.length) :
    ∃ x, xs[i]? = some x ∧ f x = g ys[i] := by
  have h2 : (xs.map f)[i]? = (ys.map g)[i]? := by rw [h]
  simp only [List.getElem?_map, List.getElem?_eq_getElem hi, Option.map_some] at h2
  cases hx : xs[i]? with
  | none => simp [hx] at h2
  | some x => exact ⟨x, rfl, by simpa [hx] using h2⟩

private theorem mapM_of_map_ok (f : PyVal → PyM PyVal) (xs vs : List PyVal)
    (h : xs.map f = vs.map (fun v => Except.ok v)) : xs.mapM f = .ok vs := by
  induction xs generalizing vs with
  | nil =>
    cases vs with
    | nil => rfl
    | cons _ _ => simp at h
  | cons x rest ih =>
    cases vs with
    | nil => simp at h
    | cons v vs' =>
      simp only [List.map_cons, List.cons.injEq] at h
      simp [List.mapM_cons, h.1, ih vs' h.2, bind, Except.bind, pure, Except.pure]

private theorem flatMap_single {α β : Type} (f : α → List β) (g : α → β) (xs : List α) (h : ∀ x ∈ xs, f x = [g x]) :
    xs.flatMap f = xs.map g := by
  induction xs with
  | nil => rfl
  | cons x rest ih => simp [List.flatMap_cons, h x (by simp), ih (fun y hy => h y (by simp [hy]))]

private theorem jcFree_list_of (xs : List PyVal) (h : jcFreeList xs = true) : jcFree (.list xs) = true := by
  simpa [jcFree] using h

/-- MultiCall batch, ANY mixture: every job has one of four fates (returns, raises, unknown method,
    parameters that do not bind) and may be a call or a notification; class translation may be on or off
    on each of the three sides (proxy, MultiCall, server) provided the translators are `Transparent` and —
    only when some flag is on — the payloads are free of `"__jsonclass__"`.  Then:
    * the server invoked exactly the callables of the jobs that return or raise, once each, in job
      order, with the job's parameters, and nothing for unknown / non-binding jobs (`jobEffects`);
    * the iterator has one position per job that is not a notification, in job order (`answered`);
      accessing position `i` gives that job's own outcome: its normalised return value, or
      `ProtocolError((-32603 | -32601 | -32602, message))` — whatever happened to the other jobs;
    * the History gained exactly the batch text and the reply text (`""` iff all jobs are notifications). -/
theorem C01_batch_mixed (B : Backend) (hg : Gate20) (c : Proxy) (m : McConfig) (p : Peer) (h : History)
    (fresh : Nat → String) (js : List (Job × Fate))
    (Tc : Transparent c.cfg c.conv c.unconv) (Tm : Transparent m.cfg m.conv pure)
    (Ts : Transparent p.srv.cfg p.srv.conv p.unconv)
    (hsv : p.srv.cfg.version = 10 ∨ p.srv.cfg.version = 20)
    (hcustom : p.srv.custom = Option.none) (hpool : p.srv.pool = .absent)
    (hfresh : ∀ i, fresh i ≠ "") (hne : js ≠ [])
    (hall : ∀ x ∈ js, JobSpec p.srv.reg x)
    (hfree : (c.cfg.useJsonclass || m.cfg.useJsonclass || p.srv.cfg.useJsonclass) = true → ∀ x ∈ js, JobFree x) :
    ∃ texts rep rs,
      renderJobs B.codec m fresh 0 (js.map (·.1)) = .ok texts ∧
      serve B.codec p (batchBody texts) = (.ok rep, js.flatMap jobEffects) ∧
      (rep = "" ↔ ∀ x ∈ js, x.1.notify = true) ∧
      (multicall B.codec c m p h fresh (js.map (·.1))).value = .ok (.iterator (.list rs)) ∧
      rs.map Client.proxyResult = (answered js).map jobClient ∧
      iterLen (.list rs) = .ok (answered js).length ∧
      (∀ i (hi : i < (answered js).length), iterGet (.list rs) i = jobClient (answered js)[i]) ∧
      (multicall B.codec c m p h fresh (js.map (·.1))).effects = js.flatMap jobEffects ∧
      (multicall B.codec c m p h fresh (js.map (·.1))).history =
        { requests := h.requests ++ [batchBody texts], responses := h.responses ++ [rep] } := by
  have hfc : c.cfg.useJsonclass = true → ∀ x ∈ js, JobFree x := fun hu => hfree (by simp [hu])
  have hfm : m.cfg.useJsonclass = true → ∀ x ∈ js, JobFree x := fun hu => hfree (by simp [hu])
  have hfs : p.srv.cfg.useJsonclass = true → ∀ x ∈ js, JobFree x := fun hu => hfree (by simp [hu])
  obtain ⟨docs, hdocs⟩ : ∃ d, d = docsOf m.cfg fresh 0 js := ⟨_, rfl⟩
  obtain ⟨ss, hss, hlen, hrend⟩ := render_docs B m Tm fresh js 0
    (fun x hx => ⟨(hall x hx).hshape, (hall x hx).hwf, fun hu => (hfm hu x hx).params⟩)
  rw [← hdocs] at hlen hrend
  have hparse := B.batch docs ss hlen hrend
  have hparse' : B.codec.parse (batchBody ss) = some (.list (docs.map normalise)) := hparse
  have hbne : (batchBody ss == "") = false := by simpa using batchBody_ne ss
  have hsload : Payload.load p.srv.cfg p.unconv (.list (docs.map normalise)) = .ok (.list (docs.map normalise)) :=
    load_tr _ _ _ Ts _ (fun hu => jcFree_list_of _ (by rw [hdocs]; exact docsOf_free _ _ _ _ (hfs hu))) (by simp)
  have hsparse : serverParse B.codec p (batchBody ss) = .ok (.parsed (.list (docs.map normalise))) := by
    simp [serverParse, loadsK, hbne, hparse', hsload, pure, Except.pure]
  have hentries : docs.map normalise ≠ [] := by
    cases js with
    | nil => exact absurd rfl hne
    | cons x rest => simp [hdocs, docsOf]
  obtain ⟨hresp, heffs⟩ := batch_fold_fate p.srv p.unconv Ts hcustom hpool m.cfg fresh hfresh js 0 hall hfs
  rw [← hdocs] at hresp heffs
  have hmd := marshaled_batch p.srv (by simp [hpool]) _ hentries
  rw [hresp, heffs] at hmd
  obtain ⟨resps, hrespsdef⟩ : ∃ r, r = repliesOf p.srv.cfg fresh 0 js := ⟨_, rfl⟩
  rw [← hrespsdef] at hmd
  have hrlen : resps.length = (answered js).length := by rw [hrespsdef]; exact repliesOf_length _ _ _ _
  have hallnotif : resps = [] ↔ ∀ x ∈ js, x.1.notify = true := by
    rw [← List.length_eq_zero_iff, hrlen, List.length_eq_zero_iff]
    simp [answered, List.filter_eq_nil_iff]
  have hd : renderJobs B.codec m fresh 0 (js.map (·.1)) = .ok ss := hss
  have hjl : ¬ (js.map (·.1)).length < 1 := by
    cases js with
    | nil => exact absurd rfl hne
    | cons _ _ => simp
  have hcli := client_replies hg p.srv.cfg hsv fresh js 0
  rw [← hrespsdef] at hcli
  have hget : ∀ (rs : List PyVal), rs.map Client.proxyResult = (answered js).map jobClient →
      iterLen (.list rs) = .ok (answered js).length ∧
      (∀ i (hi : i < (answered js).length), iterGet (.list rs) i = jobClient (answered js)[i]) := by
    intro rs hmap
    have hl : rs.length = (answered js).length := by simpa using congrArg List.length hmap
    refine ⟨by simp [iterLen, hl, pure, Except.pure], ?_⟩
    intro i hi
    obtain ⟨x, hx, hfx⟩ := get_of_map_eq _ _ _ _ hmap i hi
    simp [iterGet, Client.multicallGet, hx, hfx]
  cases hans : resps with
  | nil =>
    -- every job is a notification: empty body, empty result list
    simp only [hans, List.isEmpty_nil, ↓reduceIte] at hmd
    have hserve : serve B.codec p (batchBody ss) = (.ok "", js.flatMap jobEffects) := by
      simp only [serve, hsparse, hmd]
    have hmap : ([] : List PyVal).map Client.proxyResult = (answered js).map jobClient := by
      have : (answered js) = [] := by
        rw [← List.length_eq_zero_iff, ← hrlen, hans]; rfl
      rw [this]; rfl
    refine ⟨ss, "", [], hd, hserve, ?_, ?_, hmap, (hget [] hmap).1, (hget [] hmap).2, ?_, ?_⟩
    · exact ⟨fun _ => hallnotif.mp hans, fun _ => rfl⟩
    · simp [multicall, hjl, hne, hd, runRequest, hserve, wrapResponses, Except.bind, pure, Except.pure, truthy]
    · simp [multicall, hjl, hne, hd, runRequest, hserve]
    · simp [multicall, hjl, hne, hd, runRequest, hserve, History.addRequest, History.addResponse]
  | cons a rest =>
    have hrne : resps.isEmpty = false := by simp [hans]
    have hrwf : (PyVal.list resps).wfJson = true := by
      apply wfJson_list
      rw [hrespsdef]
      exact repliesOf_wf p.srv.reg _ _ _ _ hall
    simp only [hrne, Bool.false_eq_true, ↓reduceIte, finalReply, serialisable_of_wfJson _ hrwf] at hmd
    obtain ⟨rep, hrender2, hrepne, hparse2⟩ := B.roundtrip _ hrwf
    have hserve : serve B.codec p (batchBody ss) = (.ok rep, js.flatMap jobEffects) := by
      simp only [serve, hsparse, hmd]
      simp [Backend.codec, hrender2]
    have hne2 : (rep == "") = false := by simpa using hrepne
    have hparse2' : B.codec.parse rep = some (.list (resps.map normalise)) := by
      have : B.parse rep = some (normalise (.list resps)) := hparse2
      simpa [normalise, normaliseList_eq_map, Backend.codec] using this
    have hcload : Payload.load c.cfg c.unconv (.list (resps.map normalise)) = .ok (.list (resps.map normalise)) :=
      load_tr _ _ _ Tc _ (fun hu => jcFree_list_of _ (by rw [hrespsdef]; exact repliesOf_free _ _ _ _ (hfc hu))) (by simp)
    have htr : (PyVal.list (resps.map normalise)).truthy = true := by
      rw [hans]; simp [truthy]
    refine ⟨ss, rep, resps.map normalise, hd, hserve, ?_, ?_, hcli, (hget _ hcli).1, (hget _ hcli).2, ?_, ?_⟩
    · constructor
      · intro h0; exact absurd h0 hrepne
      · intro hn; rw [← hallnotif, hans] at hn; exact absurd hn (by simp)
    · simp [multicall, hjl, hne, hd, runRequest, hserve, hne2, loadsK, hparse2', hcload, wrapResponses,
        Except.bind, htr, pure, Except.pure]
    · simp [multicall, hjl, hne, hd, runRequest, hserve]
    · simp [multicall, hjl, hne, hd, runRequest, hserve, History.addRequest, History.addResponse]

/-- The fate of a job of `C01_batch`'s form (a callable `fn j` of kind `tgt j` that binds): it returns or
    it raises. -/
def fateOf (tgt : Job → Target) (fn : Job → Callable) (j : Job) : Fate :=
  match (fn j).body (serverParams j.params) with
  | .ret v => .returns (tgt j) (fn j) v
  | .raised cls text _ _ _ => .raises (tgt j) (fn j) cls text
  | .raisedBase cls text _ => .raises (tgt j) (fn j) cls text

/-- `C01_batch` with class translation ON (any combination of the proxy's, the MultiCall's and the
    server's flags) for payloads free of `"__jsonclass__"` and transparent translators (what C15 establishes
    for the real `jsonclass`); formerly recorded as not proved. -/
def C01_batch_jsonclass_full_statement : Prop :=
  ∀ (B : Backend) (_ : Gate20) (c : Proxy) (m : McConfig) (p : Peer) (h : History)
    (fresh : Nat → String) (jobs : List Job) (tgt : Job → Target) (fn : Job → Callable) (ret : Job → PyVal),
    Transparent c.cfg c.conv c.unconv → Transparent m.cfg m.conv pure → Transparent p.srv.cfg p.srv.conv p.unconv →
    (p.srv.cfg.version = 10 ∨ p.srv.cfg.version = 20) → p.srv.custom = Option.none → p.srv.pool = .absent →
    (∀ i, fresh i ≠ "") → jobs ≠ [] →
    (∀ j ∈ jobs, JobGood p.srv.reg tgt fn ret j ∧ jcFree j.params = true ∧ (j.notify = false → jcFree (ret j) = true)) →
    -- a notification whose callable raises: the exception has a frame of its own (every Python callable; C05 `framed`)
    (∀ j ∈ jobs, framed (fn j) (serverParams j.params) = true) →
    ∃ results,
      (multicall B.codec c m p h fresh jobs).value = .ok (.iterator results) ∧
      iterAll results = .ok ((jobs.filter (fun j => !j.notify)).map (fun j => (ret j).normalise)) ∧
      (multicall B.codec c m p h fresh jobs).effects =
        jobs.map (fun j => Effect.call (tgt j) (.str j.method) (serverParams j.params))

theorem C01_batch_jsonclass : C01_batch_jsonclass_full_statement := by
  intro B hg c m p h fresh jobs tgt fn ret Tc Tm Ts hsv hcustom hpool hfresh hne hall hframed
  obtain ⟨js, hjs⟩ : ∃ x, x = jobs.map (fun j => (j, fateOf tgt fn j)) := ⟨_, rfl⟩
  have hfst : js.map (·.1) = jobs := by rw [hjs, List.map_map]; simp [Function.comp_def]
  have hspec : ∀ x ∈ js, JobSpec p.srv.reg x ∧ JobFree x ∧ jobEffects x = [Effect.call (tgt x.1) (.str x.1.method) (serverParams x.1.params)] ∧
      (x.1.notify = false → jobClient x = .ok (ret x.1).normalise) := by
    intro x hx
    rw [hjs] at hx
    simp only [List.mem_map] at hx
    obtain ⟨j, hj, rfl⟩ := hx
    obtain ⟨hgood, hfp, hfr⟩ := hall j hj
    cases hbody : (fn j).body (serverParams j.params) with
    | ret v =>
      have hfate : fateOf tgt fn j = .returns (tgt j) (fn j) v := by simp [fateOf, hbody]
      have hv : j.notify = false → v = ret j := by
        intro hn
        have := (hgood.hret hn).1
        rw [hbody] at this
        injection this
      refine ⟨⟨hgood.hname, hgood.hshape, hgood.hwf, ?_⟩, ⟨hfp, ?_⟩, ?_, ?_⟩
      · simp only [hfate, Fate.holds]
        exact ⟨hgood.hres, hgood.hbind, hbody, fun hn => by rw [hv hn]; exact (hgood.hret hn).2⟩
      · intro t f v' ho hn
        simp only [hfate, Fate.returns.injEq] at ho
        rw [← ho.2.2, hv hn]; exact hfr hn
      · simp [jobEffects, hfate, Fate.effects]
      · intro hn; simp [jobClient, hfate, Fate.client, hv hn]
    | raised cls text te ae dp =>
      have hfate : fateOf tgt fn j = .raises (tgt j) (fn j) cls text := by simp [fateOf, hbody]
      have hdp : dp ≠ 0 := by
        intro h0
        have := hframed j hj
        simp [framed, hbody, h0] at this
      refine ⟨⟨hgood.hname, hgood.hshape, hgood.hwf, ?_⟩, ⟨hfp, ?_⟩, ?_, ?_⟩
      · simp only [hfate, Fate.holds]
        exact ⟨hgood.hres, hgood.hbind, Or.inl ⟨te, ae, dp, hbody, fun _ => hdp⟩⟩
      · intro t f v' ho; simp [hfate] at ho
      · simp [jobEffects, hfate, Fate.effects]
      · intro hn
        have := (hgood.hret hn).1
        rw [hbody] at this
        cases this
    | raisedBase cls text dp =>
      have hfate : fateOf tgt fn j = .raises (tgt j) (fn j) cls text := by simp [fateOf, hbody]
      refine ⟨⟨hgood.hname, hgood.hshape, hgood.hwf, ?_⟩, ⟨hfp, ?_⟩, ?_, ?_⟩
      · simp only [hfate, Fate.holds]
        exact ⟨hgood.hres, hgood.hbind, Or.inr ⟨dp, hbody⟩⟩
      · intro t f v' ho; simp [hfate] at ho
      · simp [jobEffects, hfate, Fate.effects]
      · intro hn
        have := (hgood.hret hn).1
        rw [hbody] at this
        cases this
  obtain ⟨texts, rep, rs, _, _, _, hval, hmap, _, _, heff, _⟩ :=
    C01_batch_mixed B hg c m p h fresh js Tc Tm Ts hsv hcustom hpool hfresh
      (by intro h0; rw [h0] at hfst; exact hne (by simpa using hfst.symm))
      (fun x hx => (hspec x hx).1) (fun _ x hx => (hspec x hx).2.1)
  rw [hfst] at hval heff
  refine ⟨.list rs, hval, ?_, ?_⟩
  · simp only [iterAll]
    apply mapM_of_map_ok
    rw [hmap]
    have : answered js = (jobs.filter (fun j => !j.notify)).map (fun j => (j, fateOf tgt fn j)) := by
      rw [hjs, answered, List.filter_map]; rfl
    rw [List.map_map]
    rw [this, List.map_map]
    apply List.map_congr_left
    intro j hj
    simp only [List.mem_filter, Bool.not_eq_true'] at hj
    have hx : (j, fateOf tgt fn j) ∈ js := by rw [hjs]; exact List.mem_map.mpr ⟨j, hj.1, rfl⟩
    simpa using (hspec _ hx).2.2.2 hj.2
  · rw [heff, hjs, List.flatMap_map]
    have : ∀ j ∈ jobs, jobEffects (j, fateOf tgt fn j) = [Effect.call (tgt j) (.str j.method) (serverParams j.params)] := by
      intro j hj
      exact (hspec _ (by rw [hjs]; exact List.mem_map.mpr ⟨j, hj, rfl⟩)).2.2.1
    exact flatMap_single _ _ jobs this

/-- The same with all translation flags off (then `Transparent` holds vacuously and no `jcFree`
    hypothesis is needed); kept under its former name. -/
theorem C01_batch_jsonclass_partial (B : Backend) (hg : Gate20) (c : Proxy) (m : McConfig) (p : Peer) (h : History)
    (fresh : Nat → String) (jobs : List Job) (tgt : Job → Target) (fn : Job → Callable) (ret : Job → PyVal)
    (hcoff : c.cfg.useJsonclass = false) (hmoff : m.cfg.useJsonclass = false) (hsoff : p.srv.cfg.useJsonclass = false)
    (hsv : p.srv.cfg.version = 10 ∨ p.srv.cfg.version = 20)
    (hcustom : p.srv.custom = Option.none) (hpool : p.srv.pool = .absent)
    (hfresh : ∀ i, fresh i ≠ "") (hne : jobs ≠ [])
    (hall : ∀ j ∈ jobs, JobGood p.srv.reg tgt fn ret j) :
    ∃ results,
      (multicall B.codec c m p h fresh jobs).value = .ok (.iterator results) ∧
      iterAll results = .ok ((jobs.filter (fun j => !j.notify)).map (fun j => (ret j).normalise)) ∧
      (multicall B.codec c m p h fresh jobs).effects =
        jobs.map (fun j => Effect.call (tgt j) (.str j.method) (serverParams j.params)) := by
  obtain ⟨_, _, results, _, _, _, hval, hiter, heff, _⟩ :=
    C01_batch B hg c m p h fresh jobs tgt fn ret hcoff hmoff hsoff hsv hcustom hpool hfresh hne hall
  exact ⟨results, hval, hiter, heff⟩

/- ---------- tie to the source ---------- -/

/-- `_Method.__call__`: ProtocolError for both styles at once, `args` when there are positional arguments, `kwargs`
    when there are only keywords (an empty dict when there is neither). -/
theorem C01_methodParams_shape (args : List PyVal) (kwargs : List (PyVal × PyVal)) :
    (args ≠ [] → kwargs ≠ [] → ∃ e, methodParams args kwargs = .error e ∧ e.cls = "ProtocolError") ∧
    (args ≠ [] → kwargs = [] → methodParams args kwargs = .ok (.tuple args)) ∧
    (args = [] → methodParams args kwargs = .ok (.dict kwargs)) := by
  refine ⟨?_, ?_, ?_⟩
  · intro ha hk
    cases args <;> cases kwargs <;> simp_all [methodParams, truthy, raise]
  · intro ha hk
    cases args <;> simp_all [methodParams, truthy, pure, Except.pure, hasKeyStr, lookupStr]
  · intro ha
    subst ha
    simp [methodParams, truthy, pure, Except.pure]

/- ---------- non-vacuity: concrete inputs meeting the hypotheses ---------- -/

private def exReg : Registry :=
  { funcs := [("ns.add", { sig := { names := ["a", "b"] }, body := fun p => .ret (.tuple [p, .int 0]) }),
              ("ping", { sig := { names := [] }, body := fun _ => .ret (.bool false) }),
              ("boom", { sig := { names := [], star := true }, body := fun _ => .raised "ValueError" "boom" false false 1 })] }

private def exPeer : Peer := { srv := { cfg := { version := 10, useJsonclass := false }, reg := exReg } }
private def exProxy : Proxy := { cfg := { version := 20, useJsonclass := false } }

-- `C01_single` / `C01_request`: name resolution, binding, return value, JSON-ability
example : resolves exReg "ns.add" = some (.func, { sig := { names := ["a", "b"] }, body := fun p => .ret (.tuple [p, .int 0]) }) := rfl
example : binds ({ names := ["a", "b"] } : Sig) (serverParams (.tuple [.int 5, .tuple [.str "é"]])) = true := by decide +kernel
example : serverParams (.tuple [.int 5, .tuple [.str "é"]]) = .list [.int 5, .list [.str "é"]] := by decide +kernel
example : (PyVal.tuple [.int 5, .tuple [.str "é"], .dict [(.str "not an identifier", .float ⟨true, 0, 0⟩)]]).wfJson = true := by
  decide +kernel
example : dottedName ["ns", "add"] = "ns.add" := by decide
example : pathOk ["ns", "add"] = true := by decide +kernel
example : pathOk ["__init__"] = false ∧ pathOk ["_notify", "m"] = false ∧ pathOk ["m", "__name__"] = false := by decide +kernel
-- `C01_no_args`, `C01_falsy`: a callable without parameters returning `false`
example : binds ({ names := [] } : Sig) (.list []) = true := by decide +kernel
example : PyVal.bool false ∈ falsyResults := by simp [falsyResults]
-- `C01_batch`: a job list mixing a call, a notification to a raising callable and a never-called job
example : JobGood exReg (fun _ => .func)
    (fun j => if j.method = "ns.add" then { sig := { names := ["a", "b"] }, body := fun p => .ret (.tuple [p, .int 0]) }
              else if j.method = "ping" then { sig := { names := [] }, body := fun _ => .ret (.bool false) }
              else { sig := { names := [], star := true }, body := fun _ => .raised "ValueError" "boom" false false 1 })
    (fun j => if j.method = "ns.add" then .tuple [serverParams j.params, .int 0] else .bool false)
    { method := "boom", params := .tuple [.int 1], notify := true } :=
  { hname := by decide, hshape := Or.inl rfl, hwf := by decide +kernel, hres := rfl, hbind := by decide +kernel,
    hret := by intro h; cases h }
-- `C01_kwargs` (and MultiCall jobs) with a keyword called `self`: an ordinary keyword since fix 04aca15
example : methodParams [] [(.str "self", .int 1), (.str "k", .tuple [])] =
    .ok (.dict [(.str "self", .int 1), (.str "k", .tuple [])]) := rfl
example : jobParams [] [(.str "self", .int 1), (.str "k", .tuple [])] =
    .ok (.dict [(.str "self", .int 1), (.str "k", .tuple [])]) := rfl
example : ([(.str "self", .int 1), (.str "k", .tuple [])] : List (PyVal × PyVal)) ≠ [] ∧
    hasKeyStr "self" [(.str "self", .int 1), (.str "k", .tuple [])] = true ∧
    (PyVal.dict [(.str "self", .int 1), (.str "k", .tuple [])]).wfJson = true ∧
    binds ({ names := ["self"], kw := true } : Sig) (.dict (normaliseKVs [(.str "self", .int 1), (.str "k", .tuple [])])) = true := by
  refine ⟨by simp, ?_, ?_, ?_⟩ <;> decide +kernel
-- `C01_batch_mixed`: one job of each fate (a call that returns, a call that raises, an unknown method, parameters
-- that do not bind) and a notification whose callable raises; the hypotheses hold, and the theorem's conclusion
-- reads: four iterator positions (value, −32603, −32601, −32602), three invocations
private def exAdd : Callable := { sig := { names := ["a", "b"] }, body := fun p => .ret (.tuple [p, .int 0]) }
private def exBoom : Callable := { sig := { names := [], star := true }, body := fun _ => .raised "ValueError" "boom" false false 1 }
private def exJobs : List (Job × Fate) :=
  [({ method := "ns.add", params := .tuple [.int 1, .tuple [.str "é"]], notify := false },
      .returns .func exAdd (.tuple [.list [.int 1, .list [.str "é"]], .int 0])),
   ({ method := "boom", params := .dict [], notify := false }, .raises .func exBoom "ValueError" "boom"),
   ({ method := "nosuch", params := .tuple [.int 1], notify := false }, .unknown),
   ({ method := "ping", params := .tuple [.int 1], notify := false }, .nobind),
   ({ method := "boom", params := .tuple [.int 1], notify := true }, .raises .func exBoom "ValueError" "boom")]
example : ∀ x ∈ exJobs, JobSpec exReg x ∧ JobFree x := by
  intro x hx
  simp only [exJobs, List.mem_cons, List.not_mem_nil, or_false] at hx
  rcases hx with rfl | rfl | rfl | rfl | rfl
  · exact ⟨{ hname := by decide, hshape := Or.inl rfl, hwf := by decide +kernel,
              hfate := ⟨rfl, by decide +kernel, rfl, fun _ => by decide +kernel⟩ },
           { params := by decide +kernel, result := fun t f v h _ => by injection h with _ _ h; subst h; decide +kernel }⟩
  · exact ⟨{ hname := by decide, hshape := Or.inr (Or.inl rfl), hwf := by decide +kernel,
              hfate := ⟨rfl, by decide +kernel, Or.inl ⟨false, false, 1, rfl, by decide⟩⟩ },
           { params := by decide +kernel, result := fun t f v h _ => by cases h }⟩
  · exact ⟨{ hname := by decide, hshape := Or.inl rfl, hwf := by decide +kernel,
              hfate := (by show unknownName exReg "nosuch" = true; decide +kernel) },
           { params := by decide +kernel, result := fun t f v h _ => by cases h }⟩
  · exact ⟨{ hname := by decide, hshape := Or.inl rfl, hwf := by decide +kernel,
              hfate := ⟨.func, { sig := { names := [] }, body := fun _ => .ret (.bool false) }, rfl, by decide +kernel⟩ },
           { params := by decide +kernel, result := fun t f v h _ => by cases h }⟩
  · exact ⟨{ hname := by decide, hshape := Or.inl rfl, hwf := by decide +kernel,
              hfate := ⟨rfl, by decide +kernel, Or.inl ⟨false, false, 1, rfl, by decide⟩⟩ },
           { params := by decide +kernel, result := fun t f v h _ => by cases h }⟩
example : (answered exJobs).map jobClient =
    [.ok (.list [.list [.int 1, .list [.str "é"]], .int 0]),
     .error { cls := "ProtocolError", arg := .tuple [.int (-32603), .str "Server error: ValueError: boom"] },
     .error { cls := "ProtocolError", arg := .tuple [.int (-32601), .str "Method nosuch not supported."] },
     .error { cls := "ProtocolError", arg := .tuple [.int (-32602), .str msgParams] }] := by
  simp [answered, exJobs, jobClient, Fate.client, normalise, normaliseList, msgServerError, msgUnknown]
example : exJobs.flatMap jobEffects =
    [.call .func (.str "ns.add") (.list [.int 1, .list [.str "é"]]), .call .func (.str "boom") (.list []),
     .call .func (.str "boom") (.list [.int 1])] := by
  simp [exJobs, jobEffects, Fate.effects, serverParams, truthy, normalise, normaliseList]
-- `C01_single_jsonclass`: a transparent translator
example : Transparent { useJsonclass := true } (fun v => pure v.normalise) pure :=
  { conv_ok := fun _ _ _ _ => rfl, unconv_ok := fun _ _ _ => rfl }

/- ---------- names built by attribute access on `_notify` and on a MultiCall ---------- -/

/-- Paths the property quantifies over for `proxy._notify.<path>`. -/
def notifyPathOk : List String → Bool
  | [] => false
  | first :: rest => !isDunder first && !notifyOwnAttrs.contains first && rest.all segOk

/-- `proxy._notify.a.b.c` is the notification of the method named `"a.b.c"`. -/
theorem C01_notify_dotted (path : List String) (h : notifyPathOk path = true) :
    notifyAttr path = .ok (dottedName path) := by
  cases path with
  | nil => simp [notifyPathOk] at h
  | cons a rest =>
    simp only [notifyPathOk, Bool.and_eq_true, Bool.not_eq_true'] at h
    have h2 : a ∉ notifyOwnAttrs := by simpa using h.1.2
    simp [notifyAttr, h.1.1, h2, extendName_ok a rest h.2, dottedName]

def jobSegOk (seg : String) : Bool := !isDunder seg && !multicallMethodOwnAttrs.contains seg

/-- Paths the property quantifies over for `mc.<path>` (`notify = false`) and `mc._notify.<path>`. -/
def jobPathOk (notify : Bool) : List String → Bool
  | [] => false
  | first :: rest =>
    !isDunder first && !(if notify then multicallNotifyOwnAttrs else multicallOwnAttrs).contains first &&
      rest.all jobSegOk

/-- `MultiCallMethod.__getattr__` folded over the segments: the dotted name. -/
theorem C01_extendJobName (acc : String) (rest : List String) (h : rest.all jobSegOk = true) :
    extendJobName acc rest = .ok (rest.foldl (fun acc seg => acc ++ "." ++ seg) acc) := by
  induction rest generalizing acc with
  | nil => rfl
  | cons s rest ih =>
    simp only [List.all_cons, Bool.and_eq_true, jobSegOk, Bool.not_eq_true'] at h
    have h2 : s ∉ multicallMethodOwnAttrs := by simpa using h.1.2
    simp [extendJobName, h.1.1, h2, ih _ h.2]

/-- `mc.a.b.c(*args, **kwargs)` / `mc._notify.a.b.c(…)` is the job named `"a.b.c"` with the parameters
    `MultiCallMethod.__call__` keeps (`C01_jobParams_shape`). -/
theorem C01_mkJob (notify : Bool) (path : List String) (args : List PyVal) (kwargs : List (PyVal × PyVal))
    (h : jobPathOk notify path = true) :
    mkJob notify path args kwargs =
      (jobParams args kwargs).map (fun params => { method := dottedName path, params := params, notify := notify }) := by
  cases path with
  | nil => simp [jobPathOk] at h
  | cons a rest =>
    simp only [jobPathOk, Bool.and_eq_true, Bool.not_eq_true'] at h
    have h2 : a ∉ (if notify then multicallNotifyOwnAttrs else multicallOwnAttrs) := by simpa using h.1.2
    simp only [mkJob, h.1.1, Bool.false_or, List.contains_eq_mem, h2, decide_false, Bool.false_eq_true, ↓reduceIte,
      C01_extendJobName a rest h.2, dottedName, bind, Except.bind]
    cases jobParams args kwargs <;> rfl

/-- `MultiCallMethod.__call__`: ProtocolError for both styles at once, `kwargs` when there are keywords, `args`
    otherwise (an empty tuple when there is neither). -/
theorem C01_jobParams_shape (args : List PyVal) (kwargs : List (PyVal × PyVal)) :
    (args ≠ [] → kwargs ≠ [] → ∃ e, jobParams args kwargs = .error e ∧ e.cls = "ProtocolError") ∧
    (kwargs ≠ [] → args = [] → jobParams args kwargs = .ok (.dict kwargs)) ∧
    (kwargs = [] → jobParams args kwargs = .ok (.tuple args)) := by
  refine ⟨?_, ?_, ?_⟩
  · intro ha hk
    cases args <;> cases kwargs <;> simp_all [jobParams, truthy, raise]
  · intro hk ha
    subst ha
    cases kwargs <;> simp_all [jobParams, truthy, pure, Except.pure]
  · intro hk
    subst hk
    simp [jobParams, truthy, pure, Except.pure]

/- ---------- kept helper objects: what they remember ---------- -/

/-- `_Method` objects are immutable: attribute access on one allocates a NEW `_Method` whose name is the
    receiver's name, a dot and the segment; the receiver, every other `_Method`, every `MultiCallMethod` and
    every job list are left as they were. -/
theorem C01_method_object_immutable (hp hp' : Heap) (i : Nat) (seg : String) (r : Ref)
    (h : getAttr hp (.method i) seg = .ok (r, hp')) :
    ∃ mo, hp.methods[i]? = some mo ∧ r = .method hp.methods.length ∧
      hp'.methods = hp.methods ++ [{ notify := mo.notify, name := mo.name ++ "." ++ seg }] ∧
      hp'.methods[i]? = some mo ∧ hp'.jobs = hp.jobs ∧ hp'.lists = hp.lists := by
  simp only [getAttr] at h
  cases hm : hp.methods[i]? with
  | none => simp [hm, raise] at h
  | some mo =>
    simp only [hm] at h
    split at h
    · simp [raise] at h
    · simp only [pure, Except.pure, Heap.newMethod, Except.ok.injEq, Prod.mk.injEq] at h
      obtain ⟨rfl, rfl⟩ := h
      refine ⟨mo, rfl, rfl, rfl, ?_, rfl, rfl⟩
      have hi : i < hp.methods.length := by
        rcases List.getElem?_eq_some_iff.mp hm with ⟨hi, _⟩; exact hi
      simp [List.getElem?_append_left hi, hm]

/-- No operation on any helper object ever changes an existing `_Method`: attribute access (on the proxy, a
    `_Notify`, a `_Method`, a `MultiCall`, a `MultiCallNotify`, a `MultiCallMethod`) only appends cells. -/
theorem C01_method_cells_never_change (hp hp' : Heap) (r r' : Ref) (name : String)
    (h : getAttr hp r name = .ok (r', hp')) :
    ∃ extra, hp'.methods = hp.methods ++ extra := by
  cases r with
  | proxy =>
    simp only [getAttr] at h
    split at h
    · simp only [pure, Except.pure, Except.ok.injEq, Prod.mk.injEq] at h; exact ⟨[], by simp [← h.2]⟩
    · split at h
      · simp [raise] at h
      · split at h
        · simp [raise] at h
        · simp only [pure, Except.pure, Heap.newMethod, Except.ok.injEq, Prod.mk.injEq] at h
          exact ⟨_, by rw [← h.2]⟩
  | notifier =>
    simp only [getAttr] at h
    split at h
    · simp [raise] at h
    · simp only [pure, Except.pure, Heap.newMethod, Except.ok.injEq, Prod.mk.injEq] at h
      exact ⟨_, by rw [← h.2]⟩
  | method i =>
    obtain ⟨mo, _, _, hm, _⟩ := C01_method_object_immutable hp hp' i name r' h
    exact ⟨_, hm⟩
  | multicall i =>
    simp only [getAttr] at h
    split at h
    · split at h
      · simp only [pure, Except.pure, Except.ok.injEq, Prod.mk.injEq] at h; exact ⟨[], by simp [← h.2]⟩
      · simp [raise] at h
    · split at h
      · simp [raise] at h
      · simp only [Heap.newJob] at h
        split at h
        · simp [raise] at h
        · simp only [pure, Except.pure, Except.ok.injEq, Prod.mk.injEq] at h; exact ⟨[], by simp [← h.2]⟩
  | mcNotify i =>
    simp only [getAttr] at h
    split at h
    · simp [raise] at h
    · simp only [Heap.newJob] at h
      split at h
      · simp [raise] at h
      · simp only [pure, Except.pure, Except.ok.injEq, Prod.mk.injEq] at h; exact ⟨[], by simp [← h.2]⟩
  | job k =>
    simp only [getAttr] at h
    split at h
    · simp [raise] at h
    · split at h
      · simp [raise] at h
      · simp only [pure, Except.pure, Except.ok.injEq, Prod.mk.injEq] at h; exact ⟨[], by simp [← h.2]⟩

/-- In contrast, a `MultiCallMethod` is extended IN PLACE: attribute access on it overwrites its `method` with
    the dotted name and returns the very same object (what the code does; a program that keeps `j = mc.a` and
    then evaluates `j.b` has changed `j`). -/
theorem C01_job_object_extended (hp hp' : Heap) (k : Nat) (seg : String) (r : Ref)
    (h : getAttr hp (.job k) seg = .ok (r, hp')) :
    ∃ j, hp.jobs[k]? = some j ∧ r = .job k ∧
      hp'.jobs = hp.jobs.set k { j with method := j.method ++ "." ++ seg } ∧
      hp'.methods = hp.methods ∧ hp'.lists = hp.lists := by
  simp only [getAttr] at h
  cases hj : hp.jobs[k]? with
  | none => simp [hj, raise] at h
  | some j =>
    simp only [hj] at h
    split at h
    · simp [raise] at h
    · simp only [pure, Except.pure, Except.ok.injEq, Prod.mk.injEq] at h
      obtain ⟨rfl, rfl⟩ := h
      exact ⟨j, rfl, rfl, rfl, rfl, rfl⟩

/-- A kept namespace object: with `ns = proxy.<…>` held in a variable, `ns.a(…)` followed by `ns.b(…)` sends the
    methods `"<ns>.a"` and then `"<ns>.b"` — the second name does not contain the first segment.  (`sendVia` on
    a `_Method` with these fields is `request` / `requestNotify` with that method name: the `C01_request` …
    `C01_notify` theorems apply to each call.) -/
theorem C01_kept_namespace (K : Codec) (c : Proxy) (p : Peer) (h1 h2 : History) (f1 f2 : String)
    (hp : Heap) (i : Nat) (mo : MethodObj) (a b : String)
    (args1 args2 : List PyVal) (kw1 kw2 : List (PyVal × PyVal))
    (hns : hp.methods[i]? = some mo) (ha : segOk a = true) (hb : segOk b = true) :
    ∃ hp1 hp2,
      getAttr hp (.method i) a = .ok (.method hp.methods.length, hp1) ∧
      callMethod K c p h1 f1 hp1 hp.methods.length args1 kw1 =
        sendVia K c p h1 f1 { notify := mo.notify, name := mo.name ++ "." ++ a } args1 kw1 ∧
      getAttr hp1 (.method i) b = .ok (.method hp1.methods.length, hp2) ∧
      callMethod K c p h2 f2 hp2 hp1.methods.length args2 kw2 =
        sendVia K c p h2 f2 { notify := mo.notify, name := mo.name ++ "." ++ b } args2 kw2 := by
  have step : ∀ (hp : Heap) (seg : String), hp.methods[i]? = some mo → segOk seg = true →
      getAttr hp (.method i) seg = .ok (.method hp.methods.length,
        { hp with methods := hp.methods ++ [{ notify := mo.notify, name := mo.name ++ "." ++ seg }] }) := by
    intro hp seg hm hs
    simp only [segOk, Bool.and_eq_true, Bool.not_eq_true'] at hs
    have h2 : seg ∉ methodOwnAttrs := by simpa using hs.2
    simp [getAttr, hm, hs.1, h2, Heap.newMethod, pure, Except.pure]
  have hi : i < hp.methods.length := by
    rcases List.getElem?_eq_some_iff.mp hns with ⟨hi, _⟩; exact hi
  refine ⟨_, _, step hp a hns ha, ?_, step _ b (by simp [List.getElem?_append_left hi, hns]) hb, ?_⟩
  · simp [callMethod]
  · simp [callMethod]

/-- The one-expression forms are the object operations: for a path of the property's domain,
    `proxy.<path>(*args, **kwargs)` (`EndToEnd.call`) is attribute access from the proxy, one `_Method` per
    segment, followed by the call of the last one — and `proxy._notify.<path>(…)` likewise from a `_Notify`. -/
theorem C01_call_via_objects (K : Codec) (c : Proxy) (p : Peer) (h : History) (fresh : String) (hp : Heap)
    (path : List String) (args : List PyVal) (kwargs : List (PyVal × PyVal)) :
    (pathOk path = true → ∃ i hp', getAttrs hp .proxy path = .ok (.method i, hp') ∧
      hp'.methods[i]? = some { notify := false, name := dottedName path } ∧
      callMethod K c p h fresh hp' i args kwargs = EndToEnd.call K c p h fresh path args kwargs) ∧
    (notifyPathOk path = true → ∃ i hp', getAttrs hp .notifier path = .ok (.method i, hp') ∧
      hp'.methods[i]? = some { notify := true, name := dottedName path } ∧
      callMethod K c p h fresh hp' i args kwargs = EndToEnd.notify K c p h fresh path args kwargs) := by
  have ext : ∀ (rest : List String) (hp : Heap) (i : Nat) (mo : MethodObj), hp.methods[i]? = some mo →
      rest.all segOk = true →
      ∃ i' hp', getAttrs hp (.method i) rest = .ok (.method i', hp') ∧
        hp'.methods[i']? = some { notify := mo.notify, name := rest.foldl (fun acc seg => acc ++ "." ++ seg) mo.name } := by
    intro rest
    induction rest with
    | nil => intro hp i mo hm _; exact ⟨i, hp, rfl, by simpa using hm⟩
    | cons s rest ih =>
      intro hp i mo hm hall
      simp only [List.all_cons, Bool.and_eq_true] at hall
      have hs := hall.1
      simp only [segOk, Bool.and_eq_true, Bool.not_eq_true'] at hs
      have h2 : s ∉ methodOwnAttrs := by simpa using hs.2
      have hg : getAttr hp (.method i) s = .ok (.method hp.methods.length,
          { hp with methods := hp.methods ++ [{ notify := mo.notify, name := mo.name ++ "." ++ s }] }) := by
        simp [getAttr, hm, hs.1, h2, Heap.newMethod, pure, Except.pure]
      obtain ⟨i', hp', hg', hm'⟩ := ih { hp with methods := hp.methods ++ [{ notify := mo.notify, name := mo.name ++ "." ++ s }] }
        hp.methods.length { notify := mo.notify, name := mo.name ++ "." ++ s } (by simp) hall.2
      exact ⟨i', hp', by simp only [getAttrs, hg, hg'], by simpa using hm'⟩
  constructor
  · intro hpath
    cases path with
    | nil => simp [pathOk] at hpath
    | cons a rest =>
      have hd := (C01_dotted (a :: rest) hpath).1
      simp only [pathOk, Bool.and_eq_true, Bool.not_eq_true'] at hpath
      have h2 : a ∉ proxyOwnAttrs := by simpa using hpath.1.1
      have hna : (a == "_notify") = false := by
        rw [beq_eq_false_iff_ne]; rintro rfl; exact h2 (by decide)
      have hg : getAttr hp .proxy a = .ok (.method hp.methods.length,
          { hp with methods := hp.methods ++ [{ notify := false, name := a }] }) := by
        simp [getAttr, hna, h2, hpath.1.2, Heap.newMethod, pure, Except.pure]
      obtain ⟨i', hp', hg', hm'⟩ := ext rest { hp with methods := hp.methods ++ [{ notify := false, name := a }] }
        hp.methods.length { notify := false, name := a } (by simp) hpath.2
      refine ⟨i', hp', by simp only [getAttrs, hg, hg'], by simpa [dottedName] using hm', ?_⟩
      have hm'' : hp'.methods[i']? = some { notify := false, name := dottedName (a :: rest) } := by
        simpa [dottedName] using hm'
      simp only [callMethod, hm'', sendVia, EndToEnd.call, hd]
      cases methodParams args kwargs <;> simp
  · intro hpath
    cases path with
    | nil => simp [notifyPathOk] at hpath
    | cons a rest =>
      have hd := C01_notify_dotted (a :: rest) hpath
      simp only [notifyPathOk, Bool.and_eq_true, Bool.not_eq_true'] at hpath
      have h2 : a ∉ notifyOwnAttrs := by simpa using hpath.1.2
      have hg : getAttr hp .notifier a = .ok (.method hp.methods.length,
          { hp with methods := hp.methods ++ [{ notify := true, name := a }] }) := by
        simp [getAttr, h2, hpath.1.1, Heap.newMethod, pure, Except.pure]
      obtain ⟨i', hp', hg', hm'⟩ := ext rest { hp with methods := hp.methods ++ [{ notify := true, name := a }] }
        hp.methods.length { notify := true, name := a } (by simp) hpath.2
      have hm'' : hp'.methods[i']? = some { notify := true, name := dottedName (a :: rest) } := by
        simpa [dottedName] using hm'
      refine ⟨i', hp', by simp only [getAttrs, hg, hg'], hm'', ?_⟩
      simp only [callMethod, hm'', sendVia, EndToEnd.notify, hd]
      cases methodParams args kwargs <;> simp

/- ---------- a kept MultiCall ---------- -/

private theorem mapM_jobs_lt {jobs : List Job} : ∀ {l : List Nat} {js : List Job},
    l.mapM (fun k => jobs[k]?) = some js → ∀ k ∈ l, k < jobs.length := by
  intro l
  induction l with
  | nil => intro js _ k hk; simp at hk
  | cons a l ih =>
    intro js h k hk
    simp only [List.mapM_cons, Option.bind_eq_bind, Option.bind_eq_some_iff] at h
    obtain ⟨y, hy, ys, hys, _⟩ := h
    rcases List.mem_cons.mp hk with rfl | hk
    · rcases List.getElem?_eq_some_iff.mp hy with ⟨hlt, _⟩; exact hlt
    · exact ih hys k hk

private theorem mapM_jobs_congr {jobs jobs' : List Job} : ∀ {l : List Nat},
    (∀ k ∈ l, jobs'[k]? = jobs[k]?) → l.mapM (fun k => jobs'[k]?) = l.mapM (fun k => jobs[k]?) := by
  intro l
  induction l with
  | nil => intro _; rfl
  | cons a l ih =>
    intro h
    simp only [List.mapM_cons, h a (by simp), ih (fun k hk => h k (by simp [hk]))]

private theorem mapM_snoc {jobs : List Job} {l : List Nat} {js : List Job} {n : Nat} {j : Job}
    (h : l.mapM (fun k => jobs[k]?) = some js) (hn : jobs[n]? = some j) :
    (l ++ [n]).mapM (fun k => jobs[k]?) = some (js ++ [j]) := by
  induction l generalizing js with
  | nil =>
    simp only [List.mapM_nil, Option.pure_def, Option.some.injEq] at h
    subst h
    simp [List.mapM_cons, hn]
  | cons a l ih =>
    simp only [List.mapM_cons, Option.bind_eq_bind, Option.bind_eq_some_iff] at h
    obtain ⟨y, hy, ys, hys, hjs⟩ := h
    simp only [Option.pure_def, Option.some.injEq] at hjs
    subst hjs
    simp [List.mapM_cons, hy, ih hys]

private theorem set_snoc {α : Type} (xs : List α) (y z : α) : (xs ++ [y]).set xs.length z = xs ++ [z] := by
  induction xs with
  | nil => rfl
  | cons x xs ih => simp [ih]

/-- The heap while one job is being built on the `i`-th MultiCall: the job list is the old one plus the new cell,
    the new cell is the last job cell, nothing else has moved. -/
private structure Building (hp hp' : Heap) (i : Nat) (l : List Nat) (j : Job) : Prop where
  lists : hp'.lists = hp.lists.set i (l ++ [hp.jobs.length])
  jobs : hp'.jobs = hp.jobs ++ [j]
  methods : hp'.methods = hp.methods

private theorem building_jobsOf {hp hp' : Heap} {i : Nat} {l : List Nat} {j : Job} {js : List Job}
    (hl : hp.lists[i]? = some l) (hjs : l.mapM (fun k => hp.jobs[k]?) = some js) (b : Building hp hp' i l j) :
    hp'.jobsOf i = some (js ++ [j]) := by
  have hi : i < hp.lists.length := by
    rcases List.getElem?_eq_some_iff.mp hl with ⟨hi, _⟩; exact hi
  have hl' : hp'.lists[i]? = some (l ++ [hp.jobs.length]) := by
    rw [b.lists]; simp [hi]
  simp only [Heap.jobsOf, hl', b.jobs]
  apply mapM_snoc
  · rw [mapM_jobs_congr]
    · exact hjs
    · intro k hk
      exact List.getElem?_append_left (mapM_jobs_lt hjs k hk)
  · simp

private theorem building_extend {hp hp' : Heap} {i : Nat} {l : List Nat} {j : Job} (b : Building hp hp' i l j) :
    ∀ (rest : List String), rest.all jobSegOk = true →
    ∃ hp'', getAttrs hp' (.job hp.jobs.length) rest = .ok (.job hp.jobs.length, hp'') ∧
      Building hp hp'' i l { j with method := rest.foldl (fun acc seg => acc ++ "." ++ seg) j.method } := by
  intro rest
  induction rest generalizing hp' j with
  | nil => intro _; exact ⟨hp', rfl, b⟩
  | cons s rest ih =>
    intro hall
    simp only [List.all_cons, Bool.and_eq_true] at hall
    have hs := hall.1
    simp only [jobSegOk, Bool.and_eq_true, Bool.not_eq_true'] at hs
    have h2 : s ∉ multicallMethodOwnAttrs := by simpa using hs.2
    have hcell : hp'.jobs[hp.jobs.length]? = some j := by rw [b.jobs]; simp
    have hg : getAttr hp' (.job hp.jobs.length) s = .ok (.job hp.jobs.length,
        { hp' with jobs := hp'.jobs.set hp.jobs.length { j with method := j.method ++ "." ++ s } }) := by
      simp [getAttr, hcell, hs.1, h2, pure, Except.pure]
    have b' : Building hp { hp' with jobs := hp'.jobs.set hp.jobs.length { j with method := j.method ++ "." ++ s } } i l
        { j with method := j.method ++ "." ++ s } :=
      { lists := b.lists, jobs := by simp only [b.jobs, set_snoc], methods := b.methods }
    obtain ⟨hp'', hg', b''⟩ := ih b' hall.2
    exact ⟨hp'', by simp only [getAttrs, hg, hg'], by simpa using b''⟩

/-- `mc.<path>(*args, **kwargs)` / `mc._notify.<path>(…)` on a kept `MultiCall`, executed as the object operations
    it consists of (attribute access registers a `MultiCallMethod` at once, further accesses extend it in place,
    the call stores the parameters): the object's job list grows by exactly the job `mkJob` describes, at its
    end; `_Method` objects are not touched. -/
theorem C01_addJob (hp : Heap) (i : Nat) (js : List Job) (notify : Bool) (path : List String)
    (args : List PyVal) (kwargs : List (PyVal × PyVal)) (job : Job)
    (hjs : hp.jobsOf i = some js) (hpath : jobPathOk notify path = true)
    (hjob : mkJob notify path args kwargs = .ok job) :
    ∃ hp', addJob hp i notify path args kwargs = .ok hp' ∧ hp'.jobsOf i = some (js ++ [job]) ∧
      hp'.methods = hp.methods := by
  rw [C01_mkJob notify path args kwargs hpath] at hjob
  cases hparams : jobParams args kwargs with
  | error e => simp [hparams, Except.map] at hjob
  | ok params =>
    simp only [hparams, Except.map, Except.ok.injEq] at hjob
    subst hjob
    simp only [Heap.jobsOf] at hjs
    cases hl : hp.lists[i]? with
    | none => simp [hl] at hjs
    | some l =>
      simp only [hl] at hjs
      have hi : i < hp.lists.length := by
        rcases List.getElem?_eq_some_iff.mp hl with ⟨hi, _⟩; exact hi
      cases path with
      | nil => simp [jobPathOk] at hpath
      | cons a rest =>
        simp only [jobPathOk, Bool.and_eq_true, Bool.not_eq_true'] at hpath
        obtain ⟨⟨hda, hown⟩, hrest⟩ := hpath
        -- the first access registers the job
        have hnew : ∀ r0, (r0 = Ref.multicall i ∧ notify = false) ∨ (r0 = Ref.mcNotify i ∧ notify = true) →
            getAttr hp r0 a = .ok (.job hp.jobs.length,
              { hp with jobs := hp.jobs ++ [{ method := a, params := .list [], notify := notify }],
                        lists := hp.lists.set i (l ++ [hp.jobs.length]) }) := by
          intro r0 hr0
          rcases hr0 with ⟨rfl, rfl⟩ | ⟨rfl, rfl⟩
          · have h2 : a ∉ multicallOwnAttrs := by simpa using hown
            have hna : (a == "_notify") = false := by
              rw [beq_eq_false_iff_ne]; rintro rfl; exact h2 (by decide)
            simp [getAttr, hna, hda, h2, Heap.newJob, hl, pure, Except.pure]
          · have h2 : a ∉ multicallNotifyOwnAttrs := by simpa using hown
            simp [getAttr, hda, h2, Heap.newJob, hl, pure, Except.pure]
        have b0 : Building hp { hp with jobs := hp.jobs ++ [{ method := a, params := .list [], notify := notify }],
                                        lists := hp.lists.set i (l ++ [hp.jobs.length]) } i l
            { method := a, params := .list [], notify := notify } :=
          { lists := rfl, jobs := rfl, methods := rfl }
        obtain ⟨hp2, hext, b2⟩ := building_extend b0 rest hrest
        have hcell : hp2.jobs[hp.jobs.length]? =
            some { method := rest.foldl (fun acc seg => acc ++ "." ++ seg) a, params := .list [], notify := notify } := by
          rw [b2.jobs]; simp
        obtain ⟨jfin, hjfin⟩ : ∃ x : Job, x = { method := dottedName (a :: rest), params := params, notify := notify } := ⟨_, rfl⟩
        have b3 : Building hp { hp2 with jobs := hp2.jobs.set hp.jobs.length jfin } i l jfin :=
          { lists := b2.lists, jobs := by simp only [b2.jobs, set_snoc], methods := b2.methods }
        refine ⟨_, ?_, by rw [← hjfin]; exact building_jobsOf hl hjs b3, b3.methods⟩
        have hjfin' : jfin = { method := rest.foldl (fun acc seg => acc ++ "." ++ seg) a, params := params, notify := notify } := by
          rw [hjfin]; rfl
        cases notify with
        | false =>
          simp only [addJob, Bool.false_eq_true, ↓reduceIte, pure, Except.pure, getAttrs, hnew (.multicall i) (Or.inl ⟨rfl, rfl⟩),
            hext, callJob, hcell, hparams, bind, Except.bind, hjfin']
        | true =>
          have hn : getAttr hp (.multicall i) "_notify" = .ok (.mcNotify i, hp) := by
            simp [getAttr, hi, pure, Except.pure]
          simp only [addJob, ↓reduceIte, hn, getAttrs, hnew (.mcNotify i) (Or.inr ⟨rfl, rfl⟩),
            hext, callJob, hcell, hparams, bind, Except.bind, pure, Except.pure, hjfin']

/-- The job a description stands for. -/
def jobOfCall (x : JobCall) : PyM Job := mkJob x.1 x.2.1 x.2.2.1 x.2.2.2

/-- Several jobs added one after the other: the list grows by exactly these jobs, in order. -/
theorem C01_addJobs (i : Nat) : ∀ (calls : List JobCall) (hp : Heap) (js added : List Job),
    hp.jobsOf i = some js → (∀ x ∈ calls, jobPathOk x.1 x.2.1 = true) → calls.mapM jobOfCall = .ok added →
    ∃ hp', addJobs hp i calls = .ok hp' ∧ hp'.jobsOf i = some (js ++ added) ∧ hp'.methods = hp.methods := by
  intro calls
  induction calls with
  | nil =>
    intro hp js added hjs _ hm
    simp only [List.mapM_nil, pure, Except.pure, Except.ok.injEq] at hm
    subst hm
    exact ⟨hp, rfl, by simpa using hjs, rfl⟩
  | cons x rest ih =>
    intro hp js added hjs hok hm
    obtain ⟨notify, path, args, kwargs⟩ := x
    simp only [List.mapM_cons, bind, Except.bind] at hm
    cases hj : jobOfCall (notify, path, args, kwargs) with
    | error e => simp [hj] at hm
    | ok job =>
      simp only [hj] at hm
      cases hr : rest.mapM jobOfCall with
      | error e => simp [hr] at hm
      | ok added' =>
        simp only [hr, pure, Except.pure, Except.ok.injEq] at hm
        subst hm
        obtain ⟨hp1, h1, hjs1, hm1⟩ := C01_addJob hp i js notify path args kwargs job hjs (hok (notify, path, args, kwargs) (by simp)) hj
        obtain ⟨hp2, h2, hjs2, hm2⟩ := ih hp1 (js ++ [job]) added' hjs1 (fun y hy => hok y (by simp [hy])) hr
        exact ⟨hp2, by simp only [addJobs, h1, h2], by simpa using hjs2, by rw [hm2, hm1]⟩

/-- On a kept `MultiCall`, `mc()` is the batch of the jobs the object holds at that moment. -/
theorem C01_multicall_call (K : Codec) (c : Proxy) (m : McConfig) (p : Peer) (h : History) (fresh : Nat → String)
    (hp : Heap) (i : Nat) (js : List Job) (hjs : hp.jobsOf i = some js) :
    (callMulticall K c m p h fresh hp i).1 = multicall K c m p h fresh js := by
  simp [callMulticall, hjs]

/-- REUSE of one `MultiCall` object.  The object holds the jobs `js` (any mixture of fates, as in
    `C01_batch_mixed`, whose hypotheses are taken over); it is called; then the statements `calls` add the jobs
    `added`; it is called again (any History, any ids).  Then
    * the first call is the batch of `js` — so `C01_batch_mixed` describes its results, invocations and History;
    * it leaves the object's job list EMPTY (`del self._job_list[:]` is reached: the exchange returned);
    * the second call is the batch of `added` only: nothing of the first batch is sent — hence invoked — again. -/
theorem C01_multicall_reuse (B : Backend) (hg : Gate20) (c : Proxy) (m : McConfig) (p : Peer) (h h2 : History)
    (fresh fresh2 : Nat → String) (hp : Heap) (i : Nat) (js : List (Job × Fate))
    (calls : List JobCall) (added : List Job)
    (Tc : Transparent c.cfg c.conv c.unconv) (Tm : Transparent m.cfg m.conv pure)
    (Ts : Transparent p.srv.cfg p.srv.conv p.unconv)
    (hsv : p.srv.cfg.version = 10 ∨ p.srv.cfg.version = 20)
    (hcustom : p.srv.custom = Option.none) (hpool : p.srv.pool = .absent)
    (hfresh : ∀ i, fresh i ≠ "") (hne : js ≠ [])
    (hall : ∀ x ∈ js, JobSpec p.srv.reg x)
    (hfree : (c.cfg.useJsonclass || m.cfg.useJsonclass || p.srv.cfg.useJsonclass) = true → ∀ x ∈ js, JobFree x)
    (hjs : hp.jobsOf i = some (js.map (·.1)))
    (hcalls : ∀ x ∈ calls, jobPathOk x.1 x.2.1 = true) (hadded : calls.mapM jobOfCall = .ok added) :
    (callMulticall B.codec c m p h fresh hp i).1 = multicall B.codec c m p h fresh (js.map (·.1)) ∧
    (callMulticall B.codec c m p h fresh hp i).2.jobsOf i = some [] ∧
    ∃ hp2, addJobs (callMulticall B.codec c m p h fresh hp i).2 i calls = .ok hp2 ∧
      hp2.jobsOf i = some added ∧
      (callMulticall B.codec c m p h2 fresh2 hp2 i).1 = multicall B.codec c m p h2 fresh2 added := by
  obtain ⟨texts, rep, rs, hrender, _, _, hval, _⟩ :=
    C01_batch_mixed B hg c m p h fresh js Tc Tm Ts hsv hcustom hpool hfresh hne hall hfree
  -- `del self._job_list[:]` is reached
  have hjl : ¬ (js.map (·.1)).length < 1 := by
    cases js with
    | nil => exact absurd rfl hne
    | cons _ _ => simp
  have hclears : multicallClears B.codec c m p h fresh (js.map (·.1)) = true := by
    simp only [multicall, hjl, ↓reduceIte, hrender] at hval
    simp only [multicallClears, hjl, ↓reduceIte, hrender]
    cases hr : (runRequest B.codec c p h (batchBody texts)).value with
    | ok v => rfl
    | error e => simp [hr, bind, Except.bind] at hval
  have hi : i < hp.lists.length := by
    simp only [Heap.jobsOf] at hjs
    cases hl : hp.lists[i]? with
    | none => simp [hl] at hjs
    | some l => rcases List.getElem?_eq_some_iff.mp hl with ⟨hi, _⟩; exact hi
  have h2nd : (callMulticall B.codec c m p h fresh hp i).2 = { hp with lists := hp.lists.set i [] } := by
    simp [callMulticall, hjs, hclears]
  have hempty : (callMulticall B.codec c m p h fresh hp i).2.jobsOf i = some [] := by
    rw [h2nd]; simp [Heap.jobsOf, hi]
  refine ⟨C01_multicall_call _ c m p h fresh hp i _ hjs, hempty, ?_⟩
  obtain ⟨hp2, hadd, hjs2, _⟩ := C01_addJobs i calls _ [] added hempty hcalls hadded
  exact ⟨hp2, hadd, by simpa using hjs2, C01_multicall_call _ c m p h2 fresh2 hp2 i added (by simpa using hjs2)⟩

/-- When `del self._job_list[:]` is not reached (a `job.request()` raised, or `_run_request` did), the object keeps
    its jobs: the next call sends them again, together with what was added. -/
theorem C01_multicall_keeps_on_failure (K : Codec) (c : Proxy) (m : McConfig) (p : Peer) (h : History)
    (fresh : Nat → String) (hp : Heap) (i : Nat) (js : List Job) (hjs : hp.jobsOf i = some js)
    (hfail : multicallClears K c m p h fresh js = false) :
    (callMulticall K c m p h fresh hp i).2 = hp := by
  simp [callMulticall, hjs, hfail]

/- ---------- the empty method name ---------- -/

/-- Why every theorem above asks `name ≠ ""`: the server refuses a request whose method is the empty string
    before it looks anything up (`if not method or …` in `validate_request`) — whatever is registered, even a
    function registered under `""` (`register_function(f, "")` is accepted): the answer is the −32600 fault and
    NOTHING is invoked.  (Checked on the real code: `getattr(proxy, "")(1)` raises
    `ProtocolError((-32600, 'Invalid request parameters or method.'))`; the empty string is the one method name a
    registered callable cannot be reached under.) -/
theorem C01_empty_name_refused (s : Server) (ver : Nat) (fresh : String) (p : PyVal)
    (hp : p.isTuple = true ∨ p.isDict = true ∨ p.isList = true) :
    ∃ f, entryNF s (normalise (.dict (reqKVs ver (.str fresh) "" p))) = (.ok (some (faultDump s.cfg f)), []) ∧
      f.code = .int codeInvalid := by
  have sh := reqKVs_shape ver (.str fresh) (by simp [wfJson, isJson, distinctKeys]) "" p
  obtain ⟨hm, hid, _, _⟩ := parsed_lookups sh hp
  have hidk : hasKeyStr "id" (normaliseKVs (reqKVs ver (.str fresh) "" p)) = true := by simp [hasKeyStr, hid]
  cases hv : validateNF (.dict (normaliseKVs (reqKVs ver (.str fresh) "" p))) with
  | fault f =>
    exact ⟨f, by simp [normalise, entryNF, hv], (validateNF_fault hv).1⟩
  | valid kvs m q =>
    exfalso
    simp only [validateNF, hidk, Bool.true_eq_false, and_false, ↓reduceIte,
      lookupStr_withParams "method" (by decide), hm, Option.getD_some, checkNF] at hv
    simp at hv

/- ---------- over the wire: TCP / Unix-socket transports and the HTTP servers ---------- -/

/-- The loop-back theorems above are about `runRequest`, where the server is handed the client's text and the
    client the server's.  This is the statement that the same holds when the texts travel as bytes over HTTP, for
    every way the network may cut them up, and that the transport hands each call the reply to its own request:
    * C19 (`C19_healthy_stays`): on a connection with nothing unread a healthy exchange returns the result
      carrying the call's OWN token and leaves such a connection — so in a fault-free session call `n` gets reply `n`;
    * C17 (`C17_reassembly_server`, `C17_reassembly_client`): bytes = UTF-8 of the text in both directions, and
      the reassembled text does not depend on the read schedule / the chunking;
    hence the exchange over the wire IS the loop-back exchange: same value, same History, same invocations.
    Every composed function (`request`, `requestNotify`, `multicall`, and the object forms) reaches the server
    through `runRequest` only, so `C01_request` … `C01_batch_mixed`, `C01_multicall_reuse` hold over TCP and Unix
    sockets, for `SimpleJSONRPCServer` and `PooledJSONRPCServer` alike (both run `do_POST` → `_marshaled_dispatch`;
    the pooled server runs it on a worker thread: C12).
    Not modelled (CPython, not this repository): http.client / http.server header parsing and keep-alive
    (the schedule `w` and the behaviour script `bs` stand for them), gzip. -/
def C01_over_wire_full_statement : Prop :=
  ∀ (K : Codec) (c : Proxy) (p : Peer) (h : History) (request : String) (w : WireSchedule)
    (lib : Transport.Lib) (cache : Transport.Cache) (tok : Nat) (bs : List Transport.Beh),
    w.complete request → w.faithful →
    Transport.Cache.good cache = true → bs.all Transport.Beh.healthy = true →
    (Transport.call lib cache tok bs).1 = .result tok ∧
    Transport.Cache.good (Transport.call lib cache tok bs).2 = true ∧
    runRequestWire K c p h w request = runRequest K c p h request

private theorem clientClose_faithful (reply : String) (chunks : List Wire.Bytes)
    (h : chunks.flatten = Wire.toBytes reply) : Wire.clientClose chunks = .text reply := by
  by_cases hne : chunks = []
  · subst hne
    have h1 : Wire.clientClose [[]] = .text reply := C17_reassembly_client reply [[]] (by simp) (by simpa using h)
    have h2 : Wire.clientClose [[]] = .text "" := by decide +kernel
    rw [h1] at h2
    rw [C17_reassembly_client_empty, h2]
  · exact C17_reassembly_client reply chunks hne h

theorem C01_over_wire : C01_over_wire_full_statement := by
  intro K c p h request w lib cache tok bs hcomplete hfaithful hgood hhealthy
  obtain ⟨hres, hgood'⟩ := C19_healthy_stays lib cache tok bs hgood hhealthy
  refine ⟨hres, hgood', ?_⟩
  have hbody := C17_reassembly_server w.maxChunk request w.rest w.reads hcomplete
  simp only [runRequestWire, hbody, runRequest]
  rcases hs : serve K p request with ⟨r, eff⟩
  cases r with
  | error e => rfl
  | ok reply => simp only [clientClose_faithful reply _ (hfaithful _)]

/- ---------- which names the client refuses ---------- -/

/-- The test `ServerProxy.__getattr__` applies to a name (read from the source: `C01_gen_proxyGetattrRefuses`
    in JRV.Properties.C01Gen says the extracted test IS `dunderTest`) is the predicate `isDunder` the model and
    the domain predicates `pathOk` / `notifyPathOk` / `jobPathOk` use: a name is refused iff it starts AND ends
    with two underscores.  In particular names that merely start with an underscore are proxied. -/
theorem C01_dunder_test (name : String) :
    evalNameTest dunderTest.2.1 dunderTest.2.2 name = isDunder name := by
  have h1 : "__".toList = ['_', '_'] := rfl
  have h2 : "__".length = 2 := by decide
  simp [evalNameTest, dunderTest, evalNameAtom, isDunder, h1, h2]

-- `_x`, `a._b`, `_w_`, `__x`, `x__` are in the domain; `__x__`, `__` and `___` are dunder names
example : pathOk ["_x"] = true ∧ pathOk ["a", "_b"] = true ∧ pathOk ["_w_"] = true ∧ pathOk ["__x"] = true ∧
    pathOk ["x__", "_"] = true ∧ pathOk ["__x__"] = false ∧ pathOk ["__"] = false ∧ pathOk ["___"] = false := by
  decide +kernel
example : notifyPathOk ["ns", "_add"] = true ∧ notifyPathOk ["_request"] = false ∧
    jobPathOk false ["_x", "b"] = true ∧ jobPathOk false ["_job_list"] = false ∧ jobPathOk true ["_x"] = true ∧
    jobPathOk false ["a", "method"] = false := by decide +kernel
-- a heap as `C01_multicall_reuse` / `C01_addJob` assume it: the first MultiCall holds two jobs, a second one none
example : ({ jobs := [{ method := "a", params := .tuple [.int 1], notify := false },
                      { method := "ns.b", params := .dict [], notify := true }],
             lists := [[0, 1], []] } : Heap).jobsOf 0 =
    some [{ method := "a", params := .tuple [.int 1], notify := false }, { method := "ns.b", params := .dict [], notify := true }] := by
  decide +kernel
example : jobOfCall (true, ["ns", "b"], [], []) = .ok { method := "ns.b", params := .tuple [], notify := true } := by
  decide +kernel
-- `C01_kept_namespace`: a `_Method` cell named "ns" and two admissible segments
example : ({ methods := [{ notify := false, name := "ns" }] } : Heap).methods[0]? = some { notify := false, name := "ns" } ∧
    segOk "a" = true ∧ segOk "_b" = true := by decide +kernel
-- `C01_over_wire`: one read of the whole body and the reply delivered in one piece, or byte by byte
example : WireSchedule.faithful { reads := [], chunks := fun b => [b] } ∧
    WireSchedule.faithful { reads := [], chunks := fun b => List.map (fun x => [x]) b } := by
  constructor
  · intro b; simp
  · intro b
    show (List.map (fun x => [x]) b).flatten = b
    induction b with
    | nil => rfl
    | cons x xs ih => simpa using ih
example : WireSchedule.complete { reads := [1, 5, 2], chunks := fun b => [b] } "é!" := by
  unfold WireSchedule.complete; decide +kernel

/- ---------- the hypotheses about the text layer are satisfiable ---------- -/

/-- Every theorem of this file is quantified over every `Backend`, i.e. over every renderer/parser pair that
    satisfies the two laws `roundtrip` and `batch`.  Such pairs exist: JRV.Lemmas.BackendInstance constructs one
    and proves both law fields for ALL JSON-able values (it is a Gödel-numbering codec, order-preserving on
    dictionaries; it is a witness, not the backend the library runs with — CPython's `json` is tested against
    the laws on every run by the harness). -/
theorem C01_backend_exists : Nonempty Backend := ⟨BackendInstance.godel⟩

/-- … so, for instance, `C01_request` read at that backend is a statement without any assumption on the text layer. -/
example := C01_request BackendInstance.godel
example := C01_batch_mixed BackendInstance.godel

section RegistryPrograms
open JRV.RegProg

/- ---------- the registry as a mutable object over a history (JRV.Model.RegistryProg) ---------- -/

private theorem lookup_setKey_self {α : Type} (k : String) (v : α) (l : List (String × α)) :
    (setKey k v l).lookup k = some v := by
  simp [setKey, List.lookup]

private theorem lookup_filter_ne {α : Type} (k k' : String) (hne : k' ≠ k) (l : List (String × α)) :
    (l.filter (fun e => e.1 != k)).lookup k' = l.lookup k' := by
  induction l with
  | nil => rfl
  | cons x xs ih =>
    obtain ⟨a, b⟩ := x
    by_cases ha : a = k
    · subst ha
      have : (k' == a) = false := by simpa using hne
      simp [List.filter, List.lookup, this, ih]
    · have h1 : (a != k) = true := by simpa using ha
      simp only [List.filter, h1, List.lookup]
      split <;> simp_all

private theorem lookup_filter_self {α : Type} (k : String) (l : List (String × α)) :
    (l.filter (fun e => e.1 != k)).lookup k = Option.none := by
  induction l with
  | nil => rfl
  | cons x xs ih =>
    obtain ⟨a, b⟩ := x
    by_cases ha : a = k
    · subst ha; simp [List.filter, ih]
    · have h1 : (a != k) = true := by simpa using ha
      have h2 : (k == a) = false := by simpa using (fun h : k = a => ha h.symm)
      simp [List.filter, h1, List.lookup, h2, ih]

private theorem lookup_setKey_ne {α : Type} (k k' : String) (hne : k' ≠ k) (v : α) (l : List (String × α)) :
    (setKey k v l).lookup k' = l.lookup k' := by
  have : (k' == k) = false := by simpa using hne
  simp [setKey, List.lookup, this, lookup_filter_ne k k' hne]

private theorem lookup_map_snd {α β : Type} (f : α → β) (k : String) (l : List (String × α)) :
    (l.map fun e => (e.1, f e.2)).lookup k = (l.lookup k).map f := by
  induction l with
  | nil => rfl
  | cons x xs ih =>
    obtain ⟨a, b⟩ := x
    simp only [List.map, List.lookup]
    split <;> simp_all

/-- What a name denotes in a state: the look-up of `_dispatch` on the registry the state denotes NOW. -/
def denotes (st : DispState) (name : String) : Option (Target × Callable) := resolves (view st) name

private theorem funcs_lookup_view (st : DispState) (n : String) :
    (view st).funcs.lookup n = (st.funcs.lookup n).map (materialise st) := by
  simp [view, lookup_map_snd]

/-- The look-up of `_dispatch` in a state: `funcs` first, then the instance registered now. -/
theorem denotes_eq (st : DispState) (n : String) :
    denotes st n =
      match st.funcs.lookup n with
      | some e => some (.func, materialise st e)
      | Option.none => resolves { funcs := [], inst := st.instance } n := by
  simp only [denotes, resolves, funcs_lookup_view]
  cases st.funcs.lookup n <;> simp [view, List.lookup]

private theorem instance_setFuncs (st : DispState) (f : List (String × Entry)) :
    ({ st with funcs := f } : DispState).instance = st.instance := rfl

/-- A request leaves the registry as it found it: after ANY history of registry operations and requests the state is
    the one the registry operations alone produce — which names were called, how often, with what outcome, is
    immaterial. -/
theorem C01_registry_requests_leave_state (K : Codec) (base : Peer) (evs : List Ev) (st : DispState) :
    (runEvs K base st evs).1 = applyOps st (regOpsOf evs) := by
  induction evs generalizing st with
  | nil => rfl
  | cons ev rest ih =>
    cases ev with
    | reg op => simp [runEvs, stepEv, regOpsOf, applyOps, ih]
    | request text => simp [runEvs, stepEv, regOpsOf, ih]

private theorem runEvs_append (K : Codec) (base : Peer) (evs evs' : List Ev) (st : DispState) :
    runEvs K base st (evs ++ evs') =
      ((runEvs K base (runEvs K base st evs).1 evs').1, (runEvs K base st evs).2 ++ (runEvs K base (runEvs K base st evs).1 evs').2) := by
  induction evs generalizing st with
  | nil => simp [runEvs]
  | cons ev rest ih =>
    simp only [List.cons_append, runEvs, ih]
    cases (stepEv K base st ev).2 <;> simp

/-- A call after any program resolves exactly as on a FRESH dispatcher holding the final registry: the answer to a
    request that follows a history `evs` (registry operations interleaved with any requests) is the answer of a
    dispatcher on which only the registry operations of `evs` were performed and nothing was ever called. -/
theorem C01_registry_fresh_dispatcher (K : Codec) (base : Peer) (evs : List Ev) (st : DispState) (text : String) :
    runEvs K base st (evs ++ [.request text]) =
      (applyOps st (regOpsOf evs),
       (runEvs K base st evs).2 ++ [serve K (peerOf base (applyOps st (regOpsOf evs))) text]) := by
  rw [runEvs_append]
  simp [runEvs, stepEv, C01_registry_requests_leave_state]

/-- The dispatcher of the other C01 theorems — a registry given once and for all — is the empty program. -/
theorem C01_registry_static (reg : Registry) : view (DispState.ofRegistry reg) = reg := by
  obtain ⟨funcs, inst⟩ := reg
  have hf : (List.map (fun e : String × Entry => (e.1, materialise (DispState.ofRegistry { funcs := funcs, inst := inst }) e.2))
      (List.map (fun e : String × Callable => (e.1, Entry.user e.2)) funcs)) = funcs := by
    rw [List.map_map]
    conv => rhs; rw [← List.map_id funcs]
    apply List.map_congr_left
    intro e _
    simp [materialise]
  cases inst with
  | none => simp [view, DispState.ofRegistry, DispState.instance] at hf ⊢; exact hf
  | some i => simp [view, DispState.ofRegistry, DispState.instance] at hf ⊢; exact hf

/-- `register_function(f, name)`: from now on the name denotes `f` — whatever it denoted before (another function, an
    attribute of the instance, nothing) and however often it was called before. -/
theorem C01_registry_function_wins (st : DispState) (name : String) (c : Callable) :
    denotes (applyOp' st (.registerFunction name c)) name = some (.func, c) := by
  simp [denotes, resolves, applyOp', applyOp, pure, Except.pure, funcs_lookup_view, lookup_setKey_self, materialise]

/-- … and every other name denotes what it did: a registered function stays, a name the instance answers is answered
    by the same instance. -/
theorem C01_registry_function_other (st : DispState) (name other : String) (c : Callable) (hne : other ≠ name) :
    (∀ c', st.funcs.lookup other = some (.user c') →
      denotes (applyOp' st (.registerFunction name c)) other = some (.func, c')) ∧
    (st.funcs.lookup other = Option.none →
      denotes (applyOp' st (.registerFunction name c)) other = denotes st other) := by
  constructor
  · intro c' h
    simp [denotes, resolves, applyOp', applyOp, pure, Except.pure, funcs_lookup_view, lookup_setKey_ne _ _ hne, h, materialise]
  · intro h
    simp [denotes_eq, applyOp', applyOp, pure, Except.pure, lookup_setKey_ne _ _ hne, h, instance_setFuncs]

/-- `del funcs[name]`: the name denotes what the registered instance makes of it (nothing, without an instance). -/
theorem C01_registry_function_deleted (st : DispState) (name : String) (h : hasKey name st.funcs = true) :
    denotes (applyOp' st (.deleteFunction name)) name = resolves { funcs := [], inst := st.instance } name := by
  simp [denotes_eq, applyOp', applyOp, h, pure, Except.pure, delKey, lookup_filter_self, instance_setFuncs]

/-- `register_instance(obj)`: a name that is not a registered function denotes what it denotes on `obj` — nothing of
    the instance registered before remains. -/
theorem C01_registry_instance_replaced (st : DispState) (k : Nat) (i : Instance) (name : String)
    (hk : st.objs[k]? = some i) (hf : st.funcs.lookup name = Option.none) :
    denotes (applyOp' st (.registerInstance (some k))) name = resolves { funcs := [], inst := some i } name := by
  have hlt : k < st.objs.length := by
    rcases Nat.lt_or_ge k st.objs.length with h | h
    · exact h
    · simp [List.getElem?_eq_none h] at hk
  have hi : st.objs[k] = i := by simpa [List.getElem?_eq_getElem hlt] using hk
  simp [denotes_eq, applyOp', applyOp, hlt, pure, Except.pure, hf, DispState.instance, hk, hi]

/-- No segment of the path starts with an underscore (the only paths `resolve_dotted_attribute` walks). -/
def publicPath (path : List String) : Bool := path.all fun seg => !seg.startsWith "_"

/-- `setattr` on (an attribute of) the instance: the dotted name of that attribute denotes the NEW value from now on
    — for a path of any length, whatever was there before. -/
theorem C01_registry_attribute_rebound (path : List String) (a : Attr) :
    ∀ (ch ch' : List (String × Attr)) (c : Option Callable), publicPath path = true →
      setPath ch path a = .ok ch' → resolveSegs path (.node c ch') = some a := by
  induction path with
  | nil => intro ch ch' c _ h; simp [setPath, raise] at h
  | cons seg rest ih =>
    intro ch ch' c hp h
    have hseg : seg.startsWith "_" = false := by
      simp only [publicPath, List.all_cons, Bool.and_eq_true, Bool.not_eq_true'] at hp; exact hp.1
    cases rest with
    | nil =>
      simp only [setPath, pure, Except.pure, Except.ok.injEq] at h
      subst h
      simp [resolveSegs, hseg, Attr.children, lookup_setKey_self]
    | cons seg2 rest2 =>
      have hp2 : publicPath (seg2 :: rest2) = true := by
        simp only [publicPath, List.all_cons, Bool.and_eq_true] at hp ⊢; exact hp.2
      simp only [setPath] at h
      cases hl : ch.lookup seg with
      | none => simp [hl, raise] at h
      | some child =>
        cases child with
        | noneValue => simp [hl, raise] at h
        | node c0 sub =>
          simp only [hl] at h
          cases hs : setPath sub (seg2 :: rest2) a with
          | error e => simp [hs] at h
          | ok sub' =>
            simp only [hs, pure, Except.pure, Except.ok.injEq] at h
            subst h
            have := ih sub sub' c0 hp2 hs
            simp only [resolveSegs, hseg, Bool.false_eq_true, ↓reduceIte, Attr.children, lookup_setKey_self]
            exact this

/-- `delattr`: the dotted name denotes nothing afterwards (the server answers "unknown method"). -/
theorem C01_registry_attribute_deleted (path : List String) :
    ∀ (ch ch' : List (String × Attr)) (c : Option Callable),
      delPath ch path = .ok ch' → resolveSegs path (.node c ch') = Option.none := by
  induction path with
  | nil => intro ch ch' c h; simp [delPath, raise] at h
  | cons seg rest ih =>
    intro ch ch' c h
    cases rest with
    | nil =>
      simp only [delPath] at h
      split at h
      · simp only [pure, Except.pure, Except.ok.injEq] at h
        subst h
        simp only [resolveSegs, Attr.children, delKey, lookup_filter_self]
        split <;> rfl
      · simp [raise] at h
    | cons seg2 rest2 =>
      simp only [delPath] at h
      cases hl : ch.lookup seg with
      | none => simp [hl, raise] at h
      | some child =>
        cases child with
        | noneValue => simp [hl, raise] at h
        | node c0 sub =>
          simp only [hl] at h
          cases hs : delPath sub (seg2 :: rest2) with
          | error e => simp [hs] at h
          | ok sub' =>
            simp only [hs, pure, Except.pure, Except.ok.injEq] at h
            subst h
            have := ih sub sub' c0 hs
            simp only [resolveSegs, Attr.children, lookup_setKey_self]
            split
            · rfl
            · exact this

private theorem mem_insertSorted (s x : String) (l : List String) : x ∈ insertSorted s l ↔ x = s ∨ x ∈ l := by
  induction l with
  | nil => simp [insertSorted]
  | cons y ys ih =>
    simp only [insertSorted]
    split
    · simp
    · split
      · rename_i _ heq
        have : s = y := by simpa using heq
        subst this
        simp
      · simp only [List.mem_cons, ih]
        constructor
        · rintro (h | h | h) <;> simp [h]
        · rintro (h | h | h) <;> simp [h]

private theorem mem_sortedSet (x : String) (l : List String) : x ∈ sortedSet l ↔ x ∈ l := by
  induction l with
  | nil => simp [sortedSet]
  | cons y ys ih =>
    have : sortedSet (y :: ys) = insertSorted y (sortedSet ys) := rfl
    rw [this, mem_insertSorted, ih]; simp

private theorem hasKey_iff_mem {α : Type} (k : String) (l : List (String × α)) :
    hasKey k l = true ↔ k ∈ l.map (·.1) := by
  induction l with
  | nil => simp [hasKey, List.lookup]
  | cons x xs ih =>
    obtain ⟨a, b⟩ := x
    simp only [hasKey, List.lookup, List.map, List.mem_cons] at ih ⊢
    by_cases hka : k = a
    · subst hka; simp
    · have : (k == a) = false := by simpa using hka
      simp [this, hka, ih]

/-- `system.listMethods` lists what is registered NOW: the value the bound method returns when it is called in state
    `st` is the sorted list of exactly the names of `funcs` and the public callable attributes of the instance
    registered at that moment (an instance with its own `_dispatch` contributes nothing) — not the names that were
    registered, or called, earlier. -/
theorem C01_registry_list_methods_current (st : DispState) (p : PyVal) :
    (materialise st .listMethods).body p = .ret (.list ((listedNames st).map PyVal.str)) ∧
    ∀ n, n ∈ listedNames st ↔
      (hasKey n st.funcs = true ∨ ∃ i, st.instance = some i ∧ i.dispatch = Option.none ∧ n ∈ publicMethods i) := by
  refine ⟨rfl, fun n => ?_⟩
  simp only [listedNames, mem_sortedSet, List.mem_append, hasKey_iff_mem]
  cases hi : st.instance with
  | none => simp
  | some i =>
    cases hd : i.dispatch with
    | none => simp [hd]
    | some d => simp [hd]

/-- `C01_single` for a dispatcher with a history: after ANY interleaving `evs` of registry operations and requests,
    `proxy.<path>(*args)` invokes exactly once the callable the name denotes in the registry the operations of `evs`
    produce (`denotes`), with `args`, and returns its value — as if nothing had been called before. -/
theorem C01_single_after_program (B : Backend) (hg : Gate20) (c : Proxy) (base : Peer) (h : History) (fresh : String)
    (evs : List Ev) (st0 : DispState)
    (path : List String) (args : List PyVal) (v : PyVal) (t : Target) (f : Callable)
    (hcoff : c.cfg.useJsonclass = false) (hsoff : base.srv.cfg.useJsonclass = false)
    (hsv : base.srv.cfg.version = 10 ∨ base.srv.cfg.version = 20)
    (hcustom : base.srv.custom = Option.none) (hpool : base.srv.pool ≠ .full)
    (hfresh : fresh ≠ "") (hpath : pathOk path = true) (hname : dottedName path ≠ "")
    (hargs : args ≠ []) (hwf : (PyVal.tuple args).wfJson = true)
    (hres : denotes (applyOps st0 (regOpsOf evs)) (dottedName path) = some (t, f))
    (hbind : binds f.sig (.list (args.map normalise)) = true)
    (hret : f.body (.list (args.map normalise)) = .ret v) (hv : v.wfJson = true) :
    ∃ req rep, req ≠ "" ∧ rep ≠ "" ∧
      Exchange B.codec (peerOf base (runEvs B.codec base st0 evs).1) h
        (EndToEnd.call B.codec c (peerOf base (runEvs B.codec base st0 evs).1) h fresh path args []) req rep v.normalise
        [.call t (.str (dottedName path)) (.list (args.map normalise))] := by
  rw [C01_registry_requests_leave_state]
  exact C01_single B hg c (peerOf base (applyOps st0 (regOpsOf evs))) h fresh path args v t f hcoff hsoff hsv hcustom hpool
    hfresh hpath hname hargs hwf hres hbind hret hv

/-- `C01_batch` likewise: every job of a batch sent after the history `evs` reaches the callable its name denotes NOW,
    once, in job order; the iterator holds the returns of the non-notification jobs in job order. -/
theorem C01_batch_after_program (B : Backend) (hg : Gate20) (c : Proxy) (m : McConfig) (base : Peer) (h : History)
    (evs : List Ev) (st0 : DispState)
    (fresh : Nat → String) (jobs : List Job) (tgt : Job → Target) (fn : Job → Callable) (ret : Job → PyVal)
    (hcoff : c.cfg.useJsonclass = false) (hmoff : m.cfg.useJsonclass = false) (hsoff : base.srv.cfg.useJsonclass = false)
    (hsv : base.srv.cfg.version = 10 ∨ base.srv.cfg.version = 20)
    (hcustom : base.srv.custom = Option.none) (hpool : base.srv.pool = .absent)
    (hfresh : ∀ i, fresh i ≠ "") (hne : jobs ≠ [])
    (hall : ∀ j ∈ jobs, JobGood (view (applyOps st0 (regOpsOf evs))) tgt fn ret j) :
    ∃ results,
      (multicall B.codec c m (peerOf base (runEvs B.codec base st0 evs).1) h fresh jobs).value = .ok (.iterator results) ∧
      iterAll results = .ok ((jobs.filter (fun j => !j.notify)).map (fun j => (ret j).normalise)) ∧
      (multicall B.codec c m (peerOf base (runEvs B.codec base st0 evs).1) h fresh jobs).effects =
        jobs.map (fun j => Effect.call (tgt j) (.str j.method) (serverParams j.params)) := by
  rw [C01_registry_requests_leave_state]
  obtain ⟨_, _, results, _, _, _, hval, hit, heff, _⟩ :=
    C01_batch B hg c m (peerOf base (applyOps st0 (regOpsOf evs))) h fresh jobs tgt fn ret hcoff hmoff hsoff hsv hcustom hpool
      hfresh hne hall
  exact ⟨results, hval, hit, heff⟩

/- Non-vacuity: a program in which the denotation of a name changes between two calls of it. -/
private def exF (tag : Int) : Callable := { sig := { names := [], star := true }, body := fun _ => .ret (.int tag) }
private def exObj (tag : Int) : Instance :=
  { attrs := [("echo", .node (some (exF tag)) []), ("sub", .node Option.none [("echo", .node (some (exF (tag + 1))) [])])] }
private def exProg : List Ev :=
  [.reg (.newInstance (exObj 10)), .reg (.newInstance (exObj 20)), .reg (.registerInstance (some 0)),
   .request "first call of sub.echo", .reg (.registerInstance (some 1)), .request "second call",
   .reg (.setAttr 1 ["sub", "echo"] (.node (some (exF 30)) [])), .request "third call",
   .reg (.registerFunction "sub.echo" (exF 40)), .reg (.delAttr 1 ["sub", "echo"]), .reg (.deleteFunction "sub.echo")]

example : regOpsOf exProg =
    [.newInstance (exObj 10), .newInstance (exObj 20), .registerInstance (some 0), .registerInstance (some 1),
     .setAttr 1 ["sub", "echo"] (.node (some (exF 30)) []), .registerFunction "sub.echo" (exF 40), .delAttr 1 ["sub", "echo"],
     .deleteFunction "sub.echo"] := rfl
example : publicPath ["sub", "echo"] = true := by decide +kernel
example : ∃ ch', setPath (exObj 20).attrs ["sub", "echo"] (.node (some (exF 30)) []) = .ok ch' := ⟨_, rfl⟩
example : ∃ ch', delPath (exObj 20).attrs ["sub", "echo"] = .ok ch' := ⟨_, rfl⟩
example : hasKey "sub.echo" (applyOp' {} (.registerFunction "sub.echo" (exF 40))).funcs = true := by
  simp [applyOp', applyOp, pure, Except.pure, hasKey, setKey, List.lookup]
example : sortedSet ["b", "a", "é", "a", "B"] = ["B", "a", "b", "é"] := by decide +kernel

end RegistryPrograms

end JRV.Props
