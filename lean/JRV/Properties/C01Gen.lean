/-
  C01 — companion theorems of the extracted facts (tools/extractors/e2e.py): each relates what the source says NOW
  to the constant or structure the model uses.  Kept apart from JRV.Properties.C01 so that a source edit that changes
  one fact fails this module only — the property theorems stay discharged and the evidence names the fact.
-/
import JRV.Model.EndToEnd
import JRV.Model.RegistryProg
import JRV.Generated

namespace JRV.Props
open JRV JRV.EndToEnd

/-- `_Method.__call__` raises ProtocolError for both styles at once, sends `args` when there are positional
    arguments, `kwargs` when there are only keywords, and an empty container when there are neither
    (`methodParams`, `C01_methodParams_shape`; which empty container is immaterial: `C01_no_args`).  The fact is
    computed by executing the body symbolically in the four cases, so equivalent statement forms give the same fact. -/
theorem C01_gen_methodSendsArgsElseKwargs : Generated.methodSendsArgsElseKwargs = some methodCallShape := by decide

/-- `ServerProxy._request` returns `response["result"]` after `check_for_errors(response)` (`Client.proxyResult`). -/
theorem C01_gen_requestReturnsResult : Generated.requestReturnsResult = some requestResultShape := by decide

/-- History: the request text is recorded before the transport call, the transport's result (a text) right after it
    and before `loads` (`runRequest`). -/
theorem C01_gen_historyOrder : Generated.historyOrder = some runRequestEvents := by decide

/-- MultiCall: `"[ {0} ]"`, `","`, jobs in list order (`batchBody`, `renderJobs`). -/
theorem C01_gen_multicallFormat :
    Generated.multicallFormat = some (batchPrefix ++ "{0}" ++ batchSuffix, batchSep, true) := by decide

/-- MultiCall jobs are rendered with version 2.0 (`jobRequest`). -/
theorem C01_gen_multicallVersion : Generated.multicallVersion = some EndToEnd.multicallVersion := by decide

/-- `MultiCallIterator[i]` is `results[i]`, iteration walks `results` forward (`iterGet`, `iterAll`). -/
theorem C01_gen_iteratorPositional : Generated.iteratorPositional = some (true, true) := by decide

/-- The attribute names of `ServerProxy` that never reach `__getattr__` (`pathOk` excludes them). -/
theorem C01_gen_proxyOwnAttrs : Generated.proxyOwnAttrs = some proxyOwnAttrs := by decide

/-- Which names `ServerProxy.__getattr__` refuses on the client side: exactly the test the model evaluates
    (`C01_dunder_test`: `evalNameTest` of this test is `isDunder`), raising `AttributeError` (`proxyAttr`, `getAttr`). -/
theorem C01_gen_proxyGetattrRefuses : Generated.proxyGetattrRefuses = some dunderTest := by decide

/-- … and every other name is answered with `_Method(self._request, name)`: the name unchanged. -/
theorem C01_gen_proxyGetattrReturns : Generated.proxyGetattrReturns = some proxyGetattrShape := by decide

/-- `_Method.__getattr__` builds a NEW `_Method` and assigns nothing (`C01_method_object_immutable`). -/
theorem C01_gen_methodGetattr : Generated.methodGetattr = some methodGetattrShape := by decide

/-- `MultiCallMethod.__getattr__` extends the object itself and returns it (`C01_job_object_extended`). -/
theorem C01_gen_jobGetattr : Generated.jobGetattr = some jobGetattrShape := by decide

/-- `MultiCall._request` empties its job list right after the exchange (`multicallClears`, `C01_multicall_reuse`). -/
theorem C01_gen_multicallClearsJobs : Generated.multicallClearsJobs = some clearsJobsWhen := by decide

/-- `MultiCall.__getattr__` / `MultiCallNotify.__getattr__` append the new job at attribute access (`Heap.newJob`). -/
theorem C01_gen_multicallGetattrAppends : Generated.multicallGetattrAppends = some (true, true) := by decide

/-- `_Method.__call__` / `MultiCallMethod.__call__` take the receiver positionally: no keyword name is special
    (`methodParams` / `jobParams` do not look at the keys). -/
theorem C01_gen_callReceiverPositional : Generated.callReceiverPositional = some (true, true) := by decide

/-- The functions that serve a request store nothing into the registry (`self.funcs`, `self.instance`, what hangs below
    them) nor into an attribute of the dispatcher: `RegProg.stepEv` leaves the state unchanged on a request
    (`C01_registry_requests_leave_state`, `C01_registry_fresh_dispatcher`). -/
theorem C01_gen_requestWrites : Generated.requestWrites = some RegProg.requestWrites := by decide

/-- The same from the write footprint of the whole serve path (tools/extractors/footprint.py, the fact C13 reads): no
    store to shared state by any function reachable from `_marshaled_dispatch` / `do_POST` / `handle_jsonrpc`. -/
theorem C01_gen_servePathSharedWrites :
    (Generated.servePathSharedWrites.map fun l => l.map fun x => x.2.2) = some RegProg.requestWrites := by decide

/-- `MultiCall._request` hands the server's reply list to the iterator untouched (`wrapResponses`, `C01_batch`,
    `C01_batch_position`: position `i` is reply `i` for a batch of any size). -/
theorem C01_gen_multicallResponsesUntouched : Generated.multicallResponsesUntouched = some responsesUntouched := by decide

/-- … and the jobs draw their ids as single requests do (`jobRequest`: `rpcid` absent). -/
theorem C01_gen_multicallJobIds : Generated.multicallJobIds = some jobIds := by decide

/-- METHOD NAMES ARE OPAQUE to the server: `validate_request`, `_marshaled_single_dispatch` and `_dispatch` look at the
    method name only through its truth value and type (`Server.validate`: non-empty `str`), as key of `self.funcs`
    (`reg.funcs.lookup m`) and as the argument of `resolve_dotted_attribute` (`resolveDotted`; that function is CPython's
    `xmlrpc.server.resolve_dotted_attribute`, facts `dottedAllowed` / `methodUnmodified` of C05) — the list of other inspections of its content (prefix tests such as
    `method.startswith("rpc.")`, comparisons, slicing, pattern matching) is empty.  This is what lets the theorems
    quantify over `dottedName path ≠ ""` with no further condition on the name (`C01_request`, `C01_single`, …). -/
theorem C01_gen_methodNameInspections : Generated.methodNameInspections = some [] := by decide

end JRV.Props
