/-
  C02 — Every request body gets a well-formed reply and the dispatcher never raises.

  Model: JRV.Model.Server (`marshaledDispatch` over every outcome of `jsonrpclib.loads`: any `PyVal`, or
  a parse error), JRV.Model.Callable.  The model's return type is honest: the primitives it is written
  with raise where Python raises, and only the `try/except` blocks of the code turn errors into values,
  so `C02_no_raise` is a statement about those guards and not an artefact of the type.

  Quantification: every server configuration (`cfg`, registry, custom dispatcher, converter `conv` —
  raising ones included), every callable behaviour, every parse outcome.  Hypotheses:
    * `s.pool ≠ .full` — the notification queue is not a bounded queue that is full; `enqueue` then
      raises `queue.Full` out of the dispatcher (`C02_full_pool_raises` shows the hypothesis is needed);
      the property's quantifier ranges over pool *sizes*, the queue is unbounded by default.
    * for well-formedness, the server version is 1.0 or 2.0 (`10`/`20` in tenths).

  Since fix 00c214e a response that `jdumps` rejects (an id loaded as a bean, a result the JSON library
  refuses) is replaced *individually* by a −32603 response of the same form (`Server.sent`,
  `Server.replacement` in JRV.Lemmas.Server); `C02_wellformed` covers the replaced responses and
  `C02_sent_serialisable` shows that what is sent can always be rendered.

  The companion theorems of the extracted facts (`C02_gen_*`) are in JRV/Properties/C02Gen.lean.
-/
import JRV.Lemmas.Server

set_option linter.unusedSimpArgs false
set_option linter.unusedVariables false

namespace JRV.Props
open JRV JRV.PyVal JRV.Callable JRV.Payload JRV.Server

/- ---------- the reply validator, spelled from the property text ---------- -/

/-- "every error is an object with an integer code and a string message". -/
def wfError : PyVal → Bool
  | .dict kvs =>
    (match lookupStr "code" kvs with | some (.int _) => true | _ => false) &&
    (match lookupStr "message" kvs with | some (.str _) => true | _ => false)
  | _ => false

/-- "a 2.0 object has "jsonrpc":"2.0", an "id" and exactly one of "result"/"error"". -/
def wfResp20 (kvs : List (PyVal × PyVal)) : Bool :=
  (match lookupStr "jsonrpc" kvs with | some (.str "2.0") => true | _ => false) &&
  hasKeyStr "id" kvs &&
  (match lookupStr "result" kvs, lookupStr "error" kvs with
   | some _, Option.none => true
   | Option.none, some e => wfError e
   | _, _ => false)

/-- "a 1.0 object has "result", "error" and "id" with "error" null on success and "result" null on failure". -/
def wfResp10 (kvs : List (PyVal × PyVal)) : Bool :=
  hasKeyStr "id" kvs &&
  (match lookupStr "result" kvs, lookupStr "error" kvs with
   | some r, some e => e == .none || (r == .none && wfError e)
   | _, _ => false)

/-- A response object, well-formed for its protocol version (2.0 objects carry `jsonrpc`). -/
def wfResp : PyVal → Bool
  | .dict kvs => if hasKeyStr "jsonrpc" kvs then wfResp20 kvs else wfResp10 kvs
  | _ => false

/-- One response object or a non-empty array of response objects. -/
def wfDoc : PyVal → Bool
  | .list rs => !rs.isEmpty && rs.all wfResp
  | v => wfResp v

/- ---------- lemmas ---------- -/

private theorem verStr20 : verStr 20 = "2.0" := by decide

private theorem wf_of_shape {ver : Nat} {rid d : PyVal} (hv : ver = 10 ∨ ver = 20) (h : RespShape ver rid d) :
    wfResp d = true := by
  cases h with
  | result r =>
    rcases hv with hv | hv <;> subst hv
    · rw [response_v1 _ (by omega)]
      simp [wfResp, wfResp10, hasKeyStr, lookupStr]
    · rw [response_v2 _ (by omega), verStr20]
      simp [wfResp, wfResp20, hasKeyStr, lookupStr]
  | error c m =>
    rcases hv with hv | hv <;> subst hv
    · rw [error_v1 _ (by omega)]
      simp [wfResp, wfResp10, wfError, hasKeyStr, lookupStr]
    · rw [error_v2 _ (by omega), verStr20]
      simp [wfResp, wfResp20, wfError, hasKeyStr, lookupStr]

private theorem respond_wf (s : Server) (hver : s.cfg.version = 10 ∨ s.cfg.version = 20) (e d : PyVal)
    (h : respond s e = some d) : wfResp d = true := by
  obtain ⟨ver, hv, hs⟩ := respond_shape s e d h
  refine wf_of_shape ?_ hs
  rcases hv with hv | hv
  · rw [hv]; exact hver
  · exact Or.inl hv.1

private theorem faultDump_wf (cfg : Config) (hver : cfg.version = 10 ∨ cfg.version = 20) (c : Int) (m : String) :
    wfResp (faultDump cfg { code := .int c, message := .str m }) = true :=
  wf_of_shape hver (by simp only [faultDump]; exact RespShape.error c m)

private theorem replacement_wf (d : PyVal) : wfResp (replacement d) = true := by
  unfold replacement
  refine wf_of_shape ?_ (RespShape.error _ _)
  split <;> simp

private theorem sent_wf (d : PyVal) (h : wfResp d = true) : wfResp (sent d) = true := by
  unfold sent
  split
  · exact h
  · exact replacement_wf d

private theorem wfDoc_of_wfResp {d : PyVal} (h : wfResp d = true) : wfDoc d = true := by
  cases d <;> simp_all [wfDoc, wfResp]

/- ---------- the theorems ---------- -/

/-- The dispatcher never raises: for every server, every registered behaviour and every outcome of
    `loads` (every Python value, or a parse error), `_marshaled_dispatch` returns. -/
theorem C02_no_raise (s : Server) (hpool : s.pool ≠ .full) (po : ParseOutcome) :
    ∃ reply, (marshaledDispatch s po).1 = .ok reply := by
  cases po with
  | parseError => exact ⟨_, by rw [marshaled_parseError]⟩
  | parsed e =>
    by_cases ht : e.truthy = true
    · by_cases hl : e.isList = true
      · cases e <;> simp [isList] at hl
        rename_i entries
        have hne : entries ≠ [] := by cases entries <;> simp_all [truthy]
        exact ⟨_, by rw [marshaled_batch s hpool entries hne]⟩
      · exact ⟨_, by rw [marshaled_single s hpool e ht (by simpa using hl)]⟩
    · exact ⟨_, by rw [marshaled_falsy s e (by simpa using ht)]⟩

/-- The hypothesis on the pool is needed: a notification handed to a full bounded queue makes
    `enqueue` raise `queue.Full`, and nothing catches it. -/
theorem C02_full_pool_raises :
    (marshaledDispatch { cfg := {}, pool := .full }
      (.parsed (mkDict [("jsonrpc", .str "2.0"), ("method", .str "m")]))).1
      = .error { cls := "Full" } := by
  decide +kernel

/-- The reply is the empty body, or a document that is one well-formed response object or a non-empty
    array of well-formed response objects. -/
theorem C02_wellformed (s : Server) (hpool : s.pool ≠ .full)
    (hver : s.cfg.version = 10 ∨ s.cfg.version = 20) (po : ParseOutcome) (v : PyVal)
    (h : (marshaledDispatch s po).1 = .ok (.doc v)) : wfDoc v = true := by
  cases po with
  | parseError =>
    rw [marshaled_parseError] at h
    injection h with h; injection h with h; subst h
    exact wfDoc_of_wfResp (faultDump_wf s.cfg hver _ _)
  | parsed e =>
    by_cases ht : e.truthy = true
    · by_cases hl : e.isList = true
      · cases e <;> simp [isList] at hl
        rename_i entries
        have hne : entries ≠ [] := by cases entries <;> simp_all [truthy]
        rw [marshaled_batch s hpool entries hne] at h
        simp only [] at h
        injection h with h
        split at h
        · exact absurd h (by simp)
        · rename_i hnonempty
          rw [finalReply_list] at h
          injection h with h; subst h
          have hne' : (entries.filterMap (respond s)).map sent ≠ [] := by
            intro hnil
            simp only [List.map_eq_nil_iff] at hnil
            simp [hnil] at hnonempty
          simp only [wfDoc, List.isEmpty_eq_false_iff.mpr hne', Bool.not_false, Bool.true_and, List.all_eq_true]
          intro d hd
          obtain ⟨d0, hd0, hsd⟩ := List.mem_map.mp hd
          obtain ⟨e, _, he⟩ := List.mem_filterMap.mp hd0
          subst hsd
          exact sent_wf d0 (respond_wf s hver e d0 he)
      · rw [marshaled_single s hpool e ht (by simpa using hl)] at h
        simp only [] at h
        injection h with h
        cases hr : respond s e with
        | none => simp [hr] at h
        | some d =>
          simp only [hr] at h
          obtain ⟨kvs, hd⟩ := respond_dict s e d hr
          subst hd
          rw [finalReply_dict] at h
          injection h with h; subst h
          exact wfDoc_of_wfResp (sent_wf _ (respond_wf s hver e _ hr))
    · rw [marshaled_falsy s e (by simpa using ht)] at h
      injection h with h; injection h with h; subst h
      exact wfDoc_of_wfResp (faultDump_wf s.cfg hver _ _)

/-- What is sent for a response object can always be rendered by the JSON library, and a replaced
    response keeps the form (1.0 / 2.0) of the response it stands for. -/
theorem C02_sent_serialisable (d : PyVal) :
    serialisable (sent d) = true ∧ respHasJsonrpc (sent d) = respHasJsonrpc d := by
  refine ⟨serialisable_sent d, ?_⟩
  unfold sent
  split
  · rfl
  · unfold replacement
    cases hj : respHasJsonrpc d
    · simp only [Bool.false_eq_true, ↓reduceIte]
      rw [error_v1 _ (by omega)]; simp [respHasJsonrpc, hasKeyStr, lookupStr]
    · simp only [↓reduceIte]
      rw [error_v2 _ (by omega)]; simp [respHasJsonrpc, hasKeyStr, lookupStr]

/-- The id of what is sent in place of a response the JSON library rejects: the response's own id when
    that id can be rendered on its own, `null` otherwise — whatever kind of value the id is (an instance
    of a class the translator built: `bytes`, `Decimal`, a date, …; a set; a tuple-keyed dictionary).
    `_safe_jdumps` decides by a trial serialisation of the id, not by a test on its type (extracted
    fact `safeJdumpsIdProbe`); together with `C02_sent_serialisable` the replacement can be sent. -/
theorem C02_replaced_id (d : PyVal) (h : serialisable d = false) :
    respId (sent d) = (if serialisable (respId d) then respId d else .none) := by
  simp only [sent, h, Bool.false_eq_true, ↓reduceIte, replacement, keptId]
  cases hj : respHasJsonrpc d
  · simp only [Bool.false_eq_true, ↓reduceIte]
    rw [error_v1 _ (by omega)]; simp [respId, lookupStr]
  · simp only [↓reduceIte]
    rw [error_v2 _ (by omega)]; simp [respId, lookupStr]

/-- Which form an answered request gets: the 2.0 form exactly when the server is ≥ 2.0 *and* the request
    carries a `jsonrpc` member (a 1.0-style request on a 2.0 server is answered in 1.0 form). -/
theorem C02_form_follows_request (s : Server) (e d : PyVal) (kvs : List (PyVal × PyVal)) (m : String) (p : PyVal)
    (hv : validateNF e = .valid kvs m p) (h : respond s e = some d) :
    ∃ dkvs, d = .dict dkvs ∧
      hasKeyStr "jsonrpc" dkvs = (hasKeyStr "jsonrpc" kvs && decide (s.cfg.version ≥ 20)) := by
  have hshape : RespShape (requestConfig s.cfg (hasKeyStr "jsonrpc" kvs)).version
      ((lookupStr "id" kvs).getD .none) d := by
    simp only [respond, entryNF, hv, singleNF] at h
    cases hn : notifNF kvs <;> cases hp : s.pool <;> simp [hn, hp, raise] at h
    all_goals (subst h; exact respOf_shape _ _ _ _)
  have hform : ∀ ver rid d, RespShape ver rid d →
      ∃ dkvs, d = .dict dkvs ∧ hasKeyStr "jsonrpc" dkvs = decide (ver ≥ 20) := by
    intro ver rid d hs
    cases hs with
    | result r =>
      by_cases hv : ver ≥ 20
      · exact ⟨_, response_v2 ver hv rid r, by simp [hasKeyStr, lookupStr, hv]⟩
      · exact ⟨_, response_v1 ver (by omega) rid r, by simp [hasKeyStr, lookupStr, hv]⟩
    | error c msg =>
      by_cases hv : ver ≥ 20
      · exact ⟨_, error_v2 ver hv rid _ _, by simp [hasKeyStr, lookupStr, hv]⟩
      · exact ⟨_, error_v1 ver (by omega) rid _ _, by simp [hasKeyStr, lookupStr, hv]⟩
  obtain ⟨dkvs, hd, hj⟩ := hform _ _ _ hshape
  refine ⟨dkvs, hd, ?_⟩
  rw [hj]
  simp only [requestConfig]
  cases hasKeyStr "jsonrpc" kvs <;> by_cases hv20 : s.cfg.version ≥ 20 <;> simp [hv20]

/- Non-vacuity: a 1.0 success, a 2.0 batch with mixed outcomes, a translated request whose id is an
   instance (that response is replaced by a −32603 object with a null id), a batch in which one result
   cannot be serialised (only that response is replaced, its id is kept), evaluated on the model. -/

private def exReg : Registry :=
  { funcs := [("add", { sig := { names := ["a", "b"] }, body := fun _ => .ret (.int 3) }),
              ("boom", { sig := { names := [], star := true }, body := fun _ => .raised "ValueError" "boom" false false 1 })] }

example : (marshaledDispatch { cfg := { version := 10 }, reg := exReg }
    (.parsed (mkDict [("id", .int 7), ("method", .str "add"), ("params", .list [.int 1, .int 2])]))).1
    = .ok (.doc (.dict [(.str "result", .int 3), (.str "id", .int 7), (.str "error", .none)])) := by
  decide +kernel

example : wfDoc (.dict [(.str "result", .int 3), (.str "id", .int 7), (.str "error", .none)]) = true := by
  decide +kernel

example : (marshaledDispatch { cfg := {}, reg := exReg }
    (.parsed (.list [
      mkDict [("jsonrpc", .str "2.0"), ("id", .int 0), ("method", .str "add"), ("params", .list [.int 1, .int 2])],
      mkDict [("jsonrpc", .str "2.0"), ("method", .str "add"), ("params", .list [.int 1, .int 2])],
      .int 5,
      mkDict [("jsonrpc", .str "2.0"), ("id", .str "x"), ("method", .str "boom")]]))).1
    = .ok (.doc (.list [
      .dict [(.str "result", .int 3), (.str "id", .int 0), (.str "jsonrpc", .str "2.0")],
      .dict [(.str "id", .none), (.str "jsonrpc", .str "2.0"),
             (.str "error", .dict [(.str "code", .int (-32600)), (.str "message", .str "Request must be a dict, not int")])],
      .dict [(.str "id", .str "x"), (.str "jsonrpc", .str "2.0"),
             (.str "error", .dict [(.str "code", .int (-32603)), (.str "message", .str "Server error: ValueError: boom")])]])) := by
  decide +kernel

example : (marshaledDispatch { cfg := {}, reg := exReg }
    (.parsed (mkDict [("jsonrpc", .str "2.0"), ("id", .obj "Decimal" [("repr", .str "1")]), ("method", .str "add"),
      ("params", .list [.int 1, .int 2])]))).1
    = .ok (.doc (.dict [(.str "id", .none), (.str "jsonrpc", .str "2.0"),
             (.str "error", .dict [(.str "code", .int (-32603)), (.str "message", .str msgSerialize)])])) := by
  decide +kernel

/- An id the class translator loaded as `bytes` (an instance for the model: it has no JSON form although
   it is one of the library's "primitive" types), in 1.0 form inside a batch: only that response is
   replaced, with a null id. -/
example : (marshaledDispatch { cfg := { useJsonclass := true }, reg := exReg }
    (.parsed (.list [
      mkDict [("jsonrpc", .str "2.0"), ("id", .int 1), ("method", .str "add"), ("params", .list [.int 1, .int 2])],
      mkDict [("id", .obj "bytes" [("hex", .str "")]), ("method", .str "nosuch")]]))).1
    = .ok (.doc (.list [
      .dict [(.str "result", .int 3), (.str "id", .int 1), (.str "jsonrpc", .str "2.0")],
      .dict [(.str "result", .none), (.str "id", .none),
             (.str "error", .dict [(.str "code", .int (-32603)), (.str "message", .str msgSerialize)])]])) := by
  decide +kernel

example : respId (sent (.dict [(.str "result", .int 3), (.str "id", .obj "bytes" [("hex", .str "6869")]), (.str "error", .none)]))
    = .none := by
  decide +kernel

private def exTupleKey : Callable :=
  { sig := { names := [] }, body := fun _ => .ret (.dict [(.tuple [.int 1, .int 2], .int 3)]) }

private def exSrvTk : Server :=
  { cfg := { useJsonclass := false }, reg := { funcs := exReg.funcs ++ [("tk", exTupleKey)] } }

example : (marshaledDispatch exSrvTk
    (.parsed (.list [
      mkDict [("jsonrpc", .str "2.0"), ("id", .int 1), ("method", .str "add"), ("params", .list [.int 1, .int 2])],
      mkDict [("id", .int 2), ("method", .str "tk")]]))).1
    = .ok (.doc (.list [
      .dict [(.str "result", .int 3), (.str "id", .int 1), (.str "jsonrpc", .str "2.0")],
      .dict [(.str "result", .none), (.str "id", .int 2),
             (.str "error", .dict [(.str "code", .int (-32603)), (.str "message", .str msgSerialize)])]])) := by
  decide +kernel

end JRV.Props
