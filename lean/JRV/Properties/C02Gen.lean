/-
  C02 — companion theorems of the facts extracted from jsonrpclib/SimpleJSONRPCServer.py
  (tools/extractors/server.py → JRV.Generated).  Built and audited separately from JRV.Properties.C02
  (harness/core.py): a source edit that changes one fact fails that companion only.
-/
import JRV.Model.Server
import JRV.Generated

namespace JRV.Props
open JRV JRV.Server

/-- The Fault sites of the dispatcher and their codes, as a multiset of (function, code): the model's
    table `faultSiteTable` (codes `codeParse`, `codeInvalid`, `codeUnknown`, `codeParams`, `codeInternal`
    at the corresponding places of the model). -/
theorem C02_gen_faultSites : Generated.faultSites = some faultSiteTable := by decide

/-- `loads` is called inside `try/except Exception` (`marshaledDispatch`, case `parseError`). -/
theorem C02_gen_loadsGuarded : Generated.loadsGuarded = some true := by decide

/-- The final `jdumps` is called inside `try/except Exception` (`marshaledDispatch`: `match jdumps response`). -/
theorem C02_gen_jdumpsGuarded : Generated.jdumpsGuarded = some true := by decide

/-- Both `jdumps` calls of `_safe_jdumps` are guarded (`safeJdumps`: the two `match jdumps … with`). -/
theorem C02_gen_safeJdumpsGuarded : Generated.safeJdumpsGuarded = some true := by decide

/-- Whether a replaced response keeps its id is decided by serialising that id on its own
    (`safeJdumps`: `match jdumps rid with | .ok _ => rid | .error _ => none`, `Lemmas.Server.keptId`), not
    by a test on the id's type: an id of a "primitive" type without JSON form (`bytes`) is dropped too. -/
theorem C02_gen_safeJdumpsIdProbe : Generated.safeJdumpsIdProbe = some true := by decide

/-- The handlers around the method call only build, format and log a Fault: in the model they are
    `handleCallExc` / `internalFault`, which call nothing. -/
theorem C02_gen_handlersOnlyReport : Generated.handlersOnlyReport = some true := by decide

end JRV.Props
