/-
  C03 — Responses echo the request id; batches answer one-to-one and in order.

  `respond s e` (JRV.Lemmas.Server) is the response object the model gives the entry `e` (`none`: no
  response); it is *defined from the model* (validate, then answer the fault or dispatch), and
  `batchLoop_eq` shows by induction on the entry list that the accumulator loop of
  `_unmarshaled_dispatch` computes exactly `entries.filterMap (respond s)`.

  The theorems hold for every server: default, instance and custom dispatchers, every callable
  behaviour (return, raise, return a value whose conversion raises — `conv` is arbitrary), both
  versions, pool absent or accepting (`s.pool ≠ .full`, see C02).
-/
import JRV.Lemmas.Server
import JRV.Generated

set_option linter.unusedSimpArgs false
set_option linter.unusedVariables false

namespace JRV.Props
open JRV JRV.PyVal JRV.Callable JRV.Payload JRV.Server

/- ---------- lemmas ---------- -/

private theorem shape_id {ver : Nat} {rid d : PyVal} (h : RespShape ver rid d) :
    ∃ kvs, d = .dict kvs ∧ lookupStr "id" kvs = some rid := by
  cases h with
  | result r =>
    by_cases hv : ver ≥ 20
    · exact ⟨_, response_v2 ver hv rid r, by simp [lookupStr]⟩
    · exact ⟨_, response_v1 ver (by omega) rid r, by simp [lookupStr]⟩
  | error c m =>
    by_cases hv : ver ≥ 20
    · exact ⟨_, error_v2 ver hv rid _ _, by simp [lookupStr]⟩
    · exact ⟨_, error_v1 ver (by omega) rid _ _, by simp [lookupStr]⟩

/- ---------- the theorems ---------- -/

/-- Every response object carries the id of the entry that caused it — the same value — or null when
    the entry is not an object or has no `id` member; over all outcome paths (success, unknown method,
    bind error, raising callable, raising custom or instance dispatcher, result whose conversion
    fails, each validation failure), for every server. -/
theorem C03_id_echo (s : Server) (e d : PyVal) (h : respond s e = some d) :
    ∃ kvs, d = .dict kvs ∧ lookupStr "id" kvs = some (entryId e) := by
  obtain ⟨ver, _, hs⟩ := respond_shape s e d h
  exact shape_id hs

/-- An entry gets no response exactly when it is a well-formed notification: every other entry —
    calls, failing calls, unknown methods, invalid entries — gets exactly one. -/
theorem C03_answered_iff (s : Server) (hpool : s.pool ≠ .full) (e : PyVal) :
    respond s e = Option.none ↔ wfNotification e = true := by
  simp only [wfNotification, Bool.and_eq_true, ← valid_iff_wfRequest]
  constructor
  · intro h
    simp only [respond, entryNF] at h
    cases hv : validateNF e with
    | fault f => simp [hv] at h
    | valid kvs m p =>
      refine ⟨⟨kvs, m, p, rfl⟩, ?_⟩
      rw [← valid_notif e kvs m p hv]
      simp only [hv, singleNF] at h
      cases hn : notifNF kvs <;> cases hp : s.pool <;> simp_all [raise]
  · rintro ⟨⟨kvs, m, p, hv⟩, hn⟩
    rw [← valid_notif e kvs m p hv] at hn
    simp only [respond, entryNF, hv, singleNF, hn]
    cases hp : s.pool <;> simp_all

/-- One-to-one and in order: the reply array of a batch is exactly `entries.filterMap (respond s)` —
    the responses of the answered entries, in entry order (when that array is JSON-serialisable,
    i.e. the echoed ids and results are; otherwise the fixed code answers the single −32603 object). -/
theorem C03_batch_order (s : Server) (hpool : s.pool ≠ .full) (entries : List PyVal) (hne : entries ≠ []) :
    (marshaledDispatch s (.parsed (.list entries))).1 =
      .ok (if (entries.filterMap (respond s)).isEmpty then .empty
           else if serialisable (.list (entries.filterMap (respond s))) then .doc (.list (entries.filterMap (respond s)))
           else .doc (faultDump s.cfg { code := .int codeInternal, message := .str msgSerialize })) := by
  rw [marshaled_batch s hpool entries hne]
  simp only [finalReply]

/-- The number of responses is the number of entries that are not well-formed notifications. -/
theorem C03_one_per_entry (s : Server) (hpool : s.pool ≠ .full) (entries : List PyVal) :
    (entries.filterMap (respond s)).length = entries.countP (fun e => !wfNotification e) := by
  induction entries with
  | nil => rfl
  | cons e rest ih =>
    cases hr : respond s e with
    | none =>
      have := (C03_answered_iff s hpool e).mp hr
      simp [List.filterMap_cons, hr, ih, this]
    | some d =>
      have : wfNotification e = false := by
        cases hw : wfNotification e with
        | false => rfl
        | true => rw [(C03_answered_iff s hpool e).mpr hw] at hr; exact absurd hr (by simp)
      simp [List.filterMap_cons, hr, ih, this]

/-- A batch that produces no response yields the empty body … -/
theorem C03_empty_body (s : Server) (hpool : s.pool ≠ .full) (entries : List PyVal) (hne : entries ≠ [])
    (hnone : entries.filterMap (respond s) = []) :
    (marshaledDispatch s (.parsed (.list entries))).1 = .ok .empty := by
  rw [C03_batch_order s hpool entries hne, hnone]
  rfl

/-- … and no request body at all is ever answered with an empty array. -/
theorem C03_never_empty_array (s : Server) (hpool : s.pool ≠ .full) (po : ParseOutcome) :
    (marshaledDispatch s po).1 ≠ .ok (.doc (.list [])) := by
  have hfd : ∀ cfg f, faultDump cfg f ≠ .list [] := by
    intro cfg f
    simp only [faultDump, Payload.error, Payload.response]
    split <;> split <;> simp_all
  cases po with
  | parseError => rw [marshaled_parseError]; simp [hfd]
  | parsed e =>
    by_cases ht : e.truthy = true
    · by_cases hl : e.isList = true
      · cases e <;> simp [isList] at hl
        rename_i entries
        have hne : entries ≠ [] := by cases entries <;> simp_all [truthy]
        rw [marshaled_batch s hpool entries hne]
        simp only [finalReply]
        split
        · simp
        · rename_i hnonempty
          split
          · intro h; injection h with h; injection h with h; injection h with h
            simp [h] at hnonempty
          · simp [hfd]
      · rw [marshaled_single s hpool e ht (by simpa using hl)]
        cases hr : respond s e with
        | none => simp
        | some d =>
          obtain ⟨kvs, hd, _⟩ := C03_id_echo s e d hr
          subst hd
          simp only [finalReply]
          split <;> simp [hfd]
    · rw [marshaled_falsy s e (by simpa using ht)]; simp [hfd]

/-- A single request is answered with the response of that entry (or the empty body for a notification). -/
theorem C03_single (s : Server) (hpool : s.pool ≠ .full) (e : PyVal) (ht : e.truthy = true) (hl : e.isList = false)
    (d : PyVal) (hd : respond s e = some d) (hser : serialisable d = true) :
    (marshaledDispatch s (.parsed e)).1 = .ok (.doc d) := by
  rw [marshaled_single s hpool e ht hl]
  simp [hd, finalReply, hser]

/-- Tie to the source: both `except Exception` handlers of `_marshaled_single_dispatch` hand the request
    id to the Fault they build (the model's `internalFault ex rid`). -/
theorem C03_gen_exceptFaultsCarryId : Generated.exceptFaultsCarryId = some [true, true] := by decide

/- Non-vacuity: ids 0, false, a float and a structured id are echoed as such; a raising custom
   dispatcher keeps the id; order is the entry order. -/

private def exSrv : Server :=
  { cfg := {},
    reg := { funcs := [("add", { sig := { names := ["a", "b"] }, body := fun _ => .ret (.int 3) })] } }

private def exCustom : Server :=
  { cfg := {}, custom := some (fun _ _ => .raised "ValueError" "from custom" false false) }

private def call (rid : PyVal) : PyVal :=
  mkDict [("jsonrpc", .str "2.0"), ("id", rid), ("method", .str "add"), ("params", .list [.int 1, .int 2])]

example : (marshaledDispatch exSrv (.parsed (.list [call (.int 0), call (.bool false),
      mkDict [("jsonrpc", .str "2.0"), ("method", .str "add"), ("params", .list [.int 1, .int 2])],
      call (.list [.int 1, .str "a"])]))).1
    = .ok (.doc (.list [
      .dict [(.str "result", .int 3), (.str "id", .int 0), (.str "jsonrpc", .str "2.0")],
      .dict [(.str "result", .int 3), (.str "id", .bool false), (.str "jsonrpc", .str "2.0")],
      .dict [(.str "result", .int 3), (.str "id", .list [.int 1, .str "a"]), (.str "jsonrpc", .str "2.0")]])) := by
  decide +kernel

example : respond exCustom (call (.int 3))
    = some (.dict [(.str "id", .int 3), (.str "jsonrpc", .str "2.0"),
        (.str "error", .dict [(.str "code", .int (-32603)), (.str "message", .str "ValueError:from custom")])]) := by
  decide +kernel

example : wfNotification (mkDict [("id", .none), ("method", .str "add"), ("params", .list [])]) = true := by
  decide +kernel

end JRV.Props
