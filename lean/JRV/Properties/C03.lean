/-
  C03 — Responses echo the request id; batches answer one-to-one and in order.

  `respond s e` (JRV.Lemmas.Server) is the response object the model gives the entry `e` (`none`: no
  response); it is *defined from the model* (validate, then answer the fault or dispatch), and
  `batchLoop_eq` shows by induction on the entry list that the accumulator loop of
  `_unmarshaled_dispatch` computes exactly `entries.filterMap (respond s)`.

  Since fix 00c214e the last step of `_marshaled_dispatch` serialises every response on its own when
  `jdumps` rejects the reply: `sent d` (JRV.Lemmas.Server) is what goes out for the response object `d`
  — `d` itself, or a −32603 response of the same form that keeps `d`'s id when that id has a JSON value
  (`keptId`).  `answer s e = (respond s e).map sent` is therefore what the client sees for the entry
  `e`, and the reply array of a batch is `entries.filterMap (answer s)` — ALWAYS: no input collapses a
  batch any more (the third branch of the former `C03_batch_order` is gone).

  The theorems hold for every server: default, instance and custom dispatchers, every callable
  behaviour (return, raise, return a value whose conversion raises — `conv` is arbitrary — or which the
  JSON library rejects), both versions, pool absent or accepting (`s.pool ≠ .full`, see C02).

  The companion theorem of the extracted fact (`C03_gen_*`) is in JRV/Properties/C03Gen.lean.
-/
import JRV.Lemmas.Server

set_option linter.unusedSimpArgs false
set_option linter.unusedVariables false

namespace JRV.Props
open JRV JRV.PyVal JRV.Callable JRV.Payload JRV.Server

/- ---------- lemmas ---------- -/

private theorem shape_id {ver : Nat} {rid d : PyVal} (h : RespShape ver rid d) :
    ∃ kvs, d = .dict kvs ∧ lookupStr "id" kvs = some rid := by
  cases h with
  | result r =>
    by_cases hv : ver ≥ 20
    · exact ⟨_, response_v2 ver hv rid r, by simp [lookupStr]⟩
    · exact ⟨_, response_v1 ver (by omega) rid r, by simp [lookupStr]⟩
  | error c m =>
    by_cases hv : ver ≥ 20
    · exact ⟨_, error_v2 ver hv rid _ _, by simp [lookupStr]⟩
    · exact ⟨_, error_v1 ver (by omega) rid _ _, by simp [lookupStr]⟩

/-- What the client sees for the entry `e`: the response object as it is sent (`none`: nothing). -/
def answer (s : Server) (e : PyVal) : Option PyVal := (respond s e).map sent

/-- The id an answer can carry: the id of the entry — the same value — when it has a JSON value;
    `null` when the entry is not an object, has no `id` member, or its id has no JSON value (an
    instance or a set produced by class translation, a dictionary with tuple keys). -/
def echoId (e : PyVal) : PyVal := if serialisable (entryId e) then entryId e else .none

private theorem error_id (ver : Nat) (rid c m : PyVal) :
    ∃ kvs, Payload.error ver rid c m .none = .dict kvs ∧ lookupStr "id" kvs = some rid := by
  by_cases hv : ver ≥ 20
  · exact ⟨_, error_v2 ver hv rid _ _, by simp [lookupStr]⟩
  · exact ⟨_, error_v1 ver (by omega) rid _ _, by simp [lookupStr]⟩

/- ---------- the theorems ---------- -/

/-- Every response object carries the id of the entry that caused it — the same value — or null when
    the entry is not an object or has no `id` member; over all outcome paths (success, unknown method,
    bind error, raising callable, raising custom or instance dispatcher, result whose conversion
    fails, each validation failure), for every server.  And so does what is *sent* for it: when the
    response cannot be serialised, the −32603 response that replaces it still carries the entry's id
    whenever that id has a JSON value (`echoId`), and an id that has none is not an id the reply
    could carry (`C03_unusable_id_never_sent`). -/
theorem C03_id_echo (s : Server) (e d : PyVal) (h : respond s e = some d) :
    (∃ kvs, d = .dict kvs ∧ lookupStr "id" kvs = some (entryId e)) ∧
    (∃ kvs, sent d = .dict kvs ∧ lookupStr "id" kvs = some (echoId e)) := by
  obtain ⟨ver, _, hs⟩ := respond_shape s e d h
  obtain ⟨kvs, hd, hid⟩ := shape_id hs
  refine ⟨⟨kvs, hd, hid⟩, ?_⟩
  subst hd
  by_cases hser : serialisable (.dict kvs) = true
  · refine ⟨kvs, by simp [sent, hser], ?_⟩
    have : serialisable (entryId e) = true :=
      serialisableKVs_lookup "id" kvs _ (by simpa [serialisable] using hser) hid
    simp [echoId, this, hid]
  · have hrid : respId (.dict kvs) = entryId e := by simp [respId, hid]
    obtain ⟨kvs', hk, hl⟩ := error_id (if respHasJsonrpc (.dict kvs) then 20 else 10) (keptId (entryId e))
      (.int codeInternal) (.str msgSerialize)
    refine ⟨kvs', ?_, ?_⟩
    · simp only [sent, hser, Bool.false_eq_true, ↓reduceIte, replacement, hrid]; exact hk
    · rw [hl]; rfl

/-- The same for `answer`: every answer is an object whose id is `echoId` of its entry. -/
theorem C03_answer_id (s : Server) (e a : PyVal) (h : answer s e = some a) :
    ∃ kvs, a = .dict kvs ∧ lookupStr "id" kvs = some (echoId e) := by
  simp only [answer, Option.map_eq_some_iff] at h
  obtain ⟨d, hd, ha⟩ := h
  subst ha
  exact (C03_id_echo s e d hd).2

/-- An id without JSON value cannot be part of any reply: every document sent is serialisable. -/
theorem C03_unusable_id_never_sent (s : Server) (e a : PyVal) (h : answer s e = some a) :
    serialisable a = true := by
  simp only [answer, Option.map_eq_some_iff] at h
  obtain ⟨d, _, ha⟩ := h
  subst ha
  exact serialisable_sent d

/-- An entry gets no response exactly when it is a well-formed notification: every other entry —
    calls, failing calls, unknown methods, invalid entries — gets exactly one. -/
theorem C03_answered_iff (s : Server) (hpool : s.pool ≠ .full) (e : PyVal) :
    respond s e = Option.none ↔ wfNotification e = true := by
  simp only [wfNotification, Bool.and_eq_true, ← valid_iff_wfRequest]
  constructor
  · intro h
    simp only [respond, entryNF] at h
    cases hv : validateNF e with
    | fault f => simp [hv] at h
    | valid kvs m p =>
      refine ⟨⟨kvs, m, p, rfl⟩, ?_⟩
      rw [← valid_notif e kvs m p hv]
      simp only [hv, singleNF] at h
      cases hn : notifNF kvs <;> cases hp : s.pool <;> simp_all [raise]
  · rintro ⟨⟨kvs, m, p, hv⟩, hn⟩
    rw [← valid_notif e kvs m p hv] at hn
    simp only [respond, entryNF, hv, singleNF, hn]
    cases hp : s.pool <;> simp_all

theorem C03_answer_none_iff (s : Server) (hpool : s.pool ≠ .full) (e : PyVal) :
    answer s e = Option.none ↔ wfNotification e = true := by
  rw [← C03_answered_iff s hpool e]
  simp [answer]

private theorem filterMap_answer (s : Server) (entries : List PyVal) :
    entries.filterMap (answer s) = (entries.filterMap (respond s)).map sent := by
  induction entries with
  | nil => rfl
  | cons e rest ih => cases h : respond s e <;> simp [List.filterMap_cons, answer, h, ← ih]

/-- One-to-one and in order, ALWAYS: the reply array of a batch is exactly
    `entries.filterMap (answer s)` — what is sent for the response of each answered entry, in entry
    order; an element that cannot be serialised is replaced individually and never takes the others
    with it. -/
theorem C03_batch_order (s : Server) (hpool : s.pool ≠ .full) (entries : List PyVal) (hne : entries ≠ []) :
    (marshaledDispatch s (.parsed (.list entries))).1 =
      .ok (if (entries.filterMap (answer s)).isEmpty then .empty
           else .doc (.list (entries.filterMap (answer s)))) := by
  rw [marshaled_batch s hpool entries hne, finalReply_list, filterMap_answer]
  cases entries.filterMap (respond s) <;> simp

/-- The number of responses — built and sent — is the number of entries that are not well-formed notifications. -/
theorem C03_one_per_entry (s : Server) (hpool : s.pool ≠ .full) (entries : List PyVal) :
    (entries.filterMap (respond s)).length = entries.countP (fun e => !wfNotification e) ∧
    (entries.filterMap (answer s)).length = entries.countP (fun e => !wfNotification e) := by
  have h1 : (entries.filterMap (respond s)).length = entries.countP (fun e => !wfNotification e) := by
    induction entries with
    | nil => rfl
    | cons e rest ih =>
      cases hr : respond s e with
      | none =>
        have := (C03_answered_iff s hpool e).mp hr
        simp [List.filterMap_cons, hr, ih, this]
      | some d =>
        have : wfNotification e = false := by
          cases hw : wfNotification e with
          | false => rfl
          | true => rw [(C03_answered_iff s hpool e).mpr hw] at hr; exact absurd hr (by simp)
        simp [List.filterMap_cons, hr, ih, this]
  exact ⟨h1, by rw [filterMap_answer, List.length_map, h1]⟩

/-- A batch that produces no response yields the empty body … -/
theorem C03_empty_body (s : Server) (hpool : s.pool ≠ .full) (entries : List PyVal) (hne : entries ≠ [])
    (hnone : entries.filterMap (respond s) = []) :
    (marshaledDispatch s (.parsed (.list entries))).1 = .ok .empty := by
  rw [C03_batch_order s hpool entries hne, filterMap_answer, hnone]
  rfl

/-- … and no request body at all is ever answered with an empty array. -/
theorem C03_never_empty_array (s : Server) (hpool : s.pool ≠ .full) (po : ParseOutcome) :
    (marshaledDispatch s po).1 ≠ .ok (.doc (.list [])) := by
  have hfd : ∀ cfg f, faultDump cfg f ≠ .list [] := by
    intro cfg f
    simp only [faultDump, Payload.error, Payload.response]
    split <;> split <;> simp_all
  cases po with
  | parseError => rw [marshaled_parseError]; simp [hfd]
  | parsed e =>
    by_cases ht : e.truthy = true
    · by_cases hl : e.isList = true
      · cases e <;> simp [isList] at hl
        rename_i entries
        have hne : entries ≠ [] := by cases entries <;> simp_all [truthy]
        rw [C03_batch_order s hpool entries hne]
        split
        · simp
        · rename_i hnonempty
          intro h; injection h with h; injection h with h; injection h with h
          simp [h] at hnonempty
      · rw [marshaled_single s hpool e ht (by simpa using hl)]
        cases hr : respond s e with
        | none => simp
        | some d =>
          obtain ⟨_, kvs, hd, _⟩ := C03_id_echo s e d hr
          obtain ⟨kvs0, hd0⟩ := respond_dict s e d hr
          subst hd0
          simp [finalReply_dict, hd]
    · rw [marshaled_falsy s e (by simpa using ht)]; simp [hfd]

/-- A single request is answered with what is sent for the response of that entry (or the empty body
    for a notification) — whether or not the response can be serialised. -/
theorem C03_single (s : Server) (hpool : s.pool ≠ .full) (e : PyVal) (ht : e.truthy = true) (hl : e.isList = false)
    (d : PyVal) (hd : respond s e = some d) :
    (marshaledDispatch s (.parsed e)).1 = .ok (.doc (sent d)) := by
  rw [marshaled_single s hpool e ht hl]
  obtain ⟨kvs, hk⟩ := respond_dict s e d hd
  subst hk
  simp [hd, finalReply_dict]

/- Non-vacuity: ids 0, false, a float and a structured id are echoed as such; a raising custom
   dispatcher keeps the id; order is the entry order. -/

private def exSrv : Server :=
  { cfg := {},
    reg := { funcs := [("add", { sig := { names := ["a", "b"] }, body := fun _ => .ret (.int 3) })] } }

private def exCustom : Server :=
  { cfg := {}, custom := some (fun _ _ => .raised "ValueError" "from custom" false false 1) }

private def call (rid : PyVal) : PyVal :=
  mkDict [("jsonrpc", .str "2.0"), ("id", rid), ("method", .str "add"), ("params", .list [.int 1, .int 2])]

example : (marshaledDispatch exSrv (.parsed (.list [call (.int 0), call (.bool false),
      mkDict [("jsonrpc", .str "2.0"), ("method", .str "add"), ("params", .list [.int 1, .int 2])],
      call (.list [.int 1, .str "a"])]))).1
    = .ok (.doc (.list [
      .dict [(.str "result", .int 3), (.str "id", .int 0), (.str "jsonrpc", .str "2.0")],
      .dict [(.str "result", .int 3), (.str "id", .bool false), (.str "jsonrpc", .str "2.0")],
      .dict [(.str "result", .int 3), (.str "id", .list [.int 1, .str "a"]), (.str "jsonrpc", .str "2.0")]])) := by
  decide +kernel

example : respond exCustom (call (.int 3))
    = some (.dict [(.str "id", .int 3), (.str "jsonrpc", .str "2.0"),
        (.str "error", .dict [(.str "code", .int (-32603)), (.str "message", .str "ValueError:from custom")])]) := by
  decide +kernel

example : wfNotification (mkDict [("id", .none), ("method", .str "add"), ("params", .list [])]) = true := by
  decide +kernel

/- An id that class translation turned into an instance has no JSON value: that one response is replaced
   (id null), the next entry of the batch keeps its response and its id. -/
example : (marshaledDispatch exSrv (.parsed (.list [call (.obj "Decimal" [("repr", .str "1")]), call (.int 4)]))).1
    = .ok (.doc (.list [
      .dict [(.str "id", .none), (.str "jsonrpc", .str "2.0"),
             (.str "error", .dict [(.str "code", .int (-32603)), (.str "message", .str msgSerialize)])],
      .dict [(.str "result", .int 3), (.str "id", .int 4), (.str "jsonrpc", .str "2.0")]])) := by
  decide +kernel

end JRV.Props
