/-
  C03 — companion theorems of the extracted facts (see C02Gen.lean for the convention).
-/
import JRV.Model.Server
import JRV.Generated

namespace JRV.Props
open JRV JRV.Server

/-- Both `except Exception` handlers of `_marshaled_single_dispatch` hand the request id to the Fault they
    build (the model's `internalFault ex rid`). -/
theorem C03_gen_exceptFaultsCarryId : Generated.exceptFaultsCarryId = some [true, true] := by decide

/-- The ids that make a validated request a notification (hence unanswered): the model's `notifIds`. -/
theorem C03_gen_notifIds :
    Generated.notifIds = some [Option.none, some ""] ∧
    notifIds = ([Option.none, some ""] : List (Option String)).map
      (fun o => match o with | Option.none => PyVal.none | some t => PyVal.str t) :=
  ⟨by decide, rfl⟩

/-- The batch loop runs over the whole request list (the model's `batchLoop s [] entries`). -/
theorem C03_gen_batchLoopOverRequest : Generated.batchLoopOverRequest = some true := by decide

/-- `_safe_jdumps`: a response that cannot be serialised is caught per response (`safeJdumps`). -/
theorem C03_gen_safeJdumpsGuarded : Generated.safeJdumpsGuarded = some true := by decide

/-- The id a replaced response keeps is the response's id exactly when it can be serialised on its own
    (`keptId`): the id echo of `C03_answer_id` / `C03_unusable_id_never_sent` rests on it. -/
theorem C03_gen_safeJdumpsIdProbe : Generated.safeJdumpsIdProbe = some true := by decide

end JRV.Props
