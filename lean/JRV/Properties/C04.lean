/-
  C04 — Notifications are executed exactly once and never answered (server side).

  This file covers the dispatcher: the notification test, the inline path (call, discard the result or
  the exception) and the pooled path up to and including the `enqueue` (exactly one task is handed to
  the pool, nothing is called by the request thread).  "Executed" is a statement about the effect log.

  HOOK (composition with the thread-pool model, C09): `taskEffects s eff` is what executing the task of
  an `enqueue` effect does; `C04_task_runs_callable_once` shows one execution of the task is exactly one
  invocation.  The pool theorems ("every enqueued task is executed exactly once in every schedule") are to be
  instantiated on it; they are not part of this file.  The client half (`_request_notify` returns None)
  belongs to the client model (C06/C14 files).
-/
import JRV.Lemmas.Server
import JRV.Properties.C03
import JRV.Generated

set_option linter.unusedSimpArgs false
set_option linter.unusedVariables false

namespace JRV.Props
open JRV JRV.PyVal JRV.Callable JRV.Payload JRV.Server

/-- HOOK for C09: the effects of executing the task that an `enqueue` effect put on the pool —
    `dispatch_method(method, params)` or `self._dispatch(method, params, config)`. -/
def taskEffects (s : Server) : Effect → List Effect
  | .enqueue _ method params _ => (runDispatcher s method params).2
  | _ => []

/- ---------- never answered ---------- -/

/-- A well-formed notification gets no response object: whatever its method does (returns, raises,
    does not exist, gets bad arguments), with the default, an instance or a custom dispatcher, with or
    without a notification pool. -/
theorem C04_never_answered (s : Server) (hpool : s.pool ≠ .full) (e : PyVal) (h : wfNotification e = true) :
    respond s e = Option.none :=
  (C03_answered_iff s hpool e).mpr h

/-- Alone: the body is empty. -/
theorem C04_never_answered_alone (s : Server) (hpool : s.pool ≠ .full) (e : PyVal) (h : wfNotification e = true) :
    (marshaledDispatch s (.parsed e)).1 = .ok .empty := by
  have hd : ∃ kvs, e = .dict kvs := by
    cases e <;> simp [wfNotification, wfRequest] at h
    exact ⟨_, rfl⟩
  obtain ⟨kvs, he⟩ := hd
  have ht : e.truthy = true := by
    subst he
    cases kvs <;> simp_all [wfNotification, wfRequest, truthy, hasKeyStr, lookupStr]
  rw [marshaled_single s hpool e ht (by subst he; rfl), C04_never_answered s hpool e h]

/-- At any batch position: the notification contributes nothing to the reply array. -/
theorem C04_never_answered_in_batch (s : Server) (hpool : s.pool ≠ .full) (pre post : List PyVal) (e : PyVal)
    (h : wfNotification e = true) :
    (pre ++ e :: post).filterMap (respond s) = pre.filterMap (respond s) ++ post.filterMap (respond s) := by
  simp [List.filterMap_append, List.filterMap_cons, C04_never_answered s hpool e h]

/-- The effect log of a batch is the concatenation of the logs of its entries, in entry order: what an
    entry causes does not depend on its position or on its neighbours. -/
theorem C04_batch_effects (s : Server) (hpool : s.pool ≠ .full) (entries : List PyVal) (hne : entries ≠ []) :
    (marshaledDispatch s (.parsed (.list entries))).2 = entries.flatMap (entryEffects s) := by
  rw [marshaled_batch s hpool entries hne]

/- ---------- executed exactly once, inline ---------- -/

/-- No pool, default dispatcher, the method is a registered function and the arguments bind: the effect log
    of the entry is exactly one call of that function with the request's `params` (`[]` when absent) —
    whether the body returns or raises, and whether or not the entry is a notification. -/
theorem C04_once_inline (s : Server) (hpool : s.pool = .absent) (hcustom : s.custom = Option.none)
    (e : PyVal) (kvs : List (PyVal × PyVal)) (m : String) (p : PyVal) (hv : validateNF e = .valid kvs m p)
    (c : Callable) (hf : s.reg.funcs.lookup m = some c) (hb : binds c.sig p = true) :
    entryEffects s e = [.call .func (.str m) p] := by
  simp only [entryEffects, entryNF, hv, singleNF, hpool, runDispatcher, hcustom, dispatch, hf, invoke, hb]
  cases notifNF kvs <;> cases c.body p <;> simp

/-- Same through the registered instance (no `_dispatch` of its own): one call of the resolved attribute. -/
theorem C04_once_inline_instance (s : Server) (hpool : s.pool = .absent) (hcustom : s.custom = Option.none)
    (e : PyVal) (kvs : List (PyVal × PyVal)) (m : String) (p : PyVal) (hv : validateNF e = .valid kvs m p)
    (hf : s.reg.funcs.lookup m = Option.none) (inst : Instance) (hi : s.reg.inst = some inst)
    (hd : inst.dispatch = Option.none) (a : Attr) (hr : resolveDotted inst m = some a)
    (c : Callable) (hc : a.callable = some c) (hb : binds c.sig p = true) :
    entryEffects s e = [.call .attr (.str m) p] := by
  simp only [entryEffects, entryNF, hv, singleNF, hpool, runDispatcher, hcustom, dispatch, hf, hi, hd,
    resolveAndInvoke, hr, hc, invoke, hb]
  cases notifNF kvs <;> cases c.body p <;> simp

/-- The method does not exist (no function of that name, no instance): looked up once, nothing runs.
    The same holds when the arguments do not bind. -/
theorem C04_zero_when_unknown (s : Server) (hpool : s.pool = .absent) (hcustom : s.custom = Option.none)
    (e : PyVal) (kvs : List (PyVal × PyVal)) (m : String) (p : PyVal) (hv : validateNF e = .valid kvs m p) :
    (s.reg.funcs.lookup m = Option.none → s.reg.inst = Option.none → entryEffects s e = []) ∧
    (∀ c, s.reg.funcs.lookup m = some c → binds c.sig p = false → entryEffects s e = []) := by
  constructor
  · intro hf hi
    simp only [entryEffects, entryNF, hv, singleNF, hpool, runDispatcher, hcustom, dispatch, hf, hi]
    cases notifNF kvs <;> simp
  · intro c hf hb
    simp only [entryEffects, entryNF, hv, singleNF, hpool, runDispatcher, hcustom, dispatch, hf, invoke, hb]
    cases notifNF kvs <;> simp

/-- Custom dispatch function, no pool: it is called exactly once with `(method, params)`, whether it
    returns or raises. -/
theorem C04_once_custom (s : Server) (hpool : s.pool = .absent) (d : DispatchFn) (hcustom : s.custom = some d)
    (e : PyVal) (kvs : List (PyVal × PyVal)) (m : String) (p : PyVal) (hv : validateNF e = .valid kvs m p) :
    entryEffects s e = [.call .custom (.str m) p] := by
  simp only [entryEffects, entryNF, hv, singleNF, hpool, runDispatcher, hcustom]
  cases notifNF kvs <;> cases d (.str m) p <;> simp

/- ---------- pooled: exactly one enqueue, no call ---------- -/

/-- With a notification pool, a well-formed notification causes exactly one `enqueue` — of the custom
    function or of `_dispatch`, with the request's method and params and the request-specific version —
    and the request thread calls nothing. -/
theorem C04_once_pooled_enqueue (s : Server) (hpool : s.pool = .accepting)
    (e : PyVal) (kvs : List (PyVal × PyVal)) (m : String) (p : PyVal) (hv : validateNF e = .valid kvs m p)
    (hn : wfNotification e = true) :
    entryEffects s e =
      [.enqueue s.custom.isSome (.str m) p (requestConfig s.cfg (hasKeyStr "jsonrpc" kvs)).version] ∧
    respond s e = Option.none := by
  have hnotif : notifNF kvs = true := by
    have hid : idIsNotification e = true := by
      simp only [wfNotification, Bool.and_eq_true] at hn; exact hn.2
    obtain ⟨kvs0, he, hk, _⟩ := validateNF_valid hv
    subst he; subst hk
    simp only [notifNF, lookupStr_withParams "id" (by decide)]
    simp only [idIsNotification] at hid
    cases h : lookupStr "id" kvs0 with
    | none => rfl
    | some i => cases i <;> simp_all [notifIds, pyEq, numEq, asInt?]
  constructor
  · simp [entryEffects, entryNF, hv, singleNF, hpool, hnotif]
  · exact C04_never_answered s (by simp [hpool]) e hn

/-- With a pool, a request that is *not* a notification is still handled inline (nothing is enqueued). -/
theorem C04_pool_only_for_notifications (s : Server) (hpool : s.pool = .accepting)
    (e : PyVal) (kvs : List (PyVal × PyVal)) (m : String) (p : PyVal) (hv : validateNF e = .valid kvs m p)
    (hn : notifNF kvs = false) :
    entryEffects s e = (runDispatcher s (.str m) p).2 := by
  simp [entryEffects, entryNF, hv, singleNF, hpool, hn]

/-- HOOK for C09: executing the enqueued task once invokes the registered function exactly once. -/
theorem C04_task_runs_callable_once (s : Server) (hcustom : s.custom = Option.none) (m : String) (p : PyVal) (ver : Nat)
    (c : Callable) (hf : s.reg.funcs.lookup m = some c) (hb : binds c.sig p = true) :
    taskEffects s (.enqueue false (.str m) p ver) = [.call .func (.str m) p] := by
  simp only [taskEffects, runDispatcher, hcustom, dispatch, hf, invoke, hb]
  cases c.body p <;> simp

theorem C04_task_runs_custom_once (s : Server) (d : DispatchFn) (hcustom : s.custom = some d) (m : String) (p : PyVal)
    (ver : Nat) : taskEffects s (.enqueue true (.str m) p ver) = [.call .custom (.str m) p] := by
  simp only [taskEffects, runDispatcher, hcustom]
  cases d (.str m) p <;> simp

/-- Tie to the source: the notification ids, and the silent exception path. -/
theorem C04_gen_notifIds :
    Generated.notifIds = some [Option.none, some ""] ∧
    notifIds = ([Option.none, some ""] : List (Option String)).map
      (fun o => match o with | Option.none => PyVal.none | some t => PyVal.str t) :=
  ⟨by decide, rfl⟩

theorem C04_gen_exceptPathSilencesNotification : Generated.exceptPathSilencesNotification = some true := by decide

/- Non-vacuity: notifications whose method raises / does not exist / gets bad arguments, at a batch
   position, inline and pooled. -/

private def exReg : Registry :=
  { funcs := [("add", { sig := { names := ["a", "b"] }, body := fun _ => .ret (.int 3) }),
              ("boom", { sig := { names := [], star := true }, body := fun _ => .raised "ValueError" "boom" false false })] }

private def notif (m : String) (ps : List PyVal) : PyVal :=
  mkDict [("jsonrpc", .str "2.0"), ("method", .str m), ("params", .list ps)]

example : marshaledDispatch { cfg := {}, reg := exReg }
    (.parsed (.list [notif "boom" [], notif "nosuch" [], notif "add" [.int 1], notif "add" [.int 1, .int 2]]))
    = (.ok .empty, [.call .func (.str "boom") (.list []), .call .func (.str "add") (.list [.int 1, .int 2])]) := by
  decide +kernel

example : marshaledDispatch { cfg := {}, reg := exReg, pool := .accepting }
    (.parsed (.list [notif "boom" [], mkDict [("id", .str ""), ("method", .str "add")]]))
    = (.ok .empty, [.enqueue false (.str "boom") (.list []) 20, .enqueue false (.str "add") (.list []) 10]) := by
  decide +kernel

example : marshaledDispatch { cfg := {}, custom := some (fun _ _ => .raised "KeyError" "'x'" false false) }
    (.parsed (notif "anything" []))
    = (.ok .empty, [.call .custom (.str "anything") (.list [])]) := by
  decide +kernel

end JRV.Props
