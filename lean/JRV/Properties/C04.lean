/-
  C04 — Notifications are executed exactly once and never answered (server side).

  This file covers the dispatcher: the notification test, the inline path (call, discard the result or
  the exception) and the pooled path up to and including the `enqueue` (exactly one task is handed to
  the pool, nothing is called by the request thread).  "Executed" is a statement about the effect log.

  HOOK (composition with the thread-pool model, C09): `taskEffects s eff` is what executing the task of
  an `enqueue` effect does; `C04_task_runs_callable_once` shows one execution of the task is exactly one
  invocation.  `C04_once_pooled` (end of this file) instantiates the pool theorems of C09 on the task that the
  `enqueue` effect creates in `JRV.Model.Pool`.  The client half (`_request_notify` returns None)
  belongs to the client model (C06/C14 files).
-/
import JRV.Lemmas.Server
import JRV.Lemmas.JsonTextWs
import JRV.Lemmas.PoolCompose
import JRV.Properties.C03
import JRV.Properties.C09
import JRV.Generated

set_option linter.unusedSimpArgs false
set_option linter.unusedVariables false

namespace JRV.Props
open JRV JRV.PyVal JRV.Callable JRV.Payload JRV.Server

/-- HOOK for C09: the effects of executing the task that an `enqueue` effect put on the pool —
    `dispatch_method(method, params)` or `self._dispatch(method, params, config)`. -/
def taskEffects (s : Server) : Effect → List Effect
  | .enqueue _ method params _ => (runDispatcher s method params).2
  | _ => []

/- ---------- never answered ---------- -/

/-- A well-formed notification gets no response object: whatever its method does (returns, raises,
    does not exist, gets bad arguments), with the default, an instance or a custom dispatcher, with or
    without a notification pool. -/
theorem C04_never_answered (s : Server) (hpool : s.pool ≠ .full) (e : PyVal) (h : wfNotification e = true) :
    respond s e = Option.none :=
  (C03_answered_iff s hpool e).mpr h

/-- Alone: the body is empty. -/
theorem C04_never_answered_alone (s : Server) (hpool : s.pool ≠ .full) (e : PyVal) (h : wfNotification e = true) :
    (marshaledDispatch s (.parsed e)).1 = .ok .empty := by
  have hd : ∃ kvs, e = .dict kvs := by
    cases e <;> simp [wfNotification, wfRequest] at h
    exact ⟨_, rfl⟩
  obtain ⟨kvs, he⟩ := hd
  have ht : e.truthy = true := by
    subst he
    cases kvs <;> simp_all [wfNotification, wfRequest, truthy, hasKeyStr, lookupStr]
  rw [marshaled_single s hpool e ht (by subst he; rfl), C04_never_answered s hpool e h]

/-- At any batch position: the notification contributes nothing to the reply array. -/
theorem C04_never_answered_in_batch (s : Server) (hpool : s.pool ≠ .full) (pre post : List PyVal) (e : PyVal)
    (h : wfNotification e = true) :
    (pre ++ e :: post).filterMap (respond s) = pre.filterMap (respond s) ++ post.filterMap (respond s) := by
  simp [List.filterMap_append, List.filterMap_cons, C04_never_answered s hpool e h]

/-- The effect log of a batch is the concatenation of the logs of its entries, in entry order: what an
    entry causes does not depend on its position or on its neighbours. -/
theorem C04_batch_effects (s : Server) (hpool : s.pool ≠ .full) (entries : List PyVal) (hne : entries ≠ []) :
    (marshaledDispatch s (.parsed (.list entries))).2 = entries.flatMap (entryEffects s) := by
  rw [marshaled_batch s hpool entries hne]

/- ---------- executed exactly once, inline ---------- -/

/-- No pool, default dispatcher, the method is a registered function and the arguments bind: the effect log
    of the entry is exactly one call of that function with the request's `params` (`[]` when absent) —
    whether the body returns or raises, and whether or not the entry is a notification. -/
theorem C04_once_inline (s : Server) (hpool : s.pool = .absent) (hcustom : s.custom = Option.none)
    (e : PyVal) (kvs : List (PyVal × PyVal)) (m : String) (p : PyVal) (hv : validateNF e = .valid kvs m p)
    (c : Callable) (hf : s.reg.funcs.lookup m = some c) (hb : binds c.sig p = true) :
    entryEffects s e = [.call .func (.str m) p] := by
  simp only [entryEffects, entryNF, hv, singleNF, hpool, runDispatcher, hcustom, dispatch, hf, invoke, hb]
  cases notifNF kvs <;> cases c.body p <;> simp

/-- Same through the registered instance (no `_dispatch` of its own): one call of the resolved attribute. -/
theorem C04_once_inline_instance (s : Server) (hpool : s.pool = .absent) (hcustom : s.custom = Option.none)
    (e : PyVal) (kvs : List (PyVal × PyVal)) (m : String) (p : PyVal) (hv : validateNF e = .valid kvs m p)
    (hf : s.reg.funcs.lookup m = Option.none) (inst : Instance) (hi : s.reg.inst = some inst)
    (hd : inst.dispatch = Option.none) (a : Attr) (hr : resolveDotted inst m = some a)
    (c : Callable) (hc : a.callable = some c) (hb : binds c.sig p = true) :
    entryEffects s e = [.call .attr (.str m) p] := by
  simp only [entryEffects, entryNF, hv, singleNF, hpool, runDispatcher, hcustom, dispatch, hf, hi, hd,
    resolveAndInvoke, hr, hc, invoke, hb]
  cases notifNF kvs <;> cases c.body p <;> simp

/-- The method does not exist (no function of that name, no instance): looked up once, nothing runs.
    The same holds when the arguments do not bind. -/
theorem C04_zero_when_unknown (s : Server) (hpool : s.pool = .absent) (hcustom : s.custom = Option.none)
    (e : PyVal) (kvs : List (PyVal × PyVal)) (m : String) (p : PyVal) (hv : validateNF e = .valid kvs m p) :
    (s.reg.funcs.lookup m = Option.none → s.reg.inst = Option.none → entryEffects s e = []) ∧
    (∀ c, s.reg.funcs.lookup m = some c → binds c.sig p = false → entryEffects s e = []) := by
  constructor
  · intro hf hi
    simp only [entryEffects, entryNF, hv, singleNF, hpool, runDispatcher, hcustom, dispatch, hf, hi]
    cases notifNF kvs <;> simp
  · intro c hf hb
    simp only [entryEffects, entryNF, hv, singleNF, hpool, runDispatcher, hcustom, dispatch, hf, invoke, hb]
    cases notifNF kvs <;> simp

/-- Custom dispatch function, no pool: it is called exactly once with `(method, params)`, whether it
    returns or raises. -/
theorem C04_once_custom (s : Server) (hpool : s.pool = .absent) (d : DispatchFn) (hcustom : s.custom = some d)
    (e : PyVal) (kvs : List (PyVal × PyVal)) (m : String) (p : PyVal) (hv : validateNF e = .valid kvs m p) :
    entryEffects s e = [.call .custom (.str m) p] := by
  simp only [entryEffects, entryNF, hv, singleNF, hpool, runDispatcher, hcustom]
  cases notifNF kvs <;> cases d (.str m) p <;> simp

/- ---------- method outcomes that are not instances of `Exception` ---------- -/

/-- "All method outcomes (return, raise, …)": a registered function or instance attribute that raises an exception
    which is NOT an instance of `Exception` — `sys.exit()` in a "quit" handler (SystemExit), KeyboardInterrupt,
    GeneratorExit, CancelledError, a user class deriving from BaseException directly: `CallOutcome.raisedBase`.  The
    exception does not leave `_dispatch`: its last handler is a bare `except:` (fact `dispatchCallCatchAll`), the
    outcome is the −32603 Fault *object* of a method exception, after exactly one invocation. -/
theorem C04_base_exception_contained (t : Target) (c : Callable) (method p : PyVal) (hb : binds c.sig p = true)
    (cls text : String) (depth : Nat) (hbody : c.body p = .raisedBase cls text depth) :
    invoke t (some c) method p = (.fault codeInternal (msgServerError cls text), [.call t method p]) := by
  simp [invoke, hb, hbody, handleCallExc, methodExceptionFault]

/-- … hence a notification of such a method, inline, alone: it runs exactly once and the body of the reply is empty;
    at a batch position it contributes its one call and no response (`C04_batch_effects`, `C04_never_answered_in_batch`). -/
theorem C04_base_exception_notification (s : Server) (hpool : s.pool = .absent) (hcustom : s.custom = Option.none)
    (e : PyVal) (kvs : List (PyVal × PyVal)) (m : String) (p : PyVal) (hv : validateNF e = .valid kvs m p)
    (hn : wfNotification e = true)
    (c : Callable) (hf : s.reg.funcs.lookup m = some c) (hb : binds c.sig p = true)
    (cls text : String) (depth : Nat) (hbody : c.body p = .raisedBase cls text depth) :
    (runDispatcher s (.str m) p) = (.ok (.fault codeInternal (msgServerError cls text)), [.call .func (.str m) p]) ∧
    entryEffects s e = [.call .func (.str m) p] ∧
    respond s e = Option.none ∧
    (marshaledDispatch s (.parsed e)).1 = .ok .empty := by
  have hp : s.pool ≠ .full := by simp [hpool]
  refine ⟨?_, C04_once_inline s hpool hcustom e kvs m p hv c hf hb, C04_never_answered s hp e hn,
    C04_never_answered_alone s hp e hn⟩
  simp only [runDispatcher, hcustom, dispatch, hf, C04_base_exception_contained .func c (.str m) p hb cls text depth hbody]

/-- The same outcome of a *dispatch function* — the custom function handed to `_marshaled_dispatch`, or (through
    `_dispatch`, whose `except AttributeError` does not take it) the registered instance's own `_dispatch(method, params)`:
    the exception leaves `runDispatcher`, and the handler around the synchronous call, `except BaseException` (fix
    43f3faa, fact `syncCallCatchAll`), takes it: a notification is executed exactly once and gets no response — alone, the
    body of the reply is empty. -/
theorem C04_base_exception_dispatch_fn (s : Server) (hpool : s.pool = .absent) (d : DispatchFn) (hcustom : s.custom = some d)
    (e : PyVal) (kvs : List (PyVal × PyVal)) (m : String) (p : PyVal) (hv : validateNF e = .valid kvs m p)
    (hn : wfNotification e = true)
    (cls text : String) (depth : Nat) (hbody : d (.str m) p = .raisedBase cls text depth) :
    (runDispatcher s (.str m) p) = (.error { cls := cls, arg := .str text }, [.call .custom (.str m) p]) ∧
    entryEffects s e = [.call .custom (.str m) p] ∧
    respond s e = Option.none ∧
    (marshaledDispatch s (.parsed e)).1 = .ok .empty := by
  have hp : s.pool ≠ .full := by simp [hpool]
  refine ⟨?_, C04_once_custom s hpool d hcustom e kvs m p hv, C04_never_answered s hp e hn,
    C04_never_answered_alone s hp e hn⟩
  simp [runDispatcher, hcustom, hbody]

/-- … and of the registered instance's own `_dispatch`. -/
theorem C04_base_exception_instance_dispatch (s : Server) (hpool : s.pool = .absent) (hcustom : s.custom = Option.none)
    (e : PyVal) (kvs : List (PyVal × PyVal)) (m : String) (p : PyVal) (hv : validateNF e = .valid kvs m p)
    (hn : wfNotification e = true)
    (hf : s.reg.funcs.lookup m = Option.none) (inst : Instance) (hi : s.reg.inst = some inst)
    (d : DispatchFn) (hd : inst.dispatch = some d)
    (cls text : String) (depth : Nat) (hbody : d (.str m) p = .raisedBase cls text depth) :
    (runDispatcher s (.str m) p) = (.error { cls := cls, arg := .str text }, [.call .instDispatch (.str m) p]) ∧
    entryEffects s e = [.call .instDispatch (.str m) p] ∧
    respond s e = Option.none ∧
    (marshaledDispatch s (.parsed e)).1 = .ok .empty := by
  have hp : s.pool ≠ .full := by simp [hpool]
  have hrun : (runDispatcher s (.str m) p) = (.error { cls := cls, arg := .str text }, [.call .instDispatch (.str m) p]) := by
    simp [runDispatcher, hcustom, dispatch, hf, hi, hd, hbody]
  refine ⟨hrun, ?_, C04_never_answered s hp e hn, C04_never_answered_alone s hp e hn⟩
  simp only [entryEffects, entryNF, hv, singleNF, hpool, hrun]
  cases notifNF kvs <;> simp

/- ---------- pooled: exactly one enqueue, no call ---------- -/

/-- With a notification pool, a well-formed notification causes exactly one `enqueue` — of the custom
    function or of `_dispatch`, with the request's method and params and the request-specific version —
    and the request thread calls nothing. -/
theorem C04_once_pooled_enqueue (s : Server) (hpool : s.pool = .accepting)
    (e : PyVal) (kvs : List (PyVal × PyVal)) (m : String) (p : PyVal) (hv : validateNF e = .valid kvs m p)
    (hn : wfNotification e = true) :
    entryEffects s e =
      [.enqueue s.custom.isSome (.str m) p (requestConfig s.cfg (hasKeyStr "jsonrpc" kvs)).version] ∧
    respond s e = Option.none := by
  have hnotif : notifNF kvs = true := by
    have hid : idIsNotification e = true := by
      simp only [wfNotification, Bool.and_eq_true] at hn; exact hn.2
    obtain ⟨kvs0, he, hk, _⟩ := validateNF_valid hv
    subst he; subst hk
    simp only [notifNF, lookupStr_withParams "id" (by decide)]
    simp only [idIsNotification] at hid
    cases h : lookupStr "id" kvs0 with
    | none => rfl
    | some i => cases i <;> simp_all [notifIds, pyEq, numEq, asInt?]
  constructor
  · simp [entryEffects, entryNF, hv, singleNF, hpool, hnotif]
  · exact C04_never_answered s (by simp [hpool]) e hn

/-- With a pool, a request that is *not* a notification is still handled inline (nothing is enqueued). -/
theorem C04_pool_only_for_notifications (s : Server) (hpool : s.pool = .accepting)
    (e : PyVal) (kvs : List (PyVal × PyVal)) (m : String) (p : PyVal) (hv : validateNF e = .valid kvs m p)
    (hn : notifNF kvs = false) :
    entryEffects s e = (runDispatcher s (.str m) p).2 := by
  simp [entryEffects, entryNF, hv, singleNF, hpool, hn]

/-- HOOK for C09: executing the enqueued task once invokes the registered function exactly once. -/
theorem C04_task_runs_callable_once (s : Server) (hcustom : s.custom = Option.none) (m : String) (p : PyVal) (ver : Nat)
    (c : Callable) (hf : s.reg.funcs.lookup m = some c) (hb : binds c.sig p = true) :
    taskEffects s (.enqueue false (.str m) p ver) = [.call .func (.str m) p] := by
  simp only [taskEffects, runDispatcher, hcustom, dispatch, hf, invoke, hb]
  cases c.body p <;> simp

theorem C04_task_runs_custom_once (s : Server) (d : DispatchFn) (hcustom : s.custom = some d) (m : String) (p : PyVal)
    (ver : Nat) : taskEffects s (.enqueue true (.str m) p ver) = [.call .custom (.str m) p] := by
  simp only [taskEffects, runDispatcher, hcustom]
  cases d (.str m) p <;> simp

/- ---------- pooled: composition with the thread-pool model (JRV.Model.Pool, theorems of C09) ---------- -/

/-- The pool-model action with which the request thread — client `i` of `JRV.Model.Pool` — performs an effect of
    the dispatcher's log: an `enqueue` effect is one call of `ThreadPool.enqueue`; inline calls do not touch the pool. -/
def poolCallOf (i : Nat) : Effect → Option JRV.Pool.Action
  | .enqueue _ _ _ _ => Option.some ⟨.client i, .callEnqueue, false⟩
  | _ => Option.none

/-- The callable invocations that the pool task `t` carrying the `enqueue` effect `eff` has caused up to the pool
    state `ps`: one copy of `taskEffects s eff` per execution of the task body (`execCount` counts `task.begin`). -/
def pooledEffects (s : Server) (eff : Effect) (ps : JRV.Pool.State) (t : Nat) : List Effect :=
  match ps.tasks[t]? with
  | Option.some tk => (List.replicate tk.execCount (taskEffects s eff)).flatten
  | Option.none => []

/-- Core of the composition (every `enqueue` effect, whatever its task does): the `ThreadPool.enqueue` call of client `i`
    allocates the fresh task id `t = ps.tasks.length`; in every pool state reachable afterwards — any interleaving of any
    number of request threads, workers and the controlling thread, any timing — that id still denotes a task, its body
    has been entered at most once (`C09_at_most_once`), exactly once iff its phase is running or finished
    (`C09_exec_count_phase`), and the invocations it has caused are `taskEffects s eff` once, or nothing yet. -/
private theorem pooled_core (s : Server) (eff : Effect)
    (cfg : JRV.Pool.Config) (n : Nat) (ps ps' : JRV.Pool.State) (hr : JRV.Pool.Reach (JRV.Pool.init cfg n) ps)
    (i : Nat) (hstep : JRV.Pool.step? ps ⟨.client i, .callEnqueue, false⟩ = Option.some ps') :
    ps'.tasks[ps.tasks.length]? = Option.some { creator := i } ∧
    ∀ ps'', JRV.Pool.Reach ps' ps'' →
      ∃ tk, ps''.tasks[ps.tasks.length]? = Option.some tk ∧ tk.execCount ≤ 1 ∧
        tk.execCount = (if tk.phase = .running ∨ tk.phase = .finished then 1 else 0) ∧
        pooledEffects s eff ps'' ps.tasks.length
          = (if tk.phase = .running ∨ tk.phase = .finished then taskEffects s eff else []) := by
  have halloc := JRV.Pool.callEnqueue_allocates hstep
  refine ⟨by simp [halloc], fun ps'' hreach => ?_⟩
  have hr'' : JRV.Pool.Reach (JRV.Pool.init cfg n) ps'' := JRV.Pool.Reach.trans (JRV.Pool.Reach.step _ hr hstep) hreach
  obtain ⟨tk, htk⟩ := JRV.Pool.task_persists hreach (t := ps.tasks.length) (by simp [halloc])
  have h1 := C09_at_most_once cfg n ps'' hr'' _ tk htk
  have h2 := C09_exec_count_phase cfg n ps'' hr'' _ tk htk
  refine ⟨tk, htk, h1, h2, ?_⟩
  simp only [pooledEffects, htk, h2]
  split <;> simp

/-- **Exactly once on the notification pool** (default dispatcher, registered function, arguments bind).
    Dispatcher half: the entry's effect log is exactly one `enqueue`, the request thread calls nothing and produces no
    response object; that `enqueue` is one `ThreadPool.enqueue` call of the request thread (client `i` of the pool model).
    Pool half (direct instantiation of `C09_at_most_once` / `C09_exec_count_phase` on the task id that this call
    allocates, in an arbitrary reachable pool state — the pool may be serving any other requests): in every pool state
    reachable afterwards the registered function has been invoked by this notification at most once, with the request's
    `params`, and exactly once as soon as the task is running or finished; never twice.
    NOT claimed by this theorem: that the task is eventually begun.  That is the liveness half of the pool properties —
    `C09_eventually_once` / `C09_eventually_begins` (no stuck state + decreasing variant, for a running pool with a single
    controlling thread), resting on `C09_queued_has_server`, `C10_no_starvation` and `C10_progress_no_stuck`; it is
    instantiated on this task id in `C04_pooled_eventually_runs` below, and exercised on the real code by stage 2 of
    harness/props/c04.py, which reports a notification that is accepted and never executed. -/
theorem C04_once_pooled (s : Server) (hpool : s.pool = .accepting) (hcustom : s.custom = Option.none)
    (e : PyVal) (kvs : List (PyVal × PyVal)) (m : String) (p : PyVal) (hv : validateNF e = .valid kvs m p)
    (hn : wfNotification e = true)
    (c : Callable) (hf : s.reg.funcs.lookup m = some c) (hb : binds c.sig p = true)
    (cfg : JRV.Pool.Config) (n : Nat) (ps ps' : JRV.Pool.State) (hr : JRV.Pool.Reach (JRV.Pool.init cfg n) ps)
    (i : Nat) (hstep : JRV.Pool.step? ps ⟨.client i, .callEnqueue, false⟩ = Option.some ps') :
    entryEffects s e = [.enqueue false (.str m) p (requestConfig s.cfg (hasKeyStr "jsonrpc" kvs)).version] ∧
    respond s e = Option.none ∧
    (entryEffects s e).filterMap (poolCallOf i) = [⟨.client i, .callEnqueue, false⟩] ∧
    ps'.tasks[ps.tasks.length]? = Option.some { creator := i } ∧
    ∀ ps'', JRV.Pool.Reach ps' ps'' →
      ∃ tk, ps''.tasks[ps.tasks.length]? = Option.some tk ∧ tk.execCount ≤ 1 ∧
        tk.execCount = (if tk.phase = .running ∨ tk.phase = .finished then 1 else 0) ∧
        pooledEffects s (.enqueue false (.str m) p (requestConfig s.cfg (hasKeyStr "jsonrpc" kvs)).version) ps'' ps.tasks.length
          = (if tk.phase = .running ∨ tk.phase = .finished then [.call .func (.str m) p] else []) := by
  obtain ⟨he, hresp⟩ := C04_once_pooled_enqueue s hpool e kvs m p hv hn
  have hc : s.custom.isSome = false := by simp [hcustom]
  rw [hc] at he
  have hcore := pooled_core s (.enqueue false (.str m) p (requestConfig s.cfg (hasKeyStr "jsonrpc" kvs)).version) cfg n ps ps' hr i hstep
  rw [C04_task_runs_callable_once s hcustom m p _ c hf hb] at hcore
  exact ⟨he, hresp, by simp [he, poolCallOf], hcore.1, hcore.2⟩

/-- **… and it does run** (instantiation of `C09_eventually_begins` on the task of the notification): in every pool state
    reachable after the `enqueue` in which the pool is running, no client thread is inside a pool call (the request thread
    has returned from `enqueue`, the controlling thread from `start()`) and the task still waits (queued, or taken and not
    begun), there is a finite sequence of worker actions — no time-out, no `task.end`, no client action — after which the
    registered function has been invoked exactly once by this notification, or some worker is inside a task body (only then
    does progress depend on the environment: that body has to end; by `C10_running_le_max`/`C10_no_starvation` at most
    `max_threads` bodies run and a free worker exists below that).  Single controlling thread, `max_threads ≥ 1` and no
    failing `Thread.start()` (`cfg.startMayFail = false`, the environment assumption of the C09/C10 growth theorems), as in C09. -/
theorem C04_pooled_eventually_runs (s : Server) (hcustom : s.custom = Option.none) (m : String) (p : PyVal) (ver : Nat)
    (c : Callable) (hf : s.reg.funcs.lookup m = some c) (hb : binds c.sig p = true)
    (cfg : JRV.Pool.Config) (n : Nat) (hctl : cfg.singleCtl = true) (hmax : 1 ≤ cfg.max)
    (hnf : cfg.startMayFail = false)
    (ps ps' : JRV.Pool.State) (hr : JRV.Pool.Reach (JRV.Pool.init cfg n) ps)
    (i : Nat) (hstep : JRV.Pool.step? ps ⟨.client i, .callEnqueue, false⟩ = Option.some ps')
    (ps'' : JRV.Pool.State) (hreach : JRV.Pool.Reach ps' ps'') (hrun : ps''.stop = false)
    (hidle : ∀ cl ∈ ps''.clients, cl.pc = .idle)
    (tk : JRV.Pool.Task) (ht : ps''.tasks[ps.tasks.length]? = Option.some tk) (hwait : tk.phase = .queued ∨ tk.phase = .held) :
    ∃ (as : List JRV.Pool.Action) (ps3 : JRV.Pool.State),
      (∀ a ∈ as, a.timeout = false ∧ JRV.Pool.notTaskEnd a.op = true ∧ ∃ j, a.who = .worker j) ∧
      JRV.Pool.run ps'' as = Option.some ps3 ∧
      (pooledEffects s (.enqueue false (.str m) p ver) ps3 ps.tasks.length = [.call .func (.str m) p] ∨
        ∃ w ∈ ps3.workers, w.pc = .body) := by
  have hr'' : JRV.Pool.Reach (JRV.Pool.init cfg n) ps'' := JRV.Pool.Reach.trans (JRV.Pool.Reach.step _ hr hstep) hreach
  obtain ⟨as, ps3, h1, h2, h3⟩ := C09_eventually_begins cfg n ps'' hctl hmax hnf hr'' hrun (clientsOutside_of_idle hidle) _ tk ht hwait
  refine ⟨as, ps3, h1, h2, ?_⟩
  rcases h3 with ⟨tk', htk', hph⟩ | hbody
  · left
    obtain ⟨tk2, htk2, _, _, heff⟩ :=
      (pooled_core s (.enqueue false (.str m) p ver) cfg n ps ps' hr i hstep).2 ps3 (JRV.Pool.Reach.trans hreach (reach_of_run h2))
    rw [htk'] at htk2; cases htk2
    rw [heff, C04_task_runs_callable_once s hcustom m p ver c hf hb]
    simp [hph]
  · exact Or.inr hbody

/-- The same with a custom dispatch function: it is called at most once with `(method, params)` — whatever the method
    name, known or not — and exactly once as soon as the pool task is running or finished. -/
theorem C04_once_pooled_custom (s : Server) (hpool : s.pool = .accepting) (d : DispatchFn) (hcustom : s.custom = some d)
    (e : PyVal) (kvs : List (PyVal × PyVal)) (m : String) (p : PyVal) (hv : validateNF e = .valid kvs m p)
    (hn : wfNotification e = true)
    (cfg : JRV.Pool.Config) (n : Nat) (ps ps' : JRV.Pool.State) (hr : JRV.Pool.Reach (JRV.Pool.init cfg n) ps)
    (i : Nat) (hstep : JRV.Pool.step? ps ⟨.client i, .callEnqueue, false⟩ = Option.some ps') :
    entryEffects s e = [.enqueue true (.str m) p (requestConfig s.cfg (hasKeyStr "jsonrpc" kvs)).version] ∧
    respond s e = Option.none ∧
    (entryEffects s e).filterMap (poolCallOf i) = [⟨.client i, .callEnqueue, false⟩] ∧
    ps'.tasks[ps.tasks.length]? = Option.some { creator := i } ∧
    ∀ ps'', JRV.Pool.Reach ps' ps'' →
      ∃ tk, ps''.tasks[ps.tasks.length]? = Option.some tk ∧ tk.execCount ≤ 1 ∧
        tk.execCount = (if tk.phase = .running ∨ tk.phase = .finished then 1 else 0) ∧
        pooledEffects s (.enqueue true (.str m) p (requestConfig s.cfg (hasKeyStr "jsonrpc" kvs)).version) ps'' ps.tasks.length
          = (if tk.phase = .running ∨ tk.phase = .finished then [.call .custom (.str m) p] else []) := by
  obtain ⟨he, hresp⟩ := C04_once_pooled_enqueue s hpool e kvs m p hv hn
  have hc : s.custom.isSome = true := by simp [hcustom]
  rw [hc] at he
  have hcore := pooled_core s (.enqueue true (.str m) p (requestConfig s.cfg (hasKeyStr "jsonrpc" kvs)).version) cfg n ps ps' hr i hstep
  rw [C04_task_runs_custom_once s d hcustom m p _] at hcore
  exact ⟨he, hresp, by simp [he, poolCallOf], hcore.1, hcore.2⟩

/-- Tie to the source: the notification ids, and the silent exception path. -/
theorem C04_gen_notifIds :
    Generated.notifIds = some [Option.none, some ""] ∧
    notifIds = ([Option.none, some ""] : List (Option String)).map
      (fun o => match o with | Option.none => PyVal.none | some t => PyVal.str t) :=
  ⟨by decide, rfl⟩

theorem C04_gen_exceptPathSilencesNotification : Generated.exceptPathSilencesNotification = some true := by decide

/- The tie of `C04_once_pooled` to the source of the notification pool (`C04_gen_poolRetireRule`, `C04_gen_poolGrowthRule`,
   `C04_gen_poolPendingStores`, `C04_gen_poolUnlockedAccesses`) is in JRV/Properties/C04Gen.lean. -/

/- Non-vacuity: notifications whose method raises / does not exist / gets bad arguments, at a batch
   position, inline and pooled. -/

private def exReg : Registry :=
  { funcs := [("add", { sig := { names := ["a", "b"] }, body := fun _ => .ret (.int 3) }),
              ("boom", { sig := { names := [], star := true }, body := fun _ => .raised "ValueError" "boom" false false 1 })] }

private def notif (m : String) (ps : List PyVal) : PyVal :=
  mkDict [("jsonrpc", .str "2.0"), ("method", .str m), ("params", .list ps)]

example : marshaledDispatch { cfg := {}, reg := exReg }
    (.parsed (.list [notif "boom" [], notif "nosuch" [], notif "add" [.int 1], notif "add" [.int 1, .int 2]]))
    = (.ok .empty, [.call .func (.str "boom") (.list []), .call .func (.str "add") (.list [.int 1, .int 2])]) := by
  decide +kernel

example : marshaledDispatch { cfg := {}, reg := exReg, pool := .accepting }
    (.parsed (.list [notif "boom" [], mkDict [("id", .str ""), ("method", .str "add")]]))
    = (.ok .empty, [.enqueue false (.str "boom") (.list []) 20, .enqueue false (.str "add") (.list []) 10]) := by
  decide +kernel

/- A "quit" handler calling `sys.exit(3)`: as notifications (alone: empty reply, one call; in a batch next to a call: only
   the call is answered) and as a call with an id (−32603 carrying the id). -/
private def exQuitReg : Registry :=
  { funcs := [("add", { sig := { names := ["a", "b"] }, body := fun _ => .ret (.int 3) }),
              ("quit", { sig := { names := [], star := true }, body := fun _ => .raisedBase "SystemExit" "3" 1 })] }

example : marshaledDispatch { cfg := {}, reg := exQuitReg } (.parsed (notif "quit" [.int 3]))
    = (.ok .empty, [.call .func (.str "quit") (.list [.int 3])]) := by
  decide +kernel

example : marshaledDispatch { cfg := {}, reg := exQuitReg }
    (.parsed (.list [notif "quit" [], mkDict [("jsonrpc", .str "2.0"), ("method", .str "add"), ("params", .list [.int 1, .int 2]), ("id", .int 1)],
                     mkDict [("id", .none), ("method", .str "quit")]]))
    = (.ok (.doc (.list [.dict [(.str "result", .int 3), (.str "id", .int 1), (.str "jsonrpc", .str "2.0")]])),
       [.call .func (.str "quit") (.list []), .call .func (.str "add") (.list [.int 1, .int 2]), .call .func (.str "quit") (.list [])]) := by
  decide +kernel

example : (marshaledDispatch { cfg := {}, reg := exQuitReg }
    (.parsed (mkDict [("jsonrpc", .str "2.0"), ("method", .str "quit"), ("id", .int 7)]))).1
    = .ok (.doc (.dict [(.str "id", .int 7), (.str "jsonrpc", .str "2.0"),
        (.str "error", .dict [(.str "code", .int (-32603)), (.str "message", .str "Server error: SystemExit: 3")])])) := by
  decide +kernel

example : wfNotification (notif "quit" [.int 3]) = true ∧ binds { names := [], star := true } (.list [.int 3]) = true := by
  decide +kernel

/- … the same from a custom dispatch function and from an instance's own `_dispatch` (fix 43f3faa): nothing for the
   notifications, −32603 `SystemExit:3` with its id for the call. -/
example : marshaledDispatch { cfg := {}, custom := some (fun _ _ => .raisedBase "SystemExit" "3" 1) }
    (.parsed (.list [notif "quit" [], mkDict [("jsonrpc", .str "2.0"), ("method", .str "quit"), ("id", .int 7)], notif "quit" [.int 1]]))
    = (.ok (.doc (.list [.dict [(.str "id", .int 7), (.str "jsonrpc", .str "2.0"),
        (.str "error", .dict [(.str "code", .int (-32603)), (.str "message", .str "SystemExit:3")])]])),
       [.call .custom (.str "quit") (.list []), .call .custom (.str "quit") (.list []), .call .custom (.str "quit") (.list [.int 1])]) := by
  decide +kernel

example : marshaledDispatch { cfg := {}, reg := { inst := some { dispatch := some (fun _ _ => .raisedBase "KeyboardInterrupt" "" 1) } } }
    (.parsed (notif "anything" []))
    = (.ok .empty, [.call .instDispatch (.str "anything") (.list [])]) := by
  decide +kernel

example : marshaledDispatch { cfg := {}, custom := some (fun _ _ => .raised "KeyError" "'x'" false false 1) }
    (.parsed (notif "anything" []))
    = (.ok .empty, [.call .custom (.str "anything") (.list [])]) := by
  decide +kernel

/- ---------- the text around a notification ---------- -/

/-- `JSON-text = ws value ws`.  A well-formed body wrapped in insignificant white space (SP, TAB, LF, CR before and
    after the value) is still a JSON text (`JsonText.verdict_ws_wrap`, proved about the RFC 8259 recogniser) — in
    particular it is not empty, so the dispatcher does not take its "no request data" parse failure — and, for every
    parser `loads` that reads the wrapped text as the bare one (`hws`: what RFC 8259 says; on the real parser: the ws/…
    twins of harness/servercases_ws.py on every run, facts `stdlibLoadsPlain` / `loadsParsesWholeBody`), the dispatcher
    does with the wrapped body exactly what it does with the bare one: same reply, same effect log.  With the theorems
    above: a notification in it is executed exactly once and never answered. -/
theorem C04_ws_wrapped_body (s : Server) (loads : List Char → ParseOutcome)
    (hws : ∀ pre t post, JsonText.allWs pre = true → JsonText.allWs post = true → loads (pre ++ t ++ post) = loads t)
    (pre t post : List Char) (hpre : JsonText.allWs pre = true) (hpost : JsonText.allWs post = true)
    (ht : JsonText.verdict t = .wellFormed) :
    JsonText.verdict (pre ++ t ++ post) = .wellFormed ∧
    marshaledDispatchBody s (pre ++ t ++ post).isEmpty (loads (pre ++ t ++ post)) =
      marshaledDispatchBody s t.isEmpty (loads t) := by
  refine ⟨by rw [JsonText.verdict_ws_wrap pre t post hpre hpost]; exact ht, ?_⟩
  have hne : t ≠ [] := by
    intro h; subst h
    have : JsonText.verdict [] = .malformed := by decide
    rw [this] at ht; cases ht
  have h1 : t.isEmpty = false := by cases t <;> simp_all
  have h2 : (pre ++ t ++ post).isEmpty = false := by cases t <;> simp_all
  rw [hws pre t post hpre hpost, h1, h2]

/- Non-vacuity: the body of the seeded edit — LF in front of a notification — is a JSON text. -/
example : JsonText.allWs ['\n'] = true ∧ JsonText.allWs [] = true ∧
    JsonText.verdict "{\"jsonrpc\":\"2.0\",\"method\":\"note\",\"params\":[1]}".toList = .wellFormed ∧
    JsonText.verdict "\n{\"jsonrpc\":\"2.0\",\"method\":\"note\",\"params\":[1]}".toList = .wellFormed := by
  decide +kernel

/- Non-vacuity of `C04_once_pooled`: a started pool (max 1, min 0), the request thread's `enqueue` of the notification
   `add [1, 2]`, then the steps up to the worker's `task.begin`: the hypotheses hold and the composed log is one call. -/
private def exPoolCfg : JRV.Pool.Config := { max := 1, min := 0, qbound := 0 }
private def exStarted : List JRV.Pool.Action :=
  [⟨.client 0, .callStart, false⟩, ⟨.client 0, .eventIsSet, false⟩, ⟨.client 0, .eventClear, false⟩, ⟨.client 0, .queueQsize, false⟩]
private def exAfter : List JRV.Pool.Action :=
  [⟨.client 0, .lockAcquire, false⟩, ⟨.client 0, .queuePut, false⟩, ⟨.client 0, .lockAcquire, false⟩,
   ⟨.client 0, .eventIsSet, false⟩, ⟨.client 0, .lockRelease, false⟩, ⟨.client 0, .lockRelease, false⟩,
   ⟨.worker 0, .eventIsSet, false⟩, ⟨.worker 0, .queueGet, false⟩, ⟨.worker 0, .lockAcquire, false⟩,
   ⟨.worker 0, .lockRelease, false⟩, ⟨.worker 0, .taskBegin, false⟩]

example :
    (do let ps ← JRV.Pool.run (JRV.Pool.init exPoolCfg 1) exStarted            -- `Reach init ps` by `reach_of_run` (C09.lean)
        let ps' ← JRV.Pool.step? ps ⟨.client 0, .callEnqueue, false⟩           -- the hypothesis `hstep`
        let ps'' ← JRV.Pool.run ps' exAfter                                     -- `Reach ps' ps''`
        pure (ps'.tasks[ps.tasks.length]?.map (·.execCount), ps''.tasks[ps.tasks.length]?.map (·.phase),
              pooledEffects { cfg := {}, reg := exReg, pool := .accepting }
                (.enqueue false (.str "add") (.list [.int 1, .int 2]) 20) ps'' ps.tasks.length))
      = Option.some (Option.some 0, Option.some .running, [.call .func (.str "add") (.list [.int 1, .int 2])]) ∧
    wfNotification (notif "add" [.int 1, .int 2]) = true := by
  decide +kernel

end JRV.Props
