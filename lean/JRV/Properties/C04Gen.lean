/-
  C04 — companion theorems of the thread-pool facts (tools/extractors/pool.py) that tie `C04_once_pooled` /
  `C04_pooled_eventually_runs` to the source of the notification pool: the facts of `ThreadPool` that the pool model's
  hand-off of tasks (growth, retirement, accounting, lock discipline) encodes — the same facts C09 is tied by.
  Built and audited separately from JRV.Properties.C04: a source edit that changes one of these facts fails this module only.
-/
import JRV.Model.Pool
import JRV.Generated

namespace JRV.Props
open JRV

theorem C04_gen_poolRetireRule : Generated.poolRetireRule = some JRV.Pool.retireRuleSpec := by decide
theorem C04_gen_poolGrowthRule : Generated.poolGrowthRule = some JRV.Pool.growthRuleSpec := by decide
theorem C04_gen_poolPendingStores : Generated.poolPendingStores = some JRV.Pool.pendingStoresSpec := by decide
theorem C04_gen_poolUnlockedAccesses : Generated.poolUnlockedAccesses = some JRV.Pool.unlockedAccessesSpec := by decide

end JRV.Props
