/-
  C04 — companion theorems of the thread-pool facts (tools/extractors/pool.py) that tie `C04_once_pooled` /
  `C04_pooled_eventually_runs` to the source of the notification pool: the facts of `ThreadPool` that the pool model's
  hand-off of tasks (growth, retirement, accounting, lock discipline) encodes — the same facts C09 is tied by.
  Built and audited separately from JRV.Properties.C04: a source edit that changes one of these facts fails this module only.
-/
import JRV.Model.Pool
import JRV.Generated

namespace JRV.Props
open JRV

theorem C04_gen_poolRetireRule : Generated.poolRetireRule = some JRV.Pool.retireRuleSpec := by decide
theorem C04_gen_poolGrowthRule : Generated.poolGrowthRule = some JRV.Pool.growthRuleSpec := by decide
theorem C04_gen_poolPendingStores : Generated.poolPendingStores = some JRV.Pool.pendingStoresSpec := by decide
theorem C04_gen_poolUnlockedAccesses : Generated.poolUnlockedAccesses = some JRV.Pool.unlockedAccessesSpec := by decide

/- ===== text layer (tools/extractors/textlayer.py) — the hypothesis `hws` of `C04_ws_wrapped_body` ===== -/

/-- The standard-library handler parses with `json.loads` itself (default settings): white space before and after the
    value is skipped, the whole body is consumed (`JSONDecoder.raw_decode` does neither). -/
theorem C04_gen_stdlibLoadsPlain : Generated.stdlibLoadsPlain = some true := by decide
/-- `jsonrpclib.loads` hands the body to the parser as it is (no strip / slice in front of it). -/
theorem C04_gen_loadsParsesWholeBody : Generated.loadsParsesWholeBody = some true := by decide

/- ===== the KIND of exception the handlers around a method call catch (tools/extractors/server_base.py) ===== -/

/-- `_dispatch`: the handler chain around `func(*params)` / `func(**params)` ends in a catch-all (bare `except:` or
    `except BaseException`) that always returns.  The model's `invoke` has one arm for `CallOutcome.raisedBase` —
    `SystemExit` from a handler calling `sys.exit()`, `KeyboardInterrupt`, `GeneratorExit`, … — and it is the arm of
    any other method exception (`C04_base_exception_contained`): this fact is what that arm stands on. -/
theorem C04_gen_dispatchCallCatchAll : Generated.dispatchCallCatchAll = some true := by decide

/-- `_marshaled_single_dispatch`: the synchronous call of a dispatch function (the custom function, `self._dispatch` and
    through it the instance's own `_dispatch`) is guarded by a handler that catches every `BaseException` and always
    returns (fix 43f3faa).  The model's `singleDispatch` has one branch for whatever `runDispatcher` lets out — an error
    of any class, `CallOutcome.raisedBase` of a dispatch function included (`C04_base_exception_dispatch_fn`): this
    fact is what that branch stands on. -/
theorem C04_gen_syncCallCatchAll : Generated.syncCallCatchAll = some true := by decide
theorem C04_gen_syncCallHandlerClasses : Generated.syncCallHandlerClasses = some ["BaseException"] := by decide

end JRV.Props
