/-
  C05 — Failures get the standard error codes and rejected requests run nothing.

  Dispatcher-level theorems (`runDispatcher`, i.e. `_dispatch` or the custom function) say which Fault
  a call produces and what it invoked; `C05_fault_answer` / `C05_raise_answer` lift them to the response
  object of the entry (code, message, id, effect log).  "Nothing is invoked" is `effects = []`.

  Reading: "argument mismatch" = the call does not bind (`binds c.sig params = false`); any exception
  raised by the body — a `TypeError` included — is −32603.  The code tells the two apart by
  `sys.exc_info()[2].tb_next is not None`; the model does not assume the answer: the *depth* at which a
  behaviour raises is part of the behaviour (`CallOutcome.raised … depth`, JRV.Model.Callable), and the
  theorems say what the code does for every depth:
    * `C05_params_iff` — −32602 exactly when the arguments do not bind **or** the callable raised a
      `TypeError` that carries no frame of its own (depth 0: a C-implemented callable — a registered
      builtin such as `len` called with `[5]`, `functools.partial` given too many arguments).  For such
      a callable the code cannot distinguish "rejected its arguments" from "ran and failed";
      `C05_frameless_typeerror` states that case separately (the effect log shows the call).
    * `C05_params_iff_framed` / `C05_internal` — for a callable whose exceptions have a frame of their
      own (every Python `def`, lambda, bound method, object with a Python `__call__`, decorated
      function: depth ≥ 1, at *any* depth — own frame, helper, decorator) −32602 ⇔ the call does not
      bind, and every exception of the body, `TypeError` included, is −32603 naming class and text.
  Attributes: one bound to `None` is an unknown method (−32601, `C05_none_attribute`); one that is
  neither callable nor `None` makes the call itself fail (−32602, `C05_noncallable_attribute` — outside
  the stated domain, recorded as an observation).  `C05_instance_dispatch` covers an instance with its
  own `_dispatch`.

  The companion theorems of the extracted facts (`C05_gen_*`) are in JRV/Properties/C05Gen.lean.
-/
import JRV.Lemmas.Server
import JRV.Lemmas.JsonTextTable
import JRV.Model.Client
import JRV.Model.JsonText
import JRV.Lemmas.JsonTextWs
import JRV.Lemmas.JsonTextGarbage
import JRV.Lemmas.ByteBody

set_option linter.unusedSimpArgs false
set_option linter.unusedVariables false

namespace JRV.Props
open JRV JRV.PyVal JRV.Callable JRV.Payload JRV.Server

/-- The five codes of the property. -/
def standardCodes : List Int := [codeParse, codeInvalid, codeUnknown, codeParams, codeInternal]

/-- The error response an entry with fields `kvs` gets: request-specific version, the entry's id. -/
def errorResp (s : Server) (kvs : List (PyVal × PyVal)) (c : Int) (msg : String) : PyVal :=
  Payload.error (requestConfig s.cfg (hasKeyStr "jsonrpc" kvs)).version ((lookupStr "id" kvs).getD .none)
    (.int c) (.str msg) .none

/- ---------- −32700 ---------- -/

/-- Malformed JSON, or a payload the class translator rejects: a single −32700 error object (whatever
    the body was meant to be — a batch included), id null, and nothing is invoked. -/
theorem C05_parse (s : Server) :
    marshaledDispatch s .parseError =
      (.ok (.doc (Payload.error s.cfg.version .none (.int (-32700)) (.str msgParse) .none)), []) := by
  rw [marshaled_parseError]; rfl

/- ---------- the text layer: which bodies are malformed ---------- -/

private theorem simpleEscape_ge (e : Char) (h : JsonText.isSimpleEscape e = true) : 32 ≤ e.toNat := by
  simp only [JsonText.isSimpleEscape, Bool.or_eq_true, beq_iff_eq] at h
  omega

private theorem hex_ge (e : Char) (h : JsonText.isHex e = true) : 32 ≤ e.toNat := by
  simp only [JsonText.isHex, Bool.or_eq_true, Bool.and_eq_true, decide_eq_true_eq] at h
  omega

/-- A string literal the grammar accepts holds no raw control character: if the scan of a string (started
    after its opening quotation mark) succeeds, the consumed text is `body ++ [closing quotation mark]`
    and every character of `body` — escapes included — is U+0020 or above.  So a TAB, LF, NUL, … inside
    a string makes the whole text malformed, wherever the string stands (argument, named argument, id,
    method name, member name): `value`, `members` reach strings only through `scanString`. -/
theorem C05_text_string_no_raw_control (cs rest : List Char) (h : JsonText.scanString cs = some rest) :
    ∃ body q, cs = body ++ q :: rest ∧ q.toNat = 34 ∧ ∀ c ∈ body, 32 ≤ c.toNat := by
  fun_induction JsonText.scanString cs with
  | case2 c r hq =>
    simp only [Option.some.injEq] at h; subst h
    exact ⟨[], c, rfl, by simpa using hq, by simp⟩
  | case4 c hq hb e hu h1 h2 h3 h4 rest2 hhex ih =>
    obtain ⟨body, q, hb', hq', hall⟩ := ih h
    refine ⟨c :: e :: h1 :: h2 :: h3 :: h4 :: body, q, by simp [hb'], hq', ?_⟩
    simp only [Bool.and_eq_true] at hhex
    intro x hx
    simp only [List.mem_cons] at hx
    simp only [beq_iff_eq] at hb hu
    rcases hx with rfl | rfl | rfl | rfl | rfl | rfl | hx
    · omega
    · omega
    · exact hex_ge _ hhex.1.1.1
    · exact hex_ge _ hhex.1.1.2
    · exact hex_ge _ hhex.1.2
    · exact hex_ge _ hhex.2
    · exact hall x hx
  | case7 c hq hb e r hnu hs ih =>
    obtain ⟨body, q, hb', hq', hall⟩ := ih h
    refine ⟨c :: e :: body, q, by simp [hb'], hq', ?_⟩
    intro x hx
    simp only [List.mem_cons] at hx
    simp only [beq_iff_eq] at hb
    rcases hx with rfl | rfl | hx
    · omega
    · exact simpleEscape_ge _ hs
    · exact hall x hx
  | case10 c r hq hb hnc ih =>
    obtain ⟨body, q, hb', hq', hall⟩ := ih h
    refine ⟨c :: body, q, by simp [hb'], hq', ?_⟩
    intro x hx
    simp only [List.mem_cons] at hx
    rcases hx with rfl | hx
    · simp only [JsonText.isControl, decide_eq_true_eq] at hnc; omega
    · exact hall x hx
  | _ => simp at h

/-- A raw control character right after the opening quotation mark, or after any run of ordinary
    characters, ends the scan: the contrapositive of the previous theorem in the form the generator uses
    (`"a<TAB>b"`). -/
theorem C05_text_control_after_plain (pre : List Char) (c : Char) (post : List Char)
    (hpre : ∀ x ∈ pre, 32 ≤ x.toNat ∧ x.toNat ≠ 34 ∧ x.toNat ≠ 92) (hc : c.toNat < 32) :
    JsonText.scanString (pre ++ c :: post) = Option.none := by
  induction pre with
  | nil =>
    have h1 : (c.toNat == 34) = false := by simp; omega
    have h2 : (c.toNat == 92) = false := by simp; omega
    have h3 : JsonText.isControl c = true := by simp [JsonText.isControl, hc]
    show JsonText.scanString (c :: post) = Option.none
    unfold JsonText.scanString
    simp [h1, h2, h3]
  | cons x xs ih =>
    obtain ⟨hx1, hx2, hx3⟩ := hpre x (by simp)
    have h1 : (x.toNat == 34) = false := by simpa using hx2
    have h2 : (x.toNat == 92) = false := by simpa using hx3
    have h3 : JsonText.isControl x = false := by simp [JsonText.isControl]; omega
    show JsonText.scanString (x :: (xs ++ c :: post)) = Option.none
    unfold JsonText.scanString
    simp only [h1, h2, h3, Bool.false_eq_true, ↓reduceIte]
    exact ih (fun y hy => hpre y (by simp [hy]))

/-- Every production of RFC 8259 that the standard parser enforces — raw control characters in strings,
    unknown / short / non-hexadecimal escapes, leading zeros, `+`, missing digits, other radices, other
    spellings of the literals, other string syntaxes, trailing / leading / doubled / missing separators,
    unquoted and non-string names, comments, unbalanced brackets, white space other than SP TAB LF CR,
    byte-order marks, trailing text, blank bodies — is rejected by the recogniser, and the closest texts the
    grammar allows are accepted (337 + 100 rows, `JRV.Lemmas.JsonTextTable`; the same production lists
    feed the generator of harness/servercases_ext.py, which runs them against the real parser). -/
theorem C05_text_productions :
    JsonTextTable.malformedTexts.all (fun t => JsonText.verdict t == .malformed) = true ∧
    JsonTextTable.wellFormedTexts.all (fun t => JsonText.verdict t == .wellFormed) = true := by
  constructor <;> decide +kernel

/-- The empty body (`""`, `b""`: `not data`) is answered with the single −32700 error object and nothing is
    invoked, whatever `loads` would have returned for it: the dispatcher raises inside its parse `try`
    before calling `loads` (fix e82f118; extracted fact `emptyBodyRejectedInParseTry`). -/
theorem C05_empty_body (s : Server) (po : ParseOutcome) :
    marshaledDispatchBody s true po =
      (.ok (.doc (Payload.error s.cfg.version .none (.int (-32700)) (.str msgParse) .none)), []) := by
  simp only [marshaledDispatchBody, ↓reduceIte]; exact C05_parse s

/-- Text level.  For every parser `loads` that raises on the non-empty texts the grammar rejects
    (hypothesis `hstrict`: holds for the parser the library calls — extracted facts `stdlibLoadsPlain`,
    `loadsParsesWholeBody`, and the comparison of `JsonText.verdict` with the real `jloads` on every body
    of every run, component `jsontext`; nothing is asked of `loads` on the empty text, for which the real
    `jsonrpclib.loads` returns `None`), every body RFC 8259 rejects — the empty one included, without a
    special case in the conclusion — is answered with the single −32700 error object and nothing is
    invoked. -/
theorem C05_malformed_text (s : Server) (loads : List Char → ParseOutcome)
    (hstrict : ∀ t, t ≠ [] → JsonText.verdict t = .malformed → loads t = .parseError)
    (t : List Char) (h : JsonText.verdict t = .malformed) :
    marshaledDispatchBody s t.isEmpty (loads t) =
      (.ok (.doc (Payload.error s.cfg.version .none (.int (-32700)) (.str msgParse) .none)), []) := by
  cases t with
  | nil => exact C05_empty_body s _
  | cons c cs =>
    simp only [marshaledDispatchBody, List.isEmpty_cons, Bool.false_eq_true, ↓reduceIte]
    rw [hstrict (c :: cs) (by simp) h]; exact C05_parse s

/-- The empty text is malformed (it is not a `ws value ws`). -/
theorem C05_text_empty_malformed : JsonText.verdict [] = .malformed := by decide

/- Non-vacuity: the request of the seeded edit (a raw TAB inside an argument) is malformed, its escaped
   twin is well-formed; a parser satisfying `hstrict` that — like the real `loads` — returns `None` for the
   empty text exists; a body that *parses* to a falsy value (`null`) is well-formed: it is answered −32600
   "no request data" (`C05_invalid_toplevel`), not −32700. -/
example : JsonText.verdict ['{', '"', 'p', '"', ':', ' ', '[', '"', 'a', Char.ofNat 9, 'b', '"', ']', '}'] = .malformed := by
  decide +kernel
example : JsonText.verdict ['{', '"', 'p', '"', ':', ' ', '[', '"', 'a', '\\', 't', 'b', '"', ']', '}'] = .wellFormed := by
  decide +kernel
example : ∀ t, t ≠ [] → JsonText.verdict t = .malformed →
    (fun t => if t = [] then ParseOutcome.parsed .none
              else if JsonText.verdict t = .malformed then ParseOutcome.parseError else .parsed .none) t = .parseError := by
  intro t hne h; simp [hne, h]
example : JsonText.verdict ['n', 'u', 'l', 'l'] = .wellFormed := by decide +kernel
example : (marshaledDispatchBody { cfg := {} } false (.parsed .none)).1
    = .ok (.doc (Payload.error 20 .none (.int (-32600)) (.str msgNoData) .none)) := by decide +kernel

/- ---------- the text layer: white space, first character, bodies as bytes ---------- -/

/-- `JSON-text = ws value ws`: SP, TAB, LF, CR before and after the top-level value do not change the verdict
    (`JRV.Lemmas.JsonTextWs`, by fuel-independence of the recogniser): a request wrapped in insignificant
    white space is malformed exactly when the bare request is.  (Real parser: the ws/… twins of
    harness/servercases_ws.py, which must be handled exactly as their bare requests.) -/
theorem C05_text_ws_wrap (pre t post : List Char) (hpre : JsonText.allWs pre = true) (hpost : JsonText.allWs post = true) :
    JsonText.verdict (pre ++ t ++ post) = JsonText.verdict t :=
  JsonText.verdict_ws_wrap pre t post hpre hpost

/-- The parser must consume the whole body: a complete array, object (every request is one) or string followed by
    anything that is not white space — a word, a second value, a closing bracket, a comma, NUL, U+FEFF, … — is not a
    JSON text (`JRV.Lemmas.JsonTextGarbage`, by prefix-determinism of the recogniser), so it is answered −32700 with
    nothing invoked.  (A parser that stops after the first value — `JSONDecoder.raw_decode` — would run the request.)
    Numbers and literals are excluded on purpose: `1` followed by `2` is the JSON text `12`. -/
theorem C05_text_trailing_garbage (s : Server) (loads : List Char → ParseOutcome)
    (hstrict : ∀ t, t ≠ [] → JsonText.verdict t = .malformed → loads t = .parseError)
    (t : List Char) (g : Char) (rest : List Char)
    (ht : JsonText.verdict t = .wellFormed) (hs : JsonText.startsClosed t = true) (hg : JsonText.isWs g = false) :
    JsonText.verdict (t ++ g :: rest) = .malformed ∧
    marshaledDispatchBody s (t ++ g :: rest).isEmpty (loads (t ++ g :: rest)) =
      (.ok (.doc (Payload.error s.cfg.version .none (.int (-32700)) (.str msgParse) .none)), []) :=
  ⟨JsonText.verdict_trailing_garbage t g rest ht hs hg,
   C05_malformed_text s loads hstrict _ (JsonText.verdict_trailing_garbage t g rest ht hs hg)⟩

/-- A text that starts with a character no JSON text can start with — anything but white space, `"`, `[`, `{`,
    `t`, `f`, `n`, `-`, a digit; in particular U+FEFF (a byte-order mark), NUL and every character beyond
    ASCII — is malformed whatever follows, and is answered −32700 with nothing invoked. -/
theorem C05_text_first_char (s : Server) (loads : List Char → ParseOutcome)
    (hstrict : ∀ t, t ≠ [] → JsonText.verdict t = .malformed → loads t = .parseError)
    (c : Char) (cs : List Char) (hc : ByteBody.canStart c = false) :
    JsonText.verdict (c :: cs) = .malformed ∧
    marshaledDispatchBody s (c :: cs).isEmpty (loads (c :: cs)) =
      (.ok (.doc (Payload.error s.cfg.version .none (.int (-32700)) (.str msgParse) .none)), []) :=
  ⟨ByteBody.verdict_bad_first_char c cs hc,
   C05_malformed_text s loads hstrict (c :: cs) (ByteBody.verdict_bad_first_char c cs hc)⟩

/-- Bodies as bytes.  The HTTP handler decodes with the strict UTF-8 codec (`Wire.fromBytes`, fact
    `fromBytesCodec`), which drops nothing: the text of a body that starts with the bytes EF BB BF starts
    with U+FEFF.  So every body `BOM ++ request` — whatever the request — is malformed: the text handed
    to the dispatcher is `"\uFEFF" ++ t`, and it is answered −32700 with nothing invoked.  (A decoder that
    swallows the mark — `utf-8-sig` — would run the request.) -/
theorem C05_body_bom_malformed (t : String) :
    Wire.fromBytes (Wire.toBytes ("\uFEFF" ++ t)) = .ok ("\uFEFF" ++ t) ∧
    ByteBody.bodyVerdict (Wire.toBytes ("\uFEFF" ++ t)) = .malformed := by
  have hd := ByteBody.fromBytes_toBytes ("\uFEFF" ++ t)
  refine ⟨hd, ?_⟩
  have hl : ("\uFEFF" ++ t).toList = Char.ofNat 0xFEFF :: t.toList := by
    rw [String.toList_append]; rfl
  have hm : JsonText.verdict ("\uFEFF" ++ t).toList = .malformed := by
    rw [hl]; exact ByteBody.verdict_bad_first_char _ _ (by decide)
  simp only [ByteBody.bodyVerdict, hd, hm]

/-- A body whose bytes are valid UTF-8 of a text RFC 8259 rejects: the dispatcher is handed exactly that
    text (`decode_exact`: it re-encodes to the bytes received) and answers the single −32700 error object,
    nothing is invoked. -/
theorem C05_body_malformed (s : Server) (loads : List Char → ParseOutcome)
    (hstrict : ∀ t, t ≠ [] → JsonText.verdict t = .malformed → loads t = .parseError)
    (b : Wire.Bytes) (h : ByteBody.bodyVerdict b = .malformed) :
    ∃ text, Wire.fromBytes b = .ok text ∧ Wire.toBytes text = b ∧
      marshaledDispatchBody s text.toList.isEmpty (loads text.toList) =
        (.ok (.doc (Payload.error s.cfg.version .none (.int (-32700)) (.str msgParse) .none)), []) := by
  unfold ByteBody.bodyVerdict at h
  cases hd : Wire.fromBytes b with
  | error e => simp [hd] at h
  | ok text =>
    simp only [hd] at h
    cases hv : JsonText.verdict text.toList with
    | wellFormed => simp [hv] at h
    | malformed =>
      exact ⟨text, rfl, ByteBody.decode_exact b text hd, C05_malformed_text s loads hstrict text.toList hv⟩

/-- A body that is not valid UTF-8 never reaches the dispatcher: `do_POST` answers 500 with the fault text,
    whatever the dispatcher would have done (two dispatchers give the same reply: neither is called). -/
theorem C05_body_undecodable (m n : Nat) (ct ft : String) (stream : Wire.Bytes) (reads : List Nat)
    (h : ByteBody.bodyVerdict (Wire.readLoop m n stream reads).flatten = .undecodable)
    (d₁ d₂ : String → Wire.TryOutcome) :
    Wire.doPost m ct ft (some n) stream reads d₁ = Wire.doPost m ct ft (some n) stream reads d₂ ∧
    (Wire.doPost m ct ft (some n) stream reads d₁).1 = 500 := by
  unfold ByteBody.bodyVerdict at h
  cases hd : Wire.fromBytes (Wire.readLoop m n stream reads).flatten with
  | ok text =>
    simp only [hd] at h
    cases hv : JsonText.verdict text.toList <;> simp [hv] at h
  | error e =>
    simp [Wire.doPost, Wire.serverBody, hd, Wire.doPostReply]

/- Non-vacuity: the body of the seeded edit (BOM + request) is malformed, the bare request is not; UTF-16 bytes of
   an ASCII request are valid UTF-8 (NUL between the characters) and malformed; FF FE … is undecodable. -/
example : ByteBody.bodyVerdict (Wire.toBytes "\uFEFF{\"id\":1}") = .malformed := by decide +kernel
example : ByteBody.bodyVerdict (Wire.toBytes "{\"id\":1}") = .wellFormed := by decide +kernel
example : ByteBody.bodyVerdict [0x7B, 0x00, 0x7D, 0x00] = .malformed := by decide +kernel
example : ByteBody.bodyVerdict [0xFF, 0xFE, 0x7B, 0x00, 0x7D, 0x00] = .undecodable := by decide +kernel
example : ByteBody.bodyVerdict [0xC0, 0xAF] = .undecodable ∧ ByteBody.bodyVerdict [0xED, 0xA0, 0x80] = .undecodable := by
  decide +kernel
example : ByteBody.canStart (Char.ofNat 0xFEFF) = false ∧ ByteBody.canStart (Char.ofNat 0) = false ∧ ByteBody.canStart '{' = true := by
  decide
example : JsonText.verdict "{\"method\":\"m\"}".toList = .wellFormed ∧ JsonText.startsClosed "{\"method\":\"m\"}".toList = true ∧
    JsonText.isWs 'x' = false ∧ JsonText.verdict "{\"method\":\"m\"} x".toList = .malformed := by
  decide +kernel
example : JsonText.allWs ['\n', ' '] = true ∧
    JsonText.verdict ("\n{\"jsonrpc\":\"2.0\",\"method\":\"note\",\"params\":[1]} ").toList = .wellFormed := by
  decide +kernel

/- ---------- −32600 ---------- -/

/-- A structurally invalid entry (not an object; no version marker; method missing, empty or not a
    string; params of scalar type) is answered −32600 with its id (null if it has none), and contributes
    no effect — alone or at any batch position (`batchLoop_eq`: the loop maps `respond` over the entries). -/
theorem C05_invalid (s : Server) (e : PyVal) (h : wfRequest e = false) :
    ∃ msg, respond s e = some (Payload.error s.cfg.version (entryId e) (.int (-32600)) (.str msg) .none) ∧
      entryEffects s e = [] := by
  cases hv : validateNF e with
  | valid kvs m p =>
    have := (valid_iff_wfRequest e).mp ⟨kvs, m, p, hv⟩
    rw [this] at h; exact absurd h (by simp)
  | fault f =>
    obtain ⟨hc, ⟨msg, hm⟩, hid, hd⟩ := validateNF_fault hv
    refine ⟨msg, ?_, ?_⟩
    · simp [respond, entryNF, hv, faultDump, hc, hm, hid, hd, codeInvalid]
    · simp [entryEffects, entryNF, hv]

/-- At top level: a body that parses to a falsy value — `null`, `0`, `false`, `""`, `[]`, `{}` — is −32600
    "no request data" (the empty body itself never gets here: `C05_empty_body`);
    any other value that is not a well-formed request object or a list is −32600 as an entry. -/
theorem C05_invalid_toplevel (s : Server) (hpool : s.pool ≠ .full) (e : PyVal) :
    (e.truthy = false →
      marshaledDispatch s (.parsed e) =
        (.ok (.doc (Payload.error s.cfg.version .none (.int (-32600)) (.str msgNoData) .none)), [])) ∧
    (e.truthy = true → e.isList = false → wfRequest e = false →
      ∃ msg, marshaledDispatch s (.parsed e) =
        (.ok (.doc (sent (Payload.error s.cfg.version (entryId e) (.int (-32600)) (.str msg) .none))), [])) := by
  constructor
  · intro hf
    rw [marshaled_falsy s e hf]; rfl
  · intro ht hl hw
    obtain ⟨msg, hr, heff⟩ := C05_invalid s e hw
    obtain ⟨kvs, hk⟩ := respond_dict s e _ hr
    exact ⟨msg, by rw [marshaled_single s hpool e ht hl, hr, heff]; simp only [hk, finalReply_dict]⟩

/- ---------- lifting dispatcher results to responses ---------- -/

/-- A Fault object returned by the dispatcher becomes the error response of the entry, with the
    entry's id, and the entry's effect log is the dispatcher's. -/
theorem C05_fault_answer (s : Server) (hpool : s.pool ≠ .full) (e : PyVal) (kvs : List (PyVal × PyVal)) (m : String)
    (p : PyVal) (hv : validateNF e = .valid kvs m p) (hn : notifNF kvs = false)
    (c : Int) (msg : String) (eff : List Effect)
    (hd : runDispatcher s (.str m) p = (.ok (.fault c msg), eff)) :
    respond s e = some (errorResp s kvs c msg) ∧ entryEffects s e = eff := by
  simp only [respond, entryEffects, entryNF, hv, singleNF, hn, hd]
  cases hp : s.pool <;> simp_all [respOf, buildResponse, Payload.dump, resolveVersion, isStr, errorResp,
    Bind.bind, Except.bind, pure, Except.pure]

/-- An exception that escapes the dispatcher (custom function, or the instance's own `_dispatch`) is
    answered −32603 with `"<class>:<text>"` and the entry's id. -/
theorem C05_raise_answer (s : Server) (hpool : s.pool ≠ .full) (e : PyVal) (kvs : List (PyVal × PyVal)) (m : String)
    (p : PyVal) (hv : validateNF e = .valid kvs m p) (hn : notifNF kvs = false)
    (cls text : String) (eff : List Effect)
    (hd : runDispatcher s (.str m) p = (.error { cls := cls, arg := .str text }, eff)) :
    respond s e = some (errorResp s kvs (-32603) (cls ++ ":" ++ text)) ∧ entryEffects s e = eff := by
  simp only [respond, entryEffects, entryNF, hv, singleNF, hn, hd]
  cases hp : s.pool <;> simp_all [respOf, faultDump, internalFault, msgExc, errText, errorResp, codeInternal]

/- ---------- −32601 ---------- -/

/-- Unknown method: no function of that name and no instance, or an instance (without `_dispatch` of
    its own) on which the dotted name does not resolve: −32601, nothing is invoked. -/
theorem C05_unknown (s : Server) (hcustom : s.custom = Option.none) (m : String) (p : PyVal)
    (hf : s.reg.funcs.lookup m = Option.none)
    (hi : s.reg.inst = Option.none ∨
      ∃ inst, s.reg.inst = some inst ∧ inst.dispatch = Option.none ∧ resolveDotted inst m = Option.none) :
    runDispatcher s (.str m) p = (.ok (.fault (-32601) (msgUnknown m)), []) := by
  rcases hi with hi | ⟨inst, hi, hd, hr⟩
  · simp [runDispatcher, hcustom, dispatch, hf, hi, unknownMethod, codeUnknown]
  · simp [runDispatcher, hcustom, dispatch, hf, hi, hd, resolveAndInvoke, hr, unknownMethod, codeUnknown]

/-- `resolve_dotted_attribute`: a segment list containing a segment that starts with `_` never
    resolves, wherever that segment is and whatever the attribute tree contains (induction on the list). -/
theorem C05_private_segments (segs : List String) (a : Attr)
    (h : ∃ seg ∈ segs, seg.startsWith "_" = true) : resolveSegs segs a = Option.none := by
  induction segs generalizing a with
  | nil => obtain ⟨seg, hmem, _⟩ := h; simp at hmem
  | cons seg rest ih =>
    simp only [resolveSegs]
    by_cases hs : seg.startsWith "_" = true
    · simp [hs]
    · simp only [hs, Bool.false_eq_true, ↓reduceIte]
      cases hl : a.children.lookup seg with
      | none => rfl
      | some child =>
        apply ih
        obtain ⟨sg, hmem, hsg⟩ := h
        rcases List.mem_cons.mp hmem with heq | hrest
        · subst heq; exact absurd hsg hs
        · exact ⟨sg, hrest, hsg⟩

/-- On a registered instance, any dotted name with a segment starting with an underscore is an
    unknown method: −32601, nothing is invoked (the name is not a registered function). -/
theorem C05_private (s : Server) (hcustom : s.custom = Option.none) (m : String) (p : PyVal)
    (hf : s.reg.funcs.lookup m = Option.none) (inst : Instance) (hi : s.reg.inst = some inst)
    (hd : inst.dispatch = Option.none)
    (h : ∃ seg ∈ m.splitOn ".", seg.startsWith "_" = true) :
    runDispatcher s (.str m) p = (.ok (.fault (-32601) (msgUnknown m)), []) :=
  C05_unknown s hcustom m p hf (Or.inr ⟨inst, hi, hd, C05_private_segments _ _ h⟩)

/-- An attribute bound to `None` is an unknown method (`if func is not None: … else: −32601`): nothing is invoked. -/
theorem C05_none_attribute (s : Server) (hcustom : s.custom = Option.none) (m : String) (p : PyVal)
    (hf : s.reg.funcs.lookup m = Option.none) (inst : Instance) (hi : s.reg.inst = some inst)
    (hd : inst.dispatch = Option.none) (hr : resolveDotted inst m = some .noneValue) :
    runDispatcher s (.str m) p = (.ok (.fault (-32601) (msgUnknown m)), []) := by
  simp [runDispatcher, hcustom, dispatch, hf, hi, hd, resolveAndInvoke, hr, Attr.isNoneValue, Attr.callable, unknownMethod,
    codeUnknown]

/-- Observation outside the stated domain: an attribute that is neither callable nor `None` (a number, a
    namespace) makes the call expression itself raise `TypeError` in the frame of `_dispatch`: −32602,
    nothing is invoked. -/
theorem C05_noncallable_attribute (s : Server) (hcustom : s.custom = Option.none) (m : String) (p : PyVal)
    (hf : s.reg.funcs.lookup m = Option.none) (inst : Instance) (hi : s.reg.inst = some inst)
    (hd : inst.dispatch = Option.none) (ch : List (String × Attr))
    (hr : resolveDotted inst m = some (.node Option.none ch)) :
    runDispatcher s (.str m) p = (.ok (.fault (-32602) msgParams), []) := by
  simp [runDispatcher, hcustom, dispatch, hf, hi, hd, resolveAndInvoke, hr, Attr.isNoneValue, Attr.callable, invoke,
    handleCallExc, codeParams]

/- ---------- an instance with its own `_dispatch` ---------- -/

/-- The name is not a registered function and the instance has a `_dispatch` method `d`: it is called
    exactly once with `(method, params)`, and
      * its return value is the result;
      * an exception other than `AttributeError` escapes `_dispatch` (and is answered −32603
        `"<class>:<text>"` with the id of the request: `C05_raise_answer`);
      * an `AttributeError` (or a subclass) — which the code cannot tell from "the instance has no
        `_dispatch`" — falls through to the dotted resolution on the instance. -/
theorem C05_instance_dispatch (s : Server) (hcustom : s.custom = Option.none) (m : String) (p : PyVal)
    (hf : s.reg.funcs.lookup m = Option.none) (inst : Instance) (hi : s.reg.inst = some inst)
    (d : DispatchFn) (hd : inst.dispatch = some d) :
    (∀ v, d (.str m) p = .ret v →
      runDispatcher s (.str m) p = (.ok (.value v), [.call .instDispatch (.str m) p])) ∧
    (∀ cls text te depth, d (.str m) p = .raised cls text te false depth →
      runDispatcher s (.str m) p = (.error { cls := cls, arg := .str text }, [.call .instDispatch (.str m) p])) ∧
    (∀ cls text te depth, d (.str m) p = .raised cls text te true depth →
      runDispatcher s (.str m) p =
        (.ok (resolveAndInvoke inst m (.str m) p).1,
         .call .instDispatch (.str m) p :: (resolveAndInvoke inst m (.str m) p).2)) := by
  refine ⟨?_, ?_, ?_⟩
  · intro v hv; simp [runDispatcher, hcustom, dispatch, hf, hi, hd, hv]
  · intro cls text te depth hv; simp [runDispatcher, hcustom, dispatch, hf, hi, hd, hv]
  · intro cls text te depth hv; simp [runDispatcher, hcustom, dispatch, hf, hi, hd, hv]

/- ---------- −32602 ---------- -/

/-- The arguments do not bind: −32602, and the function is not invoked. -/
theorem C05_params (s : Server) (hcustom : s.custom = Option.none) (m : String) (p : PyVal)
    (c : Callable) (hf : s.reg.funcs.lookup m = some c) (hb : binds c.sig p = false) :
    runDispatcher s (.str m) p = (.ok (.fault (-32602) msgParams), []) := by
  simp [runDispatcher, hcustom, dispatch, hf, invoke, hb, handleCallExc, codeParams]

/-- The `TypeError` the code cannot attribute: the arguments bind, the callable is entered and raises a
    `TypeError` that carries no frame of its own (depth 0: `len` given `[5]`, `dict` given `[1]`).  It is
    answered −32602 although the callable ran — the effect log says so. -/
theorem C05_frameless_typeerror (s : Server) (hcustom : s.custom = Option.none) (m : String) (p : PyVal)
    (c : Callable) (hf : s.reg.funcs.lookup m = some c) (hb : binds c.sig p = true)
    (cls text : String) (isAE : Bool) (hbody : c.body p = .raised cls text true isAE 0) :
    runDispatcher s (.str m) p = (.ok (.fault (-32602) msgParams), [.call .func (.str m) p]) := by
  simp [runDispatcher, hcustom, dispatch, hf, invoke, hb, hbody, handleCallExc, codeParams]

/-- −32602 exactly when the arguments do not bind or the callable raised a frameless `TypeError`
    (the depth is an input of the behaviour, not an assumption of the model): in every other case —
    the body returns, raises anything that is not a `TypeError`, or raises a `TypeError` at depth ≥ 1 —
    the answer is the body's result or −32603, never −32602. -/
theorem C05_params_iff (s : Server) (hcustom : s.custom = Option.none) (m : String) (p : PyVal)
    (c : Callable) (hf : s.reg.funcs.lookup m = some c) :
    (∃ msg, (runDispatcher s (.str m) p).1 = .ok (.fault (-32602) msg)) ↔
      (binds c.sig p = false ∨ ∃ cls text ae, c.body p = .raised cls text true ae 0) := by
  constructor
  · intro ⟨msg, h⟩
    cases hb : binds c.sig p with
    | false => exact Or.inl rfl
    | true =>
      right
      simp only [runDispatcher, hcustom, dispatch, hf, invoke, hb, ↓reduceIte] at h
      cases hbody : c.body p with
      | ret v => simp [hbody] at h
      | raised cls text te ae depth =>
        cases te with
        | false => simp [hbody, handleCallExc, methodExceptionFault, codeInternal] at h
        | true =>
          cases depth with
          | zero => exact ⟨cls, text, ae, rfl⟩
          | succ k => simp [hbody, handleCallExc, methodExceptionFault, codeInternal] at h
      | raisedBase cls text depth => simp [hbody, handleCallExc, methodExceptionFault, codeInternal] at h
  · rintro (hb | ⟨cls, text, ae, hbody⟩)
    · exact ⟨msgParams, by rw [C05_params s hcustom m p c hf hb]⟩
    · cases hb : binds c.sig p with
      | false => exact ⟨msgParams, by rw [C05_params s hcustom m p c hf hb]⟩
      | true => exact ⟨msgParams, by rw [C05_frameless_typeerror s hcustom m p c hf hb cls text ae hbody]⟩

/-- A callable is *framed* on `p` when an exception it raises there has a traceback entry of its own
    (depth ≥ 1): every Python `def`, lambda, bound method, object with a Python `__call__`, decorated
    function — whatever the depth. -/
def framed (c : Callable) (p : PyVal) : Bool :=
  match c.body p with
  | .raised _ _ _ _ 0 => false
  | _ => true

/-- For framed callables: −32602 exactly when the arguments do not bind — even when the body raises
    `TypeError`, in its own frame or any number of frames further down. -/
theorem C05_params_iff_framed (s : Server) (hcustom : s.custom = Option.none) (m : String) (p : PyVal)
    (c : Callable) (hf : s.reg.funcs.lookup m = some c) (hfr : framed c p = true) :
    (∃ msg, (runDispatcher s (.str m) p).1 = .ok (.fault (-32602) msg)) ↔ binds c.sig p = false := by
  rw [C05_params_iff s hcustom m p c hf]
  constructor
  · rintro (hb | ⟨cls, text, ae, hbody⟩)
    · exact hb
    · simp [framed, hbody] at hfr
  · exact Or.inl

/-- Same for a callable attribute of the instance. -/
theorem C05_params_instance (s : Server) (hcustom : s.custom = Option.none) (m : String) (p : PyVal)
    (hf : s.reg.funcs.lookup m = Option.none) (inst : Instance) (hi : s.reg.inst = some inst)
    (hd : inst.dispatch = Option.none) (ch : List (String × Attr)) (c : Callable)
    (hr : resolveDotted inst m = some (.node (some c) ch)) (hb : binds c.sig p = false) :
    runDispatcher s (.str m) p = (.ok (.fault (-32602) msgParams), []) := by
  simp [runDispatcher, hcustom, dispatch, hf, hi, hd, resolveAndInvoke, hr, Attr.isNoneValue, Attr.callable, invoke, hb,
    handleCallExc, codeParams]

/- ---------- −32603 ---------- -/

/-- Any exception raised by the body of the method is −32603, the message names the exception class and
    its text, and the method ran exactly once — for every class that is not a `TypeError`, and for
    `TypeError` and its subclasses at every depth ≥ 1 (own frame, helper, decorator). -/
theorem C05_internal (s : Server) (hcustom : s.custom = Option.none) (m : String) (p : PyVal)
    (c : Callable) (hf : s.reg.funcs.lookup m = some c) (hb : binds c.sig p = true)
    (cls text : String) (isTE isAE : Bool) (depth : Nat) (hbody : c.body p = .raised cls text isTE isAE depth)
    (hdepth : isTE = true → depth ≠ 0) :
    runDispatcher s (.str m) p =
      (.ok (.fault (-32603) (msgServerError cls text)), [.call .func (.str m) p]) ∧
    (∃ pre mid post, msgServerError cls text = pre ++ cls ++ mid ++ text ++ post) := by
  constructor
  · cases isTE with
    | false =>
      simp [runDispatcher, hcustom, dispatch, hf, invoke, hb, hbody, handleCallExc, methodExceptionFault, codeInternal]
    | true =>
      have := hdepth rfl
      simp [runDispatcher, hcustom, dispatch, hf, invoke, hb, hbody, handleCallExc, methodExceptionFault, codeInternal, this]
  · simp only [msgServerError]
    by_cases ht : text.isEmpty = true
    · refine ⟨"Server error: ", "", "", ?_⟩
      have : text = "" := by simpa using ht
      simp [ht, this]
    · exact ⟨"Server error: ", ": ", "", by simp [ht, String.append_assoc]⟩

/-- Same through the registered instance (no `_dispatch` of its own): the resolved attribute's exception
    is −32603 naming class and text, one call. -/
theorem C05_internal_instance (s : Server) (hcustom : s.custom = Option.none) (m : String) (p : PyVal)
    (hf : s.reg.funcs.lookup m = Option.none) (inst : Instance) (hi : s.reg.inst = some inst)
    (hd : inst.dispatch = Option.none) (ch : List (String × Attr)) (c : Callable)
    (hr : resolveDotted inst m = some (.node (some c) ch)) (hb : binds c.sig p = true)
    (cls text : String) (isTE isAE : Bool) (depth : Nat) (hbody : c.body p = .raised cls text isTE isAE depth)
    (hdepth : isTE = true → depth ≠ 0) :
    runDispatcher s (.str m) p =
      (.ok (.fault (-32603) (msgServerError cls text)), [.call .attr (.str m) p]) := by
  cases isTE with
  | false =>
    simp [runDispatcher, hcustom, dispatch, hf, hi, hd, resolveAndInvoke, hr, Attr.isNoneValue, Attr.callable, invoke, hb,
      hbody, handleCallExc, methodExceptionFault, codeInternal]
  | true =>
    have := hdepth rfl
    simp [runDispatcher, hcustom, dispatch, hf, hi, hd, resolveAndInvoke, hr, Attr.isNoneValue, Attr.callable, invoke, hb,
      hbody, handleCallExc, methodExceptionFault, codeInternal, this]

/-- A raising custom dispatch function (or instance `_dispatch`): −32603 `"<class>:<text>"`, with the id
    of the request, and the function was called exactly once. -/
theorem C05_internal_custom (s : Server) (hpool : s.pool ≠ .full) (d : DispatchFn) (hcustom : s.custom = some d)
    (e : PyVal) (kvs : List (PyVal × PyVal)) (m : String) (p : PyVal) (hv : validateNF e = .valid kvs m p)
    (hn : notifNF kvs = false) (cls text : String) (isTE isAE : Bool) (depth : Nat)
    (hbody : d (.str m) p = .raised cls text isTE isAE depth) :
    respond s e = some (errorResp s kvs (-32603) (cls ++ ":" ++ text)) ∧
    entryEffects s e = [.call .custom (.str m) p] := by
  apply C05_raise_answer s hpool e kvs m p hv hn
  simp [runDispatcher, hcustom, hbody]

/- ---------- the client ---------- -/

/-- All five codes lie in the pre-defined range of `check_for_errors`. -/
theorem C05_codes_predefined : ∀ c ∈ standardCodes, Client.predefined (.int c) = true := by decide

/-- Composition with the client (`check_for_errors`, C06's model): each error response of the server
    surfaces as `ProtocolError((code, message))`.  The 2.0 form passes the client's version gate
    `float(reply["jsonrpc"]) > 2.0`; the Lean kernel cannot evaluate `String.splitOn`/`toNat?` on the
    literal `"2.0"`, so that one evaluation is the hypothesis `hgate` (checked by execution of the
    `cfe` component on every run, harness/props/c05.py); the 1.0 form needs no hypothesis. -/
theorem C05_client (ver : Nat) (rid : PyVal) (c : Int) (hc : c ∈ standardCodes) (msg : String)
    (hgate : ver ≥ 20 → Client.versionAbove2 (.str (verStr ver)) = .ok false) :
    Client.checkForErrors (Payload.error ver rid (.int c) (.str msg) .none) =
      .error { cls := "ProtocolError", arg := .tuple [.int c, .str msg] } := by
  have hp := C05_codes_predefined c hc
  by_cases hv : ver ≥ 20
  · rw [error_v2 ver hv]
    simp [Client.checkForErrors, truthy, lookupStr, hasKeyStr, hgate hv, Client.errorOf, Client.errorMessage, hp,
      Bind.bind, Except.bind, pure, Except.pure]
  · rw [error_v1 ver (by omega)]
    simp [Client.checkForErrors, truthy, lookupStr, hasKeyStr, Client.errorOf, Client.errorMessage, hp,
      Bind.bind, Except.bind, pure, Except.pure]

theorem C05_client_v1 (rid : PyVal) (c : Int) (hc : c ∈ standardCodes) (msg : String) :
    Client.checkForErrors (Payload.error 10 rid (.int c) (.str msg) .none) =
      .error { cls := "ProtocolError", arg := .tuple [.int c, .str msg] } :=
  C05_client 10 rid c hc msg (by omega)

/- Non-vacuity -/

private def exInst : Instance :=
  { attrs := [("ns", .node Option.none [("_hidden", .node (some { sig := { names := [] }, body := fun _ => .ret (.int 1) }) []),
                                         ("meth", .node (some { sig := { names := ["a"] }, body := fun _ => .raised "TypeError" "inside" true false 1 }) [])]),
              ("nothing", .noneValue), ("number", .node Option.none [])] }

example : resolveSegs ["ns", "_hidden"] (.node Option.none exInst.attrs) = Option.none :=
  C05_private_segments _ _ ⟨"_hidden", by simp, by simp⟩

private def exTE (depth : Nat) : Registry :=
  { funcs := [("te", { sig := { names := ["a"] }, body := fun _ => .raised "TypeError" "inside" true false depth })] }

/-- A `TypeError` raised inside the body — in the function's own frame (depth 1) or behind two more
    frames — is an internal error, not "invalid parameters" … -/
example : dispatch (exTE 1) "te" (.list [.int 1])
    = (.ok (.fault (-32603) "Server error: TypeError: inside"), [.call .func (.str "te") (.list [.int 1])]) := by
  decide +kernel

example : dispatch (exTE 3) "te" (.list [.int 1])
    = (.ok (.fault (-32603) "Server error: TypeError: inside"), [.call .func (.str "te") (.list [.int 1])]) := by
  decide +kernel

/-- … a frameless one (a builtin's) is −32602 although the callable ran … -/
example : dispatch (exTE 0) "te" (.list [.int 1])
    = (.ok (.fault (-32602) msgParams), [.call .func (.str "te") (.list [.int 1])]) := by
  decide +kernel

/-- … and arguments that do not bind are −32602 with nothing invoked. -/
example : dispatch (exTE 1) "te" (.list []) = (.ok (.fault (-32602) msgParams), []) := by
  decide +kernel

example : framed { sig := { names := ["a"] }, body := fun _ => .raised "TypeError" "inside" true false 2 } (.list [.int 1]) = true := by
  decide

/-- `C05_instance_dispatch`: an instance whose own `_dispatch` returns / raises something that is not an
    `AttributeError` (the fall-through case needs `String.splitOn`, which the kernel cannot evaluate). -/
example : dispatch { inst := some { dispatch := some (fun m _ => .ret m) } } "anything" (.list [])
    = (.ok (.value (.str "anything")), [.call .instDispatch (.str "anything") (.list [])]) := by
  decide +kernel

example : dispatch { inst := some { dispatch := some (fun _ _ => .raised "KeyError" "" false false 1) } } "m" (.list [])
    = (.error { cls := "KeyError", arg := .str "" }, [.call .instDispatch (.str "m") (.list [])]) := by
  decide +kernel

/-- The attribute shapes of `C05_none_attribute` / `C05_noncallable_attribute` (on the segment list:
    the kernel cannot evaluate `String.splitOn` on a literal). -/
example : (resolveSegs ["nothing"] (.node Option.none exInst.attrs)).map Attr.isNoneValue = some true := by
  decide +kernel
example : (resolveSegs ["number"] (.node Option.none exInst.attrs)).map (fun a => (a.isNoneValue, a.callable.isSome))
    = some (false, false) := by
  decide +kernel
example : (resolveSegs ["nothing", "real"] (.node Option.none exInst.attrs)).isNone = true := by
  decide +kernel

end JRV.Props
