/-
  C05 — Failures get the standard error codes and rejected requests run nothing.

  Dispatcher-level theorems (`runDispatcher`, i.e. `_dispatch` or the custom function) say which Fault
  a call produces and what it invoked; `C05_fault_answer` / `C05_raise_answer` lift them to the response
  object of the entry (code, message, id, effect log).  "Nothing is invoked" is `effects = []`.

  Reading: "argument mismatch" = the call does not bind (`binds c.sig params = false`); any exception
  raised by the body — a `TypeError` included — is −32603 (the code tests `tb_next`).
-/
import JRV.Lemmas.Server
import JRV.Model.Client
import JRV.Generated

set_option linter.unusedSimpArgs false
set_option linter.unusedVariables false

namespace JRV.Props
open JRV JRV.PyVal JRV.Callable JRV.Payload JRV.Server

/-- The five codes of the property. -/
def standardCodes : List Int := [codeParse, codeInvalid, codeUnknown, codeParams, codeInternal]

/-- The error response an entry with fields `kvs` gets: request-specific version, the entry's id. -/
def errorResp (s : Server) (kvs : List (PyVal × PyVal)) (c : Int) (msg : String) : PyVal :=
  Payload.error (requestConfig s.cfg (hasKeyStr "jsonrpc" kvs)).version ((lookupStr "id" kvs).getD .none)
    (.int c) (.str msg) .none

/- ---------- −32700 ---------- -/

/-- Malformed JSON, or a payload the class translator rejects: a single −32700 error object (whatever
    the body was meant to be — a batch included), id null, and nothing is invoked. -/
theorem C05_parse (s : Server) :
    marshaledDispatch s .parseError =
      (.ok (.doc (Payload.error s.cfg.version .none (.int (-32700)) (.str msgParse) .none)), []) := by
  rw [marshaled_parseError]; rfl

/- ---------- −32600 ---------- -/

/-- A structurally invalid entry (not an object; no version marker; method missing, empty or not a
    string; params of scalar type) is answered −32600 with its id (null if it has none), and contributes
    no effect — alone or at any batch position (`batchLoop_eq`: the loop maps `respond` over the entries). -/
theorem C05_invalid (s : Server) (e : PyVal) (h : wfRequest e = false) :
    ∃ msg, respond s e = some (Payload.error s.cfg.version (entryId e) (.int (-32600)) (.str msg) .none) ∧
      entryEffects s e = [] := by
  cases hv : validateNF e with
  | valid kvs m p =>
    have := (valid_iff_wfRequest e).mp ⟨kvs, m, p, hv⟩
    rw [this] at h; exact absurd h (by simp)
  | fault f =>
    obtain ⟨hc, ⟨msg, hm⟩, hid, hd⟩ := validateNF_fault hv
    refine ⟨msg, ?_, ?_⟩
    · simp [respond, entryNF, hv, faultDump, hc, hm, hid, hd, codeInvalid]
    · simp [entryEffects, entryNF, hv]

/-- At top level: an empty body, `null`, `0`, `""`, `[]`, `{}` … (falsy) is −32600 "no request data";
    any other value that is not a well-formed request object or a list is −32600 as an entry. -/
theorem C05_invalid_toplevel (s : Server) (hpool : s.pool ≠ .full) (e : PyVal) :
    (e.truthy = false →
      marshaledDispatch s (.parsed e) =
        (.ok (.doc (Payload.error s.cfg.version .none (.int (-32600)) (.str msgNoData) .none)), [])) ∧
    (e.truthy = true → e.isList = false → wfRequest e = false →
      ∃ msg, marshaledDispatch s (.parsed e) =
        (.ok (finalReply s (Payload.error s.cfg.version (entryId e) (.int (-32600)) (.str msg) .none)), [])) := by
  constructor
  · intro hf
    rw [marshaled_falsy s e hf]; rfl
  · intro ht hl hw
    obtain ⟨msg, hr, heff⟩ := C05_invalid s e hw
    exact ⟨msg, by rw [marshaled_single s hpool e ht hl, hr, heff]⟩

/- ---------- lifting dispatcher results to responses ---------- -/

/-- A Fault object returned by the dispatcher becomes the error response of the entry, with the
    entry's id, and the entry's effect log is the dispatcher's. -/
theorem C05_fault_answer (s : Server) (hpool : s.pool ≠ .full) (e : PyVal) (kvs : List (PyVal × PyVal)) (m : String)
    (p : PyVal) (hv : validateNF e = .valid kvs m p) (hn : notifNF kvs = false)
    (c : Int) (msg : String) (eff : List Effect)
    (hd : runDispatcher s (.str m) p = (.ok (.fault c msg), eff)) :
    respond s e = some (errorResp s kvs c msg) ∧ entryEffects s e = eff := by
  simp only [respond, entryEffects, entryNF, hv, singleNF, hn, hd]
  cases hp : s.pool <;> simp_all [respOf, buildResponse, Payload.dump, resolveVersion, isStr, errorResp,
    Bind.bind, Except.bind, pure, Except.pure]

/-- An exception that escapes the dispatcher (custom function, or the instance's own `_dispatch`) is
    answered −32603 with `"<class>:<text>"` and the entry's id. -/
theorem C05_raise_answer (s : Server) (hpool : s.pool ≠ .full) (e : PyVal) (kvs : List (PyVal × PyVal)) (m : String)
    (p : PyVal) (hv : validateNF e = .valid kvs m p) (hn : notifNF kvs = false)
    (cls text : String) (eff : List Effect)
    (hd : runDispatcher s (.str m) p = (.error { cls := cls, arg := .str text }, eff)) :
    respond s e = some (errorResp s kvs (-32603) (cls ++ ":" ++ text)) ∧ entryEffects s e = eff := by
  simp only [respond, entryEffects, entryNF, hv, singleNF, hn, hd]
  cases hp : s.pool <;> simp_all [respOf, faultDump, internalFault, msgExc, errText, errorResp, codeInternal]

/- ---------- −32601 ---------- -/

/-- Unknown method: no function of that name and no instance, or an instance (without `_dispatch` of
    its own) on which the dotted name does not resolve: −32601, nothing is invoked. -/
theorem C05_unknown (s : Server) (hcustom : s.custom = Option.none) (m : String) (p : PyVal)
    (hf : s.reg.funcs.lookup m = Option.none)
    (hi : s.reg.inst = Option.none ∨
      ∃ inst, s.reg.inst = some inst ∧ inst.dispatch = Option.none ∧ resolveDotted inst m = Option.none) :
    runDispatcher s (.str m) p = (.ok (.fault (-32601) (msgUnknown m)), []) := by
  rcases hi with hi | ⟨inst, hi, hd, hr⟩
  · simp [runDispatcher, hcustom, dispatch, hf, hi, unknownMethod, codeUnknown]
  · simp [runDispatcher, hcustom, dispatch, hf, hi, hd, resolveAndInvoke, hr, unknownMethod, codeUnknown]

/-- `resolve_dotted_attribute`: a segment list containing a segment that starts with `_` never
    resolves, wherever that segment is and whatever the attribute tree contains (induction on the list). -/
theorem C05_private_segments (segs : List String) (a : Attr)
    (h : ∃ seg ∈ segs, seg.startsWith "_" = true) : resolveSegs segs a = Option.none := by
  induction segs generalizing a with
  | nil => obtain ⟨seg, hmem, _⟩ := h; simp at hmem
  | cons seg rest ih =>
    simp only [resolveSegs]
    by_cases hs : seg.startsWith "_" = true
    · simp [hs]
    · simp only [hs, Bool.false_eq_true, ↓reduceIte]
      cases hl : a.children.lookup seg with
      | none => rfl
      | some child =>
        apply ih
        obtain ⟨sg, hmem, hsg⟩ := h
        rcases List.mem_cons.mp hmem with heq | hrest
        · subst heq; exact absurd hsg hs
        · exact ⟨sg, hrest, hsg⟩

/-- On a registered instance, any dotted name with a segment starting with an underscore is an
    unknown method: −32601, nothing is invoked (the name is not a registered function). -/
theorem C05_private (s : Server) (hcustom : s.custom = Option.none) (m : String) (p : PyVal)
    (hf : s.reg.funcs.lookup m = Option.none) (inst : Instance) (hi : s.reg.inst = some inst)
    (hd : inst.dispatch = Option.none)
    (h : ∃ seg ∈ m.splitOn ".", seg.startsWith "_" = true) :
    runDispatcher s (.str m) p = (.ok (.fault (-32601) (msgUnknown m)), []) :=
  C05_unknown s hcustom m p hf (Or.inr ⟨inst, hi, hd, C05_private_segments _ _ h⟩)

/- ---------- −32602 ---------- -/

/-- The arguments do not bind: −32602, and the function is not invoked. -/
theorem C05_params (s : Server) (hcustom : s.custom = Option.none) (m : String) (p : PyVal)
    (c : Callable) (hf : s.reg.funcs.lookup m = some c) (hb : binds c.sig p = false) :
    runDispatcher s (.str m) p = (.ok (.fault (-32602) msgParams), []) := by
  simp [runDispatcher, hcustom, dispatch, hf, invoke, hb, handleCallExc, codeParams]

/-- −32602 exactly when the arguments do not bind: a call that binds gives the body's result or −32603,
    never −32602 — even when the body raises `TypeError`. -/
theorem C05_params_iff (s : Server) (hcustom : s.custom = Option.none) (m : String) (p : PyVal)
    (c : Callable) (hf : s.reg.funcs.lookup m = some c) :
    (∃ msg, (runDispatcher s (.str m) p).1 = .ok (.fault (-32602) msg)) ↔ binds c.sig p = false := by
  constructor
  · intro ⟨msg, h⟩
    cases hb : binds c.sig p with
    | false => rfl
    | true =>
      simp only [runDispatcher, hcustom, dispatch, hf, invoke, hb, ↓reduceIte] at h
      cases hbody : c.body p with
      | ret v => simp [hbody] at h
      | raised cls text te ae =>
        cases te <;> simp [hbody, handleCallExc, methodExceptionFault, codeInternal] at h
  · intro hb
    exact ⟨msgParams, by rw [C05_params s hcustom m p c hf hb]⟩

/-- Same for a callable attribute of the instance. -/
theorem C05_params_instance (s : Server) (hcustom : s.custom = Option.none) (m : String) (p : PyVal)
    (hf : s.reg.funcs.lookup m = Option.none) (inst : Instance) (hi : s.reg.inst = some inst)
    (hd : inst.dispatch = Option.none) (a : Attr) (hr : resolveDotted inst m = some a)
    (c : Callable) (hc : a.callable = some c) (hb : binds c.sig p = false) :
    runDispatcher s (.str m) p = (.ok (.fault (-32602) msgParams), []) := by
  simp [runDispatcher, hcustom, dispatch, hf, hi, hd, resolveAndInvoke, hr, hc, invoke, hb, handleCallExc, codeParams]

/- ---------- −32603 ---------- -/

/-- Any exception raised by the body of the method — `TypeError` and its subclasses included — is
    −32603, the message names the exception class and its text, and the method ran exactly once. -/
theorem C05_internal (s : Server) (hcustom : s.custom = Option.none) (m : String) (p : PyVal)
    (c : Callable) (hf : s.reg.funcs.lookup m = some c) (hb : binds c.sig p = true)
    (cls text : String) (isTE isAE : Bool) (hbody : c.body p = .raised cls text isTE isAE) :
    runDispatcher s (.str m) p =
      (.ok (.fault (-32603) (msgServerError cls text)), [.call .func (.str m) p]) ∧
    (∃ pre mid post, msgServerError cls text = pre ++ cls ++ mid ++ text ++ post) := by
  constructor
  · cases isTE <;>
      simp [runDispatcher, hcustom, dispatch, hf, invoke, hb, hbody, handleCallExc, methodExceptionFault, codeInternal]
  · simp only [msgServerError]
    by_cases ht : text.isEmpty = true
    · refine ⟨"Server error: ", "", "", ?_⟩
      have : text = "" := by simpa using ht
      simp [ht, this]
    · exact ⟨"Server error: ", ": ", "", by simp [ht, String.append_assoc]⟩

/-- A raising custom dispatch function (or instance `_dispatch`): −32603 `"<class>:<text>"`, with the id
    of the request, and the function was called exactly once. -/
theorem C05_internal_custom (s : Server) (hpool : s.pool ≠ .full) (d : DispatchFn) (hcustom : s.custom = some d)
    (e : PyVal) (kvs : List (PyVal × PyVal)) (m : String) (p : PyVal) (hv : validateNF e = .valid kvs m p)
    (hn : notifNF kvs = false) (cls text : String) (isTE isAE : Bool)
    (hbody : d (.str m) p = .raised cls text isTE isAE) :
    respond s e = some (errorResp s kvs (-32603) (cls ++ ":" ++ text)) ∧
    entryEffects s e = [.call .custom (.str m) p] := by
  apply C05_raise_answer s hpool e kvs m p hv hn
  simp [runDispatcher, hcustom, hbody]

/- ---------- the client ---------- -/

/-- All five codes lie in the pre-defined range of `check_for_errors`. -/
theorem C05_codes_predefined : ∀ c ∈ standardCodes, Client.predefined (.int c) = true := by decide

/-- Composition with the client (`check_for_errors`, C06's model): each error response of the server
    surfaces as `ProtocolError((code, message))`.  The 2.0 form passes the client's version gate
    `float(reply["jsonrpc"]) > 2.0`; the Lean kernel cannot evaluate `String.splitOn`/`toNat?` on the
    literal `"2.0"`, so that one evaluation is the hypothesis `hgate` (checked by execution of the
    `cfe` component on every run, harness/props/c05.py); the 1.0 form needs no hypothesis. -/
theorem C05_client (ver : Nat) (rid : PyVal) (c : Int) (hc : c ∈ standardCodes) (msg : String)
    (hgate : ver ≥ 20 → Client.versionAbove2 (.str (verStr ver)) = .ok false) :
    Client.checkForErrors (Payload.error ver rid (.int c) (.str msg) .none) =
      .error { cls := "ProtocolError", arg := .tuple [.int c, .str msg] } := by
  have hp := C05_codes_predefined c hc
  by_cases hv : ver ≥ 20
  · rw [error_v2 ver hv]
    simp [Client.checkForErrors, truthy, lookupStr, hasKeyStr, hgate hv, Client.errorOf, Client.errorMessage, hp,
      Bind.bind, Except.bind, pure, Except.pure]
  · rw [error_v1 ver (by omega)]
    simp [Client.checkForErrors, truthy, lookupStr, hasKeyStr, Client.errorOf, Client.errorMessage, hp,
      Bind.bind, Except.bind, pure, Except.pure]

theorem C05_client_v1 (rid : PyVal) (c : Int) (hc : c ∈ standardCodes) (msg : String) :
    Client.checkForErrors (Payload.error 10 rid (.int c) (.str msg) .none) =
      .error { cls := "ProtocolError", arg := .tuple [.int c, .str msg] } :=
  C05_client 10 rid c hc msg (by omega)

/- ---------- tie to the source ---------- -/

theorem C05_gen_faultSites : Generated.faultSites = some faultSiteTable := by decide

/-- The handlers around `func(*params)`: `except TypeError` first, then a catch-all. -/
theorem C05_gen_dispatchHandlers : Generated.dispatchHandlers = some ["TypeError", "<bare>"] := by decide

/-- The `TypeError` handler first tests `tb_next is not None` (`CallExc.inBody`) and reports a method exception. -/
theorem C05_gen_tbNextTest : Generated.tbNextTest = some true := by decide

/-- `resolve_dotted_attribute(self.instance, method, True)`: dotted names are split (`resolveDotted`). -/
theorem C05_gen_dottedAllowed : Generated.dottedAllowed = some true := by decide

theorem C05_gen_loadsGuarded : Generated.loadsGuarded = some true := by decide

/- Non-vacuity -/

private def exInst : Instance :=
  { attrs := [("ns", .node Option.none [("_hidden", .node (some { sig := { names := [] }, body := fun _ => .ret (.int 1) }) []),
                                         ("meth", .node (some { sig := { names := ["a"] }, body := fun _ => .raised "TypeError" "inside" true false }) [])])] }

example : resolveSegs ["ns", "_hidden"] (.node Option.none exInst.attrs) = Option.none :=
  C05_private_segments _ _ ⟨"_hidden", by simp, by simp⟩

/-- A `TypeError` raised inside the body is an internal error, not "invalid parameters". -/
example : dispatch { funcs := [("te", { sig := { names := ["a"] }, body := fun _ => .raised "TypeError" "inside" true false })] }
    "te" (.list [.int 1])
    = (.ok (.fault (-32603) "Server error: TypeError: inside"), [.call .func (.str "te") (.list [.int 1])]) := by
  decide +kernel

example : (dispatch { funcs := [("te", { sig := { names := ["a"] }, body := fun _ => .raised "TypeError" "inside" true false })] }
    "te" (.list [])).1 = .ok (.fault (-32602) msgParams) := by
  decide +kernel

end JRV.Props
