/-
  C05 — companion theorems of the extracted facts (see C02Gen.lean for the convention).
-/
import JRV.Model.Server
import JRV.Generated

namespace JRV.Props
open JRV JRV.Server

theorem C05_gen_faultSites : Generated.faultSites = some faultSiteTable := by decide

/-- The handlers around `func(*params)`: `except TypeError` first, then a catch-all (`handleCallExc`). -/
theorem C05_gen_dispatchHandlers : Generated.dispatchHandlers = some ["TypeError", "<bare>"] := by decide

/-- The `TypeError` handler first tests `sys.exc_info()[2].tb_next is not None` — on the traceback of the
    handled exception itself, not on a rebound variable — and then reports a method exception: the
    model's `inBody := depth ≠ 0` with `depth` counted from the frame of `_dispatch`. -/
theorem C05_gen_tbNextTest : Generated.tbNextTest = some true := by decide

/-- `resolve_dotted_attribute(self.instance, method, True)`: dotted names are split (`resolveDotted`). -/
theorem C05_gen_dottedAllowed : Generated.dottedAllowed = some true := by decide

theorem C05_gen_loadsGuarded : Generated.loadsGuarded = some true := by decide

/-- The handlers around the method call never call the method (or a dispatcher) again: the model's effect
    log has exactly one `call` per invocation (`invoke`, `runDispatcher`). -/
theorem C05_gen_handlersOnlyReport : Generated.handlersOnlyReport = some true := by decide

/-- `_dispatch` looks the method up under the name it was given (`reg.funcs.lookup m`, `resolveDotted inst m`):
    `method` is never rebound (no strip / case folding / normalisation). -/
theorem C05_gen_methodUnmodified : Generated.methodUnmodified = some true := by decide

/-- The standard-library handler parses with `json.loads` and its default, strict settings: the grammar
    of `JRV.Model.JsonText` (hypothesis `hstrict` of `C05_malformed_text`). -/
theorem C05_gen_stdlibLoadsPlain : Generated.stdlibLoadsPlain = some true := by decide

/-- `_marshaled_dispatch`: `if not data: raise …` is the first statement of the parse `try` (whose handler
    builds the −32700 Fault), before `loads` is called: the model's `marshaledDispatchBody s true _`. -/
theorem C05_gen_emptyBodyRejectedInParseTry : Generated.emptyBodyRejectedInParseTry = some true := by decide

/-- `loads` hands the body to the parser as it is: the verdict is that of the whole text. -/
theorem C05_gen_loadsParsesWholeBody : Generated.loadsParsesWholeBody = some true := by decide

/- ===== byte layer (tools/extractors/bytelayer.py) — section added for the byte-level input classes ===== -/

/-- The HTTP handler's text is the strict UTF-8 decoding of the body (`utils.from_bytes`): `ByteBody.bodyVerdict`
    decodes with `Wire.fromBytes`, so a body that starts with EF BB BF is the malformed text `U+FEFF …`
    (`C05_body_bom_malformed`). -/
theorem C05_gen_fromBytesCodec : Generated.fromBytesCodec = some ("utf-8", false) := by decide

end JRV.Props
