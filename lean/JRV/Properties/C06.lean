/-
  C06 — The client never swallows or mistypes a server-reported error.

  Property theorems only (helper lemmas local to this file are `private`).
  Model: JRV.Model.Client (check_for_errors, proxy result extraction, MultiCall access).

  Domain guard `envelopeOk kvs = true`: the reply is a 1.0-form envelope (no `jsonrpc` member) or a
  2.0-form envelope whose `jsonrpc` member is a number or simple decimal string not above 2.0 —
  exactly the inputs on which `versionAbove2` returns `false` without raising.

  Companion theorems of the extracted facts (`C06_gen_*`) live in JRV/Properties/C06Gen.lean.
-/
import JRV.Model.Client
import JRV.Model.ClientWire

set_option linter.unusedSimpArgs false

namespace JRV.Props
open JRV JRV.PyVal JRV.Client

/-- The envelope passes the version gate of `check_for_errors`. -/
def envelopeOk (kvs : List (PyVal × PyVal)) : Bool :=
  match lookupStr "jsonrpc" kvs with
  | some v => decide (versionAbove2 v = .ok false)
  | Option.none => true

private theorem truthy_dict_of_lookup {kvs : List (PyVal × PyVal)} {k : String} {v : PyVal}
    (h : lookupStr k kvs = some v) : (PyVal.dict kvs).truthy = true := by
  cases kvs with
  | nil => simp [lookupStr] at h
  | cons _ _ => simp [truthy]

/-- A reply object whose `error` member is truthy always raises, and raises exactly the
    exception `errorOf` describes — it never returns and never raises anything else. -/
theorem C06_error_raises (kvs : List (PyVal × PyVal)) (e : PyVal)
    (henv : envelopeOk kvs = true) (herr : lookupStr "error" kvs = some e) (ht : e.truthy = true) :
    checkForErrors (.dict kvs) = .error (errorOf e) := by
  have htr := truthy_dict_of_lookup herr
  unfold checkForErrors
  simp only [htr, Bool.not_true, Bool.false_eq_true, ↓reduceIte]
  unfold envelopeOk at henv
  have hk : hasKeyStr "error" kvs = true := by simp [hasKeyStr, herr]
  cases hj : lookupStr "jsonrpc" kvs with
  | none =>
    simp [hj, hk, herr, ht, bind, Except.bind, pure, Except.pure]
  | some v =>
    simp only [hj, decide_eq_true_eq] at henv
    simp [hj, henv, hk, herr, ht, bind, Except.bind, pure, Except.pure]

/-- The class raised is `ProtocolError` or its subclass `AppError`, for every error value. -/
theorem C06_error_class (e : PyVal) :
    (errorOf e).cls = "ProtocolError" ∨ (errorOf e).cls = "AppError" := by
  unfold errorOf
  repeat' split
  all_goals simp

/-- Error objects with a code: in-range codes raise plain `ProtocolError (code, message)`, every
    other code raises `AppError (code, message, data)`; the message is `message`, else `trace`,
    else the fixed placeholder. -/
theorem C06_coded (ekvs : List (PyVal × PyVal)) (code : PyVal) (hc : lookupStr "code" ekvs = some code) :
    errorOf (.dict ekvs) =
      (if predefined code then { cls := "ProtocolError", arg := .tuple [code, errorMessage ekvs] }
       else { cls := "AppError", arg := .tuple [code, errorMessage ekvs, (lookupStr "data" ekvs).getD .none] }) := by
  simp [errorOf, hc]

/-- The message is `message` when present, else `trace`, else the fixed placeholder. -/
theorem C06_message (ekvs : List (PyVal × PyVal)) :
    (∀ m, lookupStr "message" ekvs = some m → errorMessage ekvs = m) ∧
    (lookupStr "message" ekvs = Option.none → ∀ t, lookupStr "trace" ekvs = some t → errorMessage ekvs = t) ∧
    (lookupStr "message" ekvs = Option.none → lookupStr "trace" ekvs = Option.none →
      errorMessage ekvs = .str "<no error message>") := by
  refine ⟨?_, ?_, ?_⟩ <;> intros <;> simp_all [errorMessage]

/-- Boundary lemma: an integer code is pre-defined exactly when `-32700 ≤ c ≤ -32000`, inclusive. -/
theorem C06_range_int (c : Int) : predefined (.int c) = true ↔ (-32700 ≤ c ∧ c ≤ -32000) := by
  simp only [predefined, cmpInt?, protoLo, protoHi]
  constructor
  · intro h
    simp only [bne_iff_ne, ne_eq, Bool.and_eq_true] at h
    obtain ⟨h1, h2⟩ := h
    constructor
    · rcases Int.lt_or_le c (-32700) with hl | hl
      · exact absurd (by simp [compare, compareOfLessAndEq, hl]) h1
      · exact hl
    · rcases Int.lt_or_le (-32000) c with hl | hl
      · exfalso; apply h2
        have : ¬ c < -32000 := by omega
        have : ¬ c = -32000 := by omega
        simp [compare, compareOfLessAndEq, *]
      · exact hl
  · intro ⟨h1, h2⟩
    simp only [bne_iff_ne, ne_eq, Bool.and_eq_true]
    constructor
    · have : ¬ c < -32700 := by omega
      simp only [compare, compareOfLessAndEq, this, ↓reduceIte]
      split <;> simp
    · by_cases hlt : c < -32000
      · simp [compare, compareOfLessAndEq, hlt]
      · have : c = -32000 := by omega
        simp [compare, compareOfLessAndEq, this]

/-- A non-numeric code (string, null, container) is never pre-defined: it is an application error. -/
theorem C06_range_nonnumeric (code : PyVal) (h : code.isNumeric = false) : predefined code = false := by
  cases code <;> simp_all [predefined, cmpInt?, isNumeric]

/-- Error values that are not objects are raised as they are; single-entry objects raise their value. -/
theorem C06_raw (e : PyVal) (h : e.isDict = false) : errorOf e = { cls := "ProtocolError", arg := e } := by
  cases e <;> simp_all [errorOf, isDict]

theorem C06_single_entry (k v : PyVal) (h : lookupStr "code" [(k, v)] = Option.none) :
    errorOf (.dict [(k, v)]) = { cls := "ProtocolError", arg := v } := by
  simp [errorOf, h]

/-- A reply with a null, falsy or absent error and a `result` member returns that result unchanged
    through the proxy — for every result value, falsy ones included. -/
theorem C06_result_unchanged (kvs : List (PyVal × PyVal)) (r : PyVal)
    (henv : envelopeOk kvs = true) (hres : lookupStr "result" kvs = some r)
    (herr : ∀ e, lookupStr "error" kvs = some e → e.truthy = false) :
    proxyResult (.dict kvs) = .ok r := by
  have htr := truthy_dict_of_lookup hres
  have hk : hasKeyStr "result" kvs = true := by simp [hasKeyStr, hres]
  unfold proxyResult checkForErrors
  simp only [htr, Bool.not_true, Bool.false_eq_true, ↓reduceIte]
  unfold envelopeOk at henv
  cases hj : lookupStr "jsonrpc" kvs with
  | none =>
    cases he : lookupStr "error" kvs with
    | none => simp [hj, hk, he, hres, subscriptResult, bind, Except.bind, pure, Except.pure]
    | some e =>
      have := herr e he
      simp [hj, hk, he, this, hres, subscriptResult, bind, Except.bind, pure, Except.pure]
  | some v =>
    simp only [hj, decide_eq_true_eq] at henv
    cases he : lookupStr "error" kvs with
    | none => simp [hj, henv, hk, he, hres, subscriptResult, bind, Except.bind, pure, Except.pure]
    | some e =>
      have := herr e he
      simp [hj, henv, hk, he, this, hres, subscriptResult, bind, Except.bind, pure, Except.pure]

/-- ServerProxy call (`proxy.some.method(...)`, `ServerProxy._request`): an error reply raises exactly the
    exception `errorOf` describes — the `response["result"]` after the check is never reached. -/
theorem C06_proxy_error (kvs : List (PyVal × PyVal)) (e : PyVal)
    (henv : envelopeOk kvs = true) (herr : lookupStr "error" kvs = some e) (ht : e.truthy = true) :
    proxyResult (.dict kvs) = .error (errorOf e) := by
  simp [proxyResult, C06_error_raises kvs e henv herr ht, bind, Except.bind]

/-- Notification call (`proxy._notify.some.method(...)`, `ServerProxy._request_notify`): a server that does
    answer a notification with an error object (this library's server does for an invalid request) makes
    the call raise that error — it is not swallowed because "notifications are never answered". -/
theorem C06_notify_error (kvs : List (PyVal × PyVal)) (e : PyVal)
    (henv : envelopeOk kvs = true) (herr : lookupStr "error" kvs = some e) (ht : e.truthy = true) :
    proxyNotify (.dict kvs) = .error (errorOf e) := by
  simp [proxyNotify, C06_error_raises kvs e henv herr ht, bind, Except.bind]

/-- …and the notification call returns `None` for an empty reply (the normal case) as for every reply
    without a truthy error that has a `result` member: `_request_notify` returns nothing by construction. -/
theorem C06_notify_none (kvs : List (PyVal × PyVal)) (r : PyVal)
    (henv : envelopeOk kvs = true) (hres : lookupStr "result" kvs = some r)
    (herr : ∀ e, lookupStr "error" kvs = some e → e.truthy = false) :
    proxyNotify (.dict kvs) = .ok .none ∧ proxyNotify .none = .ok .none ∧ proxyNotify (.str "") = .ok .none := by
  have h := C06_result_unchanged kvs r henv hres herr
  refine ⟨?_, by simp [proxyNotify, checkForErrors, truthy, bind, Except.bind, pure, Except.pure],
    by simp [proxyNotify, checkForErrors, truthy, bind, Except.bind, pure, Except.pure]⟩
  unfold proxyResult at h
  unfold proxyNotify
  cases hc : checkForErrors (.dict kvs) with
  | ok v => simp [bind, Except.bind, pure, Except.pure]
  | error x => simp [hc, bind, Except.bind] at h

/-- The same two facts at every batch position of a MultiCall result. -/
theorem C06_multicall (results : List PyVal) (i : Nat) (kvs : List (PyVal × PyVal))
    (hi : results[i]? = some (.dict kvs)) (henv : envelopeOk kvs = true) :
    (∀ e, lookupStr "error" kvs = some e → e.truthy = true →
        multicallGet results i = .error (errorOf e)) ∧
    (∀ r, lookupStr "result" kvs = some r →
        (∀ e, lookupStr "error" kvs = some e → e.truthy = false) →
        multicallGet results i = .ok r) := by
  constructor
  · intro e he ht
    simp [multicallGet, hi, proxyResult, C06_error_raises kvs e henv he ht, bind, Except.bind]
  · intro r hr herr
    simp only [multicallGet, hi]
    exact C06_result_unchanged kvs r henv hr herr

/-- Iteration over a MultiCall result (`for r in mc()`, `list(mc())`, `a, b = mc()`): the entries before the
    first error entry are handed out as their `result` members, in order and unchanged; the first error entry
    ends the iteration with exactly the exception `errorOf` describes (nothing is yielded in its place, and
    nothing after it is looked at). -/
theorem C06_iter_first_error (pre : List (List (PyVal × PyVal) × PyVal)) (kvs : List (PyVal × PyVal)) (e : PyVal)
    (rest : List PyVal)
    (hpre : ∀ p ∈ pre, envelopeOk p.1 = true ∧ lookupStr "result" p.1 = some p.2 ∧
        (∀ e, lookupStr "error" p.1 = some e → e.truthy = false))
    (henv : envelopeOk kvs = true) (herr : lookupStr "error" kvs = some e) (ht : e.truthy = true) :
    multicallIter (pre.map (fun p => PyVal.dict p.1) ++ PyVal.dict kvs :: rest)
      = (pre.map (·.2), some (errorOf e)) := by
  induction pre with
  | nil => simp [multicallIter, C06_proxy_error kvs e henv herr ht]
  | cons p ps ih =>
    have hp := hpre p (by simp)
    have ih' := ih (fun q hq => hpre q (by simp [hq]))
    simp [multicallIter, C06_result_unchanged p.1 p.2 hp.1 hp.2.1 hp.2.2, ih']

/-- Iteration over a MultiCall result without error entries yields every `result` member, in order. -/
theorem C06_iter_all (items : List (List (PyVal × PyVal) × PyVal))
    (hall : ∀ p ∈ items, envelopeOk p.1 = true ∧ lookupStr "result" p.1 = some p.2 ∧
        (∀ e, lookupStr "error" p.1 = some e → e.truthy = false)) :
    multicallIter (items.map (fun p => PyVal.dict p.1)) = (items.map (·.2), Option.none) := by
  induction items with
  | nil => simp [multicallIter]
  | cons p ps ih =>
    have hp := hall p (by simp)
    have ih' := ih (fun q hq => hall q (by simp [hq]))
    simp [multicallIter, C06_result_unchanged p.1 p.2 hp.1 hp.2.1 hp.2.2, ih']

/-- `list(mc())` (and `tuple`, `sorted`, …): the list of results, or the exception of the first error entry. -/
theorem C06_list (pre : List (List (PyVal × PyVal) × PyVal)) (kvs : List (PyVal × PyVal)) (e : PyVal)
    (rest : List PyVal)
    (hpre : ∀ p ∈ pre, envelopeOk p.1 = true ∧ lookupStr "result" p.1 = some p.2 ∧
        (∀ e, lookupStr "error" p.1 = some e → e.truthy = false))
    (henv : envelopeOk kvs = true) (herr : lookupStr "error" kvs = some e) (ht : e.truthy = true) :
    multicallList (pre.map (fun p => PyVal.dict p.1) ++ PyVal.dict kvs :: rest) = .error (errorOf e) ∧
    multicallList (pre.map (fun p => PyVal.dict p.1)) = .ok (pre.map (·.2)) := by
  simp [multicallList, C06_iter_first_error pre kvs e rest hpre henv herr ht, C06_iter_all pre hpre,
    pure, Except.pure]

/-- Unpacking `a1, …, an = mc()`: an error entry among the entries the unpacking consumes (the `n` targets
    and the one probed for "too many values") raises its exception, whatever the arity. -/
theorem C06_unpack_error (pre : List (List (PyVal × PyVal) × PyVal)) (kvs : List (PyVal × PyVal)) (e : PyVal)
    (rest : List PyVal) (n : Nat) (hn : pre.length ≤ n)
    (hpre : ∀ p ∈ pre, envelopeOk p.1 = true ∧ lookupStr "result" p.1 = some p.2 ∧
        (∀ e, lookupStr "error" p.1 = some e → e.truthy = false))
    (henv : envelopeOk kvs = true) (herr : lookupStr "error" kvs = some e) (ht : e.truthy = true) :
    multicallUnpack (pre.map (fun p => PyVal.dict p.1) ++ PyVal.dict kvs :: rest) n = .error (errorOf e) := by
  have hlen : (pre.map (fun p => PyVal.dict p.1)).length = pre.length := by simp
  have htake : (pre.map (fun p => PyVal.dict p.1) ++ PyVal.dict kvs :: rest).take (n + 1)
      = pre.map (fun p => PyVal.dict p.1) ++ PyVal.dict kvs :: rest.take (n - pre.length) := by
    rw [List.take_append, hlen]
    have h1 : (pre.map (fun p => PyVal.dict p.1)).take (n + 1) = pre.map (fun p => PyVal.dict p.1) :=
      List.take_of_length_le (by omega)
    have h2 : n + 1 - pre.length = (n - pre.length) + 1 := by omega
    rw [h1, h2, List.take_succ_cons]
  simp [multicallUnpack, htake, C06_iter_first_error pre kvs e _ hpre henv herr ht]

/-- A batch answered with ONE error object (the server rejected the whole batch): the batch call itself
    raises the exception that error describes; an array reply is the result list unchanged. -/
theorem C06_batch_single_error (kvs : List (PyVal × PyVal)) (e : PyVal)
    (henv : envelopeOk kvs = true) (herr : lookupStr "error" kvs = some e) (ht : e.truthy = true) :
    multicallRun (.dict kvs) = .error (errorOf e) := by
  have htr := truthy_dict_of_lookup herr
  simp [multicallRun, htr, C06_error_raises kvs e henv herr ht, bind, Except.bind]

theorem C06_batch_array (xs : List PyVal) (hne : xs ≠ []) : multicallRun (.list xs) = .ok xs := by
  cases xs with
  | nil => exact absurd rfl hne
  | cons _ _ => simp [multicallRun, truthy, pure, Except.pure]

/-- `AppError.data()` returns the `data` member of the error object (or `None`). -/
theorem C06_appdata (ekvs : List (PyVal × PyVal)) (code : PyVal)
    (hc : lookupStr "code" ekvs = some code) (hp : predefined code = false) :
    appErrorData (errorOf (.dict ekvs)) = some ((lookupStr "data" ekvs).getD .none) := by
  simp [errorOf, hc, hp, appErrorData]

/-- The property over ALL reply objects, including the envelopes `envelopeOk` leaves out.  Excluded from the
    theorems above (and from the monitor's domain) are the replies on which the version gate of
    `check_for_errors` — `"jsonrpc" in result and float(result["jsonrpc"]) > 2.0`, evaluated BEFORE the error
    member is looked at — does not answer `False`:
      * `"jsonrpc"` bound to a number or numeric string above 2.0 (`2.1`, `3`, `"2.5"`): `NotImplementedError`;
      * `"jsonrpc"` bound to a non-numeric string (`"abc"`, `""`): `ValueError` from `float()`;
      * `"jsonrpc"` bound to `null`, an array or an object: `TypeError` from `float()`;
      * `"jsonrpc"` bound to a string `float()` accepts but the model declines (`" 2"`, `"2e0"`, `"1_0"`, `"inf"`,
        `"nan"`): class `"Unmodelled"`.
    For those replies an error member does NOT lead to a ProtocolError, so the statement below is false of the
    code as it is; the property text quantifies over "1.0- and 2.0-form envelopes", which is what `envelopeOk`
    captures (no `jsonrpc` member, or one that is at most 2.0).  Replies that are not objects at all
    (`TypeError("Response is not a dict.")`) are likewise outside: they have no "error" member. -/
def C06_full_statement : Prop :=
  ∀ (kvs : List (PyVal × PyVal)) (e : PyVal), lookupStr "error" kvs = some e → e.truthy = true →
    checkForErrors (.dict kvs) = .error (errorOf e) ∧ proxyResult (.dict kvs) = .error (errorOf e) ∧
    proxyNotify (.dict kvs) = .error (errorOf e)

/-- The full statement fails exactly because of the version gate: a witness. -/
theorem C06_full_statement_false : ¬ C06_full_statement := by
  intro h
  have := (h [(.str "jsonrpc", .int 3), (.str "error", .str "boom")] (.str "boom") (by decide +kernel) (by decide +kernel)).1
  revert this
  decide +kernel

/- ---------- the reply as it really arrives: bytes of an HTTP body read in pieces ---------- -/

section Wire
open JRV.Wire JRV.ClientWire

private theorem c06_toBytes_toByteArray (s : String) : (toBytes s).toByteArray = s.toByteArray := by
  apply ByteArray.ext
  simp [toBytes, List.data_toByteArray]

private theorem c06_fromBytes_toBytes (s : String) : fromBytes (toBytes s) = .ok s := by
  unfold fromBytes
  rw [c06_toBytes_toByteArray]
  have hv : s.toByteArray.IsValidUTF8 := s.isValidUTF8
  simp only [String.fromUTF8?, hv, ↓reduceDIte, pure, Except.pure]
  rfl

private theorem readChunks_flatten (n : Nat) (hn : 0 < n) : ∀ (k : Nat) (body : Bytes), body.length ≤ k →
    (readChunks n body).flatten = body := by
  intro k
  induction k with
  | zero =>
    intro body hk
    have : body = [] := List.eq_nil_of_length_eq_zero (by omega)
    subst this
    unfold readChunks
    simp
  | succ k ih =>
    intro body hk
    unfold readChunks
    split
    · rename_i h
      rcases h with h | h
      · omega
      · simp [h]
    · rename_i h
      have hb : body ≠ [] := fun e => h (Or.inr e)
      have hpos : 0 < body.length := List.length_pos_iff.mpr hb
      have : (body.drop n).length ≤ k := by simp only [List.length_drop]; omega
      rw [List.flatten_cons, ih _ this, List.take_append_drop]

private theorem toBytes_eq_nil (s : String) (h : toBytes s = []) : s = "" := by
  have h1 := c06_fromBytes_toBytes s
  rw [h] at h1
  have h2 : fromBytes [] = .ok "" := by
    have := c06_fromBytes_toBytes ""
    have h0 : toBytes "" = [] := by decide
    rwa [h0] at this
  rw [h2] at h1
  exact (Except.ok.inj h1).symm

/-- The text handed to the JSON parser is the text the peer sent, whatever the read size and wherever the cuts
    fall — in particular when a multi-byte UTF-8 character lies on both sides of a multiple of 1024 bytes. -/
theorem C06_wire_text (text : String) (n : Nat) (hn : 0 < n) : parseResponse n (toBytes text) = .text text := by
  unfold parseResponse
  have hf := readChunks_flatten n hn _ (toBytes text) (Nat.le_refl _)
  by_cases he : readChunks n (toBytes text) = []
  · have hb : toBytes text = [] := by rw [he] at hf; simpa using hf.symm
    have := toBytes_eq_nil text hb
    subst this
    simp [he, clientClose]
  · have : (readChunks n (toBytes text)).isEmpty = false := by
      cases h : readChunks n (toBytes text) <;> simp_all
    simp [clientClose, this, hf, c06_fromBytes_toBytes]

/-- `_run_request` over the wire is the parser applied to the text that was sent (an empty body gives `None`). -/
theorem C06_wire_run (parse : String → PyM PyVal) (text : String) (n : Nat) (hn : 0 < n) :
    runRequest parse n (toBytes text) = if text.isEmpty then pure .none else parse text := by
  simp [runRequest, C06_wire_text text n hn]

/-- An error reply that arrives as bytes — any JSON parser, any non-empty text it parses to an object in the
    1.0- or 2.0-form with a truthy error member, any read size — makes the proxy call AND the notification call raise
    exactly the exception `errorOf` describes (then `C06_coded`, `C06_message`, `C06_raw`, `C06_appdata` say which). -/
theorem C06_wire_error (parse : String → PyM PyVal) (text : String) (n : Nat) (hn : 0 < n)
    (kvs : List (PyVal × PyVal)) (e : PyVal) (hne : text.isEmpty = false) (hp : parse text = .ok (.dict kvs))
    (henv : envelopeOk kvs = true) (herr : lookupStr "error" kvs = some e) (ht : e.truthy = true) :
    wireCall parse n (toBytes text) = .error (errorOf e) ∧ wireNotify parse n (toBytes text) = .error (errorOf e) := by
  have hr : runRequest parse n (toBytes text) = .ok (.dict kvs) := by
    rw [C06_wire_run parse text n hn]; simp [hne, hp]
  constructor
  · simp [wireCall, hr, bind, Except.bind, C06_proxy_error kvs e henv herr ht]
  · simp [wireNotify, hr, bind, Except.bind, C06_notify_error kvs e henv herr ht]

/-- A reply without a truthy error that arrives as bytes returns its `result` member unchanged. -/
theorem C06_wire_result (parse : String → PyM PyVal) (text : String) (n : Nat) (hn : 0 < n)
    (kvs : List (PyVal × PyVal)) (r : PyVal) (hne : text.isEmpty = false) (hp : parse text = .ok (.dict kvs))
    (henv : envelopeOk kvs = true) (hres : lookupStr "result" kvs = some r)
    (herr : ∀ e, lookupStr "error" kvs = some e → e.truthy = false) :
    wireCall parse n (toBytes text) = .ok r := by
  have hr : runRequest parse n (toBytes text) = .ok (.dict kvs) := by
    rw [C06_wire_run parse text n hn]; simp [hne, hp]
  simp [wireCall, hr, bind, Except.bind, C06_result_unchanged kvs r henv hres herr]

/-- A MultiCall over the wire: an array reply is the result list the iterator reads (then `C06_multicall`,
    `C06_iter_first_error`, `C06_list`, `C06_unpack_error` apply to it); a single error object answering the whole
    batch makes the batch call raise it. -/
theorem C06_wire_multicall (parse : String → PyM PyVal) (text : String) (n : Nat) (hn : 0 < n) (hne : text.isEmpty = false) :
    (∀ xs, xs ≠ [] → parse text = .ok (.list xs) → wireMulticall parse n (toBytes text) = .ok xs) ∧
    (∀ kvs e, parse text = .ok (.dict kvs) → envelopeOk kvs = true → lookupStr "error" kvs = some e → e.truthy = true →
      wireMulticall parse n (toBytes text) = .error (errorOf e)) := by
  have hr : runRequest parse n (toBytes text) = parse text := by
    rw [C06_wire_run parse text n hn]; simp [hne]
  constructor
  · intro xs hx hp
    simp [wireMulticall, hr, hp, bind, Except.bind, C06_batch_array xs hx]
  · intro kvs e hp henv herr ht
    simp [wireMulticall, hr, hp, bind, Except.bind, C06_batch_single_error kvs e henv herr ht]

/-- Why the order "join, then decode" matters (and what a piecewise decoding would do): `é` read one byte at a time. -/
theorem C06_wire_piecewise_decoding_differs :
    parseResponse 1 (toBytes "é") = .text "é" ∧
    (∃ err, decodeChunkwise (readChunks 1 (toBytes "é")) = .error err) := by
  refine ⟨C06_wire_text "é" 1 (by decide), ?_⟩
  have h : readChunks 1 (toBytes "é") = [[195], [169]] := by
    have hb : toBytes "é" = [195, 169] := by decide +kernel
    rw [hb]
    unfold readChunks; simp
    unfold readChunks; simp
    unfold readChunks; simp
  rw [h]
  exact ⟨{ cls := "UnicodeDecodeError", arg := .none }, by decide +kernel⟩

end Wire

/- Non-vacuity: concrete envelopes meeting the hypotheses, and concrete outcomes. -/
example : envelopeOk [(.str "jsonrpc", .float ⟨false, 2, 0⟩), (.str "id", .int 1),
    (.str "error", mkDict [("code", .int (-32601)), ("message", .str "nope")])] = true := by
  decide +kernel

example : envelopeOk [(.str "id", .int 1), (.str "result", .none), (.str "error", .str "boom")] = true := by
  decide +kernel

example : checkForErrors (.dict [(.str "id", .int 1), (.str "result", .none),
    (.str "error", mkDict [("code", .int 7), ("message", .str "app"), ("data", .list [.int 1])])])
    = .error { cls := "AppError", arg := .tuple [.int 7, .str "app", .list [.int 1]] } := by
  decide +kernel

example : checkForErrors (.dict [(.str "jsonrpc", .int 2), (.str "id", .int 1),
    (.str "error", mkDict [("code", .int (-32700)), ("message", .str "parse")])])
    = .error { cls := "ProtocolError", arg := .tuple [.int (-32700), .str "parse"] } := by
  decide +kernel

example : proxyResult (.dict [(.str "jsonrpc", .int 2), (.str "id", .int 0), (.str "result", .int 0)])
    = .ok (.int 0) := by decide +kernel

example : proxyNotify (.dict [(.str "jsonrpc", .int 2), (.str "id", .none),
    (.str "error", mkDict [("code", .int (-32600)), ("message", .str "Invalid request")])])
    = .error { cls := "ProtocolError", arg := .tuple [.int (-32600), .str "Invalid request"] } := by decide +kernel

example : multicallIter [.dict [(.str "jsonrpc", .int 2), (.str "id", .int 1), (.str "result", .int 1)],
    .dict [(.str "jsonrpc", .int 2), (.str "id", .int 2),
      (.str "error", mkDict [("code", .int (-32601)), ("message", .str "nope")])],
    .dict [(.str "jsonrpc", .int 2), (.str "id", .int 3), (.str "result", .int 3)]]
    = ([.int 1], some { cls := "ProtocolError", arg := .tuple [.int (-32601), .str "nope"] }) := by decide +kernel

end JRV.Props
