/-
  C06 — The client never swallows or mistypes a server-reported error.

  Property theorems only (helper lemmas local to this file are `private`).
  Model: JRV.Model.Client (check_for_errors, proxy result extraction, MultiCall access).

  Domain guard `envelopeOk kvs = true`: the reply is a 1.0-form envelope (no `jsonrpc` member) or a
  2.0-form envelope whose `jsonrpc` member is a number or simple decimal string not above 2.0 —
  exactly the inputs on which `versionAbove2` returns `false` without raising.
-/
import JRV.Model.Client
import JRV.Generated

set_option linter.unusedSimpArgs false

namespace JRV.Props
open JRV JRV.PyVal JRV.Client

/-- The envelope passes the version gate of `check_for_errors`. -/
def envelopeOk (kvs : List (PyVal × PyVal)) : Bool :=
  match lookupStr "jsonrpc" kvs with
  | some v => decide (versionAbove2 v = .ok false)
  | Option.none => true

private theorem truthy_dict_of_lookup {kvs : List (PyVal × PyVal)} {k : String} {v : PyVal}
    (h : lookupStr k kvs = some v) : (PyVal.dict kvs).truthy = true := by
  cases kvs with
  | nil => simp [lookupStr] at h
  | cons _ _ => simp [truthy]

/-- A reply object whose `error` member is truthy always raises, and raises exactly the
    exception `errorOf` describes — it never returns and never raises anything else. -/
theorem C06_error_raises (kvs : List (PyVal × PyVal)) (e : PyVal)
    (henv : envelopeOk kvs = true) (herr : lookupStr "error" kvs = some e) (ht : e.truthy = true) :
    checkForErrors (.dict kvs) = .error (errorOf e) := by
  have htr := truthy_dict_of_lookup herr
  unfold checkForErrors
  simp only [htr, Bool.not_true, Bool.false_eq_true, ↓reduceIte]
  unfold envelopeOk at henv
  have hk : hasKeyStr "error" kvs = true := by simp [hasKeyStr, herr]
  cases hj : lookupStr "jsonrpc" kvs with
  | none =>
    simp [hj, hk, herr, ht, bind, Except.bind, pure, Except.pure]
  | some v =>
    simp only [hj, decide_eq_true_eq] at henv
    simp [hj, henv, hk, herr, ht, bind, Except.bind, pure, Except.pure]

/-- The class raised is `ProtocolError` or its subclass `AppError`, for every error value. -/
theorem C06_error_class (e : PyVal) :
    (errorOf e).cls = "ProtocolError" ∨ (errorOf e).cls = "AppError" := by
  unfold errorOf
  repeat' split
  all_goals simp

/-- Error objects with a code: in-range codes raise plain `ProtocolError (code, message)`, every
    other code raises `AppError (code, message, data)`; the message is `message`, else `trace`,
    else the fixed placeholder. -/
theorem C06_coded (ekvs : List (PyVal × PyVal)) (code : PyVal) (hc : lookupStr "code" ekvs = some code) :
    errorOf (.dict ekvs) =
      (if predefined code then { cls := "ProtocolError", arg := .tuple [code, errorMessage ekvs] }
       else { cls := "AppError", arg := .tuple [code, errorMessage ekvs, (lookupStr "data" ekvs).getD .none] }) := by
  simp [errorOf, hc]

/-- The message is `message` when present, else `trace`, else the fixed placeholder. -/
theorem C06_message (ekvs : List (PyVal × PyVal)) :
    (∀ m, lookupStr "message" ekvs = some m → errorMessage ekvs = m) ∧
    (lookupStr "message" ekvs = Option.none → ∀ t, lookupStr "trace" ekvs = some t → errorMessage ekvs = t) ∧
    (lookupStr "message" ekvs = Option.none → lookupStr "trace" ekvs = Option.none →
      errorMessage ekvs = .str "<no error message>") := by
  refine ⟨?_, ?_, ?_⟩ <;> intros <;> simp_all [errorMessage]

/-- Boundary lemma: an integer code is pre-defined exactly when `-32700 ≤ c ≤ -32000`, inclusive. -/
theorem C06_range_int (c : Int) : predefined (.int c) = true ↔ (-32700 ≤ c ∧ c ≤ -32000) := by
  simp only [predefined, cmpInt?, protoLo, protoHi]
  constructor
  · intro h
    simp only [bne_iff_ne, ne_eq, Bool.and_eq_true] at h
    obtain ⟨h1, h2⟩ := h
    constructor
    · rcases Int.lt_or_le c (-32700) with hl | hl
      · exact absurd (by simp [compare, compareOfLessAndEq, hl]) h1
      · exact hl
    · rcases Int.lt_or_le (-32000) c with hl | hl
      · exfalso; apply h2
        have : ¬ c < -32000 := by omega
        have : ¬ c = -32000 := by omega
        simp [compare, compareOfLessAndEq, *]
      · exact hl
  · intro ⟨h1, h2⟩
    simp only [bne_iff_ne, ne_eq, Bool.and_eq_true]
    constructor
    · have : ¬ c < -32700 := by omega
      simp only [compare, compareOfLessAndEq, this, ↓reduceIte]
      split <;> simp
    · by_cases hlt : c < -32000
      · simp [compare, compareOfLessAndEq, hlt]
      · have : c = -32000 := by omega
        simp [compare, compareOfLessAndEq, this]

/-- A non-numeric code (string, null, container) is never pre-defined: it is an application error. -/
theorem C06_range_nonnumeric (code : PyVal) (h : code.isNumeric = false) : predefined code = false := by
  cases code <;> simp_all [predefined, cmpInt?, isNumeric]

/-- Error values that are not objects are raised as they are; single-entry objects raise their value. -/
theorem C06_raw (e : PyVal) (h : e.isDict = false) : errorOf e = { cls := "ProtocolError", arg := e } := by
  cases e <;> simp_all [errorOf, isDict]

theorem C06_single_entry (k v : PyVal) (h : lookupStr "code" [(k, v)] = Option.none) :
    errorOf (.dict [(k, v)]) = { cls := "ProtocolError", arg := v } := by
  simp [errorOf, h]

/-- A reply with a null, falsy or absent error and a `result` member returns that result unchanged
    through the proxy — for every result value, falsy ones included. -/
theorem C06_result_unchanged (kvs : List (PyVal × PyVal)) (r : PyVal)
    (henv : envelopeOk kvs = true) (hres : lookupStr "result" kvs = some r)
    (herr : ∀ e, lookupStr "error" kvs = some e → e.truthy = false) :
    proxyResult (.dict kvs) = .ok r := by
  have htr := truthy_dict_of_lookup hres
  have hk : hasKeyStr "result" kvs = true := by simp [hasKeyStr, hres]
  unfold proxyResult checkForErrors
  simp only [htr, Bool.not_true, Bool.false_eq_true, ↓reduceIte]
  unfold envelopeOk at henv
  cases hj : lookupStr "jsonrpc" kvs with
  | none =>
    cases he : lookupStr "error" kvs with
    | none => simp [hj, hk, he, hres, subscriptResult, bind, Except.bind, pure, Except.pure]
    | some e =>
      have := herr e he
      simp [hj, hk, he, this, hres, subscriptResult, bind, Except.bind, pure, Except.pure]
  | some v =>
    simp only [hj, decide_eq_true_eq] at henv
    cases he : lookupStr "error" kvs with
    | none => simp [hj, henv, hk, he, hres, subscriptResult, bind, Except.bind, pure, Except.pure]
    | some e =>
      have := herr e he
      simp [hj, henv, hk, he, this, hres, subscriptResult, bind, Except.bind, pure, Except.pure]

/-- The same two facts at every batch position of a MultiCall result. -/
theorem C06_multicall (results : List PyVal) (i : Nat) (kvs : List (PyVal × PyVal))
    (hi : results[i]? = some (.dict kvs)) (henv : envelopeOk kvs = true) :
    (∀ e, lookupStr "error" kvs = some e → e.truthy = true →
        multicallGet results i = .error (errorOf e)) ∧
    (∀ r, lookupStr "result" kvs = some r →
        (∀ e, lookupStr "error" kvs = some e → e.truthy = false) →
        multicallGet results i = .ok r) := by
  constructor
  · intro e he ht
    simp [multicallGet, hi, proxyResult, C06_error_raises kvs e henv he ht, bind, Except.bind]
  · intro r hr herr
    simp only [multicallGet, hi]
    exact C06_result_unchanged kvs r henv hr herr

/-- A batch answered with ONE error object (the server rejected the whole batch): the batch call itself
    raises the exception that error describes; an array reply is the result list unchanged. -/
theorem C06_batch_single_error (kvs : List (PyVal × PyVal)) (e : PyVal)
    (henv : envelopeOk kvs = true) (herr : lookupStr "error" kvs = some e) (ht : e.truthy = true) :
    multicallRun (.dict kvs) = .error (errorOf e) := by
  have htr := truthy_dict_of_lookup herr
  simp [multicallRun, htr, C06_error_raises kvs e henv herr ht, bind, Except.bind]

theorem C06_batch_array (xs : List PyVal) (hne : xs ≠ []) : multicallRun (.list xs) = .ok xs := by
  cases xs with
  | nil => exact absurd rfl hne
  | cons _ _ => simp [multicallRun, truthy, pure, Except.pure]

/-- `AppError.data()` returns the `data` member of the error object (or `None`). -/
theorem C06_appdata (ekvs : List (PyVal × PyVal)) (code : PyVal)
    (hc : lookupStr "code" ekvs = some code) (hp : predefined code = false) :
    appErrorData (errorOf (.dict ekvs)) = some ((lookupStr "data" ekvs).getD .none) := by
  simp [errorOf, hc, hp, appErrorData]

/-- Tie to the source: the range written in `check_for_errors` is the one the model uses. -/
theorem C06_gen_protoRange :
    Generated.protoRange = some (protoLo, protoHi, true, true) := by
  decide

theorem C06_gen_errorClasses :
    Generated.errorClasses = some ("ProtocolError", "AppError", "ProtocolError", "ProtocolError") := by
  decide

/- Non-vacuity: concrete envelopes meeting the hypotheses, and concrete outcomes. -/
example : envelopeOk [(.str "jsonrpc", .float ⟨false, 2, 0⟩), (.str "id", .int 1),
    (.str "error", mkDict [("code", .int (-32601)), ("message", .str "nope")])] = true := by
  decide +kernel

example : envelopeOk [(.str "id", .int 1), (.str "result", .none), (.str "error", .str "boom")] = true := by
  decide +kernel

example : checkForErrors (.dict [(.str "id", .int 1), (.str "result", .none),
    (.str "error", mkDict [("code", .int 7), ("message", .str "app"), ("data", .list [.int 1])])])
    = .error { cls := "AppError", arg := .tuple [.int 7, .str "app", .list [.int 1]] } := by
  decide +kernel

example : checkForErrors (.dict [(.str "jsonrpc", .int 2), (.str "id", .int 1),
    (.str "error", mkDict [("code", .int (-32700)), ("message", .str "parse")])])
    = .error { cls := "ProtocolError", arg := .tuple [.int (-32700), .str "parse"] } := by
  decide +kernel

example : proxyResult (.dict [(.str "jsonrpc", .int 2), (.str "id", .int 0), (.str "result", .int 0)])
    = .ok (.int 0) := by decide +kernel

end JRV.Props
