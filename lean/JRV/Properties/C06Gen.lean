/-
  C06 — companion theorems of the facts extracted from jsonrpclib/jsonrpc.py (tools/extractors/client.py).
  Built and audited separately from JRV.Properties.C06: a source edit that changes one of these facts fails this
  module only, the property theorems stay discharged.
-/
import JRV.Model.Client
import JRV.Generated

namespace JRV.Props
open JRV JRV.Client

/-- Tie to the source: the range written in `check_for_errors` is the one the model uses. -/
theorem C06_gen_protoRange :
    Generated.protoRange = some (protoLo, protoHi, true, true) := by
  decide

theorem C06_gen_errorClasses :
    Generated.errorClasses = some ("ProtocolError", "AppError", "ProtocolError", "ProtocolError") := by
  decide

/-- Every access path the model describes as "check, then hand out the result" (`proxyResult`, `proxyNotify`,
    `multicallGet`, `multicallIter`, `multicallRun`) does call the checker in the source, and never inside a
    `try` whose handlers could swallow the ProtocolError. -/
theorem C06_gen_clientCallSites :
    Generated.clientCallSites = some [
      ("ServerProxy._request", true, false), ("ServerProxy._request_notify", true, false),
      ("MultiCallIterator.__get_result", true, false), ("MultiCallIterator.__iter__", true, false),
      ("MultiCallIterator.__getitem__", true, false), ("MultiCall._request", true, false)] := by
  decide

/-- The reply text the client-side handling works on is decoded ONCE from the joined pieces (`JSONTarget.feed` buffers
    the raw piece, `close()` joins and decodes): `JRV.Wire.clientClose`, on which `ClientWire.parseResponse` and the
    `C06_wire_*` theorems rest.  (The fact is extracted by tools/extractors/wire.py; C17 has its own companion.) -/
theorem C06_gen_replyDecodedOnce : Generated.clientDecodesAfterJoin = some true := by decide

end JRV.Props
