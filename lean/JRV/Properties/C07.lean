/-
  C07 — Objects survive dump/load wherever they occur, for every supported class shape.

  Model: JRV.Model.JsonClass.  `wfVal X v` is the domain of the property: every instance in `v` belongs to a
  class of the environment, its stored fields are exactly what the class shape gives (listed in the discovery
  order of `findFields`, which is how the model represents instances canonically) and its field values are
  supported values, recursively — an instance *directly* as a field value is not a supported value (the code
  omits it: C20), instances inside lists and dicts held in fields are.  Dicts of the domain have no
  "__jsonclass__" key.  `envOk W classes`: every class of the environment is resolvable under the name
  `dump` writes for it — through `__import__` for module-qualified classes, through the local table
  `classes` (Config.classes) for classes of `__main__`.

  The induction over values, lists, dict entries and field lists *is* "wherever the object occurs".

  Declared restrictions of the domain (`shapeOk`), each one a place where the code itself does not transmit more:
  * the value of an enum member, and what a serialisation method returns (constructor arguments, attributes), are
    plain JSON values (`pj`): `dump` emits them as they are — it does not recurse into them — so a tuple-valued
    member or a set / Decimal argument survives `load(dump(v))` (compared by the harness) but not JSON;
  * an instance may carry attributes its constructor does not set (they follow the constructor's own, in the
    model's field list; the class must have a `__dict__` or a slot for them: `canSet`); the attributes the
    constructor sets are all present (a declared slot that was never assigned makes `dump` raise);
  * a class with a serialisation method has no attribute-setting base class (`base = []`): attributes that the
    method does not return are not transmitted by the code, so they come back with the constructor's values;
  * no ignore list is in force (C20 is about those), no handler is registered (`noHandlers`);
  * Decimals are written canonically (`canonDecimal`): `str(Decimal(s)) = s`.
-/
import JRV.Model.JsonClass
import JRV.Model.LocalClasses
import JRV.Model.Payload
import JRV.Lemmas.JsonClass

set_option linter.unusedSimpArgs false
set_option linter.unusedVariables false
set_option linter.unusedSectionVars false

namespace JRV.Props
open JRV JRV.PyVal JRV.JsonClass

/- ---------- the domain ---------- -/

mutual
  /-- Plain JSON data as a serialisation method must return it: lists, dicts without "__jsonclass__", primitives. -/
  def pj : PyVal → Bool
    | .none => true | .bool _ => true | .int _ => true | .float _ => true | .str _ => true
    | .list xs => pjList xs
    | .dict kvs => pjKVs kvs
    | _ => false
  def pjList : List PyVal → Bool
    | [] => true
    | x :: xs => pj x && pjList xs
  def pjKVs : List (PyVal × PyVal) → Bool
    | [] => true
    | (k, v) :: xs => !isJcKey k && pj v && pjKVs xs
end

def isObj : PyVal → Bool
  | .obj _ _ => true
  | _ => false

def fieldNames (fs : List (String × PyVal)) : List String := fs.map (·.1)

/-- The stored fields of an instance are what the class shape gives. -/
def shapeOk (X : DumpCtx) (c : String) (d : ClassDef) (fs : List (String × PyVal)) : Bool :=
  let names := fieldNames fs
  namesDistinct names && (fs.lookup X.cfg.serializeMethod).isNone && (d.classAttrs.lookup X.cfg.serializeMethod).isNone &&
  match d.kind with
  | .bean init =>
    -- the attributes the constructor sets come first, in its order; further instance attributes may follow
    (fieldNames init).isPrefixOf names &&
    -- the discovered fields are the stored attributes (as sets: no declared slot is unset, every stored name is found)
    (findFields X.env c names).all (fun n => names.contains n) && names.all (fun n => (findFields X.env c names).contains n) &&
    (fs.lookup X.cfg.ignoreAttribute).isNone && (d.classAttrs.lookup X.cfg.ignoreAttribute).isNone &&
    names.all (fun n => n != jcKey && !isDunder n && canSet X.env c n)
  | .serial m _ ps as base =>
    m == X.cfg.serializeMethod && base.isEmpty && names == ps ++ as && fs.all (fun f => pj f.2) &&
    (fs.lookup X.cfg.ignoreAttribute).isNone && (d.classAttrs.lookup X.cfg.ignoreAttribute).isNone &&
    names.all (fun n => n != jcKey && !isDunder n && canSet X.env c n)
  | .enum members =>
    match fs with
    | [("name", .str n), ("value", v)] => pj v && decide (enumLookup members v = some (n, v))
    | _ => false
  | .decimal =>
    match fs with
    | [("str", .str s)] => canonDecimal s
    | _ => false
  | .raising _ => false

mutual
  /-- Well-formed for the class environment: the domain of C07. -/
  def wfVal (X : DumpCtx) : PyVal → Bool
    | .none => true | .bool _ => true | .int _ => true | .float _ => true | .str _ => true
    | .list xs => wfList X xs
    | .tuple xs => wfList X xs
    | .set xs => wfList X xs
    | .frozenset xs => wfList X xs
    | .dict kvs => wfKVs X kvs
    | .obj c fs =>
      (match X.env.lookup c with
        | some d => shapeOk X c d fs
        | Option.none => false) && wfFields X fs
  def wfList (X : DumpCtx) : List PyVal → Bool
    | [] => true
    | x :: xs => wfVal X x && wfList X xs
  def wfKVs (X : DumpCtx) : List (PyVal × PyVal) → Bool
    | [] => true
    | (k, v) :: xs => !isJcKey k && wfVal X v && wfKVs X xs
  /-- Field values are supported values: anything well-formed except an instance directly. -/
  def wfFields (X : DumpCtx) : List (String × PyVal) → Bool
    | [] => true
    | (_, v) :: xs => !isObj v && wfVal X v && wfFields X xs
end

/-- Every class of the environment is resolvable, under the name `dump` writes for it, by `load` with this
    class table and these importable modules, and that name passes the validation. -/
def envOk (W : World) (classes : List (String × String)) : Bool :=
  W.env.all (fun e => emitName e.2 != "" && validName (emitName e.2) &&
    decide ((resolveClass W classes (emitName e.2)).1 = .ok e.1))

/- ---------- helper lemmas ---------- -/

private theorem lookup_mem {α} (env : List (String × α)) (c : String) (d : α) (h : env.lookup c = some d) :
    (c, d) ∈ env := by
  induction env with
  | nil => simp [List.lookup] at h
  | cons e es ih =>
    obtain ⟨k, x⟩ := e
    simp only [List.lookup] at h
    by_cases hk : c = k
    · subst hk; simp at h; subst h; simp
    · have : (c == k) = false := by simpa using hk
      simp only [this] at h
      exact List.mem_cons_of_mem _ (ih h)

private theorem envOk_class {W : World} {cl : List (String × String)} (h : envOk W cl = true) {c : String} {d : ClassDef}
    (hc : W.env.lookup c = some d) :
    emitName d ≠ "" ∧ validName (emitName d) = true ∧ (resolveClass W cl (emitName d)).1 = .ok c := by
  have hm := lookup_mem _ _ _ hc
  unfold envOk at h
  rw [List.all_eq_true] at h
  have := h (c, d) hm
  simp only [Bool.and_eq_true, bne_iff_ne, ne_eq, decide_eq_true_eq] at this
  exact ⟨this.1.1, this.1.2, this.2⟩

/-- For a resolvable class the descriptor `[name, params]` reaches the constructor. -/
private theorem instantiate_ok {W : World} {cl : List (String × String)} (h : envOk W cl = true) {c : String} {d : ClassDef}
    (hc : W.env.lookup c = some d) (params : PyVal) (hp : (∃ ps, params = .list ps) ∨ (∃ kw, params = .dict kw)) :
    (instantiate W cl (.list [.str (emitName d), params])).1 = construct W.env c d params := by
  obtain ⟨h1, h2, h3⟩ := envOk_class h hc
  have ht : (PyVal.str (emitName d)).truthy = true := by simpa [truthy] using h1
  rcases hr : resolveClass W cl (emitName d) with ⟨r, lg⟩
  rw [hr] at h3
  simp only at h3
  subst h3
  rcases hp with ⟨ps, rfl⟩ | ⟨kw, rfl⟩ <;>
    simp [instantiate, index01, pure, Except.pure, ht, h2, hr, hc]

mutual
  private theorem pj_normalise : ∀ (v : PyVal), pj v = true → normalise v = v
    | .none, _ => rfl | .bool _, _ => rfl | .int _, _ => rfl | .float _, _ => rfl | .str _, _ => rfl
    | .list xs, h => by simp [normalise, pj_normaliseList xs (by simpa [pj] using h)]
    | .dict kvs, h => by simp [normalise, pj_normaliseKVs kvs (by simpa [pj] using h)]
    | .tuple _, h => by simp [pj] at h
    | .set _, h => by simp [pj] at h
    | .frozenset _, h => by simp [pj] at h
    | .obj _ _, h => by simp [pj] at h
  private theorem pj_normaliseList : ∀ (xs : List PyVal), pjList xs = true → normaliseList xs = xs
    | [], _ => rfl
    | x :: xs, h => by
      simp only [pjList, Bool.and_eq_true] at h
      simp [normaliseList, pj_normalise x h.1, pj_normaliseList xs h.2]
  private theorem pj_normaliseKVs : ∀ (kvs : List (PyVal × PyVal)), pjKVs kvs = true → normaliseKVs kvs = kvs
    | [], _ => rfl
    | (k, x) :: xs, h => by
      simp only [pjKVs, Bool.and_eq_true] at h
      simp [normaliseKVs, pj_normalise x h.1.2, pj_normaliseKVs xs h.2]
end

private theorem pjKVs_nojc : ∀ (kvs : List (PyVal × PyVal)), pjKVs kvs = true → lookupStr jcKey kvs = Option.none
  | [], _ => by simp [lookupStr]
  | (k, x) :: xs, h => by
    simp only [pjKVs, Bool.and_eq_true, Bool.not_eq_true'] at h
    have := pjKVs_nojc xs h.2
    cases k <;> simp_all [lookupStr, isJcKey]

section
variable (W : World) (cl : List (String × String))
mutual
  private theorem load_pj : ∀ (v : PyVal), pj v = true → (load W cl v).res = .ok v
    | .none, _ => rfl | .bool _, _ => rfl | .int _, _ => rfl | .float _, _ => rfl | .str _, _ => rfl
    | .list xs, h => by simp [load, load_pjList xs (by simpa [pj] using h), Except.map]
    | .dict kvs, h => by
      have hp : pjKVs kvs = true := by simpa [pj] using h
      simp [load, pjKVs_nojc kvs hp, load_pjKVs kvs hp, Except.map]
    | .tuple _, h => by simp [pj] at h
    | .set _, h => by simp [pj] at h
    | .frozenset _, h => by simp [pj] at h
    | .obj _ _, h => by simp [pj] at h
  private theorem load_pjList : ∀ (xs : List PyVal), pjList xs = true → (loadList W cl xs).res = .ok xs
    | [], _ => rfl
    | x :: xs, h => by
      simp only [pjList, Bool.and_eq_true] at h
      simp [loadList, load_pj x h.1, load_pjList xs h.2, Except.map]
  private theorem load_pjKVs : ∀ (kvs : List (PyVal × PyVal)), pjKVs kvs = true → (loadKVs W cl kvs).res = .ok kvs
    | [], _ => rfl
    | (k, x) :: xs, h => by
      simp only [pjKVs, Bool.and_eq_true] at h
      simp [loadKVs, load_pj x h.1.2, load_pjKVs xs h.2, Except.map]
end
end

private theorem setField_mid (n : String) (w x : PyVal) (pre rest : List (String × PyVal))
    (h : n ∉ fieldNames pre) : setField n w (pre ++ (n, x) :: rest) = pre ++ (n, w) :: rest := by
  induction pre with
  | nil => simp [setField]
  | cons p ps ih =>
    obtain ⟨m, y⟩ := p
    simp only [fieldNames, List.map_cons, List.mem_cons, not_or] at h
    have hm : (m == n) = false := by simpa using fun e => h.1 e.symm
    simp [setField, hm, ih (by simpa [fieldNames] using h.2)]

private theorem setField_new (n : String) (w : PyVal) (fs : List (String × PyVal))
    (h : n ∉ fieldNames fs) : setField n w fs = fs ++ [(n, w)] := by
  induction fs with
  | nil => simp [setField]
  | cons p ps ih =>
    obtain ⟨m, y⟩ := p
    simp only [fieldNames, List.map_cons, List.mem_cons, not_or] at h
    have hm : (m == n) = false := by simpa using fun e => h.1 e.symm
    simp [setField, hm, ih (by simpa [fieldNames] using h.2)]

/-- Instances of this class accept `setattr` in the model (bean or serial kind). -/
private def settable (env : ClassEnv) (c : String) : Prop :=
  ∃ d, env.lookup c = some d ∧ (match d.kind with | .enum _ => False | .decimal => False | .raising _ => False | _ => True)

private theorem setAttr_ok {env : ClassEnv} {c : String} (hs : settable env c) (fs : List (String × PyVal)) (n : String)
    (y : PyVal) (hd : isDunder n = false) (hc : canSet env c n = true) :
    setAttr env (.obj c fs) (.str n) y = .ok (.obj c (setField n y fs)) := by
  obtain ⟨d, h1, h2⟩ := hs
  unfold setAttr
  simp only [hd, Bool.false_eq_true, ↓reduceIte, h1]
  cases hk : d.kind <;> simp_all [pure, Except.pure]

private theorem lookup_isSome_of_mem (fs : List (String × PyVal)) (n : String) (h : n ∈ fieldNames fs) :
    (fs.lookup n).isNone = false := by
  induction fs with
  | nil => simp [fieldNames] at h
  | cons p ps ih =>
    obtain ⟨m, y⟩ := p
    simp only [List.lookup]
    cases hm : n == m with
    | true => simp
    | false =>
      have : n ≠ m := by simpa using hm
      simp only [fieldNames, List.map_cons, List.mem_cons] at h
      rcases h with h | h
      · exact absurd h this
      · exact ih (by simpa [fieldNames] using h)

private theorem namesDistinct_cons {n : String} {ns : List String} (h : namesDistinct (n :: ns) = true) :
    n ∉ ns ∧ namesDistinct ns = true := by
  simp only [namesDistinct, Bool.and_eq_true, Bool.not_eq_true', List.contains_eq_mem, decide_eq_false_iff_not] at h
  exact h

private theorem mem_lookup_distinct : ∀ (fs : List (String × PyVal)) (n : String) (v : PyVal),
    namesDistinct (fieldNames fs) = true → (n, v) ∈ fs → fs.lookup n = some v
  | [], _, _, _, h => by simp at h
  | (m, x) :: rest, n, v, hd, h => by
    have ⟨h1, h2⟩ := namesDistinct_cons (n := m) (ns := fieldNames rest) (by simpa [fieldNames] using hd)
    simp only [List.mem_cons, Prod.mk.injEq] at h
    rcases h with ⟨rfl, rfl⟩ | h
    · simp [List.lookup]
    · have hne : (n == m) = false := by
        have : n ∈ List.map (fun x => x.fst) rest := List.mem_map.mpr ⟨(n, v), h, rfl⟩
        simpa using fun e : n = m => h1 (e ▸ this)
      simp [List.lookup, hne, mem_lookup_distinct rest n v (by simpa [fieldNames] using h2) h]

private theorem lookupAll_sub (fs : List (String × PyVal)) (hd : namesDistinct (fieldNames fs) = true) :
    ∀ (sub : List (String × PyVal)), (∀ e ∈ sub, e ∈ fs) → lookupAll fs (fieldNames sub) = some (sub.map (·.2))
  | [], _ => by simp [lookupAll, fieldNames]
  | (n, v) :: rest, h => by
    have h1 := mem_lookup_distinct fs n v hd (h _ (by simp))
    have h2 := lookupAll_sub fs hd rest (fun e he => h e (by simp [he]))
    simp only [fieldNames] at h2
    simp [lookupAll, fieldNames, h1, h2]

private theorem zip_names_vals : ∀ (l : List (String × PyVal)), (fieldNames l).zip (l.map (·.2)) = l
  | [] => rfl
  | (n, v) :: rest => by simp [fieldNames, zip_names_vals rest] ; exact zip_names_vals rest

private theorem namesDistinct_append : ∀ (a b : List String), namesDistinct (a ++ b) = true →
    namesDistinct a = true ∧ namesDistinct b = true ∧ ∀ n ∈ b, n ∉ a
  | [], b, h => by simpa [namesDistinct] using h
  | x :: a, b, h => by
    have ⟨h1, h2⟩ := namesDistinct_cons (n := x) (ns := a ++ b) (by simpa using h)
    have ⟨i1, i2, i3⟩ := namesDistinct_append a b h2
    simp only [List.mem_append, not_or] at h1
    refine ⟨by simp [namesDistinct, h1.1, i1], i2, ?_⟩
    intro n hn
    simp only [List.mem_cons, not_or]
    exact ⟨fun e => h1.2 (e ▸ hn), i3 n hn⟩

private theorem setFields_append : ∀ (l pre : List (String × PyVal)), namesDistinct (fieldNames l) = true →
    (∀ n ∈ fieldNames l, n ∉ fieldNames pre) → setFields pre l = pre ++ l
  | [], pre, _, _ => by simp [setFields]
  | (n, v) :: rest, pre, hd, hdis => by
    have ⟨h1, h2⟩ := namesDistinct_cons (n := n) (ns := fieldNames rest) (by simpa [fieldNames] using hd)
    have hn : n ∉ fieldNames pre := hdis n (by simp [fieldNames])
    simp only [setFields, setField_new n v pre hn]
    rw [setFields_append rest (pre ++ [(n, v)]) (by simpa [fieldNames] using h2)]
    · simp
    · intro m hm
      simp only [fieldNames, List.map_append, List.map_cons, List.map_nil, List.mem_append, List.mem_singleton, not_or]
      refine ⟨hdis m (by simp [fieldNames] at hm ⊢; exact Or.inr hm), ?_⟩
      intro e; subst e; exact h1 (by simpa [fieldNames] using hm)

private theorem normaliseFields_pj : ∀ (fs : List (String × PyVal)), fs.all (fun f => pj f.2) = true → normaliseFields fs = fs
  | [], _ => rfl
  | (n, v) :: rest, h => by
    simp only [List.all_cons, Bool.and_eq_true] at h
    simp [normaliseFields, pj_normalise v h.1, normaliseFields_pj rest h.2]

private theorem allStr_map : ∀ (l : List (String × PyVal)), allStr (l.map fun (k, x) => (PyVal.str k, x)) = true
  | [] => rfl
  | (n, v) :: rest => by simp [allStr, isStr, allStr_map rest]

private theorem unstr_map : ∀ (l : List (String × PyVal)),
    (l.map fun (k, x) => (PyVal.str k, x)).map (fun (k, x) => ((match k with | .str s => s | _ => ""), x)) = l
  | [] => rfl
  | (n, v) :: rest => by simp [unstr_map rest]

/-- The `setattr` loop over the attributes a serialisation method returned (plain JSON, not yet stored). -/
private theorem serialAttrs (env : ClassEnv) (mods : List String) (cl : List (String × String)) (c : String)
    (hs : settable env c) : ∀ (fa pre : List (String × PyVal)), fa.all (fun f => pj f.2) = true →
    namesDistinct (fieldNames fa) = true → (∀ n ∈ fieldNames fa, n ∉ fieldNames pre) →
    (∀ n ∈ fieldNames fa, n ≠ jcKey ∧ isDunder n = false ∧ canSet env c n = true) →
    (loadAttrs ⟨env, mods⟩ cl (.obj c pre) (fa.map fun (k, x) => (PyVal.str k, x))).res = .ok (.obj c (pre ++ fa))
  | [], pre, _, _, _, _ => by simp [loadAttrs]
  | (n, v) :: rest, pre, hp, hd, hdis, hall => by
    simp only [List.all_cons, Bool.and_eq_true] at hp
    have ⟨h1, h2⟩ := namesDistinct_cons (n := n) (ns := fieldNames rest) (by simpa [fieldNames] using hd)
    have hn := hall n (by simp [fieldNames])
    have hjc : isJcKey (.str n) = false := by simpa [isJcKey] using hn.1
    have hnp : n ∉ fieldNames pre := hdis n (by simp [fieldNames])
    have ih := serialAttrs env mods cl c hs rest (pre ++ [(n, v)]) hp.2 (by simpa [fieldNames] using h2)
      (by
        intro m hm
        simp only [fieldNames, List.map_append, List.map_cons, List.map_nil, List.mem_append, List.mem_singleton, not_or]
        refine ⟨hdis m (by simp [fieldNames] at hm ⊢; exact Or.inr hm), ?_⟩
        intro e; subst e; exact h1 (by simpa [fieldNames] using hm))
      (fun m hm => hall m (by simp [fieldNames] at hm ⊢; exact Or.inr hm))
    simp only [List.map_cons, loadAttrs, hjc, Bool.false_eq_true, ↓reduceIte, load_pj ⟨env, mods⟩ cl v hp.1,
      setAttr_ok hs pre n v hn.2.1 hn.2.2, setField_new n v pre hnp]
    simpa using ih

/- ---------- the induction ---------- -/

section main
variable (X : DumpCtx) (mods : List String) (cl : List (String × String))
variable (hH : noHandlers X.cfg = true) (hE : envOk ⟨X.env, mods⟩ cl = true)

local notation "W" => (World.mk X.env mods)
local notation "SM" => X.cfg.serializeMethod
local notation "IA" => X.cfg.ignoreAttribute

/-- What the field loop of `dump` produces is turned back, by the `setattr` loop of `load`, into the
    normalised fields, in place. -/
private def FieldsGood (fs : List (String × PyVal)) (ys : List (PyVal × PyVal)) : Prop :=
  ∀ (c : String) (pre init : List (String × PyVal)), settable X.env c → fieldNames init <+: fieldNames fs →
    (∀ n ∈ fieldNames fs, n ∉ fieldNames pre) → namesDistinct (fieldNames fs) = true →
    (∀ n ∈ fieldNames fs, isDunder n = false ∧ canSet X.env c n = true) →
    (loadAttrs W cl (.obj c (pre ++ init)) ys).res = .ok (.obj c (pre ++ normaliseFields fs))

include hH hE

private theorem enum_case (c : String) (d : ClassDef) (fs : List (String × PyVal)) (members : List (String × PyVal))
    (hc : X.env.lookup c = some d) (hk : d.kind = .enum members) (hs : shapeOk X c d fs = true) :
    ∃ dd, dump X SM IA [] (.obj c fs) = .ok dd ∧ (load W cl dd).res = .ok (normalise (.obj c fs)) := by
  unfold shapeOk at hs
  simp only [hk, Bool.and_eq_true] at hs
  obtain ⟨⟨⟨hd, hsm1⟩, hsm2⟩, hsh⟩ := hs
  split at hsh
  · rename_i n v
    simp only [Bool.and_eq_true, decide_eq_true_eq] at hsh
    obtain ⟨hp, hl⟩ := hsh
    have hn : normalise v = v := pj_normalise v hp
    refine ⟨.dict [(.str jcKey, .list [.str (emitName d), .list [v]])], ?_, ?_⟩
    · rw [Option.isNone_iff_eq_none] at hsm1 hsm2
      simp only [fieldNames, List.map_cons, List.map_nil] at hd
      simp [dump, handlerFor_none hH, hc, hd, hk, pure, Except.pure, hsm1, hsm2]
      simp [List.lookup]
    · have hi := instantiate_ok hE (c := c) (d := d) hc (.list [v]) (Or.inl ⟨_, rfl⟩)
      rcases hr : instantiate W cl (.list [.str (emitName d), .list [v]]) with ⟨r, lg⟩
      rw [hr] at hi
      simp only at hi
      simp [load, lookupStr, jcKey, hr, hi, construct, hk, hl, loadAttrs, isJcKey, normalise, normaliseFields, hn,
        pure, Except.pure]
  · simp at hsh

private theorem decimal_case (c : String) (d : ClassDef) (fs : List (String × PyVal))
    (hc : X.env.lookup c = some d) (hk : d.kind = .decimal) (hs : shapeOk X c d fs = true) :
    ∃ dd, dump X SM IA [] (.obj c fs) = .ok dd ∧ (load W cl dd).res = .ok (normalise (.obj c fs)) := by
  unfold shapeOk at hs
  simp only [hk, Bool.and_eq_true] at hs
  obtain ⟨⟨⟨hd, hsm1⟩, hsm2⟩, hsh⟩ := hs
  split at hsh
  · rename_i s
    refine ⟨.dict [(.str jcKey, .list [.str (emitName d), .list [.str s]])], ?_, ?_⟩
    · rw [Option.isNone_iff_eq_none] at hsm1 hsm2
      simp only [fieldNames, List.map_cons, List.map_nil] at hd
      simp [dump, handlerFor_none hH, hc, hd, hk, pure, Except.pure, hsm1, hsm2]
    · have hi := instantiate_ok hE (c := c) (d := d) hc (.list [.str s]) (Or.inl ⟨_, rfl⟩)
      rcases hr : instantiate W cl (.list [.str (emitName d), .list [.str s]]) with ⟨r, lg⟩
      rw [hr] at hi
      simp only at hi
      simp [load, lookupStr, jcKey, hr, hi, construct, hk, hsh, loadAttrs, isJcKey, normalise, normaliseFields,
        pure, Except.pure]
  · simp at hsh

private theorem bean_case (c : String) (d : ClassDef) (fs init : List (String × PyVal))
    (hc : X.env.lookup c = some d) (hk : d.kind = .bean init) (hs : shapeOk X c d fs = true)
    (ih : ∀ keep : List String, (∀ n ∈ fieldNames fs, keep.contains n = true) →
      ∃ ys, dumpFields X SM IA [] keep [] fs = .ok ys ∧ FieldsGood X mods cl fs ys) :
    ∃ dd, dump X SM IA [] (.obj c fs) = .ok dd ∧ (load W cl dd).res = .ok (normalise (.obj c fs)) := by
  unfold shapeOk at hs
  simp only [hk, Bool.and_eq_true, beq_iff_eq, List.all_eq_true, bne_iff_ne, ne_eq, Bool.not_eq_true',
    List.isPrefixOf_iff_prefix, List.contains_eq_mem, decide_eq_true_eq] at hs
  obtain ⟨⟨⟨hd, hsm1⟩, hsm2⟩, ⟨⟨⟨⟨⟨hinit, hFsub⟩, hsubF⟩, hia1⟩, hia2⟩, hall⟩⟩ := hs
  rw [Option.isNone_iff_eq_none] at hsm1 hsm2 hia1 hia2
  obtain ⟨ys, hys, hgood⟩ := ih (findFields X.env c (fieldNames fs)) (by intro n hn; simpa using hsubF n hn)
  refine ⟨.dict ((.str jcKey, .list [.str (emitName d), .list []]) :: ys), ?_, ?_⟩
  · have hget : getAttrD d fs IA (.list []) = .list [] := by simp [getAttrD, hia1, hia2]
    have hnone : ∀ n ∈ fieldNames fs, (fs.lookup n).isNone = false := fun n hn => lookup_isSome_of_mem fs n hn
    have hfilt : ∀ l : List String, l.filter (fun n => !([] : List PyVal).any (fun e => pyEq e (.str n))) = l := by
      intro l; exact List.filter_eq_self.mpr (by simp)
    have hjc : (findFields X.env c (fieldNames fs)).contains jcKey = false := by
      simp only [List.contains_eq_mem, decide_eq_false_iff_not]
      intro hm; exact (hall _ (hFsub _ hm)).1.1 rfl
    have hany : (findFields X.env c (fieldNames fs)).any (fun n => (fs.lookup n).isNone) = false := by
      simp only [List.any_eq_false]
      intro n hn; simp [hnone n (hFsub n hn)]
    have hbean : dumpBean X SM IA [] d c (emitName d) fs =
        .ok (.dict ((.str jcKey, .list [.str (emitName d), .list []]) :: ys)) := by
      unfold dumpBean
      simp only [hget, List.append_nil, List.any_nil, Bool.false_eq_true, ↓reduceIte, hfilt]
      simp only [fieldNames] at hany hjc hys
      have hjc' : jcKey ∉ findFields X.env c (List.map (fun x => x.fst) fs) := by simpa using hjc
      have hfilt2 : ∀ l : List String, List.filter (fun _ => true) l = l := fun l => List.filter_eq_self.mpr (by simp)
      simp [hany, hjc', hfilt2, hys, bind, Except.bind, pure, Except.pure]
    simp only [fieldNames] at hd
    unfold dump
    simp [handlerFor_none hH, hc, hd, hk, hsm1, hsm2, hbean]
  · have hi := instantiate_ok hE (c := c) (d := d) hc (.list []) (Or.inl ⟨_, rfl⟩)
    rcases hr : instantiate W cl (.list [.str (emitName d), .list []]) with ⟨r, lg⟩
    rw [hr] at hi
    simp only at hi
    have hset : settable X.env c := ⟨d, hc, by simp [hk]⟩
    have := hgood c [] init hset hinit (by simp [fieldNames]) hd (fun n hn => ⟨(hall n hn).1.2, (hall n hn).2⟩)
    simp only [List.nil_append] at this
    simp [load, lookupStr, jcKey, hr, hi, construct, hk, loadAttrs, isJcKey, normalise, pure, Except.pure]
    simpa [jcKey] using this

private theorem serial_case (c : String) (d : ClassDef) (fs : List (String × PyVal)) (m : String) (byDict : Bool)
    (ps as : List String) (base : List (String × PyVal))
    (hc : X.env.lookup c = some d) (hk : d.kind = .serial m byDict ps as base) (hs : shapeOk X c d fs = true) :
    ∃ dd, dump X SM IA [] (.obj c fs) = .ok dd ∧ (load W cl dd).res = .ok (normalise (.obj c fs)) := by
  unfold shapeOk at hs
  simp only [hk, Bool.and_eq_true, beq_iff_eq, List.all_eq_true, bne_iff_ne, ne_eq, Bool.not_eq_true',
    List.isEmpty_iff] at hs
  obtain ⟨⟨⟨hd, hsm1⟩, hsm2⟩, ⟨⟨⟨⟨⟨⟨hm, hb⟩, hnames⟩, hpj⟩, hia1⟩, hia2⟩, hall⟩⟩ := hs
  rw [Option.isNone_iff_eq_none] at hsm1 hsm2 hia1 hia2
  subst hb
  have hget : getAttrD d fs IA (.list []) = .list [] := by simp [getAttrD, hia1, hia2]
  -- split the stored fields into the constructor parameters and the attributes
  let fp := fs.take ps.length
  let fa := fs.drop ps.length
  have hfs : fp ++ fa = fs := List.take_append_drop _ _
  have hfp : fieldNames fp = ps := by
    have : List.map (fun x => x.fst) fs = ps ++ as := hnames
    show List.map (fun x => x.fst) (List.take ps.length fs) = ps
    rw [List.map_take, this]; simp
  have hfa : fieldNames fa = as := by
    have : List.map (fun x => x.fst) fs = ps ++ as := hnames
    show List.map (fun x => x.fst) (List.drop ps.length fs) = as
    rw [List.map_drop, this]; simp
  have hdd : namesDistinct (ps ++ as) = true := by rw [← hnames]; exact hd
  obtain ⟨hdp, hda, hdis⟩ := namesDistinct_append ps as hdd
  have hpjall : fs.all (fun f => pj f.2) = true := by
    rw [List.all_eq_true]; intro e he; exact hpj e he
  have hpja : fa.all (fun f => pj f.2) = true := by
    rw [List.all_eq_true]; intro e he; exact hpj e (List.mem_of_mem_drop he)
  have hlp : lookupAll fs ps = some (fp.map (·.2)) := by
    rw [← hfp]; exact lookupAll_sub fs hd fp (fun e he => List.mem_of_mem_take he)
  have hla : lookupAll fs as = some (fa.map (·.2)) := by
    rw [← hfa]; exact lookupAll_sub fs hd fa (fun e he => List.mem_of_mem_drop he)
  have hzp : ps.zip (fp.map (·.2)) = fp := by rw [← hfp]; exact zip_names_vals fp
  have hza : as.zip (fa.map (·.2)) = fa := by rw [← hfa]; exact zip_names_vals fa
  have hallA : ∀ n ∈ fieldNames fa, n ≠ jcKey ∧ isDunder n = false ∧ canSet X.env c n = true := by
    intro n hn
    have : n ∈ fieldNames fs := by
      rw [← hfs]; simp only [fieldNames, List.map_append, List.mem_append]; exact Or.inr hn
    exact ⟨(hall n this).1.1, (hall n this).1.2, (hall n this).2⟩
  have hjcA : as.contains jcKey = false := by
    simp only [List.contains_eq_mem, decide_eq_false_iff_not]
    intro hmem; exact (hallA jcKey (by rw [hfa]; exact hmem)).1 rfl
  have hcanP : ps.all (canSet X.env c) = true := by
    rw [List.all_eq_true]; intro n hn
    have : n ∈ fieldNames fs := by
      rw [← hfs]; simp only [fieldNames, List.map_append, List.mem_append]; exact Or.inl (by rw [← hfp] at hn; exact hn)
    exact (hall n this).2
  have hset : settable X.env c := ⟨d, hc, by simp [hk]⟩
  let params : PyVal := if byDict then PyVal.dict (fp.map fun (k, x) => (PyVal.str k, x)) else .list (fp.map (·.2))
  refine ⟨.dict ((.str jcKey, .list [.str (emitName d), params]) :: fa.map fun (k, x) => (PyVal.str k, x)), ?_, ?_⟩
  · simp only [fieldNames] at hd
    have hjcA' : jcKey ∉ as := by simpa using hjcA
    have hfilt : ∀ l : List (String × PyVal), l.filter (fun x => !nameIgnored [] x.fst) = l := by
      intro l; exact List.filter_eq_self.mpr (by simp [nameIgnored])
    simp [dump, handlerFor_none hH, hc, hd, hk, hsm1, hsm2, hm, hlp, hla, hjcA', hda, hzp, hza, hget, hfilt, pure, Except.pure, params]
  · have hcons : construct X.env c d params = .ok (.obj c fp) := by
      have hsf : setFields [] fp = fp := by
        have := setFields_append fp [] (by rw [hfp]; exact hdp) (by simp [fieldNames])
        simpa using this
      cases byDict with
      | false =>
        have hlen : (fp.map (·.2)).length = ps.length := by rw [← hfp]; simp [fieldNames]
        simp [params, construct, hk, hlen, hcanP, hzp, hsf, pure, Except.pure]
      | true =>
        have hlen : fp.length = ps.length := by rw [← hfp]; simp [fieldNames]
        have hl : lookupAll fp ps = some (fp.map (·.2)) := by
          rw [← hfp]; exact lookupAll_sub fp (by rw [hfp]; exact hdp) fp (fun e he => he)
        have hcomp : ((fun x : PyVal × PyVal => ((match x.fst with | .str s => s | _ => ""), x.snd)) ∘
            fun x : String × PyVal => (PyVal.str x.fst, x.snd)) = id := by funext x; simp
        have hstr := allStr_map fp
        simp [params, construct, hk, hstr, hl, hlen, hdp, hcanP, hzp, hsf, pure, Except.pure]
        have key : ∀ (g : String × PyVal → String × PyVal), (∀ x, g x = x) → List.map g fp = fp := by
          intro g hg
          have : g = id := funext hg
          rw [this, List.map_id]
        rw [key _ (by intro x; rfl)]
        simp [hl, hzp, hsf]
    have hi := instantiate_ok hE (c := c) (d := d) hc params (by
      cases byDict
      · exact Or.inl ⟨_, rfl⟩
      · exact Or.inr ⟨_, rfl⟩)
    rcases hr : instantiate W cl (.list [.str (emitName d), params]) with ⟨r, lg⟩
    rw [hr] at hi
    simp only at hi
    have hattrs := serialAttrs X.env mods cl c hset fa fp hpja (by rw [hfa]; exact hda)
      (by intro n hn; rw [hfa] at hn; rw [hfp]; exact hdis n hn) hallA
    rw [hfs] at hattrs
    simp [load, lookupStr, jcKey, hr, hi, hcons, loadAttrs, isJcKey, normalise, normaliseFields_pj fs hpjall]
    simpa [jcKey] using hattrs

private theorem iter_case7 (xs : List PyVal) (v : PyVal)
    (hv : dump X SM IA [] v = (do let ys ← dumpList X SM IA [] xs; pure (.list ys)))
    (hn : normalise v = .list (normaliseList xs))
    (ih : ∃ ys, dumpList X SM IA [] xs = .ok ys ∧ (loadList W cl ys).res = .ok (normaliseList xs)) :
    ∃ d, dump X SM IA [] v = .ok d ∧ (load W cl d).res = .ok (normalise v) := by
  obtain ⟨ys, h1, h2⟩ := ih
  refine ⟨.list ys, by rw [hv, h1]; rfl, by simp [load, h2, hn, Except.map]⟩

mutual
  private theorem rt : ∀ (v : PyVal), wfVal X v = true →
      ∃ d, dump X SM IA [] v = .ok d ∧ (load W cl d).res = .ok (normalise v)
    | .none, _ => ⟨.none, by simp [dump, handlerFor_none hH, pure, Except.pure], by simp [load, normalise]⟩
    | .bool b, _ => ⟨.bool b, by simp [dump, handlerFor_none hH, pure, Except.pure], by simp [load, normalise]⟩
    | .int i, _ => ⟨.int i, by simp [dump, handlerFor_none hH, pure, Except.pure], by simp [load, normalise]⟩
    | .float f, _ => ⟨.float f, by simp [dump, handlerFor_none hH, pure, Except.pure], by simp [load, normalise]⟩
    | .str s, _ => ⟨.str s, by simp [dump, handlerFor_none hH, pure, Except.pure], by simp [load, normalise]⟩
    | .list xs, h => iter_case7 X mods cl hH hE xs (.list xs) (by simp [dump, handlerFor_none hH]) (by simp [normalise])
        (rtList xs (by simpa [wfVal] using h))
    | .tuple xs, h => iter_case7 X mods cl hH hE xs (.tuple xs) (by simp [dump, handlerFor_none hH]) (by simp [normalise])
        (rtList xs (by simpa [wfVal] using h))
    | .set xs, h => iter_case7 X mods cl hH hE xs (.set xs) (by simp [dump, handlerFor_none hH]) (by simp [normalise])
        (rtList xs (by simpa [wfVal] using h))
    | .frozenset xs, h => iter_case7 X mods cl hH hE xs (.frozenset xs) (by simp [dump, handlerFor_none hH]) (by simp [normalise])
        (rtList xs (by simpa [wfVal] using h))
    | .dict kvs, h => by
      have hp : wfKVs X kvs = true := by simpa [wfVal] using h
      obtain ⟨ys, h1, h2, h3⟩ := rtKVs kvs hp
      refine ⟨.dict ys, ?_, ?_⟩
      · simp [dump, handlerFor_none hH, h1, bind, Except.bind, pure, Except.pure]
      · simp [load, h3, h2, normalise, Except.map]
    | .obj c fs, h => by
      simp only [wfVal, Bool.and_eq_true] at h
      obtain ⟨hsh, hwf⟩ := h
      cases hc : X.env.lookup c with
      | none => simp [hc] at hsh
      | some d =>
        simp only [hc] at hsh
        cases hk : d.kind with
        | bean init => exact bean_case X mods cl hH hE c d fs init hc hk hsh (fun keep hkeep => rtFields fs hwf keep hkeep)
        | serial m byDict ps as base => exact serial_case X mods cl hH hE c d fs m byDict ps as base hc hk hsh
        | enum members => exact enum_case X mods cl hH hE c d fs members hc hk hsh
        | decimal => exact decimal_case X mods cl hH hE c d fs hc hk hsh
        | raising e => simp [shapeOk, hk] at hsh
  private theorem rtList : ∀ (xs : List PyVal), wfList X xs = true →
      ∃ ys, dumpList X SM IA [] xs = .ok ys ∧ (loadList W cl ys).res = .ok (normaliseList xs)
    | [], _ => ⟨[], by simp [dumpList, pure, Except.pure], by simp [loadList, normaliseList]⟩
    | x :: xs, h => by
      simp only [wfList, Bool.and_eq_true] at h
      obtain ⟨d, hd, g⟩ := rt x h.1
      obtain ⟨ys, h1, h2⟩ := rtList xs h.2
      refine ⟨d :: ys, ?_, ?_⟩
      · simp [dumpList, hd, h1, bind, Except.bind, pure, Except.pure]
      · simp [loadList, g, h2, normaliseList, Except.map]
  private theorem rtKVs : ∀ (kvs : List (PyVal × PyVal)), wfKVs X kvs = true →
      ∃ ys, dumpKVs X SM IA [] kvs = .ok ys ∧ (loadKVs W cl ys).res = .ok (normaliseKVs kvs) ∧
        lookupStr jcKey ys = Option.none
    | [], _ => ⟨[], by simp [dumpKVs, pure, Except.pure], by simp [loadKVs, normaliseKVs], by simp [lookupStr]⟩
    | (k, x) :: xs, h => by
      simp only [wfKVs, Bool.and_eq_true, Bool.not_eq_true'] at h
      obtain ⟨d, hd, g⟩ := rt x h.1.2
      obtain ⟨ys, h1, h2, h3⟩ := rtKVs xs h.2
      refine ⟨(k, d) :: ys, ?_, ?_, ?_⟩
      · simp [dumpKVs, hd, h1, bind, Except.bind, pure, Except.pure]
      · simp [loadKVs, g, h2, normaliseKVs, Except.map]
      · have := h.1.1
        cases k <;> simp_all [lookupStr, isJcKey]
  private theorem rtFields : ∀ (fs : List (String × PyVal)), wfFields X fs = true →
      ∀ keep : List String, (∀ n ∈ fieldNames fs, keep.contains n = true) →
      ∃ ys, dumpFields X SM IA [] keep [] fs = .ok ys ∧ FieldsGood X mods cl fs ys
    | [], _, keep, _ => ⟨[], by simp [dumpFields, pure, Except.pure], by
        intro c pre init _ hinit _ _ _
        have : init = [] := by simpa [fieldNames] using hinit
        simp [this, loadAttrs, normaliseFields]⟩
    | (n, x) :: rest, h, keep, hkeep => by
      simp only [wfFields, Bool.and_eq_true, Bool.not_eq_true'] at h
      obtain ⟨d, hd, g⟩ := rt x h.1.2
      obtain ⟨ys, h1, h2⟩ := rtFields rest h.2 keep (fun m hm => hkeep m (by simp [fieldNames] at hm ⊢; exact Or.inr hm))
      have hk : keep.contains n = true := hkeep n (by simp [fieldNames])
      have hknown : isKnown X x = true := by cases x <;> simp_all [isKnown, isObj]
      have hin : valueIn X.env x [] = .ok false := by simp [valueIn, pure, Except.pure]
      refine ⟨(.str n, d) :: ys, ?_, ?_⟩
      · have hk' : n ∈ keep := by simpa using hk
        simp [dumpFields, hk', hknown, hin, hd, h1, bind, Except.bind, pure, Except.pure]
      · intro c pre init hset hinit hdis hdist hall
        have ⟨hd1, hd2⟩ := namesDistinct_cons (n := n) (ns := fieldNames rest) (by simpa [fieldNames] using hdist)
        have hn := hall n (by simp [fieldNames])
        have hnp : n ∉ fieldNames pre := hdis n (by simp [fieldNames])
        have hjc : isJcKey (.str n) = false := by
          cases hj : isJcKey (.str n) with
          | false => rfl
          | true =>
            exfalso
            have : n = jcKey := by simpa [isJcKey] using hj
            subst this
            simp [isDunder, jcKey, startsDunder] at hn
        have hdis' : ∀ m ∈ fieldNames rest, m ∉ fieldNames (pre ++ [(n, normalise x)]) := by
          intro m hm
          simp only [fieldNames, List.map_append, List.map_cons, List.map_nil, List.mem_append, List.mem_singleton, not_or]
          refine ⟨hdis m (by simp [fieldNames] at hm ⊢; exact Or.inr hm), ?_⟩
          intro e; subst e; exact hd1 (by simpa [fieldNames] using hm)
        have hall' : ∀ m ∈ fieldNames rest, isDunder m = false ∧ canSet X.env c m = true :=
          fun m hm => hall m (by simp [fieldNames] at hm ⊢; exact Or.inr hm)
        cases init with
        | nil =>
          -- an attribute the constructor does not set: `setattr` appends it
          have ih := h2 c (pre ++ [(n, normalise x)]) [] hset (by simp [fieldNames]) hdis' hd2 hall'
          have hnp' : n ∉ fieldNames (pre ++ []) := by simpa using hnp
          simp only [loadAttrs, hjc, Bool.false_eq_true, ↓reduceIte, g,
            setAttr_ok hset (pre ++ []) n (normalise x) hn.1 hn.2, setField_new n (normalise x) (pre ++ []) hnp']
          simpa [normaliseFields] using ih
        | cons i0 irest =>
          obtain ⟨n0, x0⟩ := i0
          simp only [fieldNames, List.map_cons, List.cons_prefix_cons] at hinit
          obtain ⟨rfl, hirest⟩ := hinit
          have ih := h2 c (pre ++ [(n0, normalise x)]) irest hset (by simpa [fieldNames] using hirest) hdis' hd2 hall'
          simp only [loadAttrs, hjc, Bool.false_eq_true, ↓reduceIte, g,
            setAttr_ok hset (pre ++ (n0, x0) :: irest) n0 (normalise x) hn.1 hn.2, setField_mid n0 (normalise x) x0 pre irest hnp]
          simpa [normaliseFields] using ih
end

end main

/- ---------- the property theorems ---------- -/

/-- For every class environment, every class table and set of importable modules under which the classes are
    resolvable, and every value well-formed for the environment — instances of attribute-dict classes, slotted
    classes, inheritance hierarchies of either (own slots per class, name-mangled ones included), classes with
    a serialisation method and list or dict constructor arguments, enum members and Decimals, occurring at any
    depth of lists, tuples, sets, dicts and of containers held in fields of other instances —
    `load(dump(v))` succeeds and is `v` up to tuples and sets becoming lists: same classes, equal fields. -/
theorem C07_roundtrip (X : DumpCtx) (mods : List String) (classes : List (String × String)) (v : PyVal)
    (hH : noHandlers X.cfg = true) (hE : envOk ⟨X.env, mods⟩ classes = true) (hv : wfVal X v = true) :
    ∃ d, dumpTop X Option.none Option.none Option.none v = .ok d ∧
      (load ⟨X.env, mods⟩ classes d).res = .ok (normalise v) := by
  have := rt X mods classes hH hE v hv
  simpa [dumpTop, orStr] using this

private theorem splitLastDot_none : ∀ (cs : List Char), (∀ ch ∈ cs, ch ≠ '.') → splitLastDot cs = Option.none
  | [], _ => rfl
  | c :: cs, h => by
    have h1 : (c == '.') = false := by simpa using h c (by simp)
    simp [splitLastDot, splitLastDot_none cs (fun ch hch => h ch (by simp [hch])), h1]

/-- A class that `dump` names without a module (module `__main__` or `""`) is resolved through the local
    class table alone — no import — whenever the table lists it under its name. -/
theorem C07_local_resolves (W : World) (classes : List (String × String)) (d : ClassDef) (c : String)
    (hm : d.module = "__main__" ∨ d.module = "") (hnd : ∀ ch ∈ d.name.toList, ch ≠ '.')
    (hl : classes.lookup d.name = some c) :
    resolveClass W classes (emitName d) = (.ok c, []) := by
  have he : emitName d = d.name := by rcases hm with h | h <;> simp [emitName, h]
  have hs : splitLastDot d.name.toList = Option.none := splitLastDot_none _ hnd
  have hne : classes.isEmpty = false := by cases classes <;> simp_all [List.lookup]
  simp [resolveClass, he, hs, hne, hl]

/-- Classes resolvable only through the local class table (Config.classes): when every class of module
    `__main__`/`""` is listed in the table under its (dot-free, valid) name and every other class is importable
    under its qualified name, the round trip holds wherever the instances occur — inside lists and dicts,
    including those held in fields of other instances, because `classes` reaches every recursive `load`. -/
theorem C07_local_classes (X : DumpCtx) (mods : List String) (classes : List (String × String)) (v : PyVal)
    (hH : noHandlers X.cfg = true) (hv : wfVal X v = true)
    (hloc : ∀ e ∈ X.env, (e.2.module = "__main__" ∨ e.2.module = "") →
      (∀ ch ∈ e.2.name.toList, ch ≠ '.') ∧ e.2.name ≠ "" ∧ validName e.2.name = true ∧ classes.lookup e.2.name = some e.1)
    (hmod : ∀ e ∈ X.env, ¬ (e.2.module = "__main__" ∨ e.2.module = "") →
      validName (emitName e.2) = true ∧ (resolveClass ⟨X.env, mods⟩ classes (emitName e.2)).1 = .ok e.1) :
    ∃ d, dumpTop X Option.none Option.none Option.none v = .ok d ∧
      (load ⟨X.env, mods⟩ classes d).res = .ok (normalise v) := by
  refine C07_roundtrip X mods classes v hH ?_ hv
  unfold envOk
  rw [List.all_eq_true]
  intro e he
  simp only [Bool.and_eq_true, bne_iff_ne, ne_eq, decide_eq_true_eq]
  by_cases hm : e.2.module = "__main__" ∨ e.2.module = ""
  · obtain ⟨h1, h2, h3, h4⟩ := hloc e he hm
    have hen : emitName e.2 = e.2.name := by rcases hm with h | h <;> simp [emitName, h]
    refine ⟨⟨by rw [hen]; exact h2, by rw [hen]; exact h3⟩, ?_⟩
    rw [C07_local_resolves ⟨X.env, mods⟩ classes e.2 e.1 hm h1 h4]
  · obtain ⟨h1, h2⟩ := hmod e he hm
    refine ⟨⟨?_, h1⟩, h2⟩
    intro h0
    have : emitName e.2 = e.2.module ++ "." ++ e.2.name := by
      simp only [not_or] at hm
      simp [emitName, hm.1, hm.2]
    rw [this] at h0
    have := congrArg String.length h0
    simp at this

/- ---------- the class table as a program builds it (config.LocalClasses) ---------- -/

/-- `Config.classes` after any program of registrations (`add(cls)`, `add(cls, name)`), re-registrations under a
    name already taken, direct stores, removals and `clear()`: every name resolves to what the *last* statement
    concerning it bound it to.  In particular a class registered again under the name of another class replaces it. -/
theorem C07_registry_lookup (t : LocalClasses.Table) (ops : List LocalClasses.Op) (k : String) :
    (LocalClasses.run t ops).lookup k = LocalClasses.lastBinding k (t.lookup k) ops :=
  LocalClasses.lookup_run ops t k

/-- Whatever was registered before under the same name (another class, a stale definition of the same class), after
    `classes.add(cls, name)` and any further statements that do not concern that name, the name resolves to `cls`. -/
theorem C07_registry_last_registration_wins (t : LocalClasses.Table) (pre post : List LocalClasses.Op)
    (c cn : String) (name : Option String)
    (hpost : ∀ op ∈ post, LocalClasses.effect (LocalClasses.keyOf cn name) op = Option.none) :
    (LocalClasses.run t (pre ++ LocalClasses.Op.add c cn name :: post)).lookup (LocalClasses.keyOf cn name) = some c := by
  rw [LocalClasses.lookup_run, LocalClasses.lastBinding_append]
  simp only [LocalClasses.lastBinding, LocalClasses.effect, beq_self_eq_true, ↓reduceIte]
  exact LocalClasses.lastBinding_untouched _ _ _ hpost

/-- **Round trip with the class table in force, however it was built.**  When, for every class of module
    `__main__`/`""`, the last statement of the program concerning its name registered *that* class, the round trip
    of `C07_local_classes` holds with the table the program leaves in `Config.classes`. -/
theorem C07_registered_roundtrip (X : DumpCtx) (mods : List String) (t0 : LocalClasses.Table)
    (ops : List LocalClasses.Op) (v : PyVal)
    (hH : noHandlers X.cfg = true) (hv : wfVal X v = true)
    (hloc : ∀ e ∈ X.env, (e.2.module = "__main__" ∨ e.2.module = "") →
      (∀ ch ∈ e.2.name.toList, ch ≠ '.') ∧ e.2.name ≠ "" ∧ validName e.2.name = true ∧
        LocalClasses.lastBinding e.2.name (t0.lookup e.2.name) ops = some e.1)
    (hmod : ∀ e ∈ X.env, ¬ (e.2.module = "__main__" ∨ e.2.module = "") →
      validName (emitName e.2) = true ∧
        (resolveClass ⟨X.env, mods⟩ (LocalClasses.run t0 ops) (emitName e.2)).1 = .ok e.1) :
    ∃ d, dumpTop X Option.none Option.none Option.none v = .ok d ∧
      (load ⟨X.env, mods⟩ (LocalClasses.run t0 ops) d).res = .ok (normalise v) := by
  refine C07_local_classes X mods (LocalClasses.run t0 ops) v hH hv ?_ hmod
  intro e he hm
  obtain ⟨h1, h2, h3, h4⟩ := hloc e he hm
  exact ⟨h1, h2, h3, by rw [LocalClasses.lookup_run]; exact h4⟩

/- ---------- as a parameter and as a result of a remote call ---------- -/

/-- **As a parameter.**  `jsonrpc.dump` (the client's `dumps(params, methodname, …, config)`, a call or a
    notification, any protocol version) with the class translator as converter builds a request whose `params`
    member, once the receiving side has run `jsonrpc.load` with *its* class translator and the same class table,
    is `[v]` up to tuples and sets becoming lists — the remote callable receives the object — for every
    well-formed `v` (wherever the instances occur in it).  Stated on the request dictionary; the JSON text in
    between is the backend's business (C01) and is exercised by the monitor. -/
theorem C07_rpc_param (X : DumpCtx) (mods : List String) (cfg : Config) (v : PyVal) (m fresh : String)
    (version : Payload.VerArg) (isNotify : Bool) (hon : cfg.useJsonclass = true) (hH : noHandlers X.cfg = true)
    (hE : envOk ⟨X.env, mods⟩ cfg.classes = true) (hv : wfVal X v = true) :
    ∃ req, Payload.dump cfg (dumpTop X Option.none Option.none Option.none) fresh (.val (.tuple [v])) (.str m) .none version
        false isNotify = .ok req ∧
      ∃ req', Payload.load cfg (fun d => (load ⟨X.env, mods⟩ cfg.classes d).res) req = .ok req' ∧
        getD req' "params" .none = .list [normalise v] ∧ getD req' "method" .none = .str m := by
  obtain ⟨d, hd, hl⟩ := C07_roundtrip X mods cfg.classes v hH hE hv
  have hd' : dump X X.cfg.serializeMethod X.cfg.ignoreAttribute [] v = .ok d := by simpa [dumpTop, orStr] using hd
  have hd0 : dumpTop X Option.none Option.none Option.none (.tuple [v]) = .ok (.list [d]) := by
    simp only [dumpTop, orStr, Option.getD]
    unfold dump
    simp [handlerFor_none hH, dumpList, hd', bind, Except.bind, pure, Except.pure]
  by_cases hver : Payload.resolveVersion cfg version ≥ 20 <;> cases isNotify
  · refine ⟨.dict [(.str "id", .str fresh), (.str "method", .str m), (.str "params", .list [d]),
        (.str "jsonrpc", .str (Payload.verStr (Payload.resolveVersion cfg version)))], ?_, ?_⟩
    · simp [Payload.dump, Payload.validParams, isStr, isTuple, hon, hd0, Payload.request, Payload.chooseId, truthy, hver,
        bind, Except.bind, pure, Except.pure]
    · simp [Payload.load, hon, load, loadKVs, loadList, lookupStr, jcKey, hl, getD, Except.map, pure, Except.pure]
  · refine ⟨.dict [(.str "method", .str m), (.str "params", .list [d]),
        (.str "jsonrpc", .str (Payload.verStr (Payload.resolveVersion cfg version)))], ?_, ?_⟩
    · simp [Payload.dump, Payload.validParams, isStr, isTuple, hon, hd0, Payload.notify, Payload.request, Payload.chooseId,
        truthy, hver, delStr, bind, Except.bind, pure, Except.pure]
    · simp [Payload.load, hon, load, loadKVs, loadList, lookupStr, jcKey, hl, getD, Except.map, pure, Except.pure]
  · refine ⟨.dict [(.str "id", .str fresh), (.str "method", .str m), (.str "params", .list [d])], ?_, ?_⟩
    · simp [Payload.dump, Payload.validParams, isStr, isTuple, hon, hd0, Payload.request, Payload.chooseId, truthy, hver,
        bind, Except.bind, pure, Except.pure]
    · simp [Payload.load, hon, load, loadKVs, loadList, lookupStr, jcKey, hl, getD, Except.map, pure, Except.pure]
  · refine ⟨.dict [(.str "id", .none), (.str "method", .str m), (.str "params", .list [d])], ?_, ?_⟩
    · simp [Payload.dump, Payload.validParams, isStr, isTuple, hon, hd0, Payload.notify, Payload.request, Payload.chooseId,
        truthy, hver, setStr, bind, Except.bind, pure, Except.pure]
    · simp [Payload.load, hon, load, loadKVs, loadList, lookupStr, jcKey, hl, getD, Except.map, pure, Except.pure]

/-- **As a result.**  `jsonrpc.dump(result, rpcid=…, is_response=True, config)` (the server's reply, any protocol
    version, any primitive id) with the class translator as converter builds a response whose `result` member,
    once the client has run `jsonrpc.load` with its class translator and the same class table, is `v` up to tuples
    and sets becoming lists, and whose id is the request's. -/
theorem C07_rpc_result (X : DumpCtx) (mods : List String) (cfg : Config) (v rpcid : PyVal) (fresh : String)
    (version : Payload.VerArg) (hon : cfg.useJsonclass = true) (hH : noHandlers X.cfg = true)
    (hE : envOk ⟨X.env, mods⟩ cfg.classes = true) (hv : wfVal X v = true)
    (hid : rpcid.isPrimitive = true) (hid' : rpcid ≠ .none) :
    ∃ rep, Payload.dump cfg (dumpTop X Option.none Option.none Option.none) fresh (.val v) .none rpcid version
        true false = .ok rep ∧
      ∃ rep', Payload.load cfg (fun d => (load ⟨X.env, mods⟩ cfg.classes d).res) rep = .ok rep' ∧
        getD rep' "result" .none = normalise v ∧ getD rep' "id" .none = rpcid := by
  obtain ⟨d, hd, hl⟩ := C07_roundtrip X mods cfg.classes v hH hE hv
  have hlid : (load ⟨X.env, mods⟩ cfg.classes rpcid).res = .ok rpcid := by
    cases rpcid <;> simp_all [isPrimitive, load]
  have key : ∀ (conv : PyVal → PyM PyVal) (w dw : PyVal), conv w = .ok dw →
      Payload.dump cfg conv fresh (.val w) .none rpcid version true false =
        .ok (Payload.response (Payload.resolveVersion cfg version) rpcid dw) := by
    intro conv w dw hw
    cases w <;> cases rpcid <;> simp_all [Payload.dump, isStr, bind, Except.bind, pure, Except.pure]
  have hdump := key _ v d hd
  by_cases hver : Payload.resolveVersion cfg version ≥ 20
  · refine ⟨.dict [(.str "result", d), (.str "id", rpcid),
        (.str "jsonrpc", .str (Payload.verStr (Payload.resolveVersion cfg version)))], ?_, ?_⟩
    · rw [hdump]; simp [Payload.response, hver]
    · simp [Payload.load, hon, load, loadKVs, lookupStr, jcKey, hl, hlid, getD, Except.map, pure, Except.pure]
  · refine ⟨.dict [(.str "result", d), (.str "id", rpcid), (.str "error", .none)], ?_, ?_⟩
    · rw [hdump]; simp [Payload.response, hver]
    · simp [Payload.load, hon, load, loadKVs, lookupStr, jcKey, hl, hlid, getD, Except.map, pure, Except.pure]

/- ---------- non-vacuity ---------- -/

/-- A slotted child (own private slot `__z`, locally registered: module `__main__`) of a dict-based parent,
    holding in a field a list of an enum member and a Decimal; the instance sits inside a list. -/
private def exEnv7 : ClassEnv := [
  ("Child", { module := "__main__", name := "Child", bases := ["Parent"], ownSlots := some ["__z", "items"],
              kind := .bean [("p", .int 0), ("_Child__z", .none), ("items", .list [])] }),
  ("Parent", { module := "pkg.mod", name := "Parent", kind := .bean [("p", .int 0)] }),
  ("Ser", { module := "pkg.mod", name := "Ser", ownSlots := some ["a", "b"], kind := .serial "_serialize" true ["a"] ["b"] [] }),
  ("Col", { module := "pkg.mod", name := "Colour", kind := .enum [("BLUE", .int 1), ("RED", .str "r")] }),
  ("Dec", { module := "decimal", name := "Decimal", kind := .decimal })]
private def exX : DumpCtx := { env := exEnv7, cfg := {}, H := fun _ _ _ _ _ => raise "none" }
private def exVal : PyVal :=
  .tuple [.obj "Child" [("p", .set [.int 1]), ("_Child__z", .bool true),
    ("items", .list [.obj "Col" [("name", .str "RED"), ("value", .str "r")], .obj "Dec" [("str", .str "1.10")],
                     .dict [(.int 3, .obj "Ser" [("a", .list [.int 1]), ("b", .str "x")])]])]]

example : wfVal exX exVal = true := by decide +kernel
/-- An attribute the constructor does not set (`extra_0`, stored after the constructor's own) is in the domain. -/
example : wfVal exX (.list [.obj "Parent" [("p", .int 1), ("extra_0", .tuple [.int 2])]]) = true := by decide +kernel
example : envOk ⟨exEnv7, []⟩ [("Child", "Child")] = true := by decide +kernel
/-- Without the table the locally registered class is not resolvable (`__import__("")` raises). -/
example : envOk ⟨exEnv7, []⟩ [] = false := by decide +kernel
example : findFields exEnv7 "Child" ["p", "_Child__z", "items"] = ["p", "_Child__z", "items"] := by decide +kernel
example : ∃ d, dumpTop exX Option.none Option.none Option.none exVal = .ok d ∧
    (load ⟨exEnv7, []⟩ [("Child", "Child")] d).res = .ok (normalise exVal) :=
  C07_roundtrip exX [] [("Child", "Child")] exVal (by decide) (by decide +kernel) (by decide +kernel)

/-- Non-vacuity of the remote-call theorems: the same value as the parameter of a notification (protocol 1.0) and
    as the result of a call (protocol 2.0, integer id), with the class table in the configuration. -/
private def exCfg : Config := { classes := [("Child", "Child")] }
example : ∃ req, Payload.dump exCfg (dumpTop exX Option.none Option.none Option.none) "id0" (.val (.tuple [exVal])) (.str "m")
      .none (.num 10) false true = .ok req ∧
    ∃ req', Payload.load exCfg (fun d => (load ⟨exEnv7, []⟩ exCfg.classes d).res) req = .ok req' ∧
      getD req' "params" .none = .list [normalise exVal] ∧ getD req' "method" .none = .str "m" :=
  C07_rpc_param exX [] exCfg exVal "m" "id0" (.num 10) true rfl (by decide) (by decide +kernel) (by decide +kernel)
example : ∃ rep, Payload.dump exCfg (dumpTop exX Option.none Option.none Option.none) "id0" (.val exVal) .none (.int 7) .none
      true false = .ok rep ∧
    ∃ rep', Payload.load exCfg (fun d => (load ⟨exEnv7, []⟩ exCfg.classes d).res) rep = .ok rep' ∧
      getD rep' "result" .none = normalise exVal ∧ getD rep' "id" .none = .int 7 :=
  C07_rpc_result exX [] exCfg exVal (.int 7) "id0" .none rfl (by decide) (by decide +kernel) (by decide +kernel) rfl (by simp)

/-- Non-vacuity of the registry theorems: the name `Child` is first given to a stale definition (`StaleChild`, same
    `__name__`), then registered again with the current class, an unrelated alias is added and removed: the table
    left is the one of the examples above, and the round trip holds with it. -/
private def exOps : List LocalClasses.Op :=
  [.add "StaleChild" "Child" Option.none, .add "Other" "Other" (some "Alias"), .add "Child" "Child" Option.none, .del "Alias"]
example : LocalClasses.run [] exOps = [("Child", "Child")] := by decide +kernel
example : LocalClasses.lastBinding "Child" Option.none exOps = some "Child" := by decide +kernel
example : ∃ d, dumpTop exX Option.none Option.none Option.none exVal = .ok d ∧
    (load ⟨exEnv7, []⟩ (LocalClasses.run [] exOps) d).res = .ok (normalise exVal) :=
  C07_roundtrip exX [] (LocalClasses.run [] exOps) exVal (by decide) (by decide +kernel) (by decide +kernel)
/-- … and with a registration that keeps the first class of a name (`setdefault`) the table would name the stale
    class: the hypothesis of `C07_registered_roundtrip` is about the *last* registration. -/
example : LocalClasses.lastBinding "Child" Option.none [.add "StaleChild" "Child" Option.none, .add "Child" "Child" Option.none]
    ≠ some "StaleChild" := by decide +kernel

/-- Special values of the scalar-like classes are in the domain: every Decimal `str` can produce — infinities, quiet
    and signalling NaNs with or without payload, negative zero, exponents — and the members of a `Flag` enumeration,
    composite values and the empty flag included (`Perm(3)`, `Perm(0)`; the member table lists every value the
    enumeration accepts). -/
private def exEnvS : ClassEnv := [
  ("Perm", { module := "pkg.mod", name := "Perm",
             kind := .enum [("R", .int 1), ("W", .int 2), ("X", .int 4), ("R|W", .int 3), ("", .int 0), ("R|W|X", .int 7)] }),
  ("Dec", { module := "decimal", name := "Decimal", kind := .decimal })]
private def exXS : DumpCtx := { env := exEnvS, cfg := {}, H := fun _ _ _ _ _ => raise "none" }
private def exValS : PyVal :=
  .list [.obj "Dec" [("str", .str "-Infinity")], .obj "Dec" [("str", .str "NaN")], .obj "Dec" [("str", .str "-sNaN123")],
         .obj "Dec" [("str", .str "1E+100")], .obj "Dec" [("str", .str "-0")], .obj "Dec" [("str", .str "0E-7")],
         .obj "Dec" [("str", .str "1.5E-7")], .obj "Dec" [("str", .str "0.000001")], .obj "Dec" [("str", .str "9.99E+384")],
         .dict [(.str "k", .obj "Perm" [("name", .str "R|W"), ("value", .int 3)])],
         .obj "Perm" [("name", .str ""), ("value", .int 0)]]
example : wfVal exXS exValS = true := by decide +kernel
example : ∃ d, dumpTop exXS Option.none Option.none Option.none exValS = .ok d ∧
    (load ⟨exEnvS, []⟩ [] d).res = .ok (normalise exValS) :=
  C07_roundtrip exXS [] [] exValS (by decide) (by decide +kernel) (by decide +kernel)
/-- Literals that are not what `str` writes are outside the domain (`Decimal("0.0000001")` prints as `1E-7`). -/
example : canonDecimal "0.0000001" = false ∧ canonDecimal "1.00E+2" = false ∧ canonDecimal "+1" = false ∧
    canonDecimal "NaN007" = false ∧ canonDecimal "infinity" = false ∧ canonDecimal "1E+0" = false := by decide +kernel

/-- Adversarial enumerations are in the domain (the hypothesis `shapeOk` asks only that the member is the one found by
    its VALUE): every value here is something else that identifies another member — the name of another member
    (`LEFT = "RIGHT"`, `RIGHT = "LEFT"`), the name of an alias (`B = "ALIAS"`, `ALIAS` being a second name of `A`; the member
    table lists canonical members), the position of another member (`IDX = 0`), a list holding a name. -/
private def exEnvA : ClassEnv := [
  ("Side", { module := "pkg.mod", name := "Side",
             kind := .enum [("LEFT", .str "RIGHT"), ("RIGHT", .str "LEFT"), ("A", .int 1), ("B", .str "ALIAS"),
                            ("IDX", .int 0), ("BOX", .list [.str "LEFT"])] })]
private def exXA : DumpCtx := { env := exEnvA, cfg := {}, H := fun _ _ _ _ _ => raise "none" }
private def exValA : PyVal :=
  .list [.obj "Side" [("name", .str "LEFT"), ("value", .str "RIGHT")], .obj "Side" [("name", .str "RIGHT"), ("value", .str "LEFT")],
         .dict [(.str "k", .obj "Side" [("name", .str "B"), ("value", .str "ALIAS")])],
         .tuple [.obj "Side" [("name", .str "IDX"), ("value", .int 0)], .obj "Side" [("name", .str "BOX"), ("value", .list [.str "LEFT"])]]]
example : wfVal exXA exValA = true := by decide +kernel
example : ∃ d, dumpTop exXA Option.none Option.none Option.none exValA = .ok d ∧
    (load ⟨exEnvA, []⟩ [] d).res = .ok (normalise exValA) :=
  C07_roundtrip exXA [] [] exValA (by decide) (by decide +kernel) (by decide +kernel)
/-- The transmitted `["RIGHT"]` is the member whose value is "RIGHT" (`LEFT`), not the member named `RIGHT`. -/
example : (load ⟨exEnvA, []⟩ [] (.dict [(.str "__jsonclass__", .list [.str "pkg.mod.Side", .list [.str "RIGHT"]])])).res
    = .ok (.obj "Side" [("name", .str "LEFT"), ("value", .str "RIGHT")]) := by decide +kernel

end JRV.Props
