/-
  C07 — companion theorems of the facts extracted from the source (tools/extractors/jsonclass.py, jsonclass2.py),
  built and audited separately from JRV.Properties.C07 (harness/README.md).
-/
import JRV.Model.JsonClass
import JRV.Model.JsonClassGate
import JRV.Generated

namespace JRV.Props
open JRV JRV.JsonClass

/-- The three recursive `load(...)` calls of `jsonclass.load` (list items, dict values, attribute values) all
    forward `classes`, as the model's `load` does. -/
theorem C07_gen_loadCalls : Generated.loadCalls = some loadCallSites := by decide

/-- `_slots_finder` reads the class's own `__slots__` only, mangles private names with that class's name and
    visits the bases — the definition of the model's `slotsFinder`. -/
theorem C07_gen_slotsFinder : Generated.slotsFinder = some slotsFinderShape := by decide

/-- `utils.ITERABLE_TYPES`, `utils.PRIMITIVE_TYPES` and `jsonclass.SUPPORTED_TYPES` hold exactly the type names of
    the model's tables.  The tables are only ever handed to `isinstance` (and added to one another), for which the
    order of the members has no meaning: the comparison is up to permutation (`List.isPerm` — same members, same
    multiplicities), so that reordering a tuple in the source is not an alarm while adding, dropping or replacing
    a member still is. -/
theorem C07_gen_typeTables :
    Generated.typeTables.map (fun t => t.1.isPerm iterableTypeNames && t.2.1.isPerm primitiveTypeNames
      && t.2.2.isPerm supportedTypeNames) = some true := by decide

/-- The remote-call path: both calls of the class translator in jsonrpc.py (`dump`, `load`) are reached whenever
    `config.use_jsonclass` holds — whatever the payload is (a dict, a batch list, …) — and `loads` goes through
    `load` (`C07_rpc_param`, `C07_rpc_result` instantiate `Payload.dump` / `Payload.load` with the translator). -/
theorem C07_gen_useJsonclassGates : Generated.useJsonclassGates = some JsonClass.useJsonclassGates ∧
    Generated.loadsCallsLoad = some true := by decide

/-- Every call site of `dump` / `dumps` / `load` / `loads` on the path of a call, a batch, a notification and a
    reply passes the configuration of its proxy / batch / server (and so its local class table). -/
theorem C07_gen_configCallSites :
    Generated.configCallSites.map (fun sites => configForwarded sites && requiredConfigSites.all sites.contains) = some true := by
  decide

end JRV.Props
