/-
  C08 — Class translation is inert when disabled and validates names before importing.

  Models: JRV.Model.Payload (`load`, `loads`, `dump`: the `use_jsonclass` gates, translator abstract),
  JRV.Model.JsonClass (`load` with its effect log: `imp`, `construct`, `setattr`),
  JRV.Model.JsonClassGate (`rpcLoad`: the gate composed with the translator, log kept; `serverParse`),
  JRV.Model.Server (`marshaledDispatch`).

  "Nothing is imported or constructed" is a statement about the effect log the model returns next to every
  result, on success and on failure.
-/
import JRV.Model.JsonClassGate
import JRV.Lemmas.JsonClass
import JRV.Lemmas.Server
import JRV.Lemmas.JsonString

set_option linter.unusedSimpArgs false
set_option linter.unusedVariables false
set_option linter.unusedSectionVars false

namespace JRV.Props
open JRV JRV.PyVal JRV.JsonClass

/- ---------- use_jsonclass = false ---------- -/

/-- **Inert when disabled.**  With `use_jsonclass` off, `jsonrpc.load` returns its argument — whatever it
    contains, "__jsonclass__" members at any depth included — without calling the translator: the statement holds
    for *every* translator `unconv`, e.g. one that always raises. -/
theorem C08_inert (cfg : Config) (h : cfg.useJsonclass = false) (unconv : PyVal → PyM PyVal) (v : PyVal) :
    Payload.load cfg unconv v = .ok v := by
  cases v <;> simp [Payload.load, h, pure, Except.pure]

/-- … and nothing is imported, constructed or set: the effect log is empty and the argument is untouched. -/
theorem C08_inert_effects (cfg : Config) (h : cfg.useJsonclass = false) (W : World) (v : PyVal) :
    (rpcLoad cfg W v).res = .ok v ∧ (rpcLoad cfg W v).log = [] ∧ (rpcLoad cfg W v).arg = v := by
  cases v <;> simp [rpcLoad, h]

/-- `rpcLoad` is the shared model's `load` instantiated with the class translator (plus the log). -/
theorem C08_rpcLoad_res (cfg : Config) (W : World) (v : PyVal) :
    (rpcLoad cfg W v).res = Payload.load cfg (fun d => (JsonClass.load W cfg.classes d).res) v := by
  cases v <;> cases hc : cfg.useJsonclass <;> simp [rpcLoad, Payload.load, hc, pure, Except.pure]

/-- Decoding equals plain JSON decoding: `loads` is the backend's parse (`""` ↦ `None`), for every translator. -/
theorem C08_inert_loads (B : Backend) (cfg : Config) (h : cfg.useJsonclass = false) (unconv : PyVal → PyM PyVal)
    (text : String) :
    Payload.loads B cfg unconv text =
      (if text == "" then .ok .none
       else match B.parse text with
         | some v => .ok v
         | Option.none => raise "ValueError" (.str "JSON decoding error")) := by
  unfold Payload.loads
  split
  · rfl
  · split <;> simp [C08_inert cfg h unconv, *]

/-- `jsonrpc.dump` passes the parameters through without calling the converter: its outcome does not depend on
    the converter (so it equals the outcome with the identity, and with one that always raises). -/
theorem C08_inert_dump (cfg : Config) (h : cfg.useJsonclass = false) (conv conv' : PyVal → PyM PyVal) (fresh : String)
    (params : Payload.Params) (methodname rpcid : PyVal) (version : Payload.VerArg) (isResponse isNotify : Bool) :
    Payload.dump cfg conv fresh params methodname rpcid version isResponse isNotify =
      Payload.dump cfg conv' fresh params methodname rpcid version isResponse isNotify := by
  unfold Payload.dump
  simp [h]

/-- With the flag on the converter *is* consulted (the gate is not vacuous): a raising converter makes a
    request dump raise. -/
example : Payload.dump { useJsonclass := true } (fun _ => raise "Boom") "id0" (.val (.list [.int 1])) (.str "m") .none .none
    false false = raise "Boom" := by
  simp [Payload.dump, Payload.resolveVersion, Payload.validParams, isStr, isList, bind, Except.bind, raise]
example : Payload.dump { useJsonclass := false } (fun _ => raise "Boom") "id0" (.val (.list [.int 1])) (.str "m") .none .none
    false false = Payload.request 20 .none "id0" (.str "m") (.list [.int 1]) := by
  simp [Payload.dump, Payload.resolveVersion, Payload.validParams, isStr, isList, bind, Except.bind, pure, Except.pure]

/- ---------- the character class ---------- -/

/-- **The accepted characters** are exactly the ASCII letters, digits, underscore and dot. -/
theorem C08_allowed_iff (c : Char) :
    allowedChar c = true ↔
      ((97 ≤ c.toNat ∧ c.toNat ≤ 122) ∨ (65 ≤ c.toNat ∧ c.toNat ≤ 90) ∨ (48 ≤ c.toNat ∧ c.toNat ≤ 57) ∨
       c.toNat = 95 ∨ c.toNat = 46) := by
  rw [allowedChar_ranges]
  simp only [moduleCharRanges, List.any_cons, List.any_nil, Bool.or_false, Bool.or_eq_true, Bool.and_eq_true,
    decide_eq_true_eq]
  omega

/-- A name passes the validation iff it is non-empty and made of accepted characters only (full comparison of the
    cleaned name with the original: not a prefix match). -/
def nameAccepted (s : String) : Bool := s != "" && validName s

theorem C08_validName_iff (s : String) : validName s = true ↔ ∀ c ∈ s.toList, allowedChar c = true := by
  simp [validName, List.all_eq_true]

theorem C08_nameAccepted_iff (s : String) :
    nameAccepted s = true ↔ s ≠ "" ∧ ∀ c ∈ s.toList, allowedChar c = true := by
  simp [nameAccepted, validName, List.all_eq_true]

/-- Look-alikes and prefixes: "é", full-width "ａ", a name with a valid prefix followed by a space, a NUL. -/
example : nameAccepted "é" = false ∧ nameAccepted "ａ" = false ∧ nameAccepted "os.path x" = false ∧
    nameAccepted "a\x00" = false ∧ nameAccepted "" = false ∧ nameAccepted "pkg.mod_1.Cls" = true := by decide

/- ---------- descriptors ---------- -/

/-- The class name of a descriptor value as `obj["__jsonclass__"][0]` / `[1]` evaluate: defined when the value is
    a list or tuple of at least two items whose first is a string (or a string of at least two characters, which
    Python indexes too; or a dict that has keys equal to `0` and `1` — only reachable through a direct call of
    `jsonclass.load`, never from JSON text). -/
def descriptorName? : PyVal → Option String
  | .list (.str s :: _ :: _) => some s
  | .tuple (.str s :: _ :: _) => some s
  | .str s => match s.toList with
    | a :: _ :: _ => some (String.singleton a)
    | _ => Option.none
  -- a dict with keys equal to 0 and 1 (impossible for a dict decoded from JSON, whose keys are strings)
  | .dict kvs => match lookupKey (.int 0) kvs, lookupKey (.int 1) kvs with
    | some (.str s), some _ => some s
    | _, _ => Option.none
  | _ => Option.none

private theorem instantiate_reject (W : World) (cl : List (String × String)) (d : PyVal) (s : String)
    (hd : descriptorName? d = some s) (hbad : nameAccepted s = false) :
    ∃ a, instantiate W cl d = (.error ⟨"TranslationError", a⟩, []) := by
  have key : ∀ p : PyVal, index01 d = .ok (.str s, p) → ∃ a, instantiate W cl d = (.error ⟨"TranslationError", a⟩, []) := by
    intro p hp
    unfold instantiate
    simp only [hp]
    by_cases he : s = ""
    · subst he
      exact ⟨.str "empty", by simp [truthy, raise]⟩
    · have hv : validName s = false := by simpa [nameAccepted, he] using hbad
      exact ⟨.str "invalid characters", by simp [truthy, he, hv, raise]⟩
  unfold descriptorName? at hd
  split at hd
  · rename_i s' b rest
    simp only [Option.some.injEq] at hd; subst hd
    exact key b (by simp [index01, pure, Except.pure])
  · rename_i s' b rest
    simp only [Option.some.injEq] at hd; subst hd
    exact key b (by simp [index01, pure, Except.pure])
  · rename_i s'
    split at hd
    · rename_i a b rest hl
      simp only [Option.some.injEq] at hd; subst hd
      exact key (.str (String.singleton b)) (by simp [index01, hl, pure, Except.pure])
    · simp at hd
  · rename_i kvs
    split at hd
    · rename_i s' b h0 h1
      simp only [Option.some.injEq] at hd; subst hd
      exact key b (by simp [index01, h0, h1, pure, Except.pure])
    · simp at hd
  · simp at hd

/-- **Rejected before any import.**  A dict whose "__jsonclass__" value is a well-shaped descriptor (a list of
    length ≥ 2 with a string at index 0) naming a class whose name is empty or contains any character other than
    ASCII letters, digits, underscore and dot raises `TranslationError`, and processing it logs *no effect at all*
    — no import, no construction, no setattr — for every world, class table, constructor arguments and other
    members of the dict; the dict is left as it was. -/
theorem C08_reject_before_import (W : World) (cl : List (String × String)) (kvs : List (PyVal × PyVal)) (d : PyVal)
    (s : String) (hk : lookupStr jcKey kvs = some d) (hd : descriptorName? d = some s) (hbad : nameAccepted s = false) :
    (∃ a, (JsonClass.load W cl (.dict kvs)).res = .error ⟨"TranslationError", a⟩) ∧
    (JsonClass.load W cl (.dict kvs)).log = [] ∧ (JsonClass.load W cl (.dict kvs)).arg = .dict kvs := by
  obtain ⟨a, ha⟩ := instantiate_reject W cl d s hd hbad
  simp [JsonClass.load, hk, ha]

/-- The list form spelled out (what a JSON payload can contain). -/
theorem C08_reject_before_import_list (W : World) (cl : List (String × String)) (kvs : List (PyVal × PyVal))
    (s : String) (p : PyVal) (rest : List PyVal) (hk : lookupStr jcKey kvs = some (.list (.str s :: p :: rest)))
    (hbad : s = "" ∨ ∃ c ∈ s.toList, allowedChar c = false) :
    (∃ a, (JsonClass.load W cl (.dict kvs)).res = .error ⟨"TranslationError", a⟩) ∧
    (JsonClass.load W cl (.dict kvs)).log = [] := by
  have hb : nameAccepted s = false := by
    rcases hbad with rfl | ⟨c, hc, hcb⟩
    · decide
    · have : validName s = false := by
        simp only [validName, List.all_eq_false]
        exact ⟨c, hc, by simp [hcb]⟩
      simp [nameAccepted, this]
  have := C08_reject_before_import W cl kvs _ s hk rfl hb
  exact ⟨this.1, this.2.1⟩

/-- The error classes of a malformed descriptor, as CPython raises them. -/
def malformedClasses : List String := ["IndexError", "TypeError", "KeyError", "TranslationError"]

private theorem index01_err (d : PyVal) (e : PyErr) (h : index01 d = .error e) : e.cls ∈ malformedClasses := by
  unfold index01 at h
  repeat' split at h
  all_goals (simp only [raise, pure, Except.pure, Except.error.injEq, reduceCtorEq] at h)
  all_goals (subst h; simp [malformedClasses])

private theorem index01_str (d : PyVal) (s : String) (p : PyVal) (h : index01 d = .ok (.str s, p)) :
    descriptorName? d = some s := by
  unfold index01 at h
  repeat' split at h
  all_goals (simp only [raise, pure, Except.pure, Except.ok.injEq, Prod.mk.injEq, reduceCtorEq, PyVal.str.injEq] at h)
  · obtain ⟨rfl, rfl⟩ := h; simp [descriptorName?]
  · obtain ⟨rfl, rfl⟩ := h; simp [descriptorName?]
  · rename_i hl
    obtain ⟨rfl, rfl⟩ := h
    simp [descriptorName?, hl]
  · rename_i h0 _ _ h1
    obtain ⟨rfl, rfl⟩ := h
    simp [descriptorName?, h0, h1]

private theorem instantiate_malformed (W : World) (cl : List (String × String)) (d : PyVal)
    (hd : descriptorName? d = Option.none) :
    ∃ e, instantiate W cl d = (.error e, []) ∧ e.cls ∈ malformedClasses := by
  cases hi : index01 d with
  | error e => exact ⟨e, by unfold instantiate; simp [hi], index01_err d e hi⟩
  | ok np =>
    obtain ⟨n, p⟩ := np
    unfold instantiate
    simp only [hi]
    cases ht : n.truthy with
    | false => exact ⟨⟨"TranslationError", .str "empty"⟩, by simp [raise], by simp [malformedClasses]⟩
    | true =>
      cases n with
      | str s =>
        have := index01_str d s p hi
        rw [hd] at this
        exact absurd this (by simp)
      | _ => all_goals exact ⟨⟨"TypeError", .str "re.sub on a non-string"⟩, by simp [raise], by simp [malformedClasses]⟩

/-- **Malformed descriptors** — a "__jsonclass__" value of any other shape: not a list (null, bool, number,
    one-character or empty string, an object — whose keys, coming from JSON, are strings: `d[0]` raises KeyError),
    a list of length 0 or 1, a list whose first item is not a string
    (`None`, `0`, `[]`, `{}` are "empty": TranslationError; a number, `true`, a non-empty list or object: TypeError
    from the regular expression) — raise, and no effect is logged: nothing is imported or constructed. -/
theorem C08_malformed (W : World) (cl : List (String × String)) (kvs : List (PyVal × PyVal)) (d : PyVal)
    (hk : lookupStr jcKey kvs = some d) (hd : descriptorName? d = Option.none) :
    (∃ e, (JsonClass.load W cl (.dict kvs)).res = .error e ∧ e.cls ∈ malformedClasses) ∧
    (JsonClass.load W cl (.dict kvs)).log = [] ∧ (JsonClass.load W cl (.dict kvs)).arg = .dict kvs := by
  obtain ⟨e, he, hc⟩ := instantiate_malformed W cl d hd
  simp [JsonClass.load, hk, he, hc]

/-- A dict-valued descriptor: from JSON its keys are strings and `d[0]` raises KeyError (malformed, nothing is done);
    given directly with the keys 0 and 1 it is read like a list — and its class name is validated all the same. -/
example : descriptorName? (.dict [(.str "0", .str "os.x"), (.str "1", .list [])]) = Option.none ∧
    descriptorName? (.dict [(.int 0, .str "a b"), (.int 1, .list [])]) = some "a b" ∧
    descriptorName? (.dict [(.bool false, .str "pkg.Point"), (.float ⟨false, 1, 0⟩, .list [])]) = some "pkg.Point" := by
  decide +kernel

/-- The two theorems cover every descriptor that is not well-formed with an accepted name. -/
example : descriptorName? (.list [.str "a b", .list []]) = some "a b" ∧ descriptorName? (.list [.str "x"]) = Option.none ∧
    descriptorName? (.list [.int 5, .list []]) = Option.none ∧ descriptorName? (.dict []) = Option.none := by decide

/- ---------- at any depth ---------- -/

section depth
variable (W : World) (cl : List (String × String))

private theorem map_error {α β} {m : PyM α} {f : α → β} {e : PyErr} (h : m = .error e) : Except.map f m = .error e := by
  subst h; rfl

private theorem map_ok_inv {α β} {m : PyM α} {f : α → β} {y : β} (h : Except.map f m = .ok y) : ∃ a, m = .ok a := by
  cases m with
  | error e => simp [Except.map] at h
  | ok a => exact ⟨a, rfl⟩

private theorem loadList_fail : ∀ (pre : List PyVal) (ys : List PyVal) (x : PyVal) (post : List PyVal) (e : PyErr),
    (loadList W cl pre).res = .ok ys → (JsonClass.load W cl x).res = .error e →
    (loadList W cl (pre ++ x :: post)).res = .error e ∧
    (loadList W cl (pre ++ x :: post)).log = (loadList W cl pre).log ++ (JsonClass.load W cl x).log
  | [], _, x, post, e, _, hx => by simp [loadList, hx]
  | p :: ps, ys, x, post, e, hp, hx => by
    simp only [loadList] at hp
    split at hp
    · simp at hp
    · rename_i y hy
      obtain ⟨ys', hys'⟩ := map_ok_inv hp
      have ih := loadList_fail ps ys' x post e hys' hx
      simp only [List.cons_append, loadList, hy]
      exact ⟨map_error ih.1, by rw [ih.2, List.append_assoc]⟩

private theorem loadKVs_fail : ∀ (pre : List (PyVal × PyVal)) (ys : List (PyVal × PyVal)) (k x : PyVal)
    (post : List (PyVal × PyVal)) (e : PyErr),
    (loadKVs W cl pre).res = .ok ys → (JsonClass.load W cl x).res = .error e →
    (loadKVs W cl (pre ++ (k, x) :: post)).res = .error e ∧
    (loadKVs W cl (pre ++ (k, x) :: post)).log = (loadKVs W cl pre).log ++ (JsonClass.load W cl x).log
  | [], _, k, x, post, e, _, hx => by simp [loadKVs, hx]
  | (k', p) :: ps, ys, k, x, post, e, hp, hx => by
    simp only [loadKVs] at hp
    split at hp
    · simp at hp
    · rename_i y hy
      obtain ⟨ys', hys'⟩ := map_ok_inv hp
      have ih := loadKVs_fail ps ys' k x post e hys' hx
      simp only [List.cons_append, loadKVs, hy]
      exact ⟨map_error ih.1, by rw [ih.2, List.append_assoc]⟩

private theorem loadAttrs_fail : ∀ (pre : List (PyVal × PyVal)) (o o' : PyVal) (k x : PyVal)
    (post : List (PyVal × PyVal)) (e : PyErr), isJcKey k = false →
    (loadAttrs W cl o pre).res = .ok o' → (JsonClass.load W cl x).res = .error e →
    (loadAttrs W cl o (pre ++ (k, x) :: post)).res = .error e ∧
    (loadAttrs W cl o (pre ++ (k, x) :: post)).log = (loadAttrs W cl o pre).log ++ (JsonClass.load W cl x).log
  | [], o, o', k, x, post, e, hk, _, hx => by simp [loadAttrs, hk, hx]
  | (k', p) :: ps, o, o', k, x, post, e, hk, hp, hx => by
    simp only [loadAttrs] at hp
    split at hp
    · rename_i hjc
      have ih := loadAttrs_fail ps o o' k x post e hk hp hx
      simp only [List.cons_append, loadAttrs, hjc, ↓reduceIte]
      exact ih
    · rename_i hjc
      split at hp
      · simp at hp
      · rename_i y hy
        split at hp
        · simp at hp
        · rename_i o1 ho1
          have ih := loadAttrs_fail ps o1 o' k x post e hk hp hx
          simp only [List.cons_append, loadAttrs, hjc, Bool.false_eq_true, ↓reduceIte, hy, ho1]
          exact ⟨ih.1, by rw [ih.2]; simp [List.append_assoc]⟩

/-- `Nested bad v lg`: the value `bad` occurs inside `v` at a position `load` reaches after having processed,
    successfully, the earlier siblings at every level (items before it in a list / tuple / set / frozenset,
    entries before it in a plain dict, the instantiation of an enclosing descriptor and the attributes set before
    it); `lg` is exactly what processing those logged. -/
inductive Nested : PyVal → PyVal → List Effect → Prop
  | here (bad : PyVal) : Nested bad bad []
  | inList {bad x : PyVal} {lg : List Effect} (pre post ys : List PyVal) :
      (loadList W cl pre).res = .ok ys → Nested bad x lg →
      Nested bad (.list (pre ++ x :: post)) ((loadList W cl pre).log ++ lg)
  | inTuple {bad x : PyVal} {lg : List Effect} (pre post ys : List PyVal) :
      (loadList W cl pre).res = .ok ys → Nested bad x lg →
      Nested bad (.tuple (pre ++ x :: post)) ((loadList W cl pre).log ++ lg)
  | inDict {bad x : PyVal} {lg : List Effect} (pre post ys : List (PyVal × PyVal)) (k : PyVal) :
      lookupStr jcKey (pre ++ (k, x) :: post) = Option.none → (loadKVs W cl pre).res = .ok ys → Nested bad x lg →
      Nested bad (.dict (pre ++ (k, x) :: post)) ((loadKVs W cl pre).log ++ lg)
  | inAttr {bad x : PyVal} {lg lgi : List Effect} (pre post : List (PyVal × PyVal)) (k d o o' : PyVal) :
      lookupStr jcKey (pre ++ (k, x) :: post) = some d → instantiate W cl d = (.ok o, lgi) → isJcKey k = false →
      (loadAttrs W cl o pre).res = .ok o' → Nested bad x lg →
      Nested bad (.dict (pre ++ (k, x) :: post)) (lgi ++ (loadAttrs W cl o pre).log ++ lg)

/-- A failure propagates from any depth, and nothing is done after it: the whole `load` raises the same
    exception and its effect log is what the earlier siblings logged followed by what the failing value logged. -/
theorem C08_failure_at_depth (bad v : PyVal) (lg : List Effect) (e : PyErr) (hn : Nested W cl bad v lg)
    (hb : (JsonClass.load W cl bad).res = .error e) :
    (JsonClass.load W cl v).res = .error e ∧ (JsonClass.load W cl v).log = lg ++ (JsonClass.load W cl bad).log := by
  induction hn with
  | here => exact ⟨hb, by simp⟩
  | inList pre post ys hp _ ih =>
    obtain ⟨h1, h2⟩ := loadList_fail W cl pre ys _ post e hp ih.1
    exact ⟨by simp [JsonClass.load, h1, Except.map], by simp [JsonClass.load, h2, ih.2]⟩
  | inTuple pre post ys hp _ ih =>
    obtain ⟨h1, h2⟩ := loadList_fail W cl pre ys _ post e hp ih.1
    exact ⟨by simp [JsonClass.load, h1, Except.map], by simp [JsonClass.load, h2, ih.2]⟩
  | inDict pre post ys k hl hp _ ih =>
    obtain ⟨h1, h2⟩ := loadKVs_fail W cl pre ys k _ post e hp ih.1
    exact ⟨by simp [JsonClass.load, hl, h1, Except.map], by simp [JsonClass.load, hl, h2, ih.2]⟩
  | inAttr pre post k d o o' hl hi hk hp _ ih =>
    obtain ⟨h1, h2⟩ := loadAttrs_fail W cl pre o o' k _ post e hk hp ih.1
    exact ⟨by simp [JsonClass.load, hl, hi, h1], by simp [JsonClass.load, hl, hi, h2, ih.2]⟩

/-- **Rejected before any import, at any depth.**  When a descriptor with an empty or invalid class name sits
    anywhere inside a payload — in a list, a dict, or among the attributes of another (valid) descriptor — the
    whole `load` raises `TranslationError` and the effects logged are *exactly* those of the siblings processed
    before it: the rejected descriptor causes no import, no construction, and nothing after it is processed. -/
theorem C08_reject_at_depth (kvs : List (PyVal × PyVal)) (d : PyVal) (s : String) (v : PyVal) (lg : List Effect)
    (hk : lookupStr jcKey kvs = some d) (hd : descriptorName? d = some s) (hbad : nameAccepted s = false)
    (hn : Nested W cl (.dict kvs) v lg) :
    (∃ a, (JsonClass.load W cl v).res = .error ⟨"TranslationError", a⟩) ∧ (JsonClass.load W cl v).log = lg := by
  obtain ⟨⟨a, ha⟩, hl, _⟩ := C08_reject_before_import W cl kvs d s hk hd hbad
  obtain ⟨h1, h2⟩ := C08_failure_at_depth W cl _ v lg _ hn ha
  exact ⟨⟨a, h1⟩, by rw [h2, hl]; simp⟩

/-- The same for malformed descriptors. -/
theorem C08_malformed_at_depth (kvs : List (PyVal × PyVal)) (d : PyVal) (v : PyVal) (lg : List Effect)
    (hk : lookupStr jcKey kvs = some d) (hd : descriptorName? d = Option.none) (hn : Nested W cl (.dict kvs) v lg) :
    (∃ e, (JsonClass.load W cl v).res = .error e ∧ e.cls ∈ malformedClasses) ∧ (JsonClass.load W cl v).log = lg := by
  obtain ⟨⟨e, he, hc⟩, hl, _⟩ := C08_malformed W cl kvs d hk hd
  obtain ⟨h1, h2⟩ := C08_failure_at_depth W cl _ v lg _ hn he
  exact ⟨⟨e, h1, hc⟩, by rw [h2, hl]; simp⟩

end depth

/- ---------- every import is of a validated name ---------- -/

/-- What an effect must satisfy: an import is of a module whose name consists of accepted characters only; a
    construction is of a class resolved from an accepted name. -/
def GoodEffect (W : World) (cl : List (String × String)) : Effect → Prop
  | .imp m => validName m = true
  | .construct c _ => ∃ s, nameAccepted s = true ∧ (resolveClass W cl s).1 = .ok c
  | .setattr _ _ => True

private theorem splitLastDot_mem : ∀ (cs a b : List Char), splitLastDot cs = some (a, b) → ∀ c ∈ a, c ∈ cs
  | [], a, b, h => by simp [splitLastDot] at h
  | c :: cs, a, b, h => by
    simp only [splitLastDot] at h
    split at h
    · rename_i a' b' hs
      simp only [Option.some.injEq, Prod.mk.injEq] at h
      obtain ⟨rfl, rfl⟩ := h
      intro x hx
      simp only [List.mem_cons] at hx ⊢
      rcases hx with rfl | hx
      · exact Or.inl rfl
      · exact Or.inr (splitLastDot_mem cs a' b' hs x hx)
    · split at h
      · simp only [Option.some.injEq, Prod.mk.injEq] at h
        obtain ⟨rfl, rfl⟩ := h
        intro x hx; simp at hx
      · simp at h

private theorem resolveClass_log (W : World) (cl : List (String × String)) (s : String) (hv : validName s = true) :
    ∀ eff ∈ (resolveClass W cl s).2, GoodEffect W cl eff := by
  have hmod : ∀ mcs ncs, splitLastDot s.toList = some (mcs, ncs) → validName (String.ofList mcs) = true := by
    intro mcs ncs h
    simp only [validName, List.all_eq_true] at hv ⊢
    intro c hc
    have : c ∈ mcs := by simpa using hc
    exact hv c (splitLastDot_mem _ _ _ h c this)
  unfold resolveClass
  split
  · split
    · split <;> simp
    · intro eff he
      simp only [List.mem_singleton] at he
      subst he
      show validName "" = true
      decide
  · rename_i mcs ncs hs
    have := hmod mcs ncs hs
    simp only
    split
    · intro eff he
      simp only [List.mem_singleton] at he
      subst he
      show validName "" = true
      decide
    · split
      · split <;> (intro eff he; simp only [List.mem_singleton] at he; subst he; exact this)
      · intro eff he; simp only [List.mem_singleton] at he; subst he; exact this

private theorem instantiate_log (W : World) (cl : List (String × String)) (d : PyVal) :
    ∀ eff ∈ (instantiate W cl d).2, GoodEffect W cl eff := by
  unfold instantiate
  split
  · simp
  · rename_i name params hi
    split
    · simp
    · rename_i ht
      split
      · rename_i s
        split
        · simp
        · rename_i hv
          have hv' : validName s = true := by simpa using hv
          have hacc : nameAccepted s = true := by
            simp only [truthy, bne_iff_ne, ne_eq, Bool.not_eq_true', bne_eq_false_iff_eq] at ht
            simp [nameAccepted, ht, hv']
          have hlog := resolveClass_log W cl s hv'
          split
          · rename_i e lg hr
            rw [hr] at hlog
            exact hlog
          · rename_i c lg hr
            rw [hr] at hlog
            have hcons : ∀ eff ∈ lg ++ [Effect.construct c params], GoodEffect W cl eff := by
              intro eff he
              simp only [List.mem_append, List.mem_singleton] at he
              rcases he with he | rfl
              · exact hlog eff he
              · exact ⟨s, hacc, by rw [hr]⟩
            split
            · exact hlog
            · split
              · exact hcons
              · exact hcons
              · exact hlog
      · simp

section safety
variable (W : World) (cl : List (String × String))

mutual
  private theorem goodV : ∀ (v : PyVal), ∀ eff ∈ (JsonClass.load W cl v).log, GoodEffect W cl eff
    | .none => by simp [JsonClass.load]
    | .bool _ => by simp [JsonClass.load]
    | .int _ => by simp [JsonClass.load]
    | .float _ => by simp [JsonClass.load]
    | .str _ => by simp [JsonClass.load]
    | .obj _ _ => by simp [JsonClass.load]
    | .list xs => by simpa [JsonClass.load] using goodL xs
    | .tuple xs => by simpa [JsonClass.load] using goodL xs
    | .set xs => by simpa [JsonClass.load] using goodL xs
    | .frozenset xs => by simpa [JsonClass.load] using goodL xs
    | .dict kvs => by
      simp only [JsonClass.load]
      cases hl : lookupStr jcKey kvs with
      | none => simpa using goodK kvs
      | some d =>
        simp only []
        have hi := instantiate_log W cl d
        rcases hr : instantiate W cl d with ⟨r, lg⟩
        rw [hr] at hi
        cases r with
        | error e => simpa using hi
        | ok o =>
          intro eff he
          simp only [List.mem_append] at he
          rcases he with he | he
          · exact hi eff he
          · exact goodA o kvs eff he
  private theorem goodL : ∀ (xs : List PyVal), ∀ eff ∈ (loadList W cl xs).log, GoodEffect W cl eff
    | [] => by simp [loadList]
    | x :: xs => by
      simp only [loadList]
      split
      · simpa using goodV x
      · intro eff he
        simp only [List.mem_append] at he
        rcases he with he | he
        · exact goodV x eff he
        · exact goodL xs eff he
  private theorem goodK : ∀ (xs : List (PyVal × PyVal)), ∀ eff ∈ (loadKVs W cl xs).log, GoodEffect W cl eff
    | [] => by simp [loadKVs]
    | (k, x) :: xs => by
      simp only [loadKVs]
      split
      · simpa using goodV x
      · intro eff he
        simp only [List.mem_append] at he
        rcases he with he | he
        · exact goodV x eff he
        · exact goodK xs eff he
  private theorem goodA : ∀ (o : PyVal) (xs : List (PyVal × PyVal)), ∀ eff ∈ (loadAttrs W cl o xs).log, GoodEffect W cl eff
    | o, [] => by simp [loadAttrs]
    | o, (k, x) :: xs => by
      simp only [loadAttrs]
      split
      · exact goodA o xs
      · split
        · simpa using goodV x
        · split
          · simpa using goodV x
          · rename_i o' _
            intro eff he
            simp only [List.mem_append, List.mem_singleton] at he
            rcases he with (he | rfl) | he
            · exact goodV x eff he
            · trivial
            · exact goodA o' xs eff he
end

/-- **Validation precedes every import and every construction, for every payload.**  Whatever is decoded — any
    nesting of lists, dicts and descriptors, valid or not, succeeding or failing — every module import attempted
    is of a name consisting of ASCII letters, digits, underscore and dot only, and every class instantiated was
    resolved from a non-empty name of that form. -/
theorem C08_imports_validated (v : PyVal) :
    (∀ m, Effect.imp m ∈ (JsonClass.load W cl v).log → validName m = true) ∧
    (∀ c a, Effect.construct c a ∈ (JsonClass.load W cl v).log →
      ∃ s, nameAccepted s = true ∧ (resolveClass W cl s).1 = .ok c) :=
  ⟨fun m h => goodV W cl v _ h, fun c a h => goodV W cl v _ h⟩

end safety

/- ---------- the server ---------- -/

/-- What `_marshaled_dispatch` answers when `loads` raised (the statement of `C05_parse`). -/
private theorem parse_reply (s : Server.Server) :
    Server.marshaledDispatch s .parseError =
      (.ok (.doc (Payload.error s.cfg.version .none (.int (-32700)) (.str Server.msgParse) .none)), []) := by
  rw [Server.marshaled_parseError]; rfl

/-- **Rejected payloads are answered −32700.**  Whenever decoding the request raises — the JSON text is
    malformed, or the class translator rejects the payload for any reason (invalid or empty class name, malformed
    descriptor, unknown module or class, constructor failure, `setattr` failure, at any depth) — the server's reply
    is the single error object with code −32700 and id null, and no registered method is invoked (empty call log). -/
theorem C08_server_32700 (s : Server.Server) (W : World) (v : PyVal) (e : PyErr)
    (h : (rpcLoad s.cfg W v).res = .error e) :
    Server.marshaledDispatch s (serverParse s.cfg W (some v)).1 =
      (.ok (.doc (Payload.error s.cfg.version .none (.int (-32700)) (.str Server.msgParse) .none)), []) := by
  have : (serverParse s.cfg W (some v)).1 = .parseError := by simp [serverParse, h]
  rw [this]
  exact parse_reply s

theorem C08_server_32700_malformed_json (s : Server.Server) (W : World) :
    Server.marshaledDispatch s (serverParse s.cfg W Option.none).1 =
      (.ok (.doc (Payload.error s.cfg.version .none (.int (-32700)) (.str Server.msgParse) .none)), []) := parse_reply s

/-- In particular for the descriptors of `C08_reject_at_depth` / `C08_malformed_at_depth`, with the flag on. -/
theorem C08_server_rejects_bad_descriptor (s : Server.Server) (W : World) (kvs : List (PyVal × PyVal)) (d : PyVal)
    (v : PyVal) (lg : List Effect) (hon : s.cfg.useJsonclass = true) (hv : v ≠ .none)
    (hk : lookupStr jcKey kvs = some d)
    (hd : descriptorName? d = Option.none ∨ ∃ n, descriptorName? d = some n ∧ nameAccepted n = false)
    (hn : Nested W s.cfg.classes (.dict kvs) v lg) :
    Server.marshaledDispatch s (serverParse s.cfg W (some v)).1 =
      (.ok (.doc (Payload.error s.cfg.version .none (.int (-32700)) (.str Server.msgParse) .none)), []) := by
  have hr : (rpcLoad s.cfg W v).res = (JsonClass.load W s.cfg.classes v).res := by
    cases v <;> simp_all [rpcLoad]
  rcases hd with hd | ⟨n, hd, hb⟩
  · obtain ⟨⟨e, he, _⟩, _⟩ := C08_malformed_at_depth W s.cfg.classes kvs d v lg hk hd hn
    exact C08_server_32700 s W v e (by rw [hr, he])
  · obtain ⟨⟨a, ha⟩, _⟩ := C08_reject_at_depth W s.cfg.classes kvs d n v lg hk hd hb hn
    exact C08_server_32700 s W v _ (by rw [hr, ha])

/- ---------- non-vacuity ---------- -/

/-- A class whose constructor raises something else than TypeError (think `fractions.Fraction(1, 0)`): the
    exception leaves `load` as it is — not a TranslationError — and the server still answers −32700
    (`C08_server_32700` is stated for every exception). -/
private def exWR : World := { env := [("F", { module := "fr", name := "Fraction", kind := .raising "ZeroDivisionError" })] }
example : (JsonClass.load exWR [] (.list [.dict [(.str "__jsonclass__", .list [.str "fr.Fraction", .list [.int 1, .int 0]])]])).res =
    .error ⟨"ZeroDivisionError", .none⟩ := by decide +kernel
example (s : Server.Server) (h : s.cfg.useJsonclass = true) (hc : s.cfg.classes = []) :
    Server.marshaledDispatch s (serverParse s.cfg exWR
      (some (.list [.dict [(.str "__jsonclass__", .list [.str "fr.Fraction", .list [.int 1, .int 0]])]]))).1 =
    (.ok (.doc (Payload.error s.cfg.version .none (.int (-32700)) (.str Server.msgParse) .none)), []) :=
  C08_server_32700 s exWR _ ⟨"ZeroDivisionError", .none⟩ (by simp [rpcLoad, h, hc]; decide +kernel)

private def exW : World := { env := [("P", { module := "pkg", name := "Point", kind := .bean [("x", .int 0)] })], mods := ["os"] }

/-- A valid descriptor first (imported and constructed), then — inside its sibling — one whose name has a valid
    prefix followed by a space: TranslationError, and the log is exactly the effects of the first. -/
private def exPayload : PyVal :=
  .list [.dict [(.str "__jsonclass__", .list [.str "pkg.Point", .list []]), (.str "x", .int 5)],
         .dict [(.str "k", .dict [(.str "__jsonclass__", .list [.str "os.system x", .list [.str "id"]])])]]

example : (JsonClass.load exW [] exPayload).res = .error ⟨"TranslationError", .str "invalid characters"⟩ := by decide +kernel
example : (JsonClass.load exW [] exPayload).log = [.imp "pkg", .construct "P" (.list []), .setattr "P" "x"] := by decide +kernel
example : Nested exW [] (.dict [(.str "__jsonclass__", .list [.str "os.system x", .list [.str "id"]])]) exPayload
    [.imp "pkg", .construct "P" (.list []), .setattr "P" "x"] := by
  have h1 : Nested exW [] (.dict [(.str "__jsonclass__", .list [.str "os.system x", .list [.str "id"]])])
      (.dict ([] ++ (.str "k", .dict [(.str "__jsonclass__", .list [.str "os.system x", .list [.str "id"]])]) :: [])) ([] ++ []) :=
    Nested.inDict (W := exW) (cl := []) [] [] [] (.str "k") (by decide) (by decide) (Nested.here _)
  exact Nested.inList (W := exW) (cl := [])
    [.dict [(.str "__jsonclass__", .list [.str "pkg.Point", .list []]), (.str "x", .int 5)]] []
    [.obj "P" [("x", .int 5)]] (by decide +kernel) h1

/- ---------- the text a payload travels as ---------- -/

section text
open JRV.JsonString

/-- **What is done with a text depends on the value it denotes only.**  Two non-empty texts the JSON backend decodes
    to the same value — the same payload with member names and strings spelt with other escapes, other white space,
    repeated member names of which the same one is kept — get the same outcome from `jsonrpc.loads`: same result,
    same exception.  For every backend, every configuration, every translator. -/
theorem C08_loads_spelling_independent (B : Backend) (cfg : Config) (unconv : PyVal → PyM PyVal) (t1 t2 : String)
    (h1 : t1 ≠ "") (h2 : t2 ≠ "") (h : B.parse t1 = B.parse t2) :
    Payload.loads B cfg unconv t1 = Payload.loads B cfg unconv t2 := by
  unfold Payload.loads
  simp [h1, h2, h]

/-- … in particular: whatever the translator rejects is rejected however the text spells it — no spelling of a
    payload gets past the translator when `use_jsonclass` is on. -/
theorem C08_loads_rejects_whatever_the_spelling (B : Backend) (cfg : Config) (unconv : PyVal → PyM PyVal) (text : String)
    (v : PyVal) (e : PyErr) (hon : cfg.useJsonclass = true) (ht : text ≠ "") (hp : B.parse text = some v) (hv : v ≠ .none)
    (hr : unconv v = .error e) : Payload.loads B cfg unconv text = .error e := by
  unfold Payload.loads
  simp only [beq_iff_eq, ht, if_false, hp]
  cases v <;> simp_all [Payload.load]

/-- **Every spelling of a string denotes that string** (RFC 8259 section 7): each character written raw (when it may
    be), with its short escape (when it has one) or as `\uXXXX` — a surrogate pair for a character beyond U+FFFF — with
    any letter case of the hexadecimal digits. -/
theorem C08_text_spelling_denotes (cs : List (Char × How)) (h : allAllowed cs = true) :
    decode (spell cs) = some (cs.map (·.1)) := decode_spell cs h

/-- … so every spelling of the member name is the member name: a decoder that honours the RFC hands the translator a
    `"__jsonclass__"` member whichever of its `3^13` (and more, counting letter cases) spellings the peer chose. -/
theorem C08_text_jsonclass_key_spellings (hows : List How) (hl : hows.length = jcKey.toList.length)
    (ha : allAllowed (jcKey.toList.zip hows) = true) :
    decode (spell (jcKey.toList.zip hows)) = some jcKey.toList := by
  rw [decode_spell _ ha]
  congr 1
  exact List.map_fst_zip (by omega)

/-- A test on the RAW text is not a test on the payload: this body spells the member name with two escaped underscores;
    it denotes `__jsonclass__` and does not contain it. -/
theorem C08_text_escaped_key_not_in_text :
    decode "__jsonclass\\u005f\\u005f".toList = some jcKey.toList ∧
    isInfix jcKey.toList "__jsonclass\\u005f\\u005f".toList = false := by
  decide +kernel

/-- Non-vacuity of the spelling theorem: `a/é😀` + newline, written `a`, `\/`, `\u00E9`, a surrogate pair with mixed letter
    cases and `\n`. -/
example : spell [('a', .raw), ('/', .short), ('é', .u (false, false, true, false) (false, false, false, false)),
                 ('😀', .u (true, false, false, true) (false, true, false, false)), ('\n', .short)]
    = "a\\/\\u00E9\\uD83D\\udE00\\n".toList := by decide +kernel
example : allAllowed [('a', .raw), ('/', .short), ('é', .u (false, false, true, false) (false, false, false, false)),
                      ('😀', .u (true, false, false, true) (false, true, false, false)), ('\n', .short)] = true := by decide +kernel
example : decode "a\\/\\u00E9\\uD83D\\udE00\\n".toList = some "a/é😀\n".toList := by decide +kernel
/-- What the decoder refuses: a raw control character, a raw quotation mark, an unknown escape, a short `\u` escape; and an
    unpaired surrogate escape is declined (outside `Char`). -/
example : decode ['a', '\n'] = Option.none ∧ decode ['"'] = Option.none ∧ decode "\\x41".toList = Option.none ∧ decode "\\u00e".toList = Option.none ∧
    decode "\\ud83d".toList = Option.none ∧ decode "\\ude00\\ud83d".toList = Option.none := by decide +kernel

end text

end JRV.Props
