/-
  C08 — companion theorems of the facts extracted from the source (tools/extractors/jsonclass.py, jsonclass2.py,
  server.py), built and audited separately from JRV.Properties.C08 (harness/README.md).
-/
import JRV.Model.JsonClassGate
import JRV.Lemmas.JsonClass
import JRV.Generated

namespace JRV.Props
open JRV JRV.JsonClass

/-- `INVALID_MODULE_CHARS` is the negated class of exactly the ranges `allowedChar` tests. -/
theorem C08_gen_moduleCharClass : Generated.moduleCharClass = some (true, moduleCharRanges) := by decide

/-- `allowedChar` is membership in the complement of the class extracted from `INVALID_MODULE_CHARS`
    (`[^…]`: negated, with these ranges) — any edit of the regular expression changes `Generated.moduleCharClass`
    and this theorem no longer checks. -/
theorem C08_gen_allowed (c : Char) :
    some (allowedChar c) = Generated.moduleCharClass.map
      (fun cc => cc.1 && cc.2.any (fun r => decide (r.1 ≤ c.toNat) && decide (c.toNat ≤ r.2))) := by
  have : Generated.moduleCharClass = some (true, moduleCharRanges) := by decide
  rw [this, allowedChar_ranges]
  simp

/-- The empty-name and invalid-character tests precede the statement that resolves the class (the `classes[…]`
    lookup of the local table as well as the call of `__import__`). -/
theorem C08_gen_validationPrecedesImport : Generated.validationPrecedesImport = some JsonClass.validationPrecedesImport := by
  decide

/-- Both calls of the class translator in jsonrpc.py (`dump`, `load`) are inside `if config.use_jsonclass:`. -/
theorem C08_gen_useJsonclassGates : Generated.useJsonclassGates = some JsonClass.useJsonclassGates := by decide

/-- `jsonrpc.loads` goes through `load` (and so through its gate). -/
theorem C08_gen_loadsCallsLoad : Generated.loadsCallsLoad = some true := by decide

/-- Every `return` of `jsonrpc.loads`: `None` for the empty text, `load(jloads(data), config)` for every other text — the raw
    text is read by the emptiness test and by the JSON backend only (`Payload.loads`; C08_loads_spelling_independent is about
    exactly this function). -/
theorem C08_gen_loadsReturns : Generated.loadsReturns = some JsonClass.loadsReturns := by decide

/-- `_marshaled_dispatch` calls `loads` inside `try/except Exception` and builds `Fault(-32700, …)` there. -/
theorem C08_gen_loadsGuarded : Generated.loadsGuarded = some true ∧
    (Generated.faultSites.map fun l => l.contains ("_marshaled_dispatch", Server.codeParse)) = some true := by decide

/-- Every call of `dump` / `dumps` / `load` / `loads` / `Fault(…)` in jsonrpc.py and SimpleJSONRPCServer.py passes
    the configuration of its proxy / batch / fault / server — none falls back to the default configuration, whose
    `use_jsonclass` is on — and the call sites on the path of a call, a notification, a batch and a reply exist. -/
theorem C08_gen_configCallSites :
    Generated.configCallSites.map (fun sites => configForwarded sites && requiredConfigSites.all sites.contains) = some true := by
  decide

/-- Every constructor that takes a configuration keeps it (itself, or through the base-class constructor it forwards
    it to) in the attribute its methods read: `SimpleJSONRPCDispatcher`, `SimpleJSONRPCServer`, `PooledJSONRPCServer`
    and `CGIJSONRPCRequestHandler` in `json_config`; the proxy, the batch helpers and the transports in `_config`;
    `Fault` in `config`. -/
theorem C08_gen_configSinks : Generated.configSinks = some JsonClass.configSinks := by decide

/-- Every other hand-over of a configuration (transports built by the proxy, batch helpers, `validate_request`,
    `_dispatch` — also when handed to the notification pool —, `_method_exception_fault`) passes the configuration at
    hand, and the hand-overs on the path of a call, a batch and a served request exist. -/
theorem C08_gen_configPassing :
    Generated.configPassing.map (fun sites => configPassed sites && requiredPassing.all sites.contains) = some true := by
  decide

end JRV.Props
