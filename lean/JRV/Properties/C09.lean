/-
  C09 — The pool runs every accepted task exactly once and reports it faithfully.
  Model: JRV.Model.Pool.  Theorems over every reachable state (all interleavings, programs, timings).

    safety     C09_at_most_once, C09_exec_count_phase, C09_single_holder, C09_queue_nodup
    future     C09_future_faithful, C09_result_faithful, C09_done_faithful, C09_done_stable, C09_done_then_result
    stop       C09_none_after_stop            (configuration flag singleCtl: one controlling thread)
    order      C09_fifo_single, C09_single_worker   (max_threads = 1)
    liveness   C09_queued_has_server, C09_eventually_once, C09_eventually_begins   (singleCtl, max_threads ≥ 1,
               and the explicit environment assumption `startMayFail = false`: `Thread.start()` never raises);
               `C09_full_statement` is the reading over fair infinite runs, not proved.
  Invariants: JRV/Lemmas/Pool*.lean and JRV/Lemmas/PoolC09*.lean.  Companion theorems of the extracted facts:
  JRV/Properties/C09Gen.lean (this file does not import JRV.Generated).
-/
import JRV.Lemmas.PoolC09

set_option linter.unusedSimpArgs false
set_option linter.unusedVariables false

namespace JRV.Props
open JRV JRV.Pool

/-- **No task is ever executed twice**: in every reachable state (any client program, any number of threads, tasks and
    steps, any interleaving, any timing of the time-outs) the body of every task has been entered at most once. -/
theorem C09_at_most_once (cfg : Config) (n : Nat) (s : State) (hr : Reach (init cfg n) s)
    (t : Nat) (tk : Task) (ht : s.tasks[t]? = some tk) : tk.execCount ≤ 1 := by
  have := (TaskInv_reach hr).exec t tk ht
  rw [this]; cases tk.phase <;> simp [execOf]

/-- The execution count follows the phase: it is 1 exactly while the task is running or finished, 0 before
    (created, queued, held by a worker) and for ever 0 for a task dropped by `clear()`. -/
theorem C09_exec_count_phase (cfg : Config) (n : Nat) (s : State) (hr : Reach (init cfg n) s)
    (t : Nat) (tk : Task) (ht : s.tasks[t]? = some tk) :
    tk.execCount = (if tk.phase = .running ∨ tk.phase = .finished then 1 else 0) := by
  have := (TaskInv_reach hr).exec t tk ht
  rw [this]; cases tk.phase <;> simp [execOf]

/-- A task is handed to at most one worker: whenever a worker is between `queue.get` and its second accounting
    section, the task it holds names *that* worker as its owner and is in the phase the worker's program counter
    implies — so two workers never hold the same task, and a `task.begin` step always finds its task in phase `held`. -/
theorem C09_single_holder (cfg : Config) (n : Nat) (s : State) (hr : Reach (init cfg n) s)
    (i j : Nat) (wi wj : Worker) (hi : s.workers[i]? = some wi) (hj : s.workers[j]? = some wj)
    (phi phj : Phase) (hpi : phaseOfPc wi.pc = some phi) (hpj : phaseOfPc wj.pc = some phj)
    (t : Nat) (hti : wi.held = some t) (htj : wj.held = some t) : i = j := by
  obtain ⟨t1, tk1, a1, a2, a3, _⟩ := (TaskInv_reach hr).wheld i wi hi phi hpi
  obtain ⟨t2, tk2, b1, b2, b3, _⟩ := (TaskInv_reach hr).wheld j wj hj phj hpj
  rw [hti] at a1; cases a1
  rw [htj] at b1; cases b1
  rw [a2] at b2; cases b2
  rw [a3] at b3; cases b3; rfl

/-- A task is in the queue at most once, and only in phase `queued`. -/
theorem C09_queue_nodup (cfg : Config) (n : Nat) (s : State) (hr : Reach (init cfg n) s) (t : Nat) :
    s.queue.count (.task t) ≤ 1 ∧ (Item.task t ∈ s.queue → ∃ tk, s.tasks[t]? = some tk ∧ tk.phase = .queued) :=
  ⟨(TaskInv_reach hr).qnodup t, (TaskInv_reach hr).qphase t⟩

/-- Non-vacuity: a run in which a task is enqueued, taken and begun (execution count 1). -/
example : ∃ s, run (init { max := 1, min := 0, qbound := 0 } 1)
    [⟨.client 0, .callStart, false⟩, ⟨.client 0, .eventIsSet, false⟩, ⟨.client 0, .eventClear, false⟩,
     ⟨.client 0, .queueQsize, false⟩, ⟨.client 0, .callEnqueue, false⟩, ⟨.client 0, .lockAcquire, false⟩,
     ⟨.client 0, .queuePut, false⟩, ⟨.client 0, .lockAcquire, false⟩, ⟨.client 0, .eventIsSet, false⟩,
     ⟨.client 0, .lockRelease, false⟩, ⟨.client 0, .lockRelease, false⟩,
     ⟨.worker 0, .eventIsSet, false⟩, ⟨.worker 0, .queueGet, false⟩, ⟨.worker 0, .lockAcquire, false⟩,
     ⟨.worker 0, .lockRelease, false⟩, ⟨.worker 0, .taskBegin, false⟩] = some s ∧
    (s.tasks.map (·.execCount)) = [1] := by
  refine ⟨_, rfl, ?_⟩; rfl

/-! ### example runs used by the non-vacuity examples below (one pool, one client thread, one worker) -/

private def c0 (op : Op) : Action := ⟨.client 0, op, false⟩
private def w0 (op : Op) : Action := ⟨.worker 0, op, false⟩
/-- `start()` of a pool with `min_threads = max_threads = 1`: one worker is spawned. -/
private def startRun : List Action :=
  [c0 .callStart, c0 .eventIsSet, c0 .eventClear, c0 .queueQsize, c0 .lockAcquire, c0 .eventIsSet, c0 .lockRelease]
/-- `enqueue()` on a running pool whose worker is idle (no new worker). -/
private def enqRun : List Action := [c0 .callEnqueue, c0 .lockAcquire, c0 .queuePut, c0 .lockRelease]
/-- `enqueue()` on a pool without workers (stopped, or `min_threads = 0`): the growth test sends it through
    `__start_thread`. -/
private def enqGrowRun : List Action :=
  [c0 .callEnqueue, c0 .lockAcquire, c0 .queuePut, c0 .lockAcquire, c0 .eventIsSet, c0 .lockRelease, c0 .lockRelease]
/-- The worker takes the head task and begins it. -/
private def takeBeginRun : List Action := [w0 .eventIsSet, w0 .queueGet, w0 .lockAcquire, w0 .lockRelease, w0 .taskBegin]
/-- The worker, after the body has ended: future, `task_done`, accounting, retirement test (stays), back to the loop head. -/
private def finishRun : List Action :=
  [w0 .futSet, w0 .queueTaskDone, w0 .lockAcquire, w0 .lockRelease, w0 .lockAcquire, w0 .lockRelease]

/-! ### the future reports the very outcome of its task -/

/-- **A future is done exactly when its task has finished and `fut.set` has been executed, and it then holds that task's
    own outcome token** (the `ok`/`exc` chosen by the environment at `task.end`).  In every reachable state, for every task:
    a done future ⇒ the task is finished, the future's value is the task's outcome, and there is one; a finished task whose
    future is not yet done is held by its owner worker, which stands at `fut.set` holding that very task; a task that is not
    finished has a future that is not done and no outcome. -/
theorem C09_future_faithful (cfg : Config) (n : Nat) (s : State) (hr : Reach (init cfg n) s)
    (t : Nat) (tk : Task) (ht : s.tasks[t]? = some tk) :
    (tk.futDone = true → tk.phase = .finished ∧ tk.futVal = tk.outcome ∧ tk.outcome ≠ none) ∧
    (tk.phase = .finished → tk.futDone = false →
      ∃ i w, tk.owner = some i ∧ s.workers[i]? = some w ∧ w.pc = .futSet ∧ w.held = some t) ∧
    (tk.phase ≠ .finished → tk.futDone = false ∧ tk.outcome = none) := by
  have hF := FutInv_reach hr
  refine ⟨fun hd => ?_, hF.pend t tk ht, fun hph => ⟨hF.notDone ht hph, ?_⟩⟩
  · obtain ⟨h1, h2⟩ := hF.done t tk ht hd
    exact ⟨h1, h2, (hF.fin t tk ht).mp h1⟩
  · cases ho : tk.outcome with
    | none => rfl
    | some o => exact absurd ((hF.fin t tk ht).mpr (by simp [ho])) hph

/-- **`FutureResult.result()` yields the outcome of its own task**: the returning step of `result(t)` (not the time-out)
    is enabled only when task `t` has finished, and the caller then gets `ok` if the body returned and `exc` if it raised. -/
theorem C09_result_faithful (cfg : Config) (n : Nat) (s s' : State) (hr : Reach (init cfg n) s)
    (i : Nat) (c : Client) (hc : s.clients[i]? = some c) (t : Nat) (hpc : c.pc = .futWait t)
    (h : step? s ⟨.client i, .futWait, false⟩ = some s') :
    ∃ tk o, s.tasks[t]? = some tk ∧ tk.phase = .finished ∧ tk.outcome = some o ∧ s'.tasks = s.tasks ∧
      s'.clients[i]? = some { pc := .idle, ret := match o with | .ok => .ok | .exc => .exc } := by
  have hF := FutInv_reach hr
  have hlt : i < s.clients.length := (List.getElem?_eq_some_iff.mp hc).1
  simp only [step?, hc, clientStep, hpc] at h
  split at h
  · rename_i hready
    simp at h; subst h
    unfold futReady at hready
    cases htk : s.tasks[t]? with
    | none => simp [htk] at hready
    | some tk =>
      simp [htk] at hready
      obtain ⟨h1, h2⟩ := hF.done t tk htk hready
      have h3 := (hF.fin t tk htk).mp h1
      cases ho : tk.outcome with
      | none => exact absurd ho h3
      | some o =>
        refine ⟨tk, o, rfl, h1, ho, rfl, ?_⟩
        simp [setClient, hlt, futRet, htk, retOfFuture, h2, ho]
        cases o <;> rfl
  · simp at h

/-- Non-vacuity: a task whose body raised — between `task.end` and `fut.set` the future is not done and the worker stands
    at `fut.set`; after `fut.set` the future is done with `exc`, the task's own outcome. -/
example : ∃ s s', run (init { max := 1, min := 1, qbound := 0 } 1) (startRun ++ enqRun ++ takeBeginRun ++ [w0 (.taskEnd .exc)]) = some s ∧
    run s [w0 .futSet] = some s' ∧
    s.tasks.map (fun t => (t.phase, t.futDone, t.outcome)) = [(.finished, false, some .exc)] ∧
    s.workers.map (·.pc) = [.futSet] ∧
    s'.tasks.map (fun t => (t.phase, t.futDone, t.futVal, t.outcome)) = [(.finished, true, some .exc, some .exc)] := by
  refine ⟨_, _, rfl, rfl, ?_, ?_, ?_⟩ <;> rfl

/-! ### observing a future: `done()`, and `result()` once `done()` has answered True -/

/-- **`FutureResult.done()` never blocks and answers exactly whether the future of its task is done**: the `fut.is_set`
    step of `done()` is always enabled, changes no task, and returns `True` only for a finished task whose future holds
    that task's own outcome, `False` only while `fut.set` has not been executed for it. -/
theorem C09_done_faithful (cfg : Config) (n : Nat) (s : State) (hr : Reach (init cfg n) s)
    (i : Nat) (c : Client) (hc : s.clients[i]? = some c) (t : Nat) (hpc : c.pc = .futPoll t) :
    ∃ s' b, step? s ⟨.client i, .futIsSet, false⟩ = some s' ∧ s'.tasks = s.tasks ∧
      s'.clients[i]? = some { pc := .idle, ret := .bool b } ∧
      (b = true → ∃ tk o, s.tasks[t]? = some tk ∧ tk.futDone = true ∧ tk.phase = .finished ∧ tk.outcome = some o ∧
        tk.futVal = some o) ∧
      (b = false → ∀ tk, s.tasks[t]? = some tk → tk.futDone = false) := by
  have hF := FutInv_reach hr
  have hlt : i < s.clients.length := (List.getElem?_eq_some_iff.mp hc).1
  refine ⟨setClient s i { pc := .idle, ret := .bool (futReady s t) }, futReady s t, ?_, rfl, ?_, ?_, ?_⟩
  · simp [step?, hc, clientStep, hpc]
  · simp [setClient, hlt]
  · intro hb
    unfold futReady at hb
    cases htk : s.tasks[t]? with
    | none => simp [htk] at hb
    | some tk =>
      simp [htk] at hb
      obtain ⟨h1, h2⟩ := hF.done t tk htk hb
      have h3 := (hF.fin t tk htk).mp h1
      cases ho : tk.outcome with
      | none => exact absurd ho h3
      | some o => exact ⟨tk, o, rfl, hb, h1, ho, by rw [h2, ho]⟩
  · intro hb tk htk
    unfold futReady at hb
    simpa [htk] using hb

/-- **A done future stays done and keeps its outcome**, whatever any thread does afterwards (further tasks, `stop()`,
    `clear()`, restarts): along every run from a reachable state the task stays `finished`, its future stays done and
    shows the same value. -/
theorem C09_done_stable (cfg : Config) (n : Nat) (s s' : State) (hr : Reach (init cfg n) s) (hr' : Reach s s')
    (t : Nat) (tk : Task) (ht : s.tasks[t]? = some tk) (hd : tk.futDone = true) :
    ∃ tk', s'.tasks[t]? = some tk' ∧ tk'.futDone = true ∧ tk'.futVal = tk.futVal ∧ tk'.outcome = tk.outcome ∧
      tk'.phase = .finished :=
  done_stable_reach hr hr' ht hd

/-- **Once `done()` has answered True, `result()` answers at once with the task's own outcome** — at any later moment,
    for any client, whatever happened in between: the returning step of `result(t)` is enabled (the call does not
    block, so a time-out has nothing to wait for) and the caller gets `ok` if the body returned, `exc` if it raised. -/
theorem C09_done_then_result (cfg : Config) (n : Nat) (s s1 s2 : State) (hr : Reach (init cfg n) s)
    (i : Nat) (c : Client) (hc : s.clients[i]? = some c) (t : Nat) (hpc : c.pc = .futPoll t)
    (hdone : step? s ⟨.client i, .futIsSet, false⟩ = some s1)
    (htrue : s1.clients[i]? = some { pc := .idle, ret := .bool true })
    (hr2 : Reach s1 s2) (j : Nat) (c' : Client) (hc' : s2.clients[j]? = some c') (hpc' : c'.pc = .futWait t) :
    ∃ tk o s3, s.tasks[t]? = some tk ∧ tk.outcome = some o ∧
      step? s2 ⟨.client j, .futWait, false⟩ = some s3 ∧ s3.tasks = s2.tasks ∧
      s3.clients[j]? = some { pc := .idle, ret := match o with | .ok => .ok | .exc => .exc } := by
  obtain ⟨s1', b, hs1, htasks, hret, htrue', _⟩ := C09_done_faithful cfg n s hr i c hc t hpc
  rw [hdone] at hs1; cases hs1
  rw [hret] at htrue
  have hb : b = true := by simpa using htrue
  obtain ⟨tk, o, htk, hfd, hph, hout, hval⟩ := htrue' hb
  have hr1 : Reach (init cfg n) s1 := Reach.step _ hr hdone
  obtain ⟨tk2, htk2, hd2, hv2, ho2, hp2⟩ := C09_done_stable cfg n s1 s2 hr1 hr2 t tk (by rw [htasks]; exact htk) hfd
  have hlt : j < s2.clients.length := (List.getElem?_eq_some_iff.mp hc').1
  refine ⟨tk, o, setClient s2 j { pc := .idle, ret := futRet s2 t }, htk, hout, ?_, rfl, ?_⟩
  · simp [step?, hc', clientStep, hpc', futReady, htk2, hd2]
  · simp [setClient, hlt, futRet, htk2, retOfFuture, hv2, hval]
    cases o <;> rfl

/-- Non-vacuity: a raising task; `done()` before `fut.set` answers False, after it True, and `result()` then returns
    `exc` - while the worker goes on with its accounting. -/
example : ∃ s s1 s2 s3, run (init { max := 1, min := 1, qbound := 0 } 1)
      (startRun ++ enqRun ++ takeBeginRun ++ [w0 (.taskEnd .exc), c0 (.callDone 0), c0 .futIsSet, w0 .futSet, c0 (.callDone 0)]) = some s ∧
    s.clients.map (fun c => (c.pc, c.ret)) = [(.futPoll 0, .none)] ∧
    run s [c0 .futIsSet] = some s1 ∧ s1.clients.map (fun c => (c.pc, c.ret)) = [(.idle, .bool true)] ∧
    run s1 ([w0 .queueTaskDone, w0 .lockAcquire, w0 .lockRelease, c0 (.callWait 0)]) = some s2 ∧
    run s2 [c0 .futWait] = some s3 ∧ s3.clients.map (fun c => (c.pc, c.ret)) = [(.idle, .exc)] := by
  refine ⟨_, _, _, _, rfl, ?_, rfl, ?_, rfl, rfl, ?_⟩ <;> rfl

/-! ### nothing runs after `stop()` has returned -/

/-- **No task begins after `stop()` has returned, until the next `start()`** — single controlling thread (the
    configuration flag `singleCtl`: `start`/`stop`/`clear` are issued by client 0 only).  In every reachable state in which
    the stop flag is set and the controlling thread is not between the `event.set` and the end of the join loop of `stop()`
    — so: from the end of the join loop, through the `clear()` of `stop()`, after its return, inside any later call
    of `enqueue`/`join`/`clear`/`stop`, and inside the next `start()` up to its `event.clear` — every worker thread has
    terminated, and no worker action whatsoever (in particular no `task.begin`) is enabled. -/
theorem C09_none_after_stop (cfg : Config) (n : Nat) (s : State) (hctl : cfg.singleCtl = true)
    (hr : Reach (init cfg n) s) (hstop : s.stop = true)
    (hpc : ∀ c, s.clients[0]? = some c → (match c.pc with
        | .stopAcq | .stopPut _ | .stopRel _ | .stopAlive _ | .stopJoin _ | .stopAlive2 _ => False | _ => True)) :
    (∀ (i : Nat) (w : Worker), s.workers[i]? = some w → w.pc = .dead) ∧
    (∀ (i : Nat) (op : Op) (tmo : Bool), step? s ⟨.worker i, op, tmo⟩ = none) := by
  have hS := StopInv_reach hctl hr
  have hall : ∀ (i : Nat) (w : Worker), s.workers[i]? = some w → w.pc = .dead := by
    refine hS.dead hstop (fun c hc => ?_)
    have := hpc c hc
    cases hp : c.pc <;> simp [hp, inStop] at this ⊢
  refine ⟨hall, fun i op tmo => ?_⟩
  simp only [step?]
  cases hw : s.workers[i]? with
  | none => rfl
  | some w =>
    have := hall i w hw
    simp [workerStep, this]

/-- Non-vacuity: a pool is started (one worker) and stopped; the worker leaves on the flag, `stop()` joins it, drains its
    sentinel and returns — flag set, controlling thread idle, the worker terminated. -/
example : ∃ s, run (init { max := 1, min := 1, qbound := 0 } 1)
    (startRun ++
     [c0 .callStop, c0 .eventIsSet, c0 .eventSet, c0 .lockAcquire, c0 .queuePut, c0 .lockRelease,
      w0 .eventIsSet, w0 .lockAcquire, w0 .lockRelease,
      c0 .threadIsAlive, c0 .lockAcquire, c0 .queueGetNowait, c0 .queueTaskDone, c0 .queueGetNowait, c0 .queueJoin,
      c0 .lockRelease]) = some s ∧
    s.cfg.singleCtl = true ∧ s.stop = true ∧ s.clients.map (·.pc) = [.idle] ∧ s.workers.map (·.pc) = [.dead] := by
  refine ⟨_, rfl, ?_, ?_, ?_, ?_⟩ <;> rfl

/-! ### with a single worker, tasks start in submission order -/

/-- **With `max_threads = 1` tasks begin in the order in which they were accepted.**  Let `a` be accepted (put in the
    queue by `enqueue`, under the pool lock — its phase is no longer `created`) in a reachable state `s` in which `b` is not
    yet accepted (no such task yet, or `enqueue` has not reached its `queue.put`).  Then in every state reachable from `s`
    in which `b` has begun (its body is running or has finished), `a` has begun as well — or was dropped by a `clear()` /
    `stop()`.  Any number of client threads, any interleaving, any timing. -/
theorem C09_fifo_single (cfg : Config) (n : Nat) (s s' : State) (hmax : cfg.max = 1)
    (hr : Reach (init cfg n) s) (hr' : Reach s s')
    (a b : Nat) (tka : Task) (ha : s.tasks[a]? = some tka) (hacc : tka.phase ≠ .created)
    (hb : ∀ tkb, s.tasks[b]? = some tkb → tkb.phase = .created)
    (tkb' : Task) (hb' : s'.tasks[b]? = some tkb') (hbegun : tkb'.phase = .running ∨ tkb'.phase = .finished) :
    ∃ tka', s'.tasks[a]? = some tka' ∧
      (tka'.phase = .running ∨ tka'.phase = .finished ∨ tka'.phase = .dropped) := by
  have hab : a ≠ b := by
    intro e; subst e
    exact hacc (hb tka ha)
  have h0 : FifoPair a b s := by
    have hbn : phaseAt s b = none ∨ phaseAt s b = some .created := by
      cases htb : s.tasks[b]? with
      | none => left; simp [phaseAt, htb]
      | some tkb => right; exact phaseAt_eq_some.mpr ⟨tkb, htb, hb tkb htb⟩
    refine ⟨⟨tka.phase, phaseAt_eq_some.mpr ⟨tka, ha, rfl⟩, hacc⟩, fun _ => ?_, fun _ => ?_⟩
    · rcases hbn with g | g
      · exact Or.inl g
      · exact Or.inr (Or.inl g)
    · rcases hbn with g | g
      · exact Or.inl g
      · exact Or.inr (Or.inl g)
  obtain ⟨⟨pha, hpa, hnc⟩, h1, h2⟩ := FifoPair_reach hab hmax hr hr' h0
  obtain ⟨tka', hta', hpha⟩ := phaseAt_eq_some.mp hpa
  have hpb : phaseAt s' b = some tkb'.phase := phaseAt_eq_some.mpr ⟨tkb', hb', rfl⟩
  refine ⟨tka', hta', ?_⟩
  subst hpha
  cases hph : tka'.phase with
  | created => exact absurd hph hnc
  | queued =>
    exfalso
    rcases h1 (by rw [hpa, hph]) with g | g | ⟨g, _⟩ <;> rw [hpb] at g <;> rcases hbegun with e | e <;> simp [e] at g
  | held =>
    exfalso
    rcases h2 (by rw [hpa, hph]) with g | g | g | g <;> rw [hpb] at g <;> rcases hbegun with e | e <;> simp [e] at g
  | running => simp
  | finished => simp
  | dropped => simp

/-- With `max_threads = 1` at most one worker is inside the loop (anywhere before its exit path) at any time — in
    particular at most one is between `queue.get` and `task.begin`. -/
theorem C09_single_worker (cfg : Config) (n : Nat) (s : State) (hmax : cfg.max = 1) (hr : Reach (init cfg n) s) :
    s.workers.countP (fun w => !exiting w.pc) ≤ 1 := single_worker_in_loop hmax hr

theorem reach_of_run {s s' : State} {as : List Action} (h : run s as = some s') : Reach s s' := by
  induction as generalizing s with
  | nil => simp [run] at h; subst h; exact Reach.refl
  | cons a rest ih =>
    simp only [run] at h
    cases hs : step? s a with
    | none => simp [hs] at h
    | some s1 =>
      simp only [hs] at h
      exact (Reach.step a Reach.refl hs).trans (ih h)

/-- Non-vacuity: two tasks are enqueued before `start()` on a pool with `max_threads = 1`; `s` is the state after the
    first `enqueue` (task 0 accepted, task 1 does not exist yet), `s'` a later state in which task 1 has begun — task 0
    has finished there. -/
example : ∃ s s', run (init { max := 1, min := 0, qbound := 0 } 1) enqGrowRun = some s ∧
    run s (enqGrowRun ++ startRun ++ takeBeginRun ++ [w0 (.taskEnd .ok)] ++ finishRun ++ takeBeginRun) = some s' ∧
    s.cfg.max = 1 ∧ s.tasks.map (·.phase) = [.queued] ∧ s'.tasks.map (·.phase) = [.finished, .running] := by
  refine ⟨_, _, rfl, rfl, ?_, ?_, ?_⟩ <;> rfl

/-! ### a queued task of a running pool is served (liveness, as "no stuck state + variant") -/

/-- **A queued task of a running pool has a worker** (single controlling thread, `max_threads ≥ 1`): flag clear, a task in
    the queue and no thread about to attempt `__start_thread` (not inside `start()` from its `qsize` read on, not inside
    the growth branch of `enqueue`) ⇒ `nb_threads ≥ 1`, and some worker counted in `nb_threads` is inside the loop — it is
    not on an exit path, so it will come back to `queue.get`.  From the exact accounting `nb_pending_task = #queued +
    #held`, the growth rule of `enqueue`, the spawn rule of `start` and the retirement rule `nb_threads > nb_pending_task`.
    `hnf` is the environment assumption that `Thread.start()` never raises: after a failed start (`cfg.startMayFail`) the
    counters stay exact (`C10_counters_exact`) but the pool has, by the failure itself, fewer threads than it asked for. -/
theorem C09_queued_has_server (cfg : Config) (n : Nat) (s : State) (hctl : cfg.singleCtl = true) (hmax : 1 ≤ cfg.max)
    (hnf : cfg.startMayFail = false) (hr : Reach (init cfg n) s) (hrun : s.stop = false) (t : Nat) (ht : Item.task t ∈ s.queue)
    (hwin : ∀ c ∈ s.clients, inWindow c = false) :
    1 ≤ s.nbThreads ∧ ∃ (i : Nat) (w : Worker), s.workers[i]? = some w ∧ counted w = true ∧ serving w.pc = true := by
  have hLv := LiveInv_reach hctl hr
  have hq : 1 ≤ s.queue.countP isTask := List.countP_pos_iff.mpr ⟨_, ht, rfl⟩
  have hw0 : s.clients.countP inWindow = 0 := by
    rw [List.countP_eq_zero]; intro c hc; simp [hwin c hc]
  have hm : 1 ≤ s.cfg.max := by rw [reach_cfg hr]; exact hmax
  have hth := hLv.grow (by rw [reach_cfg hr]; exact hnf) hrun hm hq
  rw [hw0] at hth
  refine ⟨hth, ?_⟩
  rw [hLv.base.count.threads] at hth
  obtain ⟨w, hwm, hc⟩ := List.countP_pos_iff.mp hth
  obtain ⟨i, hi⟩ := List.getElem?_of_mem hwm
  exact ⟨i, w, hi, hc, hLv.serv hrun i w hi hc⟩

/-- No client holds the pool lock or is about to attempt `__start_thread`: every client thread is outside the pool's
    critical sections — idle, or anywhere inside `join()`, `join(t)`, `result(t)`, waiting for the lock at the
    beginning of `enqueue` / `clear`, in the two first operations of `start()` / `stop()`. -/
def clientsOutside (s : State) : Prop := ∀ c ∈ s.clients, cDepth c.pc = 0 ∧ inWindow c = false

theorem clientsOutside_of_idle {s : State} (h : ∀ c ∈ s.clients, c.pc = .idle) : clientsOutside s := by
  intro c hc; rw [inWindow, h c hc]; exact ⟨rfl, rfl⟩

private theorem outside_notifyIf (b : Bool) (c : Client) (h : cDepth c.pc = 0 ∧ inWindow c = false) :
    cDepth (notifyIf b c).pc = 0 ∧ inWindow (notifyIf b c) = false := by
  simpa using h

/-- **Every accepted task is eventually begun** — liveness stated as *no stuck state + decreasing variant* (single
    controlling thread, `max_threads ≥ 1`, thread creation never fails).  In every reachable state with the flag clear, no
    client thread inside a critical section of the pool lock or about to spawn (`clientsOutside`: other client threads
    may sit anywhere in `join()`, `join(t)`, `result(t)`, or wait for the lock at the start of an `enqueue`; `start()`
    has returned) and a task `t` that waits (queued, or taken by a worker and not yet begun):

    1. *no stuck state*: some worker is inside a task body (only then does progress depend on the environment — the body
       has to end), or some worker action that is neither a time-out nor `task.end` is enabled;
    2. *variant and closure*: every worker step that is not a time-out strictly decreases `progressMeasure`
       (`12·|queue| + Σ rank(pc)`), keeps the flag clear and the clients outside, and leaves `t` waiting — or running.

    Hence every maximal run of worker steps from such a state is finite and ends with `t` begun or with a worker inside a
    task body (`C09_eventually_begins` constructs such a run).  With `C09_at_most_once`: exactly once.  What is *not*
    covered: client steps interleaved with that run (`C09_full_statement`). -/
theorem C09_eventually_once (cfg : Config) (n : Nat) (s : State) (hctl : cfg.singleCtl = true) (hmax : 1 ≤ cfg.max)
    (hnf : cfg.startMayFail = false)
    (hr : Reach (init cfg n) s) (hrun : s.stop = false) (hout : clientsOutside s)
    (t : Nat) (tk : Task) (ht : s.tasks[t]? = some tk) (hwait : tk.phase = .queued ∨ tk.phase = .held) :
    ((∃ w ∈ s.workers, w.pc = .body) ∨
      ∃ (i : Nat) (op : Op) (s' : State), notTaskEnd op = true ∧ step? s ⟨.worker i, op, false⟩ = some s') ∧
    (∀ (i : Nat) (op : Op) (s' : State), step? s ⟨.worker i, op, false⟩ = some s' →
      progressMeasure s' < progressMeasure s ∧ s'.stop = false ∧ clientsOutside s' ∧
      ∃ tk', s'.tasks[t]? = some tk' ∧ (tk'.phase = .queued ∨ tk'.phase = .held ∨ tk'.phase = .running)) := by
  have hLv := LiveInv_reach hctl hr
  have hT := TaskInv_reach hr
  have hT2 := TaskInv2_reach hr
  refine ⟨?_, ?_⟩
  · -- no stuck state
    cases hlo : s.lockOwner with
    | some o =>
      cases o with
      | client j =>
        exfalso
        have hlt := hLv.lock.ocl j hlo
        have hc : s.clients[j]? = some s.clients[j] := List.getElem?_eq_getElem hlt
        have hd := hLv.lock.cl j _ hc
        rw [(hout _ (List.getElem_mem hlt)).1] at hd
        simp [hlo] at hd
        rcases hLv.lock.pos with h | h
        · rw [hlo] at h; cases h
        · exact h hd.symm
      | worker j =>
        obtain ⟨s', hs'⟩ := enabled_release hLv.lock hlo
        exact Or.inr ⟨j, .lockRelease, s', rfl, hs'⟩
    | none =>
      have fin : ∀ (i : Nat) (w : Worker), s.workers[i]? = some w → serving w.pc = true →
          (w.pc = .get → ∃ t, Item.task t ∈ s.queue) →
          (∃ w ∈ s.workers, w.pc = .body) ∨
            ∃ (i : Nat) (op : Op) (s' : State), notTaskEnd op = true ∧ step? s ⟨.worker i, op, false⟩ = some s' := by
        intro i w hw hserv hget
        rcases enabled_of_serving hLv.base hLv.lock hLv.nosent hT hlo hrun hw hserv hget with h | ⟨op, h1, s', h2⟩
        · exact Or.inl ⟨w, List.mem_of_getElem? hw, h⟩
        · exact Or.inr ⟨i, op, s', h1, h2⟩
      rcases hwait with hq | hh
      · have hin := hT2.inq t tk ht hq
        obtain ⟨_, i, w, hw, _, hserv⟩ := C09_queued_has_server cfg n s hctl hmax hnf hr hrun t hin
          (fun c hc => (hout c hc).2)
        exact fin i w hw hserv (fun _ => ⟨t, hin⟩)
      · obtain ⟨i, w, hw, _, hpc⟩ := hT2.own t tk ht (Or.inl hh)
        rw [hh] at hpc
        refine fin i w hw ?_ ?_
        · cases hp : w.pc <;> simp [hp, phaseOfPc, serving, exiting] at hpc ⊢
        · intro e; rw [e] at hpc; simp [phaseOfPc] at hpc
  · -- the variant decreases and the hypotheses are kept until the task begins
    intro i op s' hstep
    simp only [step?] at hstep
    cases hw : s.workers[i]? with
    | none => simp [hw] at hstep
    | some w =>
      simp only [hw] at hstep
      obtain ⟨_, hstop, ⟨b, hcl⟩, _⟩ := worker_frame hstep
      refine ⟨measure_decreases hw hstep, by rw [hstop]; exact hrun, ?_, ?_⟩
      · intro c hc
        rw [hcl] at hc
        obtain ⟨c0, h0, rfl⟩ := List.mem_map.mp hc
        exact outside_notifyIf b c0 (hout c0 h0)
      · have hph : phaseAt s t = some tk.phase := phaseAt_eq_some.mpr ⟨tk, ht, rfl⟩
        rcases worker_phase_step hw hT hstep t tk.phase hph with g | ⟨e, g⟩ | ⟨e, g⟩ | ⟨e, g⟩
        · obtain ⟨tk', h1, h2⟩ := phaseAt_eq_some.mp g
          refine ⟨tk', h1, ?_⟩
          rcases hwait with h | h
          · left; rw [h2, h]
          · right; left; rw [h2, h]
        · obtain ⟨tk', h1, h2⟩ := phaseAt_eq_some.mp g
          exact ⟨tk', h1, Or.inr (Or.inl h2)⟩
        · obtain ⟨tk', h1, h2⟩ := phaseAt_eq_some.mp g
          exact ⟨tk', h1, Or.inr (Or.inr h2)⟩
        · rcases hwait with h | h <;> rw [h] at e <;> cases e

/-- The run promised by `C09_eventually_once`: from every such state there is a finite sequence of worker actions —
    no time-out, no `task.end`, no client action — after which `t` is running (has begun) or some worker is inside a
    task body. -/
theorem C09_eventually_begins (cfg : Config) (n : Nat) (s : State) (hctl : cfg.singleCtl = true) (hmax : 1 ≤ cfg.max)
    (hnf : cfg.startMayFail = false)
    (hr : Reach (init cfg n) s) (hrun : s.stop = false) (hout : clientsOutside s)
    (t : Nat) (tk : Task) (ht : s.tasks[t]? = some tk) (hwait : tk.phase = .queued ∨ tk.phase = .held) :
    ∃ (as : List Action) (s' : State),
      (∀ a ∈ as, a.timeout = false ∧ notTaskEnd a.op = true ∧ ∃ i, a.who = .worker i) ∧ run s as = some s' ∧
      ((∃ tk', s'.tasks[t]? = some tk' ∧ tk'.phase = .running) ∨ ∃ w ∈ s'.workers, w.pc = .body) := by
  generalize hm : progressMeasure s = m
  induction m using Nat.strongRecOn generalizing s tk with
  | ind m ih =>
    obtain ⟨stuck, var⟩ := C09_eventually_once cfg n s hctl hmax hnf hr hrun hout t tk ht hwait
    rcases stuck with hb | ⟨i, op, s1, hop, hs1⟩
    · exact ⟨[], s, by simp, rfl, Or.inr hb⟩
    · obtain ⟨hlt, hstop1, hout1, tk1, ht1, hph1⟩ := var i op s1 hs1
      have hr1 : Reach (init cfg n) s1 := Reach.step _ hr hs1
      have hcons : ∀ (as : List Action),
          (∀ a ∈ as, a.timeout = false ∧ notTaskEnd a.op = true ∧ ∃ i, a.who = .worker i) →
          ∀ a ∈ (⟨.worker i, op, false⟩ : Action) :: as,
            a.timeout = false ∧ notTaskEnd a.op = true ∧ ∃ i, a.who = .worker i := by
        intro as h a ha
        rcases List.mem_cons.mp ha with rfl | ha
        · exact ⟨rfl, hop, i, rfl⟩
        · exact h a ha
      have hrec : tk1.phase = .queued ∨ tk1.phase = .held → _ := fun hw1 =>
        ih (progressMeasure s1) (by omega) s1 hr1 hstop1 hout1 tk1 ht1 hw1 rfl
      rcases hph1 with h | h | h
      · obtain ⟨as, s', h1, h2, h3⟩ := hrec (Or.inl h)
        exact ⟨_ :: as, s', hcons as h1, by simp [run, hs1, h2], h3⟩
      · obtain ⟨as, s', h1, h2, h3⟩ := hrec (Or.inr h)
        exact ⟨_ :: as, s', hcons as h1, by simp [run, hs1, h2], h3⟩
      · exact ⟨[⟨.worker i, op, false⟩], s1, hcons [] (by simp), by simp [run, hs1], Or.inl ⟨tk1, ht1, h⟩⟩

/-- The beginning of an API call (the client program's choice), the end of a task body, and time-outs are the
    environment's; every other operation is one the scheduler owes under fairness. -/
def owedOp (op : Op) : Bool :=
  match op with
  | .callStart | .callStop | .callClear | .callJoin | .callJoinT | .callEnqueue | .callWait _ | .callDone _ | .taskEnd _ => false
  | _ => true

/-- **Statement not proved — kept at full strength.**  On every infinite run of the pool (single controlling thread,
    `max_threads ≥ 1`, no failing `Thread.start()`) that is strongly fair for every operation of every thread other than
    call beginnings, `task.end` and time-outs, and in which every task body that begins also ends, a task accepted while
    the flag is clear — the flag staying clear — eventually begins, *whatever the client threads do meanwhile*
    (concurrent `enqueue`s holding the lock, `start()` still spawning, `join`/`result` calls).  Proved above: the
    safety skeleton in every reachable state whose clients are outside the critical sections (`C09_queued_has_server`,
    `C09_eventually_once`: no stuck state, and a variant that every worker step lowers; `C09_eventually_begins`: the finite
    run of worker steps).  Missing: a *per-task* measure (items ahead of `t` in the queue + ranks of the workers that can
    serve it + remaining steps of the critical sections in progress) that client steps do not increase, and the induction
    over a fair run (the pool lock needs strong fairness: a worker waiting for it is enabled only intermittently). -/
def C09_full_statement : Prop :=
  ∀ (cfg : Config) (n : Nat) (σ : Nat → State) (α : Nat → Action),
    cfg.singleCtl = true → 1 ≤ cfg.max → cfg.startMayFail = false →
    σ 0 = init cfg n → (∀ i, step? (σ i) (α i) = some (σ (i + 1))) →
    (∀ (who : Tid) (op : Op) (i : Nat), owedOp op = true →
      (∀ j, i ≤ j → ∃ j', j ≤ j' ∧ (step? (σ j') ⟨who, op, false⟩).isSome = true) →
      ∃ j, i ≤ j ∧ α j = ⟨who, op, false⟩) →
    (∀ (i k : Nat) (w : Worker), (σ i).workers[k]? = some w → w.pc = .body →
      ∃ j o, i ≤ j ∧ α j = ⟨.worker k, .taskEnd o, false⟩) →
    ∀ (i t : Nat) (tk : Task), (σ i).tasks[t]? = some tk → (tk.phase = .queued ∨ tk.phase = .held) →
      (∀ j, i ≤ j → (σ j).stop = false) →
      ∃ j tk', i ≤ j ∧ (σ j).tasks[t]? = some tk' ∧ (tk'.phase = .running ∨ tk'.phase = .finished ∨ tk'.phase = .dropped)

/-- Non-vacuity: a running pool (one idle worker at the loop head), a task enqueued, every client back to idle — the
    hypotheses of `C09_queued_has_server`, `C09_eventually_once` and `C09_eventually_begins` hold. -/
example : ∃ s, run (init { max := 1, min := 1, qbound := 0 } 1) (startRun ++ enqRun) = some s ∧
    s.cfg.singleCtl = true ∧ 1 ≤ s.cfg.max ∧ s.cfg.startMayFail = false ∧ s.stop = false ∧ s.clients.map (·.pc) = [.idle] ∧
    s.queue = [.task 0] ∧ s.tasks.map (·.phase) = [.queued] ∧ s.workers.map (·.pc) = [.loopHead] := by
  refine ⟨_, rfl, ?_, ?_, ?_, ?_, ?_, ?_, ?_, ?_⟩ <;> first | rfl | decide

/-- Non-vacuity of `clientsOutside` beyond idle clients: client 1 blocked in `join()` (`Queue.join` waits for the queued
    task), client 2 inside `join(t)` waiting on the condition, client 3 at the first operation of an `enqueue` (waiting
    for the pool lock) — the hypotheses still hold and task 0 waits. -/
example : ∃ s, run (init { max := 1, min := 1, qbound := 0 } 4)
      (startRun ++ enqRun ++ [⟨.client 1, .callJoin, false⟩, ⟨.client 2, .callJoinT, false⟩, ⟨.client 2, .condAcquire, false⟩,
        ⟨.client 3, .callEnqueue, false⟩]) = some s ∧
    s.stop = false ∧ s.clients.map (·.pc) = [.idle, .joinQ, .jtWait false, .enqAcq 1] ∧
    s.clients.all (fun c => cDepth c.pc == 0 && !inWindow c) = true ∧ s.tasks.map (·.phase) = [.queued, .created] := by
  refine ⟨_, rfl, ?_, ?_, ?_, ?_⟩ <;> first | rfl | decide

/-- Why `startMayFail = false` is assumed: with a failing `Thread.start()` (environment) `start()` on a pool with
    `min_threads = 1` leaves no worker, `nb_threads = 0` is exact, and a task enqueued afterwards on a pool whose
    `enqueue`-triggered start fails too stays queued with nobody to serve it — no worker action is enabled. -/
example : ∃ s, run (init { max := 1, min := 1, qbound := 0, startMayFail := true } 1)
      ([c0 .callStart, c0 .eventIsSet, c0 .eventClear, c0 .queueQsize, c0 .lockAcquire, ⟨.client 0, .eventIsSet, true⟩,
        c0 .lockRelease,
        c0 .callEnqueue, c0 .lockAcquire, c0 .queuePut, c0 .lockAcquire, ⟨.client 0, .eventIsSet, true⟩, c0 .lockRelease,
        c0 .lockRelease]) = some s ∧
    s.stop = false ∧ s.clients.map (·.pc) = [.idle] ∧ s.queue = [.task 0] ∧ s.workers = [] ∧ s.nbThreads = 0 ∧
    s.threads = [] ∧ s.nbPending = 1 := by
  refine ⟨_, rfl, ?_, ?_, ?_, ?_, ?_, ?_, ?_⟩ <;> rfl

/-- Why `C09_eventually_once` asks for idle clients: a direct `clear()` on a *running* pool, called while a worker has
    taken a task and not yet entered its accounting section, reaches a state in which nothing can move — `clear()` holds
    the pool lock inside `Queue.join()`, the worker needs that lock before it can run the task and call `task_done()`.
    (`stop()` is not affected: it calls `clear()` only after every worker has terminated, see `C09_none_after_stop`.) -/
example : ∃ s, run (init { max := 1, min := 1, qbound := 0 } 1)
      (startRun ++ enqRun ++ [w0 .eventIsSet, w0 .queueGet, c0 .callClear, c0 .lockAcquire, c0 .queueGetNowait]) = some s ∧
    s.clients.map (·.pc) = [.clrJoin] ∧ s.workers.map (·.pc) = [.actAcq] ∧ s.unfinished = 1 ∧
    s.lockOwner = some (.client 0) ∧
    step? s ⟨.client 0, .queueJoin, false⟩ = none ∧ step? s ⟨.worker 0, .lockAcquire, false⟩ = none := by
  refine ⟨_, rfl, ?_, ?_, ?_, ?_, ?_, ?_⟩ <;> rfl

end JRV.Props
