/-
  C09 — The pool runs every accepted task exactly once and reports it faithfully.
  Model: JRV.Model.Pool.  Theorems over every reachable state (all interleavings, programs, timings).
-/
import JRV.Lemmas.PoolTask
import JRV.Generated

set_option linter.unusedSimpArgs false
set_option linter.unusedVariables false

namespace JRV.Props
open JRV JRV.Pool

/-- **No task is ever executed twice**: in every reachable state (any client program, any number of threads, tasks and
    steps, any interleaving, any timing of the time-outs) the body of every task has been entered at most once. -/
theorem C09_at_most_once (cfg : Config) (n : Nat) (s : State) (hr : Reach (init cfg n) s)
    (t : Nat) (tk : Task) (ht : s.tasks[t]? = some tk) : tk.execCount ≤ 1 := by
  have := (TaskInv_reach hr).exec t tk ht
  rw [this]; cases tk.phase <;> simp [execOf]

/-- The execution count follows the phase: it is 1 exactly while the task is running or finished, 0 before
    (created, queued, held by a worker) and for ever 0 for a task dropped by `clear()`. -/
theorem C09_exec_count_phase (cfg : Config) (n : Nat) (s : State) (hr : Reach (init cfg n) s)
    (t : Nat) (tk : Task) (ht : s.tasks[t]? = some tk) :
    tk.execCount = (if tk.phase = .running ∨ tk.phase = .finished then 1 else 0) := by
  have := (TaskInv_reach hr).exec t tk ht
  rw [this]; cases tk.phase <;> simp [execOf]

/-- A task is handed to at most one worker: whenever a worker is between `queue.get` and its second accounting
    section, the task it holds names *that* worker as its owner and is in the phase the worker's program counter
    implies — so two workers never hold the same task, and a `task.begin` step always finds its task in phase `held`. -/
theorem C09_single_holder (cfg : Config) (n : Nat) (s : State) (hr : Reach (init cfg n) s)
    (i j : Nat) (wi wj : Worker) (hi : s.workers[i]? = some wi) (hj : s.workers[j]? = some wj)
    (phi phj : Phase) (hpi : phaseOfPc wi.pc = some phi) (hpj : phaseOfPc wj.pc = some phj)
    (t : Nat) (hti : wi.held = some t) (htj : wj.held = some t) : i = j := by
  obtain ⟨t1, tk1, a1, a2, a3, _⟩ := (TaskInv_reach hr).wheld i wi hi phi hpi
  obtain ⟨t2, tk2, b1, b2, b3, _⟩ := (TaskInv_reach hr).wheld j wj hj phj hpj
  rw [hti] at a1; cases a1
  rw [htj] at b1; cases b1
  rw [a2] at b2; cases b2
  rw [a3] at b3; cases b3; rfl

/-- A task is in the queue at most once, and only in phase `queued`. -/
theorem C09_queue_nodup (cfg : Config) (n : Nat) (s : State) (hr : Reach (init cfg n) s) (t : Nat) :
    s.queue.count (.task t) ≤ 1 ∧ (Item.task t ∈ s.queue → ∃ tk, s.tasks[t]? = some tk ∧ tk.phase = .queued) :=
  ⟨(TaskInv_reach hr).qnodup t, (TaskInv_reach hr).qphase t⟩

/-- Non-vacuity: a run in which a task is enqueued, taken and begun (execution count 1). -/
example : ∃ s, run (init { max := 1, min := 0, qbound := 0 } 1)
    [⟨.client 0, .callStart, false⟩, ⟨.client 0, .eventIsSet, false⟩, ⟨.client 0, .eventClear, false⟩,
     ⟨.client 0, .queueQsize, false⟩, ⟨.client 0, .callEnqueue, false⟩, ⟨.client 0, .lockAcquire, false⟩,
     ⟨.client 0, .queuePut, false⟩, ⟨.client 0, .lockAcquire, false⟩, ⟨.client 0, .eventIsSet, false⟩,
     ⟨.client 0, .lockRelease, false⟩, ⟨.client 0, .lockRelease, false⟩,
     ⟨.worker 0, .eventIsSet, false⟩, ⟨.worker 0, .queueGet, false⟩, ⟨.worker 0, .lockAcquire, false⟩,
     ⟨.worker 0, .lockRelease, false⟩, ⟨.worker 0, .taskBegin, false⟩] = some s ∧
    (s.tasks.map (·.execCount)) = [1] := by
  refine ⟨_, rfl, ?_⟩; rfl

/-! Statements not (yet) proved — kept at full strength. -/

/-- After a `stop()` has returned and before the next `start()` (single controlling thread: flag set, client 0 not
    inside `stop`), every worker is dead, hence no `task.begin` is enabled. -/
def C09_none_after_stop_full_statement : Prop :=
  ∀ (cfg : Config) (n : Nat) (s : State), cfg.singleCtl = true → Reach (init cfg n) s → s.stop = true →
    (∀ c, s.clients[0]? = some c → (match c.pc with
        | .stopAcq | .stopPut _ | .stopRel _ | .stopAlive _ | .stopJoin _ | .stopAlive2 _ => False | _ => True)) →
    ∀ (i : Nat) (w : Worker), s.workers[i]? = some w → w.pc = .dead

/-- A done future holds exactly the outcome of its own task's body, and a finished task's future is done as soon as the
    worker has passed `fut.set`. -/
def C09_future_faithful_full_statement : Prop :=
  ∀ (cfg : Config) (n : Nat) (s : State), Reach (init cfg n) s → ∀ (t : Nat) (tk : Task), s.tasks[t]? = some tk →
    (tk.futDone = true → tk.phase = .finished ∧ tk.futVal = tk.outcome ∧ tk.outcome ≠ none) ∧
    (tk.phase = .finished → tk.futDone = false →
      ∃ i w, tk.owner = some i ∧ s.workers[i]? = some w ∧ w.pc = .futSet ∧ w.held = some t)

/-- With `max_threads = 1` tasks begin in acceptance order: the queue is sorted by acceptance index and at most one
    worker is between `queue.get` and `task.begin`. -/
def C09_fifo_single_full_statement : Prop :=
  ∀ (cfg : Config) (n : Nat) (s : State), cfg.max = 1 → Reach (init cfg n) s →
    (s.workers.countP (fun w => w.pc == .actAcq || w.pc == .actRel || w.pc == .begin)) ≤ 1

/-- Liveness reading of "exactly once": in every reachable state with a running pool, a queued task and no running task
    body, some non-environment action is enabled (no stuck state), and the measure (Σ remaining steps to the next
    `queue.get` of serving workers) decreases — under weak fairness every accepted task is begun. -/
def C09_eventually_once_full_statement : Prop :=
  ∀ (cfg : Config) (n : Nat) (s : State), Reach (init cfg n) s → s.stop = false →
    (∃ t, Item.task t ∈ s.queue) → (∀ c ∈ s.clients, c.pc = .idle) →
    ∃ a s', (match a.op with | .taskEnd _ => False | _ => True) ∧ (match a.who with | .worker _ => True | _ => False) ∧
      step? s a = some s'

theorem C09_gen_poolUnlockedAccesses : Generated.poolUnlockedAccesses = some unlockedAccessesSpec := by decide
theorem C09_gen_poolPendingStores : Generated.poolPendingStores = some pendingStoresSpec := by decide
theorem C09_gen_poolGrowthRule : Generated.poolGrowthRule = some growthRuleSpec := by decide
theorem C09_gen_poolRetireRule : Generated.poolRetireRule = some retireRuleSpec := by decide

end JRV.Props
