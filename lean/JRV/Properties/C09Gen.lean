/-
  C09 — companion theorems of the facts extracted from jsonrpclib/threadpool.py (tools/extractors/pool.py): each relates
  one `Generated.<fact>` to the constant of JRV.Model.Pool that the steps of the model encode.  Kept apart from
  JRV/Properties/C09.lean so that a source edit that changes one fact fails that companion only.
-/
import JRV.Model.Pool
import JRV.Generated

namespace JRV.Props
open JRV JRV.Pool

theorem C09_gen_poolUnlockedAccesses : Generated.poolUnlockedAccesses = some unlockedAccessesSpec := by decide
theorem C09_gen_poolPendingStores : Generated.poolPendingStores = some pendingStoresSpec := by decide
theorem C09_gen_poolGrowthRule : Generated.poolGrowthRule = some growthRuleSpec := by decide
theorem C09_gen_poolRetireRule : Generated.poolRetireRule = some retireRuleSpec := by decide
/-- The worker goes on to `task_done` and its accounting after a failing task, whatever the task object is: the handler
    of `except Exception` cannot raise on a callable without `__name__` (the model's `body → futSet → taskDone → finAcq`
    path has no failure branch). -/
theorem C09_gen_poolRunHandlerSafe : Generated.poolRunHandlerSafe = some runHandlerSafeSpec := by decide
/-- A failed `Thread.start()` leaves the accounting untouched (the failure branch of the model changes nothing). -/
theorem C09_gen_poolStartRollback : Generated.poolStartRollback = some startRollbackSpec := by decide
/-- The future's event publishes last: `EventData.set` / `raise_exception` store `__data` and `__exception` before
    `self.__event.set()` and execute nothing after it (the model's single `fut.set` step: flag and value together). -/
theorem C09_gen_poolFuturePublishesLast : Generated.poolFuturePublishesLast = some futurePublishesLastSpec := by decide
/-- `stop()` and `enqueue()` put into the queue with a blocking, timed `put` (the model's `stopPut` / `enqPut` steps): on
    a bounded queue every listed worker gets its stop marker as soon as there is room for it. -/
theorem C09_gen_poolQueuePuts : Generated.poolQueuePuts = some queuePutsSpec := by decide
/-- The arguments of a task travel untouched from `enqueue(method, *args, **kwargs)` to the call `method(*args, **kwargs)`:
    no keyword is intercepted, no container rebound or mutated (the model's tasks are opaque identities). -/
theorem C09_gen_poolTaskArgsForwarded : Generated.poolTaskArgsForwarded = some taskArgsForwardedSpec := by decide
/-- The handler of `__run` around `future.execute` hands the caught exception to the logger as a lazy argument and
    evaluates nothing of it (no f-string / `.format` / `%` / `str` / `repr` / `.args` / truth value / `==`): whatever the
    special methods of the task's exception object do, the handler cannot raise and the worker goes on to `task_done`
    (the model's `task.end:exc → fut.set → queue.task_done` path has no failure branch and exceptions are opaque
    identities in it). -/
theorem C09_gen_poolRunLogsExcOpaque : Generated.poolRunLogsExcOpaque = some true := by decide

end JRV.Props
