/-
  C10 — Pool concurrency is bounded by max_threads yet grows to it when work waits.

  Model: JRV.Model.Pool (labelled transition system of ThreadPool at synchronisation-operation granularity; `mkPool?`
  for the constructor).  Theorems quantify over every reachable state: any number of client threads, tasks and steps,
  every interleaving, every timing of the time-outs.
-/
import JRV.Lemmas.PoolLock
import JRV.Generated

set_option linter.unusedSimpArgs false
set_option linter.unusedVariables false

namespace JRV.Props
open JRV JRV.Pool

/-! ### constructor -/

/-- `max_threads` that `int()` rejects, or below 1, is rejected with `ValueError` — whatever the other arguments. -/
theorem C10_ctor_max_rejected (mx mn qs : Arg) (h : ∀ m, pyInt mx = .ok m → m < 1) :
    mkPool? mx mn qs = .error "ValueError" := by
  unfold mkPool?
  cases hm : pyInt mx with
  | error e => rfl
  | ok m => simp [h m hm]

/-- `min_threads` that `int()` rejects is rejected with `ValueError`. -/
theorem C10_ctor_min_rejected (mx mn qs : Arg) (m : Int) (hm : pyInt mx = .ok m) (h1 : 1 ≤ m)
    (e : IntErr) (hn : pyInt mn = .error e) : mkPool? mx mn qs = .error "ValueError" := by
  unfold mkPool?
  simp [hm, hn]

/-- Otherwise the pool is created with `max = int(max_threads)`, `min = int(min_threads)` clamped into `[0, max]`,
    and a queue bound that is `int(queue_size)` when positive and "unbounded" for anything else (junk included). -/
theorem C10_ctor_accepted (mx mn qs : Arg) (m n : Int) (hm : pyInt mx = .ok m) (h1 : 1 ≤ m) (hn : pyInt mn = .ok n) :
    ∃ cfg, mkPool? mx mn qs = .ok cfg ∧ (cfg.max : Int) = m ∧
      (cfg.min : Int) = (if n < 0 then 0 else if n > m then m else n) ∧ cfg.min ≤ cfg.max ∧ 1 ≤ cfg.max ∧
      (cfg.qbound : Int) = (match pyInt qs with | .ok q => if q ≤ 0 then 0 else q | .error _ => 0) := by
  unfold mkPool?
  simp only [hm, hn]
  have : ¬ m < 1 := by omega
  simp only [this, if_false]
  refine ⟨_, rfl, ?_, ?_, ?_, ?_, ?_⟩
  · simp; omega
  · simp; split <;> (try split) <;> omega
  · simp; split <;> (try split) <;> omega
  · simp; omega
  · cases pyInt qs with
    | error e => simp
    | ok q => simp; split <;> omega

example : mkPool? (.str (some 3)) (.float (-2)) (.str none) = .ok { max := 3, min := 0, qbound := 0 } := by rfl
example : mkPool? (.int 2) (.int 7) (.int 5) = .ok { max := 2, min := 2, qbound := 5 } := by rfl
example : mkPool? (.float 0) (.int 1) (.int 0) = .error "ValueError" := by rfl
example : mkPool? (.int 2) .none (.int 0) = .error "ValueError" := by rfl

/-! ### the counters are exact -/

/-- In every reachable state the three private counters equal what they are meant to count: `nb_threads` the workers
    that have not yet executed their decrement, `nb_active_threads` the workers between their two accounting sections,
    `nb_pending_task` the tasks in the queue plus the tasks taken and not yet accounted as finished. -/
theorem C10_counters_exact (cfg : Config) (n : Nat) (s : State) (hr : Reach (init cfg n) s) :
    s.nbThreads = s.workers.countP counted ∧ s.nbActive = s.workers.countP active ∧
    s.nbPending = s.queue.countP isTask + s.workers.countP wHasTask + s.clients.countP cHoldsTask :=
  let h := (BaseInv_reach hr).count
  ⟨h.threads, h.active, h.pending⟩

/-! ### the bounds -/

/-- A worker is executing a task body. -/
def inBody (w : Worker) : Bool := w.pc == .body

/-- A worker that may still attempt a queue read: started, not on its way out (a worker past its retirement
    decrement, one that has seen the stop flag or taken a sentinel does not count). -/
def serving (w : Worker) : Bool :=
  match w.pc with
  | .sentDone | .retRelExit | .exitAcq | .exitRel | .dead => false
  | _ => !w.cleaned

private theorem countP_le_counted {s : State} (hI : BaseInv s) (p : Worker → Bool)
    (hp : ∀ w, p w = true → exiting w.pc = false ∧ w.pc ≠ .exitRel ∧ w.pc ≠ .dead) :
    s.workers.countP p ≤ s.workers.countP counted := by
  apply List.countP_mono_left
  intro w hw hpw
  obtain ⟨j, hj⟩ := List.getElem?_of_mem hw
  have hcl := hI.clean j w hj
  obtain ⟨h1, h2, h3⟩ := hp w hpw
  have hnc : w.cleaned = false := by
    cases hc : w.cleaned
    · rfl
    · rw [hcl hc] at h1; cases h1
  unfold counted
  cases hpc : w.pc <;> simp_all

/-- **At most `max_threads` workers exist that count in `nb_threads`**, in every reachable state. -/
theorem C10_threads_le_max (cfg : Config) (n : Nat) (s : State) (hr : Reach (init cfg n) s) :
    s.nbThreads ≤ cfg.max ∧ s.cfg = cfg := by
  have h := (SpawnInv_reach hr).le
  have hc : s.cfg = cfg := by
    refine Reach.induct (P := fun s => s.cfg = cfg) rfl ?_ s hr
    intro s a s' _ hI h
    unfold step? at h
    split at h
    · split at h
      · unfold workerStep at h; step_cases
        all_goals (simp only [setWorker, tdone, acq, rel, updTask]; exact hI)
      · simp at h
    · split at h
      · unfold clientStep at h; step_cases
        all_goals (simp only [setClient, tdone, acq, rel, updTask, put, spawnWorker, apply_ite State.cfg, ite_self]; exact hI)
      · simp at h
  rw [hc] at h
  exact ⟨h, hc⟩

/-- **At every instant at most `max_threads` tasks are executing**: the number of workers inside a task body is at
    most `max_threads` in every reachable state (every running task sits in exactly one such worker: `C09_single_holder`). -/
theorem C10_running_le_max (cfg : Config) (n : Nat) (s : State) (hr : Reach (init cfg n) s) :
    s.workers.countP inBody ≤ cfg.max := by
  have hb := BaseInv_reach hr
  have h1 := countP_le_counted hb inBody (by
    intro w hw; simp [inBody] at hw; simp [hw, exiting])
  have h2 := hb.count.threads
  have h3 := (C10_threads_le_max cfg n s hr).1
  omega

/-- **At most `max_threads` workers are serving the queue** (may still attempt a queue read). -/
theorem C10_serving_le_max (cfg : Config) (n : Nat) (s : State) (hr : Reach (init cfg n) s) :
    s.workers.countP serving ≤ cfg.max := by
  have hb := BaseInv_reach hr
  have h1 := countP_le_counted hb serving (by
    intro w hw
    unfold serving at hw
    cases hpc : w.pc <;> simp_all [exiting])
  have h2 := hb.count.threads
  have h3 := (C10_threads_le_max cfg n s hr).1
  omega

/-! Statements not (yet) proved — kept at full strength. -/

/-- Safety core of the progress claim (repaired accounting): while the pool is running and the controlling thread is not
    inside `start()`/`stop()`, the workers that are serving and hold no task are at least
    `min(#queued tasks, max − #workers holding a task)`: a queued task with spare capacity always has a free serving
    worker that will reach `queue.get`. -/
def C10_no_starvation_full_statement : Prop :=
  ∀ (cfg : Config) (n : Nat) (s : State), cfg.singleCtl = true → Reach (init cfg n) s → s.stop = false →
    (∀ c, s.clients[0]? = some c → (match c.pc with
        | .startClear | .startQsize | .stAcq _ | .stIsSet _ | .stRel _ => False | _ => True)) →
    (∀ c ∈ s.clients, cDepth c.pc = 0) →
    min (s.queue.countP isTask) (cfg.max - s.workers.countP wHasTask)
      ≤ s.workers.countP (fun w => serving w && !wHasTask w)

/-- Liveness reading: no stuck state below capacity + a decreasing measure under weak fairness (see DESIGN 3.6). -/
def C10_progress_full_statement : Prop :=
  ∀ (cfg : Config) (n : Nat) (s : State), cfg.singleCtl = true → Reach (init cfg n) s → s.stop = false →
    (∀ c ∈ s.clients, c.pc = .idle) → (∃ t, Item.task t ∈ s.queue) →
    (s.nbThreads < cfg.max ∨ ∃ w ∈ s.workers, serving w = true ∧ wHasTask w = false) →
    ∃ a s', (match a.op with | .taskEnd _ => False | _ => True) ∧ (match a.who with | .worker _ => True | _ => False) ∧
      step? s a = some s'

/-- From the return of `start()` until `stop()` is called at least `min_threads` workers serve the queue. -/
def C10_min_floor_full_statement : Prop :=
  ∀ (cfg : Config) (n : Nat) (s : State), cfg.singleCtl = true → cfg.min ≤ cfg.max → Reach (init cfg n) s → s.stop = false →
    (∀ c, s.clients[0]? = some c → (match c.pc with
        | .startClear | .startQsize | .stAcq _ | .stIsSet _ | .stRel _ => False | _ => True)) →
    cfg.min ≤ s.workers.countP serving

/-! ### extracted facts -/

theorem C10_gen_poolGrowthRule : Generated.poolGrowthRule = some growthRuleSpec := by decide
theorem C10_gen_poolSpawnRefusal : Generated.poolSpawnRefusal = some spawnRefusalSpec := by decide
theorem C10_gen_poolRetireRule : Generated.poolRetireRule = some retireRuleSpec := by decide
theorem C10_gen_poolPendingStores : Generated.poolPendingStores = some pendingStoresSpec := by decide
theorem C10_gen_poolClearDecrementsTasksOnly : Generated.poolClearDecrementsTasksOnly = some clearDecrementsTasksOnlySpec := by decide
theorem C10_gen_poolCtorDefaults : Generated.poolCtorDefaults = some ctorDefaultsSpec := by decide
theorem C10_gen_poolUnlockedAccesses : Generated.poolUnlockedAccesses = some unlockedAccessesSpec := by decide

end JRV.Props
