/-
  C10 — Pool concurrency is bounded by max_threads yet grows to it when work waits.

  Model: JRV.Model.Pool (labelled transition system of ThreadPool at synchronisation-operation granularity; `mkPool?`
  for the constructor).  Theorems quantify over every reachable state: any number of client threads, tasks and steps,
  every interleaving, every timing of the time-outs, with or without failing `Thread.start()` calls (`cfg.startMayFail`);
  the growth / floor / progress theorems assume that thread creation never fails (`cfg.startMayFail = false`), which is
  said in their statements.  Companion theorems of the extracted facts: JRV/Properties/C10Gen.lean.
-/
import JRV.Lemmas.PoolLock
import JRV.Lemmas.PoolC10
import JRV.Lemmas.PoolLock2

set_option linter.unusedSimpArgs false
set_option linter.unusedVariables false

namespace JRV.Props
open JRV JRV.Pool JRV.Pool.C10L

/-! ### constructor -/

/-- `max_threads` that `int()` rejects, or below 1, is rejected with `ValueError` — whatever the other arguments. -/
theorem C10_ctor_max_rejected (mx mn qs : Arg) (h : ∀ m, pyInt mx = .ok m → m < 1) :
    mkPool? mx mn qs = .error "ValueError" := by
  unfold mkPool?
  cases hm : pyInt mx with
  | error e => rfl
  | ok m => simp [h m hm]

/-- `min_threads` that `int()` rejects is rejected with `ValueError`. -/
theorem C10_ctor_min_rejected (mx mn qs : Arg) (m : Int) (hm : pyInt mx = .ok m) (h1 : 1 ≤ m)
    (e : IntErr) (hn : pyInt mn = .error e) : mkPool? mx mn qs = .error "ValueError" := by
  unfold mkPool?
  simp [hm, hn]

/-- Otherwise the pool is created with `max = int(max_threads)`, `min = int(min_threads)` clamped into `[0, max]`,
    and a queue bound that is `int(queue_size)` when positive and "unbounded" for anything else (junk included). -/
theorem C10_ctor_accepted (mx mn qs : Arg) (m n : Int) (hm : pyInt mx = .ok m) (h1 : 1 ≤ m) (hn : pyInt mn = .ok n) :
    ∃ cfg, mkPool? mx mn qs = .ok cfg ∧ (cfg.max : Int) = m ∧
      (cfg.min : Int) = (if n < 0 then 0 else if n > m then m else n) ∧ cfg.min ≤ cfg.max ∧ 1 ≤ cfg.max ∧
      (cfg.qbound : Int) = (match pyInt qs with | .ok q => if q ≤ 0 then 0 else q | .error _ => 0) := by
  unfold mkPool?
  simp only [hm, hn]
  have : ¬ m < 1 := by omega
  simp only [this, if_false]
  refine ⟨_, rfl, ?_, ?_, ?_, ?_, ?_⟩
  · simp; omega
  · simp; split <;> (try split) <;> omega
  · simp; split <;> (try split) <;> omega
  · simp; omega
  · cases pyInt qs with
    | error e => simp
    | ok q => simp; split <;> omega

/-- Non-finite sizes (`float('inf')`, `float('-inf')`, the literal `1e400`, `float('nan')`): `int()` raises OverflowError /
    ValueError, which the constructor catches like every other `int()` error — `max_threads` and `min_threads` are
    rejected with `ValueError`, a non-finite `queue_size` means "unbounded". -/
theorem C10_ctor_nonfinite (a b c : Arg) (neg : Bool) :
    mkPool? (.floatInf neg) b c = .error "ValueError" ∧ mkPool? .floatNan b c = .error "ValueError" ∧
    (∀ m, pyInt a = .ok m → 1 ≤ m →
      mkPool? a (.floatInf neg) c = .error "ValueError" ∧ mkPool? a .floatNan c = .error "ValueError" ∧
      (∀ n, pyInt b = .ok n →
        mkPool? a b (.floatInf neg) = mkPool? a b (.int 0) ∧ mkPool? a b .floatNan = mkPool? a b (.int 0) ∧
        ∃ cfg, mkPool? a b (.floatInf neg) = .ok cfg ∧ cfg.qbound = 0)) := by
  refine ⟨rfl, rfl, fun m hm h1 => ⟨?_, ?_, fun n hn => ⟨?_, ?_, ?_⟩⟩⟩
  · exact C10_ctor_min_rejected a _ c m hm h1 .overflowError rfl
  · exact C10_ctor_min_rejected a _ c m hm h1 .valueError rfl
  · unfold mkPool?; simp only [hm, hn]; rfl
  · unfold mkPool?; simp only [hm, hn]; rfl
  · have : ¬ m < 1 := by omega
    refine ⟨{ max := m.toNat, min := (if n < 0 then 0 else if n > m then m else n).toNat, qbound := 0 }, ?_, rfl⟩
    unfold mkPool?
    simp only [hm, hn, this, if_false]
    rfl

example : mkPool? (.floatInf false) (.int 1) (.int 0) = .error "ValueError" := by rfl
example : mkPool? (.int 2) .floatNan (.int 0) = .error "ValueError" := by rfl
example : mkPool? (.int 2) (.int 1) (.floatInf true) = .ok { max := 2, min := 1, qbound := 0 } := by rfl
example : mkPool? (.str (some 3)) (.float (-2)) (.str none) = .ok { max := 3, min := 0, qbound := 0 } := by rfl
example : mkPool? (.int 2) (.int 7) (.int 5) = .ok { max := 2, min := 2, qbound := 5 } := by rfl
example : mkPool? (.float 0) (.int 1) (.int 0) = .error "ValueError" := by rfl
example : mkPool? (.int 2) .none (.int 0) = .error "ValueError" := by rfl

/-! ### the counters are exact -/

/-- In every reachable state the three private counters equal what they are meant to count: `nb_threads` the workers
    that have not yet executed their decrement, `nb_active_threads` the workers between their two accounting sections,
    `nb_pending_task` the tasks in the queue plus the tasks taken and not yet accounted as finished. -/
theorem C10_counters_exact (cfg : Config) (n : Nat) (s : State) (hr : Reach (init cfg n) s) :
    s.nbThreads = s.workers.countP counted ∧ s.nbActive = s.workers.countP active ∧
    s.nbPending = s.queue.countP isTask + s.workers.countP wHasTask + s.clients.countP cHoldsTask :=
  let h := (BaseInv_reach hr).count
  ⟨h.threads, h.active, h.pending⟩

/-- **A failed `Thread.start()` leaves the accounting untouched.**  The failure branch of `__start_thread` (taken by
    `start()` at `stIsSet k` or by `enqueue` at `enqStIsSet`, flag clear, `Thread.start()` raises) changes nothing but the
    caller's program counter: `nb_threads`, the worker table, `_threads`, the queue and the pending count are those of the
    state before (`nb_threads += 1` is undone by the `except` arm — fact `poolStartRollback` —, the thread that failed to
    start is not listed and does not exist), the caller goes on to release the lock and `__start_thread` answers False.
    With `C10_counters_exact` (every reachable state, failures included): `nb_threads = #counted workers` survives. -/
theorem C10_start_failure_rollback (s s' : State) (i : Nat) (c : Client) (hc : s.clients[i]? = some c)
    (hpc : (∃ k, c.pc = .stIsSet k) ∨ c.pc = .enqStIsSet)
    (h : step? s ⟨.client i, .eventIsSet, true⟩ = some s') :
    s.cfg.startMayFail = true ∧ s.stop = false ∧
    s' = { s with clients := s.clients.set i { c with pc := match c.pc with | .stIsSet k => .stRel k | _ => .enqStRel } } ∧
    s'.nbThreads = s.nbThreads ∧ s'.workers = s.workers ∧ s'.threads = s.threads ∧ s'.nbPending = s.nbPending ∧
    s'.queue = s.queue := by
  simp only [step?, hc] at h
  rcases hpc with ⟨k, hpc⟩ | hpc <;> simp [clientStep, hpc] at h <;> obtain ⟨⟨h1, h2⟩, h⟩ := h <;> subst h <;>
    simp [h1, h2, setClient, hpc]

/-- Non-vacuity of `C10_start_failure_rollback` / `C10_counters_exact` across failures: `start()` of a pool with
    `min_threads = 2`: the first `Thread.start()` fails, the second succeeds — one worker, `nb_threads = 1`, `_threads`
    lists it; a later `enqueue` (pending 1 ≤ threads 1) does not need to grow. -/
example : ∃ s, run (init { max := 2, min := 2, qbound := 0, startMayFail := true } 1)
    [⟨.client 0, .callStart, false⟩, ⟨.client 0, .eventIsSet, false⟩, ⟨.client 0, .eventClear, false⟩,
     ⟨.client 0, .queueQsize, false⟩, ⟨.client 0, .lockAcquire, false⟩, ⟨.client 0, .eventIsSet, true⟩,
     ⟨.client 0, .lockRelease, false⟩, ⟨.client 0, .lockAcquire, false⟩, ⟨.client 0, .eventIsSet, false⟩,
     ⟨.client 0, .lockRelease, false⟩] = some s ∧
    s.nbThreads = 1 ∧ s.workers.countP counted = 1 ∧ s.threads = [0] ∧ s.clients.map (·.pc) = [.idle] ∧
    s.cfg.min = 2 ∧ s.stop = false := by
  refine ⟨_, rfl, ?_⟩; decide

/-! ### the bounds -/

/-- A worker is executing a task body. -/
def inBody (w : Worker) : Bool := w.pc == .body

/-- A worker that may still attempt a queue read: started, not on its way out (a worker past its retirement
    decrement, one that has seen the stop flag or taken a sentinel does not count). -/
def serving (w : Worker) : Bool :=
  match w.pc with
  | .sentDone | .retRelExit | .exitAcq | .exitRel | .dead => false
  | _ => !w.cleaned

private theorem countP_le_counted {s : State} (hI : BaseInv s) (p : Worker → Bool)
    (hp : ∀ w, p w = true → exiting w.pc = false ∧ w.pc ≠ .exitRel ∧ w.pc ≠ .dead) :
    s.workers.countP p ≤ s.workers.countP counted := by
  apply List.countP_mono_left
  intro w hw hpw
  obtain ⟨j, hj⟩ := List.getElem?_of_mem hw
  have hcl := hI.clean j w hj
  obtain ⟨h1, h2, h3⟩ := hp w hpw
  have hnc : w.cleaned = false := by
    cases hc : w.cleaned
    · rfl
    · rw [hcl hc] at h1; cases h1
  unfold counted
  cases hpc : w.pc <;> simp_all

/-- **At most `max_threads` workers exist that count in `nb_threads`**, in every reachable state. -/
theorem C10_threads_le_max (cfg : Config) (n : Nat) (s : State) (hr : Reach (init cfg n) s) :
    s.nbThreads ≤ cfg.max ∧ s.cfg = cfg := by
  have h := (SpawnInv_reach hr).le
  have hc : s.cfg = cfg := by
    refine Reach.induct (P := fun s => s.cfg = cfg) rfl ?_ s hr
    intro s a s' _ hI h
    unfold step? at h
    split at h
    · split at h
      · unfold workerStep at h; step_cases
        all_goals (simp only [setWorker, tdone, acq, rel, updTask]; exact hI)
      · simp at h
    · split at h
      · unfold clientStep at h; step_cases
        all_goals (simp only [setClient, tdone, acq, rel, updTask, put, spawnWorker, apply_ite State.cfg, ite_self]; exact hI)
      · simp at h
  rw [hc] at h
  exact ⟨h, hc⟩

/-- **At every instant at most `max_threads` tasks are executing**: the number of workers inside a task body is at
    most `max_threads` in every reachable state (every running task sits in exactly one such worker: `C09_single_holder`). -/
theorem C10_running_le_max (cfg : Config) (n : Nat) (s : State) (hr : Reach (init cfg n) s) :
    s.workers.countP inBody ≤ cfg.max := by
  have hb := BaseInv_reach hr
  have h1 := countP_le_counted hb inBody (by
    intro w hw; simp [inBody] at hw; simp [hw, exiting])
  have h2 := hb.count.threads
  have h3 := (C10_threads_le_max cfg n s hr).1
  omega

/-- **At most `max_threads` workers are serving the queue** (may still attempt a queue read). -/
theorem C10_serving_le_max (cfg : Config) (n : Nat) (s : State) (hr : Reach (init cfg n) s) :
    s.workers.countP serving ≤ cfg.max := by
  have hb := BaseInv_reach hr
  have h1 := countP_le_counted hb serving (by
    intro w hw
    unfold serving at hw
    cases hpc : w.pc <;> simp_all [exiting])
  have h2 := hb.count.threads
  have h3 := (C10_threads_le_max cfg n s hr).1
  omega

/-! ### growth: no starvation below capacity, and the floor

  Guards (all `Bool`-valued, each needed):
  * `cfg.startMayFail = false` — the environment assumption that `Thread.start()` never raises.  A failed start leaves
    the pool with fewer threads than it asked for (the counters stay exact: `C10_start_failure_rollback`), so nothing can
    be promised about growth; the example after `C10_start_failure_rollback` shows `min_threads = 2` with one worker.
  * `cfg.singleCtl = true` — `start`/`stop`/`clear` are issued by one controlling thread (client 0).  Two controllers
    could overlap a `stop()` with a `start()` and leave workers that have seen the stop flag counted in `nb_threads`.
  * `s.stop = false` — the pool is running (from `start()`'s `event.clear` to `stop()`'s `event.set`); once the flag is
    set workers leave and nothing is promised.
  * `inStart c.pc = false` for client 0 — `start()` has returned: it is not atomic (it clears the flag, reads
    `qsize()`, then spawns one worker per lock section), so between `event.clear` and its return fewer workers than
    `min(pending, max)` may exist.  (`C10_no_starvation_owed` covers that window too, counting the spawns still owed.)
  * `spawnOwed c.pc = false` for every client — no client is between `enqueue`'s `pending += 1` and the
    `__start_thread` it triggers (both inside one critical section of the pool lock, but two steps of the model).
  No guard is needed for `clear()`: a task it has taken from the queue and not yet accounted is counted in
  `nb_pending_task` but no longer queued, which only helps. -/

private theorem serving_of_fresh {w : Worker} (h : stale w = false) : serving w = counted w := by
  unfold stale at h; unfold serving counted
  cases hpc : w.pc <;> simp_all

private theorem counted_split {s : State} (hB : BaseInv s) (hR : FreshInv s) (hrun : s.stop = false) :
    s.workers.countP counted = s.workers.countP (fun w => serving w && !wHasTask w) + s.workers.countP wHasTask := by
  apply countP_split
  intro w hw
  obtain ⟨j, hj⟩ := List.getElem?_of_mem hw
  have h1 := serving_of_fresh (hR hrun j w hj)
  have h2 := wHasTask_counted hB hw
  cases hc : counted w <;> cases ht : wHasTask w <;> simp_all

private theorem serving_eq_threads {s : State} (hB : BaseInv s) (hR : FreshInv s) (hrun : s.stop = false) :
    s.workers.countP serving = s.nbThreads := by
  rw [hB.count.threads]
  apply List.countP_congr
  intro w hw
  obtain ⟨j, hj⟩ := List.getElem?_of_mem hw
  rw [serving_of_fresh (hR hrun j w hj)]

/-- General form, valid in every reachable state with the flag clear once `start()` has read the queue size — the
    windows of `start()` and `enqueue` included: the free serving workers **plus the spawns still owed** (`weight`: one
    per client between `enqueue`'s growth test and its `__start_thread`, the remaining iterations of `start()`) are at
    least `min(#queued tasks, max − #workers holding a task)`. -/
theorem C10_no_starvation_owed (cfg : Config) (n : Nat) (s : State) (hctl : cfg.singleCtl = true)
    (hnf : cfg.startMayFail = false)
    (hr : Reach (init cfg n) s) (hrun : s.stop = false) (hq : ∀ c ∈ s.clients, atQsize c = false) :
    min (s.queue.countP isTask) (cfg.max - s.workers.countP wHasTask)
      ≤ s.workers.countP (fun w => serving w && !wHasTask w) + (s.clients.map weight).sum := by
  have hB := BaseInv_reach hr
  have hK := CtlBundle_reach hctl hr
  have hG := (GrowInv_reach hctl hr).grow (by rw [reach_cfg hr]; exact hnf) hrun (by
    rw [List.countP_eq_zero]; intro c hc; simp [hq c hc])
  rw [reach_cfg hr] at hG
  have h1 := counted_split hB hK.fresh hrun
  have h2 := hB.count.threads
  have h3 := hB.count.pending
  omega

/-- **No starvation below capacity** (safety core of the progress claim): in every reachable state in which the pool is
    running, `start()` has returned and no client is between `enqueue`'s growth test and its spawn, the serving workers
    that hold no task are at least `min(#queued tasks, max − #workers holding a task)`.  Hence whenever a task is queued
    and fewer than `max_threads` workers hold a task, some serving worker holds none; such a worker is at the loop head,
    at `queue.get`, or in its accounting/retirement section, and it retires only when `nb_threads > nb_pending`, i.e.
    when this inequality survives its leaving. -/
theorem C10_no_starvation (cfg : Config) (n : Nat) (s : State) (hctl : cfg.singleCtl = true)
    (hnf : cfg.startMayFail = false)
    (hr : Reach (init cfg n) s) (hrun : s.stop = false)
    (hstart : ∀ c, s.clients[0]? = some c → inStart c.pc = false)
    (hspawn : ∀ c ∈ s.clients, spawnOwed c.pc = false) :
    min (s.queue.countP isTask) (cfg.max - s.workers.countP wHasTask)
      ≤ s.workers.countP (fun w => serving w && !wHasTask w) := by
  have hK := CtlBundle_reach hctl hr
  have hns := no_client_inStart hK.ctl hstart
  have h := C10_no_starvation_owed cfg n s hctl hnf hr hrun (fun c hc => atQsize_inStart (hns c hc))
  rw [sum_map_eq_zero weight s.clients (fun c hc => weight_zero (hns c hc) (hspawn c hc))] at h
  exact h

/-- The statement as first written (no client holds the pool lock): a special case. -/
theorem C10_no_starvation_unlocked (cfg : Config) (n : Nat) (s : State) (hctl : cfg.singleCtl = true)
    (hnf : cfg.startMayFail = false)
    (hr : Reach (init cfg n) s) (hrun : s.stop = false)
    (hstart : ∀ c, s.clients[0]? = some c → inStart c.pc = false)
    (hlock : ∀ c ∈ s.clients, cDepth c.pc = 0) :
    min (s.queue.countP isTask) (cfg.max - s.workers.countP wHasTask)
      ≤ s.workers.countP (fun w => serving w && !wHasTask w) := by
  refine C10_no_starvation cfg n s hctl hnf hr hrun hstart (fun c hc => ?_)
  have := hlock c hc
  unfold spawnOwed; unfold cDepth at this
  cases hpc : c.pc <;> simp_all

/-- A queued task with spare capacity has a free serving worker. -/
theorem C10_free_worker_exists (cfg : Config) (n : Nat) (s : State) (hctl : cfg.singleCtl = true)
    (hnf : cfg.startMayFail = false)
    (hr : Reach (init cfg n) s) (hrun : s.stop = false)
    (hstart : ∀ c, s.clients[0]? = some c → inStart c.pc = false)
    (hspawn : ∀ c ∈ s.clients, spawnOwed c.pc = false)
    (t : Nat) (ht : Item.task t ∈ s.queue) (hcap : s.workers.countP wHasTask < cfg.max) :
    ∃ w ∈ s.workers, serving w = true ∧ wHasTask w = false := by
  have h := C10_no_starvation cfg n s hctl hnf hr hrun hstart hspawn
  have hq : 0 < s.queue.countP isTask := List.countP_pos_iff.mpr ⟨_, ht, rfl⟩
  have : 0 < s.workers.countP (fun w => serving w && !wHasTask w) := by omega
  obtain ⟨w, hw, hp⟩ := List.countP_pos_iff.mp this
  exact ⟨w, hw, by simpa using hp⟩

/-- **The floor**: from the return of `start()` until `stop()` sets the flag, at least `min_threads` workers serve the
    queue (`min_threads ≤ max_threads` is what the constructor guarantees: `C10_ctor_accepted`). -/
theorem C10_min_floor (cfg : Config) (n : Nat) (s : State) (hctl : cfg.singleCtl = true)
    (hnf : cfg.startMayFail = false) (hmm : cfg.min ≤ cfg.max)
    (hr : Reach (init cfg n) s) (hrun : s.stop = false)
    (hstart : ∀ c, s.clients[0]? = some c → inStart c.pc = false) :
    cfg.min ≤ s.workers.countP serving := by
  have hB := BaseInv_reach hr
  have hK := CtlBundle_reach hctl hr
  have hns := no_client_inStart hK.ctl hstart
  have hG := (GrowInv_reach hctl hr).floor (by rw [reach_cfg hr]; exact hnf) hrun (by
    rw [List.countP_eq_zero]; intro c hc; simp [atQsize_inStart (hns c hc)])
  rw [reach_cfg hr, sum_map_eq_zero startWeight s.clients (fun c hc => startWeight_zero (hns c hc))] at hG
  rw [serving_eq_threads hB hK.fresh hrun]
  omega

/-- While the flag is clear, the workers serving the queue are exactly those counted in `nb_threads`. -/
theorem C10_serving_eq_threads (cfg : Config) (n : Nat) (s : State) (hctl : cfg.singleCtl = true)
    (hr : Reach (init cfg n) s) (hrun : s.stop = false) : s.workers.countP serving = s.nbThreads :=
  serving_eq_threads (BaseInv_reach hr) (CtlBundle_reach hctl hr).fresh hrun

/-- A run of the model used by the non-vacuity examples: `start()` (min 1, max 2: one worker), `enqueue` (no growth
    needed), the worker takes the task, a second `enqueue` grows the pool (pending 2 > threads 1). -/
def exampleRun : List Action :=
  [⟨.client 0, .callStart, false⟩, ⟨.client 0, .eventIsSet, false⟩, ⟨.client 0, .eventClear, false⟩,
   ⟨.client 0, .queueQsize, false⟩, ⟨.client 0, .lockAcquire, false⟩, ⟨.client 0, .eventIsSet, false⟩,
   ⟨.client 0, .lockRelease, false⟩,
   ⟨.client 1, .callEnqueue, false⟩, ⟨.client 1, .lockAcquire, false⟩, ⟨.client 1, .queuePut, false⟩,
   ⟨.client 1, .lockRelease, false⟩,
   ⟨.worker 0, .eventIsSet, false⟩, ⟨.worker 0, .queueGet, false⟩,
   ⟨.client 1, .callEnqueue, false⟩, ⟨.client 1, .lockAcquire, false⟩, ⟨.client 1, .queuePut, false⟩,
   ⟨.client 1, .lockAcquire, false⟩, ⟨.client 1, .eventIsSet, false⟩, ⟨.client 1, .lockRelease, false⟩,
   ⟨.client 1, .lockRelease, false⟩]

/-- Non-vacuity of `C10_no_starvation` / `C10_free_worker_exists` / `C10_min_floor` / `C10_serving_eq_threads`: the
    guards hold in a reachable state with one queued task, one worker holding a task and one free serving worker
    (`min(1, 2 − 1) = 1 ≤ 1`, the bound is tight). -/
example : ∃ s, run (init { max := 2, min := 1, qbound := 0 } 2) exampleRun = some s ∧
    s.stop = false ∧ s.clients.all (fun c => !inStart c.pc && !spawnOwed c.pc && cDepth c.pc == 0) = true ∧
    s.queue = [.task 1] ∧ s.workers.countP wHasTask = 1 ∧
    s.workers.countP (fun w => serving w && !wHasTask w) = 1 ∧ s.workers.countP serving = 2 ∧ s.nbThreads = 2 := by
  refine ⟨_, rfl, ?_⟩; decide

/-- The `inStart` guard is needed: a task enqueued before `start()` (no spawn: the pool is stopped) is queued, the flag is
    clear, no client is inside `enqueue`, and no worker exists yet while `start()` is between its queue-size read and
    its first spawn — the spawn is owed (`weight` 1), as `C10_no_starvation_owed` says. -/
example : ∃ s, run (init { max := 2, min := 1, qbound := 0 } 2)
    [⟨.client 1, .callEnqueue, false⟩, ⟨.client 1, .lockAcquire, false⟩, ⟨.client 1, .queuePut, false⟩,
     ⟨.client 1, .lockAcquire, false⟩, ⟨.client 1, .eventIsSet, false⟩, ⟨.client 1, .lockRelease, false⟩,
     ⟨.client 1, .lockRelease, false⟩,
     ⟨.client 0, .callStart, false⟩, ⟨.client 0, .eventIsSet, false⟩, ⟨.client 0, .eventClear, false⟩,
     ⟨.client 0, .queueQsize, false⟩] = some s ∧
    s.stop = false ∧ s.clients.all (fun c => !atQsize c && !spawnOwed c.pc) = true ∧
    s.queue.countP isTask = 1 ∧ s.workers.countP wHasTask = 0 ∧
    s.workers.countP (fun w => serving w && !wHasTask w) = 0 ∧ (s.clients.map weight).sum = 1 := by
  refine ⟨_, rfl, ?_⟩; decide

/-- Non-vacuity of `C10_no_starvation_owed` (and the `spawnOwed` guard is needed): inside `enqueue`'s window (after the put that makes pending 2 > threads 1,
    before the spawn) the free serving workers are 0, the spawn owed is 1, and `min(1, 2 − 1) = 1`. -/
example : ∃ s, run (init { max := 2, min := 1, qbound := 0 } 2) (exampleRun.take 16) = some s ∧
    s.stop = false ∧ s.clients.all (fun c => !atQsize c) = true ∧
    s.queue.countP isTask = 1 ∧ s.workers.countP wHasTask = 1 ∧
    s.workers.countP (fun w => serving w && !wHasTask w) = 0 ∧ (s.clients.map weight).sum = 1 := by
  refine ⟨_, rfl, ?_⟩; decide

/-! ### progress: no stuck state below capacity -/

/-- Operations of a worker that are not the environment's (`task.end`: the task body returning or raising). -/
def internalOp (op : Op) : Bool :=
  match op with
  | .taskEnd _ => false
  | _ => true

/-- The free serving worker's next operation: where it is on its way to `queue.get`. -/
def distToGet (pc : WPc) : Nat :=
  match pc with
  | .get => 0
  | .loopHead => 1
  | .retRel => 2
  | .retAcq => 3
  | .finRel => 4
  | _ => 5

private theorem release_enabled {s : State} (hL : LockInv s) (k : Nat) (ho : s.lockOwner = some (.worker k)) :
    ∃ s', step? s ⟨.worker k, .lockRelease, false⟩ = some s' := by
  obtain ⟨w, hw, hd⟩ := hL.ownW k ho
  obtain ⟨_, hdep⟩ := hL.wk k w hw hd
  have hrel : canRelease s (.worker k) = true := by simp [canRelease, ho, hdep]
  unfold wDepth at hd
  apply Option.isSome_iff_exists.mp
  cases hpc : w.pc <;> simp [hpc] at hd <;> simp [step?, hw, workerStep, hpc, hrel]

/-- **No stuck state below capacity.**  In every reachable running state in which no client holds the pool lock and
    `start()` has returned, if a task is queued and either fewer than `max_threads` workers are counted or a free serving
    worker exists, then there is a serving worker `k` holding no task, and either `k`'s own next (non-time-out,
    non-environment) operation is enabled, or the pool lock is held by a worker whose `lock.release` is enabled.  No
    `task.end` — no running task finishing — is needed for the pool to move towards `queue.get`. -/
theorem C10_progress_no_stuck_worker (cfg : Config) (n : Nat) (s : State) (hctl : cfg.singleCtl = true)
    (hnf : cfg.startMayFail = false)
    (hr : Reach (init cfg n) s) (hrun : s.stop = false)
    (hstart : ∀ c, s.clients[0]? = some c → inStart c.pc = false)
    (hlock : ∀ c ∈ s.clients, cDepth c.pc = 0)
    (hq : ∃ t, Item.task t ∈ s.queue)
    (hcap : s.nbThreads < cfg.max ∨ ∃ w ∈ s.workers, serving w = true ∧ wHasTask w = false) :
    ∃ (k : Nat) (w : Worker), s.workers[k]? = some w ∧ serving w = true ∧ wHasTask w = false ∧
      ((∃ op s', internalOp op = true ∧ step? s ⟨.worker k, op, false⟩ = some s') ∨
       (∃ k' s', s.lockOwner = some (.worker k') ∧ step? s ⟨.worker k', .lockRelease, false⟩ = some s')) := by
  have hB := BaseInv_reach hr
  have hL := LockInv_reach hr
  have hT := TaskInv_reach hr
  obtain ⟨t, ht⟩ := hq
  have hfree : ∃ w ∈ s.workers, serving w = true ∧ wHasTask w = false := by
    rcases hcap with hlt | h
    · refine C10_free_worker_exists cfg n s hctl hnf hr hrun hstart (fun c hc => ?_) t ht ?_
      · have := hlock c hc
        unfold spawnOwed; unfold cDepth at this
        cases hpc : c.pc <;> simp_all
      · have := hasTask_le_threads hB; omega
    · exact h
  obtain ⟨w, hwm, hs, hnt⟩ := hfree
  obtain ⟨k, hk⟩ := List.getElem?_of_mem hwm
  refine ⟨k, w, hk, hs, hnt, ?_⟩
  cases ho : s.lockOwner with
  | some who =>
    cases who with
    | client j =>
      obtain ⟨c, hc, hd⟩ := hL.ownC j ho
      exact absurd (hlock c (List.mem_of_getElem? hc)) hd
    | worker k' =>
      obtain ⟨s', hs'⟩ := release_enabled hL k' ho
      exact Or.inr ⟨k', s', rfl, hs'⟩
  | none =>
    left
    have hnl : wDepth w.pc = 0 := by
      cases hd : wDepth w.pc with
      | zero => rfl
      | succ m =>
        have := (hL.wk k w hk (by omega)).1
        rw [ho] at this; cases this
    have hacq : canAcquire s (.worker k) = true := by simp [canAcquire, ho]
    unfold serving at hs; unfold wHasTask at hnt; unfold wDepth at hnl
    cases hpc : w.pc <;> simp [hpc] at hs hnt hnl
    · -- loopHead
      obtain ⟨s', hs'⟩ := Option.isSome_iff_exists.mp
        (show (step? s ⟨.worker k, .eventIsSet, false⟩).isSome by simp [step?, hk, workerStep, hpc])
      exact ⟨.eventIsSet, s', rfl, hs'⟩
    · -- get
      cases hqu : s.queue with
      | nil => rw [hqu] at ht; cases ht
      | cons it rest =>
        cases it with
        | sentinel =>
          obtain ⟨s', hs'⟩ := Option.isSome_iff_exists.mp
            (show (step? s ⟨.worker k, .queueGet, false⟩).isSome by simp [step?, hk, workerStep, hpc, hqu])
          exact ⟨.queueGet, s', rfl, hs'⟩
        | task t0 =>
          obtain ⟨tk, htk, _⟩ := hT.qphase t0 (by rw [hqu]; simp)
          have hlt : t0 < s.tasks.length := (List.getElem?_eq_some_iff.mp htk).1
          obtain ⟨s', hs'⟩ := Option.isSome_iff_exists.mp
            (show (step? s ⟨.worker k, .queueGet, false⟩).isSome by simp [step?, hk, workerStep, hpc, hqu, hlt])
          exact ⟨.queueGet, s', rfl, hs'⟩
    · -- retAcq
      obtain ⟨s', hs'⟩ := Option.isSome_iff_exists.mp
        (show (step? s ⟨.worker k, .lockAcquire, false⟩).isSome by
          cases hret : retires s <;> simp [step?, hk, workerStep, hpc, hacq, hret])
      exact ⟨.lockAcquire, s', rfl, hs'⟩

/-- The no-stuck statement as an action: no client inside a critical section of the pool lock (other client threads may
    be anywhere in `join()`, `join(t)`, `result(t)`, or waiting for the lock at the start of `enqueue`) and `start()`
    returned — some worker has an enabled operation that is neither a time-out nor the end of a task body.  (The form
    first written asked for every client to be idle: the special case `c.pc = .idle`, for which both hypotheses hold.) -/
theorem C10_progress_no_stuck (cfg : Config) (n : Nat) (s : State) (hctl : cfg.singleCtl = true)
    (hnf : cfg.startMayFail = false)
    (hr : Reach (init cfg n) s) (hrun : s.stop = false)
    (hstart : ∀ c, s.clients[0]? = some c → inStart c.pc = false)
    (hlock : ∀ c ∈ s.clients, cDepth c.pc = 0)
    (hq : ∃ t, Item.task t ∈ s.queue)
    (hcap : s.nbThreads < cfg.max ∨ ∃ w ∈ s.workers, serving w = true ∧ wHasTask w = false) :
    ∃ a s', a.timeout = false ∧ internalOp a.op = true ∧ (∃ k, a.who = .worker k) ∧ step? s a = some s' := by
  have h := C10_progress_no_stuck_worker cfg n s hctl hnf hr hrun hstart hlock hq hcap
  obtain ⟨k, w, _, _, _, h⟩ := h
  rcases h with ⟨op, s', hop, hst⟩ | ⟨k', s', _, hst⟩
  · exact ⟨⟨.worker k, op, false⟩, s', rfl, hop, ⟨k, rfl⟩, hst⟩
  · exact ⟨⟨.worker k', .lockRelease, false⟩, s', rfl, rfl, ⟨k', rfl⟩, hst⟩

/-- **The measure.**  Every non-time-out step of a serving worker that holds no task, while the stop flag is clear,
    either takes an item from the queue (at `queue.get`), or is the retirement decrement — possible only when
    `nb_threads > nb_pending` and `nb_threads > min_threads`, so that `C10_no_starvation` and `C10_min_floor` still hold
    afterwards (they hold in every reachable state) — or leaves the worker serving without a task and exactly one
    operation closer to `queue.get` (`distToGet` ≤ 4).  With `C10_progress_no_stuck_worker` (the worker's operation, or
    the lock holder's release — after which the lock is free — is enabled) this is the decreasing-measure argument:
    under weak fairness a queued task below capacity is taken after at most 4 own steps of a free serving worker,
    without any `task.end`. -/
theorem C10_progress_measure (s s' : State) (k : Nat) (w : Worker) (op : Op) (hk : s.workers[k]? = some w)
    (hrun : s.stop = false) (hs : serving w = true) (hnt : wHasTask w = false)
    (h : step? s ⟨.worker k, op, false⟩ = some s') :
    ∃ w', s'.workers[k]? = some w' ∧
      ((w.pc = .get ∧ (wHasTask w' = true ∨ w'.pc = .sentDone)) ∨
       (w.pc = .retAcq ∧ s.nbThreads > s.nbPending ∧ s.nbThreads > s.cfg.min ∧ w'.pc = .retRelExit) ∨
       (serving w' = true ∧ wHasTask w' = false ∧ distToGet w'.pc + 1 = distToGet w.pc)) := by
  have hlt : k < s.workers.length := (List.getElem?_eq_some_iff.mp hk).1
  simp only [step?, hk] at h
  unfold workerStep at h
  step_cases
  all_goals (
    refine ⟨_, List.getElem?_set_self hlt, ?_⟩
    simp_all [serving, wHasTask, distToGet, retires])

/-- Non-vacuity of `C10_progress_no_stuck(_worker)` and `C10_progress_measure`: in the same state every client is idle,
    a task is queued, worker 1 is serving without a task (at the loop head, `distToGet = 1`) and its `event.is_set` is
    enabled; after it the worker is at `queue.get` (`distToGet = 0`). -/
example : ∃ s s', run (init { max := 2, min := 1, qbound := 0 } 2) exampleRun = some s ∧
    s.stop = false ∧ s.clients.all (fun c => c.pc == .idle) = true ∧ Item.task 1 ∈ s.queue ∧
    (s.workers.map (fun w => (serving w, wHasTask w, distToGet w.pc))) = [(true, true, 5), (true, false, 1)] ∧
    step? s ⟨.worker 1, .eventIsSet, false⟩ = some s' ∧
    (s'.workers.map (fun w => (serving w, wHasTask w, distToGet w.pc))) = [(true, true, 5), (true, false, 0)] := by
  refine ⟨_, _, rfl, ?_, ?_, ?_, ?_, rfl, ?_⟩ <;> decide

/-! Statement not proved — kept at full strength.

  The liveness reading of the progress claim over infinite runs.  The model has no notion of fairness, and the pool
  lock needs *strong* fairness per operation (a worker waiting for the lock is enabled only intermittently; CPython's
  lock gives no more).  What is proved above is its safety skeleton, in every reachable state: a free serving worker
  exists (`C10_no_starvation`), it or the lock holder can move without any `task.end` (`C10_progress_no_stuck_worker`),
  and each of its steps brings it closer to `queue.get`, or is a retirement that preserves the inequality
  (`C10_progress_measure`).  Missing: the induction over a fair run that turns these into "eventually taken" (it also
  needs: after finitely many steps no worker is spawned or retires while the head task waits). -/

/-- The beginning of an API call: the client program's choice, not a step the scheduler owes. -/
def isCallOp (op : Op) : Bool :=
  match op with
  | .callStart | .callStop | .callClear | .callJoin | .callJoinT | .callEnqueue | .callWait _ | .callDone _ => true
  | _ => false

/-- On every infinite run that is strongly fair for each operation of each thread that is neither a time-out, nor the
    beginning of an API call, nor a `task.end`, a task at
    the head of the queue of a running pool whose `start()` has returned, with fewer than `max_threads` workers holding
    a task for as long as it waits, is eventually removed from the queue (taken by a worker, or dropped by `clear()`)
    — whether or not any running task ever finishes. -/
def C10_liveness_full_statement : Prop :=
  ∀ (cfg : Config) (n : Nat) (σ : Nat → State) (α : Nat → Action), cfg.singleCtl = true → cfg.startMayFail = false →
    σ 0 = init cfg n → (∀ i, step? (σ i) (α i) = some (σ (i + 1))) →
    (∀ (who : Tid) (op : Op) (i : Nat), internalOp op = true → isCallOp op = false →
      (∀ j, i ≤ j → ∃ j', j ≤ j' ∧ (step? (σ j') ⟨who, op, false⟩).isSome = true) →
      ∃ j, i ≤ j ∧ α j = ⟨who, op, false⟩) →
    ∀ (i t : Nat) (rest : List Item), (σ i).queue = .task t :: rest →
      (∀ j, i ≤ j → (σ j).stop = false) →
      (∀ c, (σ i).clients[0]? = some c → inStart c.pc = false) →
      (∀ j, i ≤ j → Item.task t ∈ (σ j).queue → (σ j).workers.countP wHasTask < cfg.max) →
      ∃ j, i ≤ j ∧ Item.task t ∉ (σ j).queue

/-- The progress claim at full strength, under the name the README asks for: `C10_progress_no_stuck(_worker)` and
    `C10_progress_measure` are its safety skeleton in states whose clients are outside the critical sections; what is
    missing is a per-task measure that the steps of *other client threads* (concurrent `enqueue`s taking the lock,
    `start()` still spawning) do not increase, and the induction over a fair run. -/
def C10_progress_full_statement : Prop := C10_liveness_full_statement

end JRV.Props
