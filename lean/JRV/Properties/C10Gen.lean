/-
  C10 — companion theorems of the facts extracted from jsonrpclib/threadpool.py (tools/extractors/pool.py): each relates
  one `Generated.<fact>` to the constant of JRV.Model.Pool that the steps of the model encode.  Kept apart from
  JRV/Properties/C10.lean so that a source edit that changes one fact fails that companion only.
-/
import JRV.Model.Pool
import JRV.Generated

namespace JRV.Props
open JRV JRV.Pool

theorem C10_gen_poolGrowthRule : Generated.poolGrowthRule = some growthRuleSpec := by decide
theorem C10_gen_poolSpawnRefusal : Generated.poolSpawnRefusal = some spawnRefusalSpec := by decide
theorem C10_gen_poolRetireRule : Generated.poolRetireRule = some retireRuleSpec := by decide
theorem C10_gen_poolPendingStores : Generated.poolPendingStores = some pendingStoresSpec := by decide
theorem C10_gen_poolClearDecrementsTasksOnly : Generated.poolClearDecrementsTasksOnly = some clearDecrementsTasksOnlySpec := by decide
theorem C10_gen_poolCtorDefaults : Generated.poolCtorDefaults = some ctorDefaultsSpec := by decide
theorem C10_gen_poolUnlockedAccesses : Generated.poolUnlockedAccesses = some unlockedAccessesSpec := by decide
/-- `mkPool?` treats every `int()` error alike: the three `try` blocks catch TypeError, ValueError and OverflowError. -/
theorem C10_gen_poolCtorCatches : Generated.poolCtorCatches = some ctorCatchesSpec := by decide
/-- The failure branch of `__start_thread` in the model leaves `nb_threads` and `_threads` unchanged: the `except` arm
    undoes the increment and the append comes after `start()`. -/
theorem C10_gen_poolStartRollback : Generated.poolStartRollback = some startRollbackSpec := by decide
/-- The worker's `except Exception` handler cannot raise on a task without `__name__`. -/
theorem C10_gen_poolRunHandlerSafe : Generated.poolRunHandlerSafe = some runHandlerSafeSpec := by decide
/-- `stop()` and `enqueue()` put into the queue with a blocking, timed `put` (the model's `stopPut` / `enqPut` steps): on
    a bounded queue every listed worker gets its stop marker as soon as there is room for it. -/
theorem C10_gen_poolQueuePuts : Generated.poolQueuePuts = some queuePutsSpec := by decide

end JRV.Props
