/-
  C11 — join() means finished; stop() always terminates; the pool is restartable.
  Model: JRV.Model.Pool.  Theorems over every reachable state (all interleavings, programs, timings).
  `C11_stop_no_stuck` assumes, and says so, that the pool was built with a finite `timeout` (`cfg.timeoutNone = false`):
  with `timeout=None` (accepted unvalidated by the constructor) `stop()` can block for ever in its `queue.put` — see the
  example after it.  Companion theorems of the extracted facts: JRV/Properties/C11Gen.lean.
-/
import JRV.Lemmas.PoolTask2
import JRV.Lemmas.PoolC11
import JRV.Lemmas.PoolC11Join
import JRV.Lemmas.PoolC11Marker

set_option linter.unusedSimpArgs false
set_option linter.unusedVariables false

namespace JRV.Props
open JRV JRV.Pool JRV.Pool.C11L

/-- A task that has been accepted and is neither finished nor dropped by `clear()`. -/
def unfinishedTask (tk : Task) : Bool :=
  match tk.phase with
  | .queued | .held | .running => true
  | _ => false

/-- **`join()` returns `True` only when every accepted task has finished**: the last step of `join()` (`Queue.join`
    returning) is enabled only in a state where no task is queued, held by a worker or running — every task accepted
    before the call (indeed before the return) is finished, or was dropped by a `clear()`/`stop()`. -/
theorem C11_join_true (cfg : Config) (n : Nat) (s s' : State) (hr : Reach (init cfg n) s)
    (i : Nat) (c : Client) (hc : s.clients[i]? = some c) (hpc : c.pc = .joinQ)
    (h : step? s ⟨.client i, .queueJoin, false⟩ = some s') :
    s'.clients[i]? = some { pc := .idle, ret := .bool true } ∧ s'.tasks = s.tasks ∧
    ∀ (t : Nat) (tk : Task), s'.tasks[t]? = some tk → unfinishedTask tk = false := by
  have hlt : i < s.clients.length := (List.getElem?_eq_some_iff.mp hc).1
  simp only [step?, hc, clientStep, hpc] at h
  split at h
  · rename_i hu
    simp at h; subst h
    refine ⟨by simp [setClient, hlt], rfl, fun t tk ht => ?_⟩
    have := unfinished_zero_tasks hr hu t tk ht
    unfold unfinishedTask
    rcases this with h1 | h1 | h1 <;> simp [h1]
  · simp at h

/-- **`join(t)`**: its returning step (`cond.acquire` when nothing is unfinished, else the `cond.wait` that was notified
    or timed out — at any moment) yields `True` only when every accepted task has finished (or was dropped), and `False`
    only when the unfinished count is non-zero, i.e. an item is still queued or taken and not yet `task_done`. -/
theorem C11_join_timeout (cfg : Config) (n : Nat) (s s' : State) (hr : Reach (init cfg n) s)
    (i : Nat) (c : Client) (hc : s.clients[i]? = some c) (op : Op) (tmo : Bool)
    (hpc : c.pc = .jtAcq ∨ ∃ b, c.pc = .jtWait b)
    (h : step? s ⟨.client i, op, tmo⟩ = some s') (c' : Client) (hc' : s'.clients[i]? = some c') (hidle : c'.pc = .idle) :
    s'.tasks = s.tasks ∧ s'.unfinished = s.unfinished ∧ s'.queue = s.queue ∧ s'.workers = s.workers ∧
    ((c'.ret = .bool true ∧ ∀ (t : Nat) (tk : Task), s'.tasks[t]? = some tk → unfinishedTask tk = false) ∨
     (c'.ret = .bool false ∧ s'.unfinished ≠ 0 ∧
        (s'.queue ≠ [] ∨ (∃ w ∈ s'.workers, wHoldsItem w = true) ∨ ∃ c ∈ s.clients, cHoldsItem c = true))) := by
  have hlt : i < s.clients.length := (List.getElem?_eq_some_iff.mp hc).1
  have key : ∀ (s1 : State), s1 = s → ∀ b, b = (s.unfinished == 0) →
      (b = true ∧ ∀ (t : Nat) (tk : Task), s.tasks[t]? = some tk → unfinishedTask tk = false) ∨
      (b = false ∧ s.unfinished ≠ 0 ∧
        (s.queue ≠ [] ∨ (∃ w ∈ s.workers, wHoldsItem w = true) ∨ ∃ c ∈ s.clients, cHoldsItem c = true)) := by
    intro s1 _ b hb
    by_cases hu : s.unfinished = 0
    · left
      refine ⟨by simp [hb, hu], fun t tk ht => ?_⟩
      have := unfinished_zero_tasks hr hu t tk ht
      unfold unfinishedTask
      rcases this with h1 | h1 | h1 <;> simp [h1]
    · right
      refine ⟨by simp [hb, hu], hu, ?_⟩
      have hU := (BaseInv_reach hr).unf
      unfold UnfInv at hU
      by_cases hq : s.queue = []
      · right
        rw [hq] at hU; simp at hU
        by_cases hw0 : s.workers.countP wHoldsItem = 0
        · right
          have : 0 < s.clients.countP cHoldsItem := by omega
          obtain ⟨x, hx, hp⟩ := List.countP_pos_iff.mp this
          exact ⟨x, hx, hp⟩
        · left
          have : 0 < s.workers.countP wHoldsItem := by omega
          obtain ⟨x, hx, hp⟩ := List.countP_pos_iff.mp this
          exact ⟨x, hx, hp⟩
      · exact Or.inl hq
  simp only [step?, hc] at h
  have shape : ∃ r, s' = setClient s i { pc := .idle, ret := .bool r } ∧ (r = (s.unfinished == 0)) := by
    rcases hpc with hpc | ⟨b0, hpc⟩
    · cases op <;> cases tmo <;> simp [clientStep, hpc] at h
      subst h
      by_cases hu : s.unfinished = 0
      · exact ⟨true, by simp [hu], by simp [hu]⟩
      · simp [setClient, hlt, hu] at hc'; subst hc'; simp at hidle
    · cases op <;> cases tmo <;> simp [clientStep, hpc] at h
      · obtain ⟨_, h⟩ := h; subst h; exact ⟨_, rfl, rfl⟩
      · subst h; exact ⟨_, rfl, rfl⟩
  obtain ⟨r, rfl, hr'⟩ := shape
  simp [setClient, hlt] at hc'
  subst hc'
  refine ⟨rfl, rfl, rfl, rfl, ?_⟩
  have := key s rfl r hr'
  simpa [setClient] using this

/-- Non-vacuity: a pool with one running task; `join(t)` times out and answers `False`. -/
example : ∃ s, run (init { max := 1, min := 1, qbound := 0 } 2)
    [⟨.client 0, .callEnqueue, false⟩, ⟨.client 0, .lockAcquire, false⟩, ⟨.client 0, .queuePut, false⟩,
     ⟨.client 1, .callJoinT, false⟩, ⟨.client 1, .condAcquire, false⟩, ⟨.client 1, .condWait, true⟩] = some s ∧
    (s.clients.map (·.ret)) = [.none, .bool false] := by
  refine ⟨_, rfl, ?_⟩; rfl

/-- **`start()` on a running pool is a no-op**: the whole call is one operation (`event.is_set`) and leaves every
    component of the state unchanged except the caller's own call record (which is idle again, having returned `None`). -/
theorem C11_idempotent_start (s : State) (i : Nat) (c : Client) (hc : s.clients[i]? = some c) (hpc : c.pc = .idle)
    (hrun : s.stop = false) (hctl : isCtl s i = true) :
    run s [⟨.client i, .callStart, false⟩, ⟨.client i, .eventIsSet, false⟩]
      = some { s with clients := s.clients.set i { pc := .idle, ret := .unit } } := by
  have hlt : i < s.clients.length := (List.getElem?_eq_some_iff.mp hc).1
  have h1 : step? s ⟨.client i, .callStart, false⟩ = some (setClient s i { pc := .startIsSet, ret := .none }) := by
    simp only [step?, hc, clientStep, hpc, hctl, if_true]
  have hc2 : (setClient s i { pc := .startIsSet, ret := .none }).clients[i]? = some { pc := .startIsSet, ret := .none } := by
    simp [setClient, hlt]
  have h2 : step? (setClient s i { pc := .startIsSet, ret := .none }) ⟨.client i, .eventIsSet, false⟩
      = some { s with clients := s.clients.set i { pc := .idle, ret := .unit } } := by
    simp only [step?, hc2, clientStep]
    simp [setClient, hrun, List.set_set]
  simp only [run, h1, h2]

/-- **`stop()` on a stopped pool is a no-op** (same shape). -/
theorem C11_idempotent_stop (s : State) (i : Nat) (c : Client) (hc : s.clients[i]? = some c) (hpc : c.pc = .idle)
    (hstopped : s.stop = true) (hctl : isCtl s i = true) :
    run s [⟨.client i, .callStop, false⟩, ⟨.client i, .eventIsSet, false⟩]
      = some { s with clients := s.clients.set i { pc := .idle, ret := .unit } } := by
  have hlt : i < s.clients.length := (List.getElem?_eq_some_iff.mp hc).1
  have h1 : step? s ⟨.client i, .callStop, false⟩ = some (setClient s i { pc := .stopIsSet, ret := .none }) := by
    simp only [step?, hc, clientStep, hpc, hctl, if_true]
  have hc2 : (setClient s i { pc := .stopIsSet, ret := .none }).clients[i]? = some { pc := .stopIsSet, ret := .none } := by
    simp [setClient, hlt]
  have h2 : step? (setClient s i { pc := .stopIsSet, ret := .none }) ⟨.client i, .eventIsSet, false⟩
      = some { s with clients := s.clients.set i { pc := .idle, ret := .unit } } := by
    simp only [step?, hc2, clientStep]
    simp [setClient, hstopped, List.set_set]
  simp only [run, h1, h2]

example : isCtl (init { max := 2, min := 1, qbound := 0 } 1) 0 = true := rfl

/-! ### after `stop()`: every worker has terminated, the pool looks like a fresh one (single controlling thread) -/

/-- The controlling thread (client 0) is not inside the sentinel/join phase of `stop()` (from its `lock.acquire` to the
    end of the join loop).  Together with `s.stop = true` this says: the pool was never started, or the join loop of
    the last `stop()` is over (the controller may be in the final `clear()` of `stop()`, may have returned, may be
    enqueuing, joining or waiting, or may have called `start()` again without having cleared the flag yet). -/
def notJoining (s : State) : Bool :=
  match s.clients[0]? with
  | some c => !joinPhase c.pc
  | none => true

/-- **`stop()` has returned** (or the pool was never started) **and the controller has not restarted the pool**: the
    flag is set and the controlling thread is neither inside `stop()` after its `event.set` nor inside `clear()`
    (`afterSet`: from the `lock.acquire` of `stop()` to the `lock.release` of `clear()`).  It may be idle, enqueuing,
    joining, waiting, calling `stop()` again (a no-op) or have called `start()` without having cleared the flag yet. -/
def stopReturned (s : State) : Bool :=
  s.stop && (match s.clients[0]? with
    | some c => !afterSet c.pc
    | none => true)

theorem notJoining_of_stopReturned {s : State} (h : stopReturned s = true) : s.stop = true ∧ notJoining s = true := by
  unfold stopReturned at h
  unfold notJoining
  cases hc : s.clients[0]? with
  | none => simp [hc] at h ⊢; exact h
  | some c =>
    simp [hc] at h ⊢
    refine ⟨h.1, ?_⟩
    cases hpc : c.pc <;> simp [hpc, afterSet] at h <;> simp [joinPhase]

/-- **Every worker ever started terminates on its own, and no task starts after `stop()`**: in every reachable state in
    which the flag is set and the controller is past the join loop of `stop()` — in particular in every state after
    `stop()` has returned and before the next `start()` clears the flag — every worker is at its terminal program
    counter, `nb_threads = nb_active_threads = 0`, `_threads` is empty, no worker holds a task or an undelivered queue
    item, and no worker action whatsoever (in particular no `task.begin`) is enabled. -/
theorem C11_workers_exit (cfg : Config) (n : Nat) (s : State) (hs : cfg.singleCtl = true) (hr : Reach (init cfg n) s)
    (hflag : s.stop = true) (hctl : notJoining s = true) :
    (∀ w ∈ s.workers, w.pc = .dead) ∧ s.nbThreads = 0 ∧ s.nbActive = 0 ∧ s.threads = [] ∧
    (∀ w ∈ s.workers, wHasTask w = false ∧ wHoldsItem w = false) ∧
    (∀ (a : Action) (i : Nat), a.who = .worker i → step? s a = none) := by
  have hC := CtlInv_reach hs hr
  have hB := BaseInv_reach hr
  have hq := hC.stop.quiet hflag (by
    intro c hc
    simp [notJoining, hc] at hctl
    exact hctl)
  have hdead : ∀ w ∈ s.workers, w.pc = .dead := by
    intro w hw
    obtain ⟨j, hj⟩ := List.getElem?_of_mem hw
    exact hq.1 j w hj
  refine ⟨hdead, ?_, ?_, hq.2, ?_, ?_⟩
  · rw [hB.count.threads]
    apply List.countP_eq_zero.mpr
    intro w hw
    simp [counted, hdead w hw]
  · rw [hB.count.active]
    apply List.countP_eq_zero.mpr
    intro w hw
    simp [active, hdead w hw]
  · intro w hw
    simp [wHasTask, wHoldsItem, hdead w hw]
  · intro a i ha
    cases hst : step? s a with
    | none => rfl
    | some s' =>
      exfalso
      simp only [step?, ha] at hst
      cases hw : s.workers[i]? with
      | none => simp [hw] at hst
      | some w =>
        simp only [hw] at hst
        exact workerStep_not_dead hst (hq.1 i w hw)

/-- The configuration of a pool that has just been constructed, after any number of `enqueue` calls (completed or in
    progress), `join`s and `result` waits — the state from which `start()` begins: flag set, the three counters and the
    queue's unfinished count exactly those of a new pool holding the queued tasks (`nb_threads = nb_active = 0`,
    `nb_pending = unfinished = |queue|`), `_threads` empty, no live worker (a new pool has none at all; after a `stop()`
    the records of the terminated workers remain, and a terminated worker has no transition and is referred to by no
    counter, list or queue item), only tasks — no sentinel — in the queue, each in phase `queued`. -/
structure FreshLike (s : State) : Prop where
  flag : s.stop = true
  noLive : ∀ w ∈ s.workers, w.pc = .dead
  nbThreads : s.nbThreads = 0
  nbActive : s.nbActive = 0
  threads : s.threads = []
  onlyTasks : ∀ it ∈ s.queue, isTask it = true
  nbPending : s.nbPending = s.queue.length
  unfinished : s.unfinished = s.queue.length
  queued : ∀ t, Item.task t ∈ s.queue → ∃ tk, s.tasks[t]? = some tk ∧ tk.phase = .queued ∧ tk.execCount = 0

/-- **A stopped pool can be started again and then behaves as a fresh pool.**  In every reachable state in which `stop()`
    has returned and `start()` has not been called again (`stopReturned`), the pool is in the configuration of a freshly
    constructed pool holding the tasks that were enqueued since the drain of `stop()` (`FreshLike`): every component that
    `start()`, `enqueue()`, the workers, `join()` or `stop()` read — flag, counters, `_threads`, queue and its unfinished
    count — has the value it has in a new pool.  The state is moreover reachable, so every theorem of C09–C11 (stated for
    all reachable states: exact counters, bounds, hand-off, `join`, and these `stop()` theorems) applies to all of its
    successors, i.e. to the restarted pool; the freshly constructed pool itself is the instance `s = init cfg n`. -/
theorem C11_restart (cfg : Config) (n : Nat) (s : State) (hs : cfg.singleCtl = true) (hr : Reach (init cfg n) s)
    (hret : stopReturned s = true) : FreshLike s := by
  obtain ⟨hflag, hnj⟩ := notJoining_of_stopReturned hret
  obtain ⟨hdead, hnt, hna, hth, hno, _⟩ := C11_workers_exit cfg n s hs hr hflag hnj
  have hC := CtlInv_reach hs hr
  have hQ := QueueInv_reach hs hr
  have hB := BaseInv_reach hr
  have hT := TaskInv_reach hr
  -- the controller is not inside `clear()`, and no other client ever is
  have hcl : ∀ c ∈ s.clients, cHoldsItem c = false ∧ cHoldsTask c = false := by
    intro c hc
    obtain ⟨j, hj⟩ := List.getElem?_of_mem hc
    cases hpc : c.pc <;> simp [cHoldsItem, cHoldsTask, hpc]
    have h0 : j = 0 := hC.only j c hj (by simp [hpc, C11L.ctlPc])
    subst h0
    simp [stopReturned, hj, hpc, afterSet] at hret
  have hsent : Item.sentinel ∉ s.queue := by
    intro hm
    obtain ⟨c, hc, hp⟩ := hQ.sent hm
    simp [stopReturned, hc] at hret
    cases hpc : c.pc <;> simp [hpc, sentPhase] at hp <;> simp [hpc, afterSet] at hret
  have honly : ∀ it ∈ s.queue, isTask it = true := by
    intro it hit
    cases it with
    | task t => rfl
    | sentinel => exact absurd hit hsent
  have hw1 : s.workers.countP wHoldsItem = 0 := List.countP_eq_zero.mpr (fun w hw => by simp [(hno w hw).2])
  have hw2 : s.workers.countP wHasTask = 0 := List.countP_eq_zero.mpr (fun w hw => by simp [(hno w hw).1])
  have hc1 : s.clients.countP cHoldsItem = 0 := List.countP_eq_zero.mpr (fun c hc => by simp [(hcl c hc).1])
  have hc2 : s.clients.countP cHoldsTask = 0 := List.countP_eq_zero.mpr (fun c hc => by simp [(hcl c hc).2])
  have hall : s.queue.countP isTask = s.queue.length := List.countP_eq_length.mpr honly
  refine ⟨hflag, hdead, hnt, hna, hth, honly, ?_, ?_, ?_⟩
  · rw [hB.count.pending, hw2, hc2, hall]; rfl
  · have := hB.unf
    unfold UnfInv at this
    rw [this, hw1, hc1]; rfl
  · intro t ht
    obtain ⟨tk, h1, h2⟩ := hT.qphase t ht
    exact ⟨tk, h1, h2, by rw [hT.exec t tk h1, h2]; rfl⟩

/-- Everything reachable from a state the pool has reached is reachable from the freshly constructed pool: every theorem
    of C09–C11 — all of them are stated for every `Reach (init cfg n) s` — applies to the pool after `stop()`, during and
    after its restart, and through any number of further stop/start cycles. -/
theorem C11_restart_reach (cfg : Config) (n : Nat) (s s' : State) (hr : Reach (init cfg n) s) (hr' : Reach s s') :
    Reach (init cfg n) s' := by
  induction hr' with
  | refl => exact hr
  | step a _ hs ih => exact Reach.step a ih hs

/-- **A terminated worker stays terminated**: in every later state its record is the same (it takes no step, nothing
    revives it; workers started by a restart get new indices) — so the workers that `C11_workers_exit` finds terminated
    after `stop()` play no part in the restarted pool. -/
theorem C11_dead_forever (s s' : State) (hr : Reach s s') (j : Nat) (w : Worker)
    (hj : s.workers[j]? = some w) (hd : w.pc = .dead) : s'.workers[j]? = some w := by
  induction hr with
  | refl => exact hj
  | step a _ hs ih => exact dead_step hs ih hd

/-- **No sentinel outlives `stop()`**: in every reachable state the queue contains a sentinel only while the controller is
    between the `put` loop of `stop()` and the end of the drain loop of the `clear()` that ends it (`sentPhase`). -/
theorem C11_no_sentinel (cfg : Config) (n : Nat) (s : State) (hs : cfg.singleCtl = true) (hr : Reach (init cfg n) s)
    (hctl : ∀ c, s.clients[0]? = some c → sentPhase c.pc = false) : Item.sentinel ∉ s.queue := by
  intro hm
  obtain ⟨c, hc, hp⟩ := (QueueInv_reach hs hr).sent hm
  rw [hctl c hc] at hp; cases hp

/-- The statement kept unproved so far as `C11_workers_exit_restart_full_statement`, now a theorem (a corollary of
    `C11_workers_exit` and `C11_restart`). -/
theorem C11_workers_exit_restart :
    ∀ (cfg : Config) (n : Nat) (s : State), cfg.singleCtl = true → Reach (init cfg n) s → s.stop = true →
    (∀ c, s.clients[0]? = some c → (match c.pc with
        | .stopAcq | .stopPut _ | .stopRel _ | .stopAlive _ | .stopJoin _ | .stopAlive2 _
        | .clrAcq | .clrGet | .clrDone _ | .clrJoin | .clrRel => False | _ => True)) →
    (∀ w ∈ s.workers, w.pc = .dead) ∧ s.nbThreads = 0 ∧ s.nbActive = 0 ∧ s.threads = [] ∧
    s.unfinished = s.queue.length ∧ s.nbPending = s.queue.countP isTask := by
  intro cfg n s hs hr hflag hctl
  have hret : stopReturned s = true := by
    unfold stopReturned
    cases hc : s.clients[0]? with
    | none => simp [hflag]
    | some c =>
      have := hctl c hc
      simp [hflag]
      cases hpc : c.pc <;> simp [hpc] at this <;> simp [afterSet]
  have h := C11_restart cfg n s hs hr hret
  refine ⟨h.noLive, h.nbThreads, h.nbActive, h.threads, h.unfinished, ?_⟩
  rw [h.nbPending, List.countP_eq_length.mpr h.onlyTasks]

/-- Where `start()` stands after its `queue.qsize`: about to call `__start_thread` `clamp(|queue|, min, max)` times, or
    returning when that number is 0. -/
def startTarget (s : State) : Client :=
  if clamp s.queue.length s.cfg.min s.cfg.max = 0 then { pc := .idle, ret := .unit }
  else { pc := .stAcq (clamp s.queue.length s.cfg.min s.cfg.max), ret := .none }

/-- **`start()` on a stopped pool takes the path it takes on a new pool**: it is not a no-op — the four first operations
    (`call`, `event.is_set`, `event.clear`, `queue.qsize`) clear the flag and leave the controller about to call
    `__start_thread` `clamp(|queue|, min, max)` times (`startTarget`), nothing else changing.  The state components read
    here (`stop`, `queue`, `cfg`) are those of a fresh pool by `C11_restart`. -/
theorem C11_restart_start (s : State) (c : Client) (hc : s.clients[0]? = some c) (hpc : c.pc = .idle)
    (hstopped : s.stop = true) (hctl : isCtl s 0 = true) :
    run s [⟨.client 0, .callStart, false⟩, ⟨.client 0, .eventIsSet, false⟩, ⟨.client 0, .eventClear, false⟩,
           ⟨.client 0, .queueQsize, false⟩]
      = some { s with stop := false, clients := s.clients.set 0 (startTarget s) } := by
  have hlt : 0 < s.clients.length := (List.getElem?_eq_some_iff.mp hc).1
  have e1 : step? s ⟨.client 0, .callStart, false⟩ = some (setClient s 0 { pc := .startIsSet, ret := .none }) := by
    simp only [step?, hc, clientStep, hpc, hctl, if_true]
  have e2 : step? (setClient s 0 { pc := .startIsSet, ret := .none }) ⟨.client 0, .eventIsSet, false⟩
      = some (setClient s 0 { pc := .startClear, ret := .none }) := by
    simp [step?, clientStep, setClient, hlt, hstopped, List.set_set]
  have e3 : step? (setClient s 0 { pc := .startClear, ret := .none }) ⟨.client 0, .eventClear, false⟩
      = some (setClient { s with stop := false } 0 { pc := .startQsize, ret := .none }) := by
    simp [step?, clientStep, setClient, hlt, List.set_set]
  have e4 : step? (setClient { s with stop := false } 0 { pc := .startQsize, ret := .none }) ⟨.client 0, .queueQsize, false⟩
      = some { s with stop := false, clients := s.clients.set 0 (startTarget s) } := by
    simp only [step?, clientStep, setClient, List.getElem?_set_self hlt, startTarget, List.set_set]
    first | rfl | (split <;> simp_all)
  simp only [run, e1, e2, e3, e4]

/-- Where `start()` stands after one `__start_thread`. -/
def startNext (k : Nat) (ret : Ret) : Client :=
  if k ≤ 1 then { pc := .idle, ret := .unit } else { pc := .stAcq (k - 1), ret := ret }

/-- … and each `__start_thread` of that `start()` (`lock.acquire`, `event.is_set`, `lock.release`), when the lock is free
    and `nb_threads < max_threads` — as it is after `stop()`, where `nb_threads = 0` — starts, counts and lists a new
    worker at the head of its loop. -/
theorem C11_restart_spawn (s : State) (c : Client) (k : Nat) (hc : s.clients[0]? = some c) (hpc : c.pc = .stAcq k)
    (hrun : s.stop = false) (hfree : s.lockOwner = none) (hroom : s.nbThreads < s.cfg.max) :
    run s [⟨.client 0, .lockAcquire, false⟩, ⟨.client 0, .eventIsSet, false⟩, ⟨.client 0, .lockRelease, false⟩]
      = some { s with lockOwner := none, lockDepth := 0, nbThreads := s.nbThreads + 1,
                      threads := s.threads ++ [s.workers.length], workers := s.workers ++ [{}],
                      clients := s.clients.set 0 (startNext k c.ret) } := by
  have hlt : 0 < s.clients.length := (List.getElem?_eq_some_iff.mp hc).1
  have hnot : ¬ s.nbThreads ≥ s.cfg.max := by omega
  have e1 : step? s ⟨.client 0, .lockAcquire, false⟩
      = some (setClient (acq s (.client 0)) 0 { pc := .stIsSet k, ret := c.ret }) := by
    simp [step?, hc, clientStep, hpc, canAcquire, hfree, hnot]
  have e2 : step? (setClient (acq s (.client 0)) 0 { pc := .stIsSet k, ret := c.ret }) ⟨.client 0, .eventIsSet, false⟩
      = some (setClient (spawnWorker (acq s (.client 0))) 0 { pc := .stRel k, ret := c.ret }) := by
    simp [step?, clientStep, setClient, acq, hlt, hrun, spawnWorker, List.set_set]
  have e3 : step? (setClient (spawnWorker (acq s (.client 0))) 0 { pc := .stRel k, ret := c.ret }) ⟨.client 0, .lockRelease, false⟩
      = some { s with lockOwner := none, lockDepth := 0, nbThreads := s.nbThreads + 1,
                      threads := s.threads ++ [s.workers.length], workers := s.workers ++ [{}],
                      clients := s.clients.set 0 (startNext k c.ret) } := by
    simp only [step?, clientStep, setClient, List.getElem?_set_self hlt, spawnWorker, acq, hfree, canRelease, rel,
      startNext, List.set_set]
    first | rfl | simp | (split <;> simp_all)
  simp only [run, e1, e2, e3]

/-! ### `join()` on a running pool: True means *finished*, not merely "finished or dropped" -/

/-- Program counters of `clear()` (called directly, or as the last part of `stop()`). -/
def inClear (pc : CPc) : Bool :=
  match pc with
  | .clrAcq | .clrGet | .clrDone _ | .clrJoin | .clrRel => true
  | _ => false

/-- The pool is running and the controlling thread is not inside `clear()`. -/
def runningNoClear (s : State) : Prop :=
  s.stop = false ∧ ∀ c, s.clients[0]? = some c → inClear c.pc = false

private theorem noClearGet_of_running {cfg : Config} {n : Nat} (hs : cfg.singleCtl = true) {s0 s : State}
    (hr0 : Reach (init cfg n) s0) (hvia : ReachVia runningNoClear s0 s) : ReachVia noClearGet s0 s := by
  have key : ∀ x, Reach (init cfg n) x → runningNoClear x → noClearGet x := by
    intro x hrx hx c hc hpc
    obtain ⟨j, hj⟩ := List.getElem?_of_mem hc
    have h0 : j = 0 := (CtlInv_reach hs hrx).only j c hj (by simp [hpc, C11L.ctlPc])
    subst h0
    have := hx.2 c hj
    simp [hpc, inClear] at this
  induction hvia with
  | refl h0 => exact ReachVia.refl (key _ hr0 h0)
  | step a hprev hst hp ih =>
    exact ReachVia.step a ih hst (key _ (C11_restart_reach cfg n _ _ hr0 (Reach.step a hprev.reach hst)) hp)

/-- **On a running pool `join()` returns `True` only when every task enqueued before the call has FINISHED executing.**
    Let `s0` be any reachable state (in particular: the state in which `join()` is called) and let the pool stay running
    with the controlling thread outside `clear()` (`runningNoClear`: flag clear — so no `stop()` is past its `event.set`
    — and no direct `clear()`) in every state from `s0` up to the state `s` in which the last step of `join()`
    (`Queue.join` returning) is taken.  Then every task that was accepted (phase beyond `created`) and not already dropped
    in `s0` is in phase `finished` when `join()` returns `True` — not merely "finished or dropped" (`C11_join_true`,
    which needs no such hypothesis).  Single controlling thread. -/
theorem C11_join_true_running (cfg : Config) (n : Nat) (s0 s s' : State) (hs : cfg.singleCtl = true)
    (hr0 : Reach (init cfg n) s0) (hvia : ReachVia runningNoClear s0 s)
    (i : Nat) (c : Client) (hc : s.clients[i]? = some c) (hpc : c.pc = .joinQ)
    (h : step? s ⟨.client i, .queueJoin, false⟩ = some s')
    (t : Nat) (tk0 : Task) (ht : s0.tasks[t]? = some tk0) (hacc : tk0.phase ≠ .created) (hnd : tk0.phase ≠ .dropped) :
    s'.clients[i]? = some { pc := .idle, ret := .bool true } ∧
    ∃ tk, s'.tasks[t]? = some tk ∧ tk.phase = .finished ∧ tk.execCount = 1 := by
  have hr : Reach (init cfg n) s := C11_restart_reach cfg n s0 s hr0 hvia.reach
  obtain ⟨h1, h2, h3⟩ := C11_join_true cfg n s s' hr i c hc hpc h
  obtain ⟨tk, htk, hnc, hndd⟩ := phase_kept (noClearGet_of_running hs hr0 hvia) ht hacc hnd
  rw [← h2] at htk
  have hu := h3 t tk htk
  have hfin : tk.phase = .finished := by
    unfold unfinishedTask at hu
    cases hp : tk.phase <;> simp_all
  refine ⟨h1, tk, htk, hfin, ?_⟩
  have := (TaskInv_reach (Reach.step _ hr h)).exec t tk htk
  rw [this, hfin]; rfl

/-- The same for `join(t)` answering `True`. -/
theorem C11_join_timeout_true_running (cfg : Config) (n : Nat) (s0 s s' : State) (hs : cfg.singleCtl = true)
    (hr0 : Reach (init cfg n) s0) (hvia : ReachVia runningNoClear s0 s)
    (i : Nat) (c : Client) (hc : s.clients[i]? = some c) (op : Op) (tmo : Bool)
    (hpc : c.pc = .jtAcq ∨ ∃ b, c.pc = .jtWait b)
    (h : step? s ⟨.client i, op, tmo⟩ = some s') (c' : Client) (hc' : s'.clients[i]? = some c') (hidle : c'.pc = .idle)
    (hret : c'.ret = .bool true)
    (t : Nat) (tk0 : Task) (ht : s0.tasks[t]? = some tk0) (hacc : tk0.phase ≠ .created) (hnd : tk0.phase ≠ .dropped) :
    ∃ tk, s'.tasks[t]? = some tk ∧ tk.phase = .finished := by
  have hr : Reach (init cfg n) s := C11_restart_reach cfg n s0 s hr0 hvia.reach
  obtain ⟨h2, _, _, _, h3⟩ := C11_join_timeout cfg n s s' hr i c hc op tmo hpc h c' hc' hidle
  obtain ⟨tk, htk, hnc, hndd⟩ := phase_kept (noClearGet_of_running hs hr0 hvia) ht hacc hnd
  rw [← h2] at htk
  rcases h3 with ⟨_, hall⟩ | ⟨hf, _⟩
  · have hu := hall t tk htk
    refine ⟨tk, htk, ?_⟩
    unfold unfinishedTask at hu
    cases hp : tk.phase <;> simp_all
  · rw [hret] at hf; cases hf

/-! ### `stop()` always returns: no stuck state, and a measure that every step towards the return lowers -/

/-- **`stop()` is never stuck** (single controlling thread, any number of enqueuing / joining client threads, every
    interleaving and timing).  In every reachable state in which the controller is inside `stop()` — at any of its
    operations, the final `clear()` included (`inStop`) — either a task body is running (the environment has to end it:
    `stop()` waits for running tasks), or some action that brings `stop()` nearer to its return (`progressing`) is
    enabled: a non-environment action of a worker, of the controller — other than going round its `is_alive`/`join(3)`
    loop on a thread that is still alive — or of another client that owns the pool lock (finishing the critical section
    of its `enqueue`).  Time-outs count as actions (a timed `put`/`get`/`join(3)` returns when its time is up); the
    time-outs of *other* clients' `join(t)`/`result(t)` are not counted as progress.
    `htm`: the pool's `timeout` is finite (`cfg.timeoutNone = false`) — the explicit assumption under which the timed
    `put` of a sentinel into a full bounded queue and the timed `get` of an idle worker have a time-out branch at all. -/
theorem C11_stop_no_stuck (cfg : Config) (n : Nat) (s : State) (hs : cfg.singleCtl = true)
    (htm : cfg.timeoutNone = false) (hr : Reach (init cfg n) s)
    (c : Client) (hc : s.clients[0]? = some c) (hin : C11L.inStop s c.pc = true) :
    (∃ w ∈ s.workers, w.pc = .body) ∨ ∃ a s', progressing s a = true ∧ step? s a = some s' :=
  stop_no_stuck (by rw [cfg_reach hr]; exact htm) (BaseInv_reach hr) (TaskInv_reach hr) (CtlInv_reach hs hr)
    (QueueInv_reach hs hr) hc hin

/-- **The termination measure of `stop()`.**  `stopMeasure s` = the (weighted) steps every live worker still has to take
    to its terminal program counter under the set flag + the remaining steps of the `enqueue` calls in progress + the
    remaining steps of the controller (sentinels still to place, threads still to join, end of `clear()`) + 2 × the queue
    length (items still to drain).  From the `lock.acquire` of `stop()` on (`afterSet`, flag set), in every reachable
    state and for every step `s → s'`:
    * every `progressing` action (the ones `C11_stop_no_stuck` provides) strictly lowers the measure;
    * so does every worker step, the end of a task body (environment) included;
    * no step raises it, except a client's *call* of `enqueue` (environment), by exactly the cost of that call (≤ 8).
    Hence on every run in which running task bodies end and `enqueue` is called finitely often, `stop()` returns
    (after at most `stopMeasure` progressing steps); the two first operations of `stop()` (`event.is_set`, `event.set`)
    are always enabled. -/
theorem C11_stop_measure (cfg : Config) (n : Nat) (s s' : State) (a : Action) (hs : cfg.singleCtl = true)
    (hr : Reach (init cfg n) s) (hflag : s.stop = true) (c : Client) (hc : s.clients[0]? = some c)
    (hin : afterSet c.pc = true) (hst : step? s a = some s') :
    (progressing s a = true → stopMeasure s' < stopMeasure s) ∧
    ((∃ i, a.who = .worker i) → stopMeasure s' < stopMeasure s) ∧
    stopMeasure s' ≤ stopMeasure s + (if a.op = .callEnqueue then 8 else 0) :=
  stop_measure (CtlInv_reach hs hr) hflag hc hin hst

/-- **`stop()` does not depend on the idle time-out (1): the markers cover the waiters.**  `ReachQ` is reachability in which
    the timed `queue.put` of `stop()` / `enqueue()` gives up (queue.Full) only when the queue IS full and nothing but
    time-outs and the environment can move ("a positive time-out expires at quiescence"; every other time-out may still
    be taken at any moment).  In every such state in which the controlling thread is in the join loop of `stop()` (every
    marker placed), the queue holds at least as many stop markers as there are workers waiting in `queue.get`: because
    the `put` is BLOCKING (fact `poolQueuePuts`), on a bounded queue - smaller than the number of idle workers or not -
    each listed worker that may still read the queue gets its marker as soon as there is room for it; when the loop is
    cut short by Full, nobody was waiting. -/
theorem C11_stop_markers_cover (cfg : Config) (n : Nat) (s : State) (hs : cfg.singleCtl = true)
    (hr : C11L.ReachQ (init cfg n) s) (c : Client) (hc : s.clients[0]? = some c) (cp : List Nat)
    (hj : copyOf c.pc = some cp) :
    s.workers.countP C11L.waiting ≤ s.queue.countP C11L.isSentinel :=
  C11L.stop_markers_cover cfg n s hs hr c hc cp hj

/-- **`stop()` does not depend on the idle time-out (2).**  While `stop()` waits for the workers, a worker that sits in
    `queue.get` never needs its time-out branch: the queue is not empty and its `queue.get` is enabled - for a pool built
    with `timeout=None` or `timeout=3600` as for the default (no hypothesis on `cfg.timeoutNone`).  This is what the
    monitor `stop-needs-idle-timeout` (harness/poolcommon.py: nobody enabled, the stopping thread parked in `Thread.join`,
    a worker asleep in `queue.get` on an empty queue) contradicts. -/
theorem C11_stop_waiter_enabled (cfg : Config) (n : Nat) (s : State) (hs : cfg.singleCtl = true)
    (hr : C11L.ReachQ (init cfg n) s) (c : Client) (hc : s.clients[0]? = some c) (cp : List Nat)
    (hj : copyOf c.pc = some cp) (j : Nat) (w : Worker) (hw : s.workers[j]? = some w) (hg : w.pc = .get) :
    s.queue ≠ [] ∧ ∃ s', step? s ⟨.worker j, .queueGet, false⟩ = some s' :=
  C11L.stop_waiter_enabled cfg n s hs hr c hc cp hj j w hw hg

/-- Non-vacuity of the two theorems above: max = min = 2 on a queue of size 1 (smaller than the number of idle workers);
    both workers wait, `stop()` puts a marker, worker 0 takes it, `stop()` puts the second one and enters its join loop
    while worker 1 still waits - with its marker in the queue. -/
example : ∃ s c cp w, C11L.ReachQ (init C11L.demoCfg 1) s ∧ s.clients[0]? = some c ∧ copyOf c.pc = some cp ∧
    s.workers[1]? = some w ∧ w.pc = .get ∧ s.queue = [.sentinel] :=
  ⟨C11L.demoState, _, _, _, C11L.demo_reach, rfl, rfl, rfl, rfl, rfl⟩

/-- From `event.set` on the flag stays set while the controller is inside `stop()`, so `C11_stop_measure` applies to every
    state of `stop()` after its second operation. -/
theorem C11_stop_flag (cfg : Config) (n : Nat) (s : State) (hs : cfg.singleCtl = true) (hr : Reach (init cfg n) s)
    (c : Client) (hc : s.clients[0]? = some c) (hin : joinPhase c.pc = true) : s.stop = true :=
  (CtlInv_reach hs hr).stop.flag c hc hin

/-- Why `C11_stop_no_stuck` assumes a finite `timeout`: `ThreadPool(1, 1, queue_size=1, timeout=None)` — the worker runs a
    task, a second task fills the queue, `stop()` reaches the `put` of its sentinel: the queue is full and the put has
    no time-out; the worker is inside the task body.  When the body has ended the worker needs the pool lock for its
    accounting (`pending -= 1`), which `stop()` holds while it waits in `put` — `stop()` is blocked for ever: no action of
    any thread is enabled except new API calls of the other client (whose `enqueue` would block on the pool lock). -/
example : ∃ s, run (init { max := 1, min := 1, qbound := 1, timeoutNone := true } 2)
    [⟨.client 0, .callStart, false⟩, ⟨.client 0, .eventIsSet, false⟩, ⟨.client 0, .eventClear, false⟩,
     ⟨.client 0, .queueQsize, false⟩, ⟨.client 0, .lockAcquire, false⟩, ⟨.client 0, .eventIsSet, false⟩,
     ⟨.client 0, .lockRelease, false⟩,
     ⟨.client 1, .callEnqueue, false⟩, ⟨.client 1, .lockAcquire, false⟩, ⟨.client 1, .queuePut, false⟩, ⟨.client 1, .lockRelease, false⟩,
     ⟨.worker 0, .eventIsSet, false⟩, ⟨.worker 0, .queueGet, false⟩, ⟨.worker 0, .lockAcquire, false⟩, ⟨.worker 0, .lockRelease, false⟩,
     ⟨.worker 0, .taskBegin, false⟩,
     ⟨.client 1, .callEnqueue, false⟩, ⟨.client 1, .lockAcquire, false⟩, ⟨.client 1, .queuePut, false⟩, ⟨.client 1, .lockAcquire, false⟩,
     ⟨.client 1, .lockRelease, false⟩, ⟨.client 1, .lockRelease, false⟩,
     ⟨.client 0, .callStop, false⟩, ⟨.client 0, .eventIsSet, false⟩, ⟨.client 0, .eventSet, false⟩, ⟨.client 0, .lockAcquire, false⟩,
     ⟨.worker 0, .taskEnd .ok, false⟩, ⟨.worker 0, .futSet, false⟩, ⟨.worker 0, .queueTaskDone, false⟩] = some s ∧
    s.clients.map (·.pc) = [.stopPut 1, .idle] ∧ s.workers.map (·.pc) = [.finAcq] ∧ s.queue = [.task 1] ∧
    step? s ⟨.client 0, .queuePut, false⟩ = none ∧ step? s ⟨.client 0, .queuePut, true⟩ = none ∧
    step? s ⟨.worker 0, .lockAcquire, false⟩ = none := by
  refine ⟨_, rfl, ?_, ?_, ?_, ?_, ?_, ?_⟩ <;> rfl

/-! ### non-vacuity: a complete life cycle on concrete action lists -/

private def ca (i : Nat) (op : Op) (t : Bool := false) : Action := ⟨.client i, op, t⟩
private def wa (i : Nat) (op : Op) (t : Bool := false) : Action := ⟨.worker i, op, t⟩
private def cfg1 : Config := { max := 1, min := 1, qbound := 0 }

/-- `start()` by client 0 (one worker). -/
private def startRun : List Action :=
  [ca 0 .callStart, ca 0 .eventIsSet, ca 0 .eventClear, ca 0 .queueQsize, ca 0 .lockAcquire, ca 0 .eventIsSet, ca 0 .lockRelease]
/-- `enqueue()` by client 1 on a running pool with an idle worker. -/
private def enqRun : List Action := [ca 1 .callEnqueue, ca 1 .lockAcquire, ca 1 .queuePut, ca 1 .lockRelease]
/-- worker 0 takes the task and enters its body. -/
private def takeRun : List Action := [wa 0 .eventIsSet, wa 0 .queueGet, wa 0 .lockAcquire, wa 0 .lockRelease, wa 0 .taskBegin]
/-- `stop()` up to the first `thread.join` (the thread is alive: it runs a task). -/
private def stopRun1 : List Action :=
  [ca 0 .callStop, ca 0 .eventIsSet, ca 0 .eventSet, ca 0 .lockAcquire, ca 0 .queuePut, ca 0 .lockRelease, ca 0 .threadIsAlive]
/-- the body ends; the worker accounts, sees the flag and exits. -/
private def exitRun : List Action :=
  [wa 0 (.taskEnd .ok), wa 0 .futSet, wa 0 .queueTaskDone, wa 0 .lockAcquire, wa 0 .lockRelease, wa 0 .lockAcquire,
   wa 0 .lockRelease, wa 0 .eventIsSet, wa 0 .lockAcquire, wa 0 .lockRelease]
/-- the rest of `stop()`: the join returns, `clear()` drains the unconsumed sentinel. -/
private def stopRun2 : List Action :=
  [ca 0 .threadJoin, ca 0 .threadIsAlive, ca 0 .threadIsAlive, ca 0 .lockAcquire, ca 0 .queueGetNowait, ca 0 .queueTaskDone,
   ca 0 .queueGetNowait, ca 0 .queueJoin, ca 0 .lockRelease]
/-- `enqueue()` by client 1 on the stopped pool (`__start_thread` is called and refuses: the flag is set). -/
private def enqStoppedRun : List Action :=
  [ca 1 .callEnqueue, ca 1 .lockAcquire, ca 1 .queuePut, ca 1 .lockAcquire, ca 1 .eventIsSet, ca 1 .lockRelease, ca 1 .lockRelease]

/-- `C11_stop_no_stuck`, first alternative: the controller waits in `thread.join` for a worker that runs a task; only the
    environment (the task) can move the worker — and the measure is 22. -/
example : ∃ s c, run (init cfg1 2) (startRun ++ enqRun ++ takeRun ++ stopRun1) = some s ∧ s.clients[0]? = some c ∧
    C11L.inStop s c.pc = true ∧ afterSet c.pc = true ∧ s.stop = true ∧ c.pc = .stopJoin [0] ∧ ctlSpin s c.pc = true ∧
    s.workers.map (·.pc) = [.body] ∧ stopMeasure s = 22 :=
  ⟨_, _, rfl, rfl, rfl, rfl, rfl, rfl, rfl, rfl, rfl⟩

/-- `C11_stop_no_stuck`, second alternative, and `C11_stop_measure`: once the body has ended every step of the worker is a
    progressing action; when the worker has terminated the measure is 12 and the controller's `join` is progressing. -/
example : ∃ s c, run (init cfg1 2) (startRun ++ enqRun ++ takeRun ++ stopRun1 ++ exitRun) = some s ∧
    s.clients[0]? = some c ∧ C11L.inStop s c.pc = true ∧ ctlSpin s c.pc = false ∧ progressing s (ca 0 .threadJoin) = true ∧
    s.workers.map (·.pc) = [.dead] ∧ s.queue = [.sentinel] ∧ stopMeasure s = 12 :=
  ⟨_, _, rfl, rfl, rfl, rfl, rfl, rfl, rfl, rfl⟩

/-- `C11_workers_exit` / `C11_restart`: after the complete `stop()` the hypothesis `stopReturned` holds, with one terminated
    worker, an empty queue (the sentinel was drained) and measure 0. -/
example : ∃ s, run (init cfg1 2) (startRun ++ enqRun ++ takeRun ++ stopRun1 ++ exitRun ++ stopRun2) = some s ∧
    stopReturned s = true ∧ notJoining s = true ∧ s.workers.map (·.pc) = [.dead] ∧ s.queue = [] ∧
    s.clients.map (·.ret) = [.unit, .fut] ∧ stopMeasure s = 0 :=
  ⟨_, rfl, rfl, rfl, rfl, rfl, rfl, rfl⟩

/-- `C11_restart`: a task enqueued on the stopped pool stays queued and pending (`FreshLike` with a non-empty queue); the
    restarted pool then has exactly the counters, `_threads` length and queue of a fresh pool given the same `enqueue`
    and `start()` — one live worker at the head of its loop, `nb_threads = 1`, `nb_pending = unfinished = 1`. -/
example : ∃ s, run (init cfg1 2) (startRun ++ enqRun ++ takeRun ++ stopRun1 ++ exitRun ++ stopRun2 ++ enqStoppedRun) = some s ∧
    stopReturned s = true ∧ s.queue = [.task 1] ∧ s.nbPending = 1 ∧ s.unfinished = 1 ∧ s.nbThreads = 0 :=
  ⟨_, rfl, rfl, rfl, rfl, rfl, rfl⟩

example : ∃ s t, run (init cfg1 2) (startRun ++ enqRun ++ takeRun ++ stopRun1 ++ exitRun ++ stopRun2 ++ enqStoppedRun ++ startRun) = some s ∧
    run (init cfg1 2) (enqStoppedRun ++ startRun) = some t ∧
    s.stop = t.stop ∧ s.queue.length = t.queue.length ∧ s.unfinished = t.unfinished ∧ s.nbThreads = t.nbThreads ∧
    s.nbActive = t.nbActive ∧ s.nbPending = t.nbPending ∧ s.threads.length = t.threads.length ∧
    (s.workers.filter (·.pc != .dead)).map (·.pc) = (t.workers.filter (·.pc != .dead)).map (·.pc) ∧
    s.stop = false ∧ s.nbThreads = 1 ∧ s.workers.map (·.pc) = [.dead, .loopHead] :=
  by refine ⟨_, _, rfl, rfl, ?_⟩; decide

/-- `C11_restart_start` / `C11_restart_spawn`: their hypotheses hold after the complete `stop()` (controller idle, flag set),
    resp. after the four first operations of the restart (`stAcq 1`, flag clear, lock free, `nb_threads = 0 < max = 1`). -/
example : ∃ s c, run (init cfg1 2) (startRun ++ enqRun ++ takeRun ++ stopRun1 ++ exitRun ++ stopRun2) = some s ∧
    s.clients[0]? = some c ∧ c.pc = .idle ∧ s.stop = true ∧ isCtl s 0 = true :=
  ⟨_, _, rfl, rfl, rfl, rfl, rfl⟩

example : ∃ s c, run (init cfg1 2) (startRun ++ enqRun ++ takeRun ++ stopRun1 ++ exitRun ++ stopRun2 ++ startRun.take 4) = some s ∧
    s.clients[0]? = some c ∧ c.pc = .stAcq 1 ∧ s.stop = false ∧ s.lockOwner = none ∧ s.nbThreads = 0 ∧ s.cfg.max = 1 :=
  ⟨_, _, rfl, rfl, rfl, rfl, rfl, rfl, rfl⟩

/-- Why `inStop` counts the operations of `clear()` only while the flag is set: `clear()` called *directly on a running
    pool* can block for ever — it holds the pool lock while it waits in `Queue.join` for a worker that has taken a task
    from the queue and needs that very lock for `nb_active += 1` before it can run the task and call `task_done`.  (Not
    a life-cycle history of C11; inside `stop()` every worker has terminated before `clear()` is called,
    `C11_workers_exit`.)  Here neither thread can move, and only environment calls are left to the other client. -/
example : ∃ s c, run (init cfg1 2) (startRun ++ enqRun ++ [wa 0 .eventIsSet, wa 0 .queueGet] ++
      [ca 0 .callClear, ca 0 .lockAcquire, ca 0 .queueGetNowait]) = some s ∧
    s.clients[0]? = some c ∧ c.pc = .clrJoin ∧ s.stop = false ∧ C11L.inStop s c.pc = false ∧
    s.lockOwner = some (.client 0) ∧ s.unfinished = 1 ∧ s.workers.map (·.pc) = [.actAcq] ∧
    step? s (ca 0 .queueJoin) = none ∧ step? s (wa 0 .lockAcquire) = none :=
  ⟨_, _, rfl, rfl, rfl, rfl, rfl, rfl, rfl, rfl, rfl, rfl⟩

/-- Non-vacuity of `C11_join_true_running`: client 1 enqueues a task on the running pool and calls `join()` (`s0` = the
    state of the call); the worker runs the task; every state up to the return of `join()` is running with the controller
    idle; the last step of `join()` is then enabled and the task is finished, executed once. -/
example : ∃ s0 s s', run (init cfg1 2) (startRun ++ enqRun ++ [ca 1 .callJoin]) = some s0 ∧
    run s0 (takeRun ++ [wa 0 (.taskEnd .ok), wa 0 .futSet, wa 0 .queueTaskDone]) = some s ∧
    step? s (ca 1 .queueJoin) = some s' ∧
    s0.tasks.map (·.phase) = [.queued] ∧ s.stop = false ∧ s.clients.map (·.pc) = [.idle, .joinQ] ∧
    s'.tasks.map (fun t => (t.phase, t.execCount)) = [(.finished, 1)] ∧ s'.clients.map (·.ret) = [.unit, .bool true] := by
  refine ⟨_, _, _, rfl, rfl, rfl, ?_, ?_, ?_, ?_, ?_⟩ <;> rfl

/-- Non-vacuity of `C11_join_timeout_true_running`: the same history with `join(t)` called once the task is over — its
    first operation finds nothing unfinished and answers `True`; the task is finished. -/
example : ∃ s0 s s', run (init cfg1 2) (startRun ++ enqRun) = some s0 ∧
    run s0 (takeRun ++ [wa 0 (.taskEnd .ok), wa 0 .futSet, wa 0 .queueTaskDone, ca 1 .callJoinT]) = some s ∧
    step? s (ca 1 .condAcquire) = some s' ∧ s.stop = false ∧ s.clients.map (·.pc) = [.idle, .jtAcq] ∧
    s'.tasks.map (·.phase) = [.finished] ∧ s'.clients.map (·.ret) = [.unit, .bool true] := by
  refine ⟨_, _, _, rfl, rfl, rfl, ?_, ?_, ?_, ?_⟩ <;> rfl

end JRV.Props
