/-
  C11 — join() means finished; stop() always terminates; the pool is restartable.
  Model: JRV.Model.Pool.  Theorems over every reachable state (all interleavings, programs, timings).
-/
import JRV.Lemmas.PoolTask2
import JRV.Generated

set_option linter.unusedSimpArgs false
set_option linter.unusedVariables false

namespace JRV.Props
open JRV JRV.Pool

/-- A task that has been accepted and is neither finished nor dropped by `clear()`. -/
def unfinishedTask (tk : Task) : Bool :=
  match tk.phase with
  | .queued | .held | .running => true
  | _ => false

/-- **`join()` returns `True` only when every accepted task has finished**: the last step of `join()` (`Queue.join`
    returning) is enabled only in a state where no task is queued, held by a worker or running — every task accepted
    before the call (indeed before the return) is finished, or was dropped by a `clear()`/`stop()`. -/
theorem C11_join_true (cfg : Config) (n : Nat) (s s' : State) (hr : Reach (init cfg n) s)
    (i : Nat) (c : Client) (hc : s.clients[i]? = some c) (hpc : c.pc = .joinQ)
    (h : step? s ⟨.client i, .queueJoin, false⟩ = some s') :
    s'.clients[i]? = some { pc := .idle, ret := .bool true } ∧ s'.tasks = s.tasks ∧
    ∀ (t : Nat) (tk : Task), s'.tasks[t]? = some tk → unfinishedTask tk = false := by
  have hlt : i < s.clients.length := (List.getElem?_eq_some_iff.mp hc).1
  simp only [step?, hc, clientStep, hpc] at h
  split at h
  · rename_i hu
    simp at h; subst h
    refine ⟨by simp [setClient, hlt], rfl, fun t tk ht => ?_⟩
    have := unfinished_zero_tasks hr hu t tk ht
    unfold unfinishedTask
    rcases this with h1 | h1 | h1 <;> simp [h1]
  · simp at h

/-- **`join(t)`**: its returning step (`cond.acquire` when nothing is unfinished, else the `cond.wait` that was notified
    or timed out — at any moment) yields `True` only when every accepted task has finished (or was dropped), and `False`
    only when the unfinished count is non-zero, i.e. an item is still queued or taken and not yet `task_done`. -/
theorem C11_join_timeout (cfg : Config) (n : Nat) (s s' : State) (hr : Reach (init cfg n) s)
    (i : Nat) (c : Client) (hc : s.clients[i]? = some c) (op : Op) (tmo : Bool)
    (hpc : c.pc = .jtAcq ∨ ∃ b, c.pc = .jtWait b)
    (h : step? s ⟨.client i, op, tmo⟩ = some s') (c' : Client) (hc' : s'.clients[i]? = some c') (hidle : c'.pc = .idle) :
    s'.tasks = s.tasks ∧ s'.unfinished = s.unfinished ∧ s'.queue = s.queue ∧ s'.workers = s.workers ∧
    ((c'.ret = .bool true ∧ ∀ (t : Nat) (tk : Task), s'.tasks[t]? = some tk → unfinishedTask tk = false) ∨
     (c'.ret = .bool false ∧ s'.unfinished ≠ 0 ∧
        (s'.queue ≠ [] ∨ (∃ w ∈ s'.workers, wHoldsItem w = true) ∨ ∃ c ∈ s.clients, cHoldsItem c = true))) := by
  have hlt : i < s.clients.length := (List.getElem?_eq_some_iff.mp hc).1
  have key : ∀ (s1 : State), s1 = s → ∀ b, b = (s.unfinished == 0) →
      (b = true ∧ ∀ (t : Nat) (tk : Task), s.tasks[t]? = some tk → unfinishedTask tk = false) ∨
      (b = false ∧ s.unfinished ≠ 0 ∧
        (s.queue ≠ [] ∨ (∃ w ∈ s.workers, wHoldsItem w = true) ∨ ∃ c ∈ s.clients, cHoldsItem c = true)) := by
    intro s1 _ b hb
    by_cases hu : s.unfinished = 0
    · left
      refine ⟨by simp [hb, hu], fun t tk ht => ?_⟩
      have := unfinished_zero_tasks hr hu t tk ht
      unfold unfinishedTask
      rcases this with h1 | h1 | h1 <;> simp [h1]
    · right
      refine ⟨by simp [hb, hu], hu, ?_⟩
      have hU := (BaseInv_reach hr).unf
      unfold UnfInv at hU
      by_cases hq : s.queue = []
      · right
        rw [hq] at hU; simp at hU
        by_cases hw0 : s.workers.countP wHoldsItem = 0
        · right
          have : 0 < s.clients.countP cHoldsItem := by omega
          obtain ⟨x, hx, hp⟩ := List.countP_pos_iff.mp this
          exact ⟨x, hx, hp⟩
        · left
          have : 0 < s.workers.countP wHoldsItem := by omega
          obtain ⟨x, hx, hp⟩ := List.countP_pos_iff.mp this
          exact ⟨x, hx, hp⟩
      · exact Or.inl hq
  simp only [step?, hc] at h
  have shape : ∃ r, s' = setClient s i { pc := .idle, ret := .bool r } ∧ (r = (s.unfinished == 0)) := by
    rcases hpc with hpc | ⟨b0, hpc⟩
    · cases op <;> cases tmo <;> simp [clientStep, hpc] at h
      subst h
      by_cases hu : s.unfinished = 0
      · exact ⟨true, by simp [hu], by simp [hu]⟩
      · simp [setClient, hlt, hu] at hc'; subst hc'; simp at hidle
    · cases op <;> cases tmo <;> simp [clientStep, hpc] at h
      · obtain ⟨_, h⟩ := h; subst h; exact ⟨_, rfl, rfl⟩
      · subst h; exact ⟨_, rfl, rfl⟩
  obtain ⟨r, rfl, hr'⟩ := shape
  simp [setClient, hlt] at hc'
  subst hc'
  refine ⟨rfl, rfl, rfl, rfl, ?_⟩
  have := key s rfl r hr'
  simpa [setClient] using this

/-- Non-vacuity: a pool with one running task; `join(t)` times out and answers `False`. -/
example : ∃ s, run (init { max := 1, min := 1, qbound := 0 } 2)
    [⟨.client 0, .callEnqueue, false⟩, ⟨.client 0, .lockAcquire, false⟩, ⟨.client 0, .queuePut, false⟩,
     ⟨.client 1, .callJoinT, false⟩, ⟨.client 1, .condAcquire, false⟩, ⟨.client 1, .condWait, true⟩] = some s ∧
    (s.clients.map (·.ret)) = [.none, .bool false] := by
  refine ⟨_, rfl, ?_⟩; rfl

/-- **`start()` on a running pool is a no-op**: the whole call is one operation (`event.is_set`) and leaves every
    component of the state unchanged except the caller's own call record (which is idle again, having returned `None`). -/
theorem C11_idempotent_start (s : State) (i : Nat) (c : Client) (hc : s.clients[i]? = some c) (hpc : c.pc = .idle)
    (hrun : s.stop = false) (hctl : isCtl s i = true) :
    run s [⟨.client i, .callStart, false⟩, ⟨.client i, .eventIsSet, false⟩]
      = some { s with clients := s.clients.set i { pc := .idle, ret := .unit } } := by
  have hlt : i < s.clients.length := (List.getElem?_eq_some_iff.mp hc).1
  have h1 : step? s ⟨.client i, .callStart, false⟩ = some (setClient s i { pc := .startIsSet, ret := .none }) := by
    simp only [step?, hc, clientStep, hpc, hctl, if_true]
  have hc2 : (setClient s i { pc := .startIsSet, ret := .none }).clients[i]? = some { pc := .startIsSet, ret := .none } := by
    simp [setClient, hlt]
  have h2 : step? (setClient s i { pc := .startIsSet, ret := .none }) ⟨.client i, .eventIsSet, false⟩
      = some { s with clients := s.clients.set i { pc := .idle, ret := .unit } } := by
    simp only [step?, hc2, clientStep]
    simp [setClient, hrun, List.set_set]
  simp only [run, h1, h2]

/-- **`stop()` on a stopped pool is a no-op** (same shape). -/
theorem C11_idempotent_stop (s : State) (i : Nat) (c : Client) (hc : s.clients[i]? = some c) (hpc : c.pc = .idle)
    (hstopped : s.stop = true) (hctl : isCtl s i = true) :
    run s [⟨.client i, .callStop, false⟩, ⟨.client i, .eventIsSet, false⟩]
      = some { s with clients := s.clients.set i { pc := .idle, ret := .unit } } := by
  have hlt : i < s.clients.length := (List.getElem?_eq_some_iff.mp hc).1
  have h1 : step? s ⟨.client i, .callStop, false⟩ = some (setClient s i { pc := .stopIsSet, ret := .none }) := by
    simp only [step?, hc, clientStep, hpc, hctl, if_true]
  have hc2 : (setClient s i { pc := .stopIsSet, ret := .none }).clients[i]? = some { pc := .stopIsSet, ret := .none } := by
    simp [setClient, hlt]
  have h2 : step? (setClient s i { pc := .stopIsSet, ret := .none }) ⟨.client i, .eventIsSet, false⟩
      = some { s with clients := s.clients.set i { pc := .idle, ret := .unit } } := by
    simp only [step?, hc2, clientStep]
    simp [setClient, hstopped, List.set_set]
  simp only [run, h1, h2]

example : isCtl (init { max := 2, min := 1, qbound := 0 } 1) 0 = true := rfl

/-! Statements not (yet) proved — kept at full strength. -/

/-- While a client is inside `stop()` some non-environment action is enabled unless a task body is running
    (no stuck state), and the measure (remaining steps of live workers + sentinels to place + threads to join)
    strictly decreases on every non-environment step: `stop()` returns on every fair run in which running tasks finish. -/
def C11_stop_no_stuck_full_statement : Prop :=
  ∀ (cfg : Config) (n : Nat) (s : State), cfg.singleCtl = true → Reach (init cfg n) s →
    (∃ c, s.clients[0]? = some c ∧ (match c.pc with
        | .stopSet | .stopAcq | .stopPut _ | .stopRel _ | .stopAlive _ | .stopJoin _ | .stopAlive2 _
        | .clrAcq | .clrGet | .clrDone _ | .clrJoin | .clrRel => True | _ => False)) →
    (∀ w ∈ s.workers, w.pc ≠ .body) →
    ∃ a s', (match a.op with | .taskEnd _ | .callStart | .callStop | .callClear | .callJoin | .callJoinT | .callEnqueue
                             | .callWait _ => False | _ => True) ∧ step? s a = some s'

/-- After `stop()` returned (single controlling thread) every worker is in its terminal state, the counters are zero,
    `_threads` is empty and the queue accounting is that of a fresh pool (`unfinished = |queue|`, `pending = #tasks`). -/
def C11_workers_exit_restart_full_statement : Prop :=
  ∀ (cfg : Config) (n : Nat) (s : State), cfg.singleCtl = true → Reach (init cfg n) s → s.stop = true →
    (∀ c, s.clients[0]? = some c → (match c.pc with
        | .stopAcq | .stopPut _ | .stopRel _ | .stopAlive _ | .stopJoin _ | .stopAlive2 _
        | .clrAcq | .clrGet | .clrDone _ | .clrJoin | .clrRel => False | _ => True)) →
    (∀ w ∈ s.workers, w.pc = .dead) ∧ s.nbThreads = 0 ∧ s.nbActive = 0 ∧ s.threads = [] ∧
    s.unfinished = s.queue.length ∧ s.nbPending = s.queue.countP isTask

theorem C11_gen_poolJoinShape : Generated.poolJoinShape = some joinShapeSpec := by decide
theorem C11_gen_poolUnlockedAccesses : Generated.poolUnlockedAccesses = some unlockedAccessesSpec := by decide
theorem C11_gen_poolSpawnRefusal : Generated.poolSpawnRefusal = some spawnRefusalSpec := by decide
theorem C11_gen_poolClearDecrementsTasksOnly : Generated.poolClearDecrementsTasksOnly = some clearDecrementsTasksOnlySpec := by decide

end JRV.Props
