/-
  C11 — companion theorems of the facts extracted from jsonrpclib/threadpool.py (tools/extractors/pool.py): each relates
  one `Generated.<fact>` to the constant of JRV.Model.Pool that the steps of the model encode.  Kept apart from
  JRV/Properties/C11.lean so that a source edit that changes one fact fails that companion only.
-/
import JRV.Model.Pool
import JRV.Generated

namespace JRV.Props
open JRV JRV.Pool

theorem C11_gen_poolJoinShape : Generated.poolJoinShape = some joinShapeSpec := by decide
theorem C11_gen_poolUnlockedAccesses : Generated.poolUnlockedAccesses = some unlockedAccessesSpec := by decide
theorem C11_gen_poolSpawnRefusal : Generated.poolSpawnRefusal = some spawnRefusalSpec := by decide
theorem C11_gen_poolClearDecrementsTasksOnly : Generated.poolClearDecrementsTasksOnly = some clearDecrementsTasksOnlySpec := by decide
/-- The failure branch of `__start_thread` leaves the accounting untouched, so `stop()` finds `nb_threads = 0` afterwards. -/
theorem C11_gen_poolStartRollback : Generated.poolStartRollback = some startRollbackSpec := by decide
/-- `stop()` and `enqueue()` put into the queue with a blocking, timed `put` (the model's `stopPut` / `enqPut` steps): on
    a bounded queue every listed worker gets its stop marker as soon as there is room for it. -/
theorem C11_gen_poolQueuePuts : Generated.poolQueuePuts = some queuePutsSpec := by decide

end JRV.Props
