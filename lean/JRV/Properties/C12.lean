/-
  C12 — Servers isolate concurrent clients and always shut down cleanly.

  Model: JRV.Model.ServerLife.  Theorems over every reachable state of the life-cycle LTS: any number of
  connections, any interleaving of the serving thread, the closing thread, an external shutdown() caller and
  the handler tasks; `f` (the sequential dispatcher) is arbitrary.  The socket layer and BaseServer are an
  environment model (see the model file): labelled partial for that reason.
-/
import JRV.Model.ServerLife
import JRV.Lemmas.PoolCompose
import JRV.Properties.C09
import JRV.Generated

set_option linter.unusedSimpArgs false

namespace JRV.Props
open JRV.SL

/-- Steps the serving thread still needs before `is_shut_down` is set, once a shutdown was requested. -/
def serveRemaining (s : State) : Nat :=
  match s.spc with
  | .clearEvent => 4
  | .loop => 3
  | .exitResetReq => 2
  | .exitSetEvent => 1
  | _ => 0

/-- The inductive invariant. -/
structure Good (f : Nat → Nat) (s : State) : Prop where
  replies : ∀ c ∈ s.conns, (c.reply = none ∨ c.reply = some (f c.body)) ∧ (c.reply.isSome = true → c.started = true)
  servingPc : s.serving = true → s.spc ≠ .notStarted ∧ s.spc ≠ .setServing ∧ s.spc ≠ .finished
  closerAfterServe : (s.cpc = .setReq ∨ s.cpc = .waitEvent) → s.spc ≠ .notStarted ∧ s.spc ≠ .setServing
  reqKept : s.cpc = .waitEvent → (s.spc = .clearEvent ∨ s.spc = .loop) → s.shutdownReq = true
  reqKeptD : s.dpc = .waitEvent → (s.spc = .clearEvent ∨ s.spc = .loop) → s.shutdownReq = true
  dAfterServe : (s.dpc = .setReq ∨ s.dpc = .waitEvent) → s.spc ≠ .notStarted ∧ s.spc ≠ .setServing ∧ s.spc ≠ .clearEvent
  eventSet : (s.spc = .clearServing ∨ s.spc = .finished) → s.isShutDown = true
  socketClosed : (s.cpc = .stopPool ∨ s.cpc = .returned) → s.socketOpen = false
  poolIff : s.poolStopped = true ↔ s.cpc = .returned
  drained : s.poolStopped = true → ∀ c ∈ s.conns, c.started = true → c.reply.isSome = true

private theorem mem_set {cs : List Conn} {i : Nat} {c x : Conn} (h : x ∈ cs.set i c) : x = c ∨ x ∈ cs := by
  rcases List.mem_or_eq_of_mem_set h with h | h
  · exact Or.inr h
  · exact Or.inl h

theorem good_init (f : Nat → Nat) : Good f init := by
  constructor <;> simp [init]

theorem good_step (f : Nat → Nat) (s s' : State) (a : Action) (hg : Good f s) (hs : step? f s a = some s') :
    Good f s' := by
  obtain ⟨h1, h2, h3, h4, h4d, h5, h6, h7, h8, h9⟩ := hg
  cases a with
  | startServe =>
    simp only [step?] at hs
    split at hs <;> simp at hs
    subst hs
    rename_i hn
    constructor <;> simp_all
  | serveStep =>
    simp only [step?] at hs
    cases hp : s.spc <;> simp only [hp] at hs
    all_goals (try (simp at hs))
    all_goals (try (split at hs))
    all_goals (try (simp at hs))
    all_goals (try (obtain ⟨hcnd, hs⟩ := hs))
    all_goals (try (subst hs))
    all_goals (constructor <;> simp_all)
  | accept body =>
    simp only [step?] at hs
    split at hs <;> simp at hs
    subst hs
    rename_i hc
    constructor <;> simp_all
    · intro c hc'
      rcases hc' with hc' | rfl
      · exact h1 c hc'
      · simp
  | handlerStart i =>
    simp only [step?] at hs
    cases hc : s.conns[i]? with
    | none => simp [hc] at hs
    | some c =>
      simp only [hc] at hs
      split at hs <;> simp at hs
      subst hs
      rename_i hcond
      have hmem : c ∈ s.conns := List.mem_of_getElem? hc
      constructor <;> simp_all [setConn]
      · intro x hx
        rcases mem_set hx with rfl | hx
        · have := h1 c hmem; simp_all
        · exact h1 x hx
  | handlerFinish i =>
    simp only [step?] at hs
    cases hc : s.conns[i]? with
    | none => simp [hc] at hs
    | some c =>
      simp only [hc] at hs
      split at hs <;> simp at hs
      subst hs
      rename_i hcond
      have hmem : c ∈ s.conns := List.mem_of_getElem? hc
      constructor <;> simp_all [setConn]
      · intro x hx
        rcases mem_set hx with rfl | hx
        · simp_all
        · exact h1 x hx
      · intro hp x hx hst
        rcases mem_set hx with rfl | hx
        · simp
        · exact h9 hp x hx hst
  | beginClose =>
    simp only [step?] at hs
    split at hs <;> simp at hs
    subst hs
    constructor <;> simp_all
  | closeStep =>
    simp only [step?] at hs
    cases hp : s.cpc <;> simp only [hp] at hs
    all_goals (try (simp at hs))
    all_goals (try (split at hs))
    all_goals (try (simp at hs))
    all_goals (try (obtain ⟨hcnd, hs⟩ := hs))
    all_goals (try (subst hs))
    all_goals (constructor <;> simp_all)
    all_goals (try (intro c hc hst; rcases hcnd c hc with h | h <;> simp_all))
  | beginShutdown =>
    simp only [step?] at hs
    split at hs <;> simp at hs
    subst hs
    constructor <;> simp_all
  | shutdownStep =>
    simp only [step?] at hs
    cases hp : s.dpc <;> simp only [hp] at hs
    all_goals (try (simp at hs))
    all_goals (try (split at hs))
    all_goals (try (simp at hs))
    all_goals (try (obtain ⟨hcnd, hs⟩ := hs))
    all_goals (try (subst hs))
    all_goals (constructor <;> simp_all)

theorem good_of_reach (f : Nat → Nat) (s : State) (h : Reach f s) : Good f s := by
  induction h with
  | init => exact good_init f
  | step a _ hs ih => exact good_step f _ _ a ih hs

private theorem serve_clearEvent (f : Nat → Nat) (s : State) (hp : s.spc = .clearEvent) :
    step? f s .serveStep = some (if s.socketOpen then { s with isShutDown := false, spc := .loop }
                                 else { s with isShutDown := false, spc := .exitResetReq }) := by
  simp only [step?, hp]; split <;> rfl

private theorem serve_loop_req (f : Nat → Nat) (s : State) (hp : s.spc = .loop) (hr : s.shutdownReq = true) :
    step? f s .serveStep = some { s with spc := .exitResetReq } := by
  simp [step?, hp, hr]

private theorem serve_exitResetReq (f : Nat → Nat) (s : State) (hp : s.spc = .exitResetReq) :
    step? f s .serveStep = some { s with shutdownReq := false, spc := .exitSetEvent } := by
  simp [step?, hp]

private theorem serve_exitSetEvent (f : Nat → Nat) (s : State) (hp : s.spc = .exitSetEvent) :
    step? f s .serveStep = some { s with isShutDown := true, spc := .clearServing } := by
  simp [step?, hp]

/-- Isolation: whatever the number of connections and the interleaving, the reply written on a connection
    is the sequential dispatcher's reply to *that connection's* body — no cross-talk. -/
theorem C12_isolation (f : Nat → Nat) (s : State) (h : Reach f s) (i : Nat) (c : Conn)
    (hc : s.conns[i]? = some c) : c.reply = none ∨ c.reply = some (f c.body) :=
  ((good_of_reach f s h).replies c (List.mem_of_getElem? hc)).1

/-- No lost or duplicated executions: a handler task starts at most once (a started task cannot start
    again) and writes its reply at most once. -/
theorem C12_once (f : Nat → Nat) (s : State) (i : Nat) (c : Conn) (hc : s.conns[i]? = some c) :
    (c.started = true → step? f s (.handlerStart i) = none) ∧
    (c.reply.isSome = true → step? f s (.handlerFinish i) = none) := by
  constructor <;> intro h <;> simp [step?, hc, h]
  cases hr : c.reply <;> simp_all

/-- `server_close()` never gets stuck waiting for the serving loop: whenever the closing thread waits for
    `is_shut_down`, either the event is already set or the serving thread has an enabled step that strictly
    decreases the number of steps left before it sets the event (so under fair scheduling the wait ends).
    In particular the closing thread never waits when the server never served. -/
theorem C12_close_no_stuck (f : Nat → Nat) (s : State) (h : Reach f s) (hw : s.cpc = .waitEvent) :
    s.isShutDown = true ∨
    (∃ s', step? f s .serveStep = some s' ∧ serveRemaining s' < serveRemaining s ∧ s'.cpc = .waitEvent) := by
  have g := good_of_reach f s h
  have h3 := g.closerAfterServe (Or.inr hw)
  cases hp : s.spc with
  | notStarted => exact absurd hp h3.1
  | setServing => exact absurd hp h3.2
  | clearEvent =>
    right
    refine ⟨_, serve_clearEvent f s hp, ?_, ?_⟩ <;> split <;> simp [serveRemaining, hp, hw]
  | loop =>
    right
    have hreq := g.reqKept hw (Or.inr hp)
    exact ⟨_, serve_loop_req f s hp hreq, by simp [serveRemaining, hp], by simp [hw]⟩
  | exitResetReq => right; exact ⟨_, serve_exitResetReq f s hp, by simp [serveRemaining, hp], by simp [hw]⟩
  | exitSetEvent => right; exact ⟨_, serve_exitSetEvent f s hp, by simp [serveRemaining, hp], by simp [hw]⟩
  | clearServing => left; exact g.eventSet (Or.inl hp)
  | finished => left; exact g.eventSet (Or.inr hp)

/-- The same for an external `shutdown()` issued while serving. -/
theorem C12_shutdown_no_stuck (f : Nat → Nat) (s : State) (h : Reach f s) (hw : s.dpc = .waitEvent) :
    s.isShutDown = true ∨
    (∃ s', step? f s .serveStep = some s' ∧ serveRemaining s' < serveRemaining s ∧ s'.dpc = .waitEvent) := by
  have g := good_of_reach f s h
  have h3 := g.dAfterServe (Or.inr hw)
  cases hp : s.spc with
  | notStarted => exact absurd hp h3.1
  | setServing => exact absurd hp h3.2.1
  | clearEvent => exact absurd hp h3.2.2
  | loop =>
    right
    have hreq := g.reqKeptD hw (Or.inr hp)
    exact ⟨_, serve_loop_req f s hp hreq, by simp [serveRemaining, hp], by simp [hw]⟩
  | exitResetReq => right; exact ⟨_, serve_exitResetReq f s hp, by simp [serveRemaining, hp], by simp [hw]⟩
  | exitSetEvent => right; exact ⟨_, serve_exitSetEvent f s hp, by simp [serveRemaining, hp], by simp [hw]⟩
  | clearServing => left; exact g.eventSet (Or.inl hp)
  | finished => left; exact g.eventSet (Or.inr hp)

/-- The other steps of `server_close()` are never blocked except `pool.stop()`, which waits exactly for the
    in-flight requests (handler tasks that started and have not replied) — and those can always finish. -/
theorem C12_close_steps_enabled (f : Nat → Nat) (s : State) :
    (s.cpc = .readServing ∨ s.cpc = .setReq ∨ s.cpc = .closeSocket → (step? f s .closeStep).isSome = true) ∧
    (s.cpc = .stopPool → inFlight s = false → (step? f s .closeStep).isSome = true) ∧
    (∀ i c, s.conns[i]? = some c → c.started = true → c.reply = none → (step? f s (.handlerFinish i)).isSome = true) := by
  refine ⟨?_, ?_, ?_⟩
  · rintro (h | h | h) <;> simp [step?, h]
  · intro h hin
    simp only [step?, h]
    have : (s.conns.all fun c => !c.started || c.reply.isSome) = true := by
      simp only [inFlight, List.any_eq_false, Bool.and_eq_true, not_and, Bool.not_eq_true] at hin
      simp only [List.all_eq_true, Bool.or_eq_true, Bool.not_eq_true']
      intro c hc
      by_cases hst : c.started = true
      · right; have := hin c hc hst; cases hr : c.reply <;> simp_all
      · left; simpa using hst
    simp [this]
  · intro i c hc hst hr
    simp [step?, hc, hst, hr]

/-- After `server_close()` has returned: the listening socket is closed, the request pool is stopped, every
    request that was in flight has completed, and nothing starts any more. -/
theorem C12_close_post (f : Nat → Nat) (s : State) (h : Reach f s) (hr : s.cpc = .returned) :
    s.socketOpen = false ∧ s.poolStopped = true ∧ inFlight s = false ∧
    (∀ i, step? f s (.handlerStart i) = none) ∧ (∀ b, step? f s (.accept b) = none) := by
  have g := good_of_reach f s h
  have hso := g.socketClosed (Or.inr hr)
  have hps := g.poolIff.mpr hr
  refine ⟨hso, hps, ?_, ?_, ?_⟩
  · simp only [inFlight, List.any_eq_false, Bool.and_eq_true, not_and, Bool.not_eq_true]
    intro c hc hst
    have := g.drained hps c hc hst
    cases hrp : c.reply <;> simp_all
  · intro i
    simp only [step?]
    cases s.conns[i]? <;> simp [hps]
  · intro b; simp [step?, hso]

/-- Closing a server that never served goes straight through: four steps, no waiting. -/
theorem C12_close_without_serving (f : Nat → Nat) :
    (run f init [.beginClose, .closeStep, .closeStep, .closeStep]).map (fun s => (s.cpc, s.socketOpen, s.poolStopped))
      = some (.returned, false, true) := by
  simp [run, step?, init]


/- ---------- the request pool of `JRV.Model.ServerLife` instantiated by `JRV.Model.Pool` ---------- -/

/-- The image, in the life-cycle model's connection table, of the pool task that carries the handler of a connection
    with request body `body`: the handler has started iff the task body has been entered (`execCount = 1`), the reply is
    written iff the task is finished. -/
def connOfTask (f : Nat → Nat) (body : Nat) (tk : JRV.Pool.Task) : Conn :=
  { body := body, started := tk.execCount == 1, reply := if tk.phase = .finished then some (f body) else none }

private theorem pool_begin_is_handlerStart (f : Nat → Nat) (body : Nat → Nat)
    (cfg : JRV.Pool.Config) (n : Nat) (ps ps' : JRV.Pool.State) (hr : JRV.Pool.Reach (JRV.Pool.init cfg n) ps)
    (j : Nat) (w : JRV.Pool.Worker) (hw : ps.workers[j]? = some w) (hpc : w.pc = .begin)
    (h : JRV.Pool.step? ps ⟨.worker j, .taskBegin, false⟩ = some ps') :
    ∃ t tk tk', w.held = some t ∧ ps.tasks[t]? = some tk ∧ ps'.tasks[t]? = some tk' ∧
      (connOfTask f (body t) tk).started = false ∧ (connOfTask f (body t) tk).reply = none ∧
      connOfTask f (body t) tk' = { connOfTask f (body t) tk with started := true } := by
  obtain ⟨t, tk, hheld, htk, _, hph⟩ := (JRV.Pool.TaskInv_reach hr).wheld j w hw .held (by simp [JRV.Pool.phaseOfPc, hpc])
  have hex := (JRV.Pool.TaskInv_reach hr).exec t tk htk
  have hlt : t < ps.tasks.length := (List.getElem?_eq_some_iff.mp htk).1
  simp only [JRV.Pool.step?, hw, JRV.Pool.workerStep, hpc, hheld, hlt, if_true] at h
  injection h with h; subst h
  refine ⟨t, tk, { tk with phase := .running, execCount := tk.execCount + 1 }, hheld, htk, ?_, ?_, ?_, ?_⟩
  · simp only [JRV.Pool.setWorker, JRV.Pool.updTask]
    exact JRV.Pool.getElem?_modify_eq htk
  · simp [connOfTask, hex, hph, JRV.Pool.execOf]
  · simp [connOfTask, hph]
  · simp [connOfTask, hex, hph, JRV.Pool.execOf]

private theorem pool_end_is_handlerFinish (f : Nat → Nat) (body : Nat → Nat)
    (cfg : JRV.Pool.Config) (n : Nat) (ps ps' : JRV.Pool.State) (hr : JRV.Pool.Reach (JRV.Pool.init cfg n) ps)
    (j : Nat) (w : JRV.Pool.Worker) (hw : ps.workers[j]? = some w) (hpc : w.pc = .body) (o : JRV.Pool.Outcome)
    (h : JRV.Pool.step? ps ⟨.worker j, .taskEnd o, false⟩ = some ps') :
    ∃ t tk tk', w.held = some t ∧ ps.tasks[t]? = some tk ∧ ps'.tasks[t]? = some tk' ∧
      (connOfTask f (body t) tk).started = true ∧ (connOfTask f (body t) tk).reply = none ∧
      connOfTask f (body t) tk' = { connOfTask f (body t) tk with reply := some (f (body t)) } := by
  obtain ⟨t, tk, hheld, htk, _, hph⟩ := (JRV.Pool.TaskInv_reach hr).wheld j w hw .running (by simp [JRV.Pool.phaseOfPc, hpc])
  have hex := (JRV.Pool.TaskInv_reach hr).exec t tk htk
  have hlt : t < ps.tasks.length := (List.getElem?_eq_some_iff.mp htk).1
  simp only [JRV.Pool.step?, hw, JRV.Pool.workerStep, hpc, hheld, hlt, if_true] at h
  injection h with h; subst h
  refine ⟨t, tk, { tk with phase := .finished, outcome := some o }, hheld, htk, ?_, ?_, ?_, ?_⟩
  · simp only [JRV.Pool.setWorker, JRV.Pool.updTask]
    exact JRV.Pool.getElem?_modify_eq htk
  · simp [connOfTask, hex, hph, JRV.Pool.execOf]
  · simp [connOfTask, hph]
  · simp [connOfTask, hex, hph, JRV.Pool.execOf]

/-- **What `JRV.Model.ServerLife` assumes of its request pool is what the pool model provides** (safety half).
    The life-cycle model abstracts the request pool to three things; each is matched, in every reachable state of
    `JRV.Model.Pool` (any pool size, any interleaving), through the map `connOfTask`:
    1. `handlerStart i` needs `¬ started` and sets it: a `task.begin` step of a worker finds the image of its task not
       started (the task is in phase `held`, never run: `C09_single_holder`, `C09_exec_count_phase`) and leaves it started,
       without reply; and a task is never begun twice — `execCount ≤ 1` in every reachable state (`C09_at_most_once`);
    2. `handlerFinish i` needs `started ∧ reply = none` and writes the reply: so does the `task.end` step;
    3. the `stopPool` step of `server_close()` (the return of `ThreadPool.stop()`) needs every started handler to have replied,
       sets `poolStopped`, which disables `handlerStart`, and the property wants "every worker of the request pool it stops
       terminates": once `stop()` is past its loop joining the worker threads — in particular after it has returned — every
       worker thread is dead and no worker action, `task.begin` included, is enabled (`C09_none_after_stop`; single
       controlling thread, which is how a server uses its pool: only `server_close()` stops it); hence no task is held or
       running there, i.e. the image of every task satisfies `!started || reply.isSome`.  (What makes `stop()` wait for the
       handlers in flight is this join of the worker threads, not the `join()` it calls afterwards through `clear()`: the
       theorem does not depend on the shape of `join()`, `C11_join_true`.)
    Not instantiated here (liveness of `stop()`): that `stop()` does get past its join loop once the running handlers finish
    is `C11_stop_no_stuck` + `C11_stop_measure` (and `C11_workers_exit` restates clause 3 with the fresh-pool accounting); they
    are theorems about the same pool model, not imported into this file because C11.lean also carries the companion theorem
    of the `join()` shape, on which `server_close()` does not depend.  Stage 2 of harness/props/c12.py monitors the return of
    `server_close()` and the termination of the workers on the real code under the deterministic scheduler (`close-hang`,
    `workers-alive`).  That an accepted handler task is eventually begun while the pool runs is `C09_eventually_once` /
    `C09_eventually_begins` (with `C10_no_starvation`, `C10_progress_no_stuck`). -/
theorem C12_pool_instantiation (f : Nat → Nat) (body : Nat → Nat)
    (cfg : JRV.Pool.Config) (n : Nat) (ps : JRV.Pool.State) (hr : JRV.Pool.Reach (JRV.Pool.init cfg n) ps) :
    (∀ (t : Nat) (tk : JRV.Pool.Task), ps.tasks[t]? = some tk → tk.execCount ≤ 1) ∧
    (∀ j w ps', ps.workers[j]? = some w → w.pc = .begin → JRV.Pool.step? ps ⟨.worker j, .taskBegin, false⟩ = some ps' →
      ∃ t tk tk', w.held = some t ∧ ps.tasks[t]? = some tk ∧ ps'.tasks[t]? = some tk' ∧
        (connOfTask f (body t) tk).started = false ∧ (connOfTask f (body t) tk).reply = none ∧
        connOfTask f (body t) tk' = { connOfTask f (body t) tk with started := true }) ∧
    (∀ j w o ps', ps.workers[j]? = some w → w.pc = .body → JRV.Pool.step? ps ⟨.worker j, .taskEnd o, false⟩ = some ps' →
      ∃ t tk tk', w.held = some t ∧ ps.tasks[t]? = some tk ∧ ps'.tasks[t]? = some tk' ∧
        (connOfTask f (body t) tk).started = true ∧ (connOfTask f (body t) tk).reply = none ∧
        connOfTask f (body t) tk' = { connOfTask f (body t) tk with reply := some (f (body t)) }) ∧
    (cfg.singleCtl = true → ps.stop = true →
      (∀ c, ps.clients[0]? = some c → (match c.pc with
          | .stopAcq | .stopPut _ | .stopRel _ | .stopAlive _ | .stopJoin _ | .stopAlive2 _ => False | _ => True)) →
      (∀ (j : Nat) (w : JRV.Pool.Worker), ps.workers[j]? = some w → w.pc = .dead) ∧
      (∀ (j : Nat) (op : JRV.Pool.Op) (tmo : Bool), JRV.Pool.step? ps ⟨.worker j, op, tmo⟩ = none) ∧
      (∀ (t : Nat) (tk : JRV.Pool.Task), ps.tasks[t]? = some tk →
        (!(connOfTask f (body t) tk).started || (connOfTask f (body t) tk).reply.isSome) = true)) := by
  refine ⟨fun t tk ht => C09_at_most_once cfg n ps hr t tk ht, ?_, ?_, ?_⟩
  · intro j w ps' hw hpc h
    exact pool_begin_is_handlerStart f body cfg n ps ps' hr j w hw hpc h
  · intro j w o ps' hw hpc h
    exact pool_end_is_handlerFinish f body cfg n ps ps' hr j w hw hpc o h
  · intro hctl hstop hpc
    obtain ⟨hdead, hnone⟩ := C09_none_after_stop cfg n ps hctl hr hstop hpc
    refine ⟨hdead, hnone, fun t tk ht => ?_⟩
    have hex := (JRV.Pool.TaskInv_reach hr).exec t tk ht
    have hown := (JRV.Pool.TaskInv2_reach hr).own t tk ht
    cases hph : tk.phase with
    | held =>
      obtain ⟨j, w, hw, _, hp⟩ := hown (Or.inl hph)
      rw [hdead j w hw] at hp; simp [JRV.Pool.phaseOfPc] at hp
    | running =>
      obtain ⟨j, w, hw, _, hp⟩ := hown (Or.inr hph)
      rw [hdead j w hw] at hp; simp [JRV.Pool.phaseOfPc] at hp
    | created => simp [connOfTask, hex, hph, JRV.Pool.execOf]
    | queued => simp [connOfTask, hex, hph, JRV.Pool.execOf]
    | finished => simp [connOfTask, hex, hph, JRV.Pool.execOf]
    | dropped => simp [connOfTask, hex, hph, JRV.Pool.execOf]

/- Non-vacuity: a started pool, one handler task enqueued (the accept loop is client 0), taken by worker 0 which stands at
   `task.begin` (hypotheses of clause 1); after `task.begin` and `task.end` the image is a connection that has replied. -/
example :
    (do let ps ← JRV.Pool.run (JRV.Pool.init { max := 1, min := 0, qbound := 0 } 1)
          [⟨.client 0, .callStart, false⟩, ⟨.client 0, .eventIsSet, false⟩, ⟨.client 0, .eventClear, false⟩,
           ⟨.client 0, .queueQsize, false⟩, ⟨.client 0, .callEnqueue, false⟩, ⟨.client 0, .lockAcquire, false⟩,
           ⟨.client 0, .queuePut, false⟩, ⟨.client 0, .lockAcquire, false⟩, ⟨.client 0, .eventIsSet, false⟩,
           ⟨.client 0, .lockRelease, false⟩, ⟨.client 0, .lockRelease, false⟩,
           ⟨.worker 0, .eventIsSet, false⟩, ⟨.worker 0, .queueGet, false⟩, ⟨.worker 0, .lockAcquire, false⟩,
           ⟨.worker 0, .lockRelease, false⟩]
        let ps1 ← JRV.Pool.step? ps ⟨.worker 0, .taskBegin, false⟩
        let ps2 ← JRV.Pool.step? ps1 ⟨.worker 0, .taskEnd .ok, false⟩
        pure (ps.workers.map (·.pc), ps.tasks.map (connOfTask (· + 100) 7), ps1.tasks.map (connOfTask (· + 100) 7),
              ps2.tasks.map (connOfTask (· + 100) 7)))
      = some ([.begin], [{ body := 7 }], [{ body := 7, started := true }], [{ body := 7, started := true, reply := some 107 }]) := by
  decide +kernel

/- Non-vacuity of clause 3: the handler task runs to its end, its worker retires (min_threads = 0), `stop()` is called and
   returns: flag set, controlling thread idle, the worker dead, the connection has replied. -/
example :
    (JRV.Pool.run (JRV.Pool.init { max := 1, min := 0, qbound := 0 } 1)
          [⟨.client 0, .callStart, false⟩, ⟨.client 0, .eventIsSet, false⟩, ⟨.client 0, .eventClear, false⟩,
           ⟨.client 0, .queueQsize, false⟩, ⟨.client 0, .callEnqueue, false⟩, ⟨.client 0, .lockAcquire, false⟩,
           ⟨.client 0, .queuePut, false⟩, ⟨.client 0, .lockAcquire, false⟩, ⟨.client 0, .eventIsSet, false⟩,
           ⟨.client 0, .lockRelease, false⟩, ⟨.client 0, .lockRelease, false⟩,
           ⟨.worker 0, .eventIsSet, false⟩, ⟨.worker 0, .queueGet, false⟩, ⟨.worker 0, .lockAcquire, false⟩,
           ⟨.worker 0, .lockRelease, false⟩, ⟨.worker 0, .taskBegin, false⟩, ⟨.worker 0, .taskEnd .ok, false⟩,
           ⟨.worker 0, .futSet, false⟩, ⟨.worker 0, .queueTaskDone, false⟩, ⟨.worker 0, .lockAcquire, false⟩,
           ⟨.worker 0, .lockRelease, false⟩, ⟨.worker 0, .lockAcquire, false⟩, ⟨.worker 0, .lockRelease, false⟩,
           ⟨.worker 0, .lockAcquire, false⟩, ⟨.worker 0, .lockRelease, false⟩,
           ⟨.client 0, .callStop, false⟩, ⟨.client 0, .eventIsSet, false⟩, ⟨.client 0, .eventSet, false⟩,
           ⟨.client 0, .lockAcquire, false⟩, ⟨.client 0, .lockRelease, false⟩, ⟨.client 0, .lockAcquire, false⟩,
           ⟨.client 0, .queueGetNowait, false⟩, ⟨.client 0, .queueJoin, false⟩, ⟨.client 0, .lockRelease, false⟩]).map
        (fun s => (s.cfg.singleCtl, s.stop, s.clients.map (·.pc), s.workers.map (·.pc), s.tasks.map (connOfTask (· + 100) 7)))
      = some (true, true, [.idle], [.dead], [{ body := 7, started := true, reply := some 107 }]) := by
  rfl

/-- Tie to the source: the body of PooledJSONRPCServer.server_close / serve_forever / process_request. -/
theorem C12_gen_serverClose : Generated.pooledServerClose = some ["if-serving:shutdown", "server_close", "pool.stop"] := by decide
theorem C12_gen_serveFlag : Generated.pooledServeForeverSetsFlag = some (true, true) := by decide
theorem C12_gen_processRequest : Generated.pooledProcessRequestEnqueues = some true := by decide

/- Non-vacuity: serve, accept two connections, close while one request is in flight. -/
example : ((run (fun b => b + 100) init
    [.startServe, .serveStep, .serveStep, .accept 1, .accept 2, .handlerStart 0, .beginClose, .closeStep, .closeStep,
     .serveStep, .serveStep, .serveStep, .closeStep, .closeStep, .handlerFinish 0, .closeStep]).map
      (fun s => (s.cpc, s.conns.map (·.reply)))) = some (.returned, [some 101, none]) := by decide

end JRV.Props
