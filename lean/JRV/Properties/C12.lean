/-
  C12 — Servers isolate concurrent clients and always shut down cleanly.

  Model: JRV.Model.ServerLife.  Theorems over every reachable state of the life-cycle LTS: plain or pooled server,
  any number of connections, any mix of requests (calls, notifications, failing methods, malformed bodies), any
  interleaving of the serving thread, the closing thread, an external shutdown() caller, the handlers and the
  clients; `f` (the sequential dispatcher: shared dispatcher state, body ↦ value) is arbitrary.  The socket layer
  and BaseServer are an environment model (see the model file).

  Two facts about the source are hypotheses of the theorems that need them and are discharged from the extracted
  facts in JRV/Properties/C12Gen.lean: `cfg.sharedWrites = false` (write footprint of the serve path, shared with
  C13) and `cfg.catchAll = true` (the two `except:` clauses of the serve path are bare).

  READING of "in-flight request" (adopted; stated in ctx.assumptions of harness/props/c12.py too): an accepted
  connection whose handler has begun counts as in flight until its request has been answered or the client has
  disconnected; stop operations wait for it (stdlib socketserver semantics: the handler holds its pool worker — plain
  server: the serving thread — until the exchange is over).  So a client that connects and stays silent, or keeps a
  persistent connection open after its reply, holds `server_close()` (pooled) / `shutdown()` (plain) until it sends or
  disconnects: `C12_idle_connection_holds_stop`, `C12_idle_released_by_client`, `C12_idle_persist`.  With that reading the
  stop clause of the property is the theorem `C12_full_statement`: stop operations are held back by in-flight
  connections only, and every in-flight connection can complete by a step of its client or of the server.
-/
import JRV.Model.ServerLife
import JRV.Model.ServerContend
import JRV.Lemmas.PoolCompose
import JRV.Properties.C09

set_option linter.unusedSimpArgs false
set_option linter.unusedVariables false

namespace JRV.Props
open JRV.SL

/-- Steps the serving thread still needs before `is_shut_down` is set, once a shutdown was requested. -/
def serveRemaining (s : State) : Nat :=
  match s.spc with
  | .clearEvent => 4
  | .loop => 3
  | .exitResetReq => 2
  | .exitSetEvent => 1
  | _ => 0

/-- Per-connection part of the invariant. -/
structure ConnOk (cfg : Cfg) (f : Nat → Nat → Nat) (c : Conn) : Prop where
  reply : cfg.sharedWrites = false → (c.reply = none ∨ c.reply = some (replyOf f 0 c.kind c.body))
  execsReply : c.reply.isSome = true → c.execs = execOf c.kind
  execsLe : c.execs ≤ 1
  fresh : (c.phase = .queued ∨ c.phase = .running) → c.reply = none ∧ c.execs = 0
  waiting : c.phase = .awaiting → c.reply = none → c.execs = 0
  noQueue : cfg.plain = true → c.phase ≠ .queued

/-- The inductive invariant. -/
structure Good (cfg : Cfg) (f : Nat → Nat → Nat) (s : State) : Prop where
  conns : ∀ c ∈ s.conns, ConnOk cfg f c
  dispConst : cfg.sharedWrites = false → s.disp = 0
  handlingPlain : cfg.plain = false → s.handling = none
  handlingOk : ∀ i, s.handling = some i → ∃ c, s.conns[i]? = some c ∧ (c.phase = .awaiting ∨ c.phase = .running)
  activeHandled : cfg.plain = true → ∀ i c, s.conns[i]? = some c → (c.phase = .awaiting ∨ c.phase = .running) →
    s.handling = some i
  servingPc : s.serving = true → s.spc ≠ .notStarted ∧ s.spc ≠ .setServing ∧ s.spc ≠ .finished
  closerAfterServe : (s.cpc = .setReq ∨ s.cpc = .waitEvent) → s.spc ≠ .notStarted ∧ s.spc ≠ .setServing
  reqKept : s.cpc = .waitEvent → (s.spc = .clearEvent ∨ s.spc = .loop) → s.shutdownReq = true
  reqKeptD : s.dpc = .waitEvent → (s.spc = .clearEvent ∨ s.spc = .loop) → s.shutdownReq = true
  dAfterServe : (s.dpc = .setReq ∨ s.dpc = .waitEvent) → s.spc ≠ .notStarted ∧ s.spc ≠ .setServing ∧ s.spc ≠ .clearEvent
  eventSet : (s.spc = .clearServing ∨ s.spc = .finished) → s.isShutDown = true
  socketClosed : (s.cpc = .stopPool ∨ s.cpc = .returned) → s.socketOpen = false
  poolIff : s.poolStopped = true ↔ (s.cpc = .returned ∧ cfg.plain = false)
  plainCloser : cfg.plain = true → (s.cpc = .idle ∨ s.cpc = .closeSocket ∨ s.cpc = .returned)
  drained : s.poolStopped = true → ∀ c ∈ s.conns, c.phase = .queued ∨ c.phase = .closed

private theorem mem_set {cs : List Conn} {i : Nat} {c x : Conn} (h : x ∈ cs.set i c) : x = c ∨ x ∈ cs := by
  rcases List.mem_or_eq_of_mem_set h with h | h
  · exact Or.inr h
  · exact Or.inl h

theorem good_init (cfg : Cfg) (f : Nat → Nat → Nat) : Good cfg f init := by
  constructor <;> simp [init]

/-- Frame: a step that leaves the connection table and the plain server's `handling` alone. -/
private theorem good_frame (cfg : Cfg) (f : Nat → Nat → Nat) (s s' : State) (hg : Good cfg f s)
    (hc : s'.conns = s.conns) (hh : s'.handling = s.handling) (hd : s'.disp = s.disp)
    (h1 : s'.serving = true → s'.spc ≠ .notStarted ∧ s'.spc ≠ .setServing ∧ s'.spc ≠ .finished)
    (h2 : (s'.cpc = .setReq ∨ s'.cpc = .waitEvent) → s'.spc ≠ .notStarted ∧ s'.spc ≠ .setServing)
    (h3 : s'.cpc = .waitEvent → (s'.spc = .clearEvent ∨ s'.spc = .loop) → s'.shutdownReq = true)
    (h4 : s'.dpc = .waitEvent → (s'.spc = .clearEvent ∨ s'.spc = .loop) → s'.shutdownReq = true)
    (h5 : (s'.dpc = .setReq ∨ s'.dpc = .waitEvent) → s'.spc ≠ .notStarted ∧ s'.spc ≠ .setServing ∧ s'.spc ≠ .clearEvent)
    (h6 : (s'.spc = .clearServing ∨ s'.spc = .finished) → s'.isShutDown = true)
    (h7 : (s'.cpc = .stopPool ∨ s'.cpc = .returned) → s'.socketOpen = false)
    (h8 : s'.poolStopped = true ↔ (s'.cpc = .returned ∧ cfg.plain = false))
    (h9 : cfg.plain = true → (s'.cpc = .idle ∨ s'.cpc = .closeSocket ∨ s'.cpc = .returned))
    (h10 : s'.poolStopped = true → ∀ c ∈ s.conns, c.phase = .queued ∨ c.phase = .closed) : Good cfg f s' where
  conns := by rw [hc]; exact hg.conns
  dispConst := by rw [hd]; exact hg.dispConst
  handlingPlain := by rw [hh]; exact hg.handlingPlain
  handlingOk := by rw [hh, hc]; exact hg.handlingOk
  activeHandled := by rw [hh, hc]; exact hg.activeHandled
  servingPc := h1
  closerAfterServe := h2
  reqKept := h3
  reqKeptD := h4
  dAfterServe := h5
  eventSet := h6
  socketClosed := h7
  poolIff := h8
  plainCloser := h9
  drained := by rw [hc]; exact h10

/-- Frame: a step of a handler or client that only touches the connection table, `handling` and `disp`. -/
private theorem good_conn_frame (cfg : Cfg) (f : Nat → Nat → Nat) (s s' : State) (hg : Good cfg f s)
    (e1 : s'.serving = s.serving) (e2 : s'.shutdownReq = s.shutdownReq) (e3 : s'.isShutDown = s.isShutDown)
    (e4 : s'.socketOpen = s.socketOpen) (e5 : s'.poolStopped = s.poolStopped) (e6 : s'.spc = s.spc)
    (e7 : s'.cpc = s.cpc) (e8 : s'.dpc = s.dpc)
    (hconns : ∀ c ∈ s'.conns, ConnOk cfg f c)
    (hdisp : cfg.sharedWrites = false → s'.disp = 0)
    (hhp : cfg.plain = false → s'.handling = none)
    (hho : ∀ i, s'.handling = some i → ∃ c, s'.conns[i]? = some c ∧ (c.phase = .awaiting ∨ c.phase = .running))
    (hah : cfg.plain = true → ∀ i c, s'.conns[i]? = some c → (c.phase = .awaiting ∨ c.phase = .running) →
      s'.handling = some i)
    (hdr : s'.poolStopped = true → ∀ c ∈ s'.conns, c.phase = .queued ∨ c.phase = .closed) : Good cfg f s' where
  conns := hconns
  dispConst := hdisp
  handlingPlain := hhp
  handlingOk := hho
  activeHandled := hah
  servingPc := by rw [e1, e6]; exact hg.servingPc
  closerAfterServe := by rw [e7, e6]; exact hg.closerAfterServe
  reqKept := by rw [e7, e6, e2]; exact hg.reqKept
  reqKeptD := by rw [e8, e6, e2]; exact hg.reqKeptD
  dAfterServe := by rw [e8, e6]; exact hg.dAfterServe
  eventSet := by rw [e6, e3]; exact hg.eventSet
  socketClosed := by rw [e7, e4]; exact hg.socketClosed
  poolIff := by rw [e5, e7]; exact hg.poolIff
  plainCloser := by rw [e7]; exact hg.plainCloser
  drained := hdr

private theorem all_drained {cs : List Conn} (h : cs.all (fun c => !c.started || c.done) = true) :
    ∀ c ∈ cs, c.phase = .queued ∨ c.phase = .closed := by
  intro c hc
  have := List.all_eq_true.mp h c hc
  cases hp : c.phase <;> simp_all [Conn.started, Conn.done]

private theorem drained_all {cs : List Conn} (h : ∀ c ∈ cs, c.phase ≠ .awaiting ∧ c.phase ≠ .running) :
    cs.all (fun c => !c.started || c.done) = true := by
  rw [List.all_eq_true]
  intro c hc
  have := h c hc
  cases hp : c.phase <;> simp_all [Conn.started, Conn.done]

private theorem all_drained' {cs : List Conn} (h : ∀ x ∈ cs, x.started = false ∨ x.done = true) :
    ∀ c ∈ cs, c.phase = .queued ∨ c.phase = .closed := by
  intro c hc
  have := h c hc
  cases hp : c.phase <;> simp_all [Conn.started, Conn.done]

private theorem good_closeStep (cfg : Cfg) (f : Nat → Nat → Nat) (s s' : State) (hg : Good cfg f s)
    (hs : step? cfg f s .closeStep = some s') : Good cfg f s' := by
  have ⟨_, _, _, _, _, h2, h3, h4, h4d, h5, h6, h7, h8, h9, h10⟩ := hg
  simp only [step?] at hs
  cases hp : s.cpc <;> simp only [hp] at hs
  · simp at hs
  · -- readServing
    simp at hs; subst hs
    cases hsv : s.serving
    · apply good_frame cfg f s _ hg <;> simp_all
    · apply good_frame cfg f s _ hg <;> simp_all
  · simp at hs; subst hs
    apply good_frame cfg f s _ hg <;> simp_all
  · split at hs <;> simp at hs
    subst hs
    apply good_frame cfg f s _ hg <;> simp_all
  · -- closeSocket
    simp at hs; subst hs
    cases hpl : cfg.plain
    · apply good_frame cfg f s _ hg <;> simp_all
    · apply good_frame cfg f s _ hg <;> simp_all
  · -- stopPool
    split at hs <;> simp at hs
    subst hs
    rename_i hcnd
    have hd := all_drained hcnd
    cases hpl : cfg.plain
    · apply good_frame cfg f s _ hg <;> simp_all
    · have := h9 hpl; simp_all
  · simp at hs

private theorem good_accept (cfg : Cfg) (f : Nat → Nat → Nat) (s s' : State) (b : Nat) (k : Kind) (ka : Bool)
    (hg : Good cfg f s) (hs : step? cfg f s (.accept b k ka) = some s') : Good cfg f s' := by
  simp only [step?] at hs
  split at hs <;> simp at hs
  subst hs
  rename_i hc
  obtain ⟨hloop, hopen, hpool, hbusy⟩ := hc
  apply good_conn_frame cfg f s _ hg <;> try rfl
  · intro c hc'
    simp only [List.mem_append, List.mem_singleton] at hc'
    rcases hc' with hc' | rfl
    · exact hg.conns c hc'
    · constructor <;> simp
  · exact hg.dispConst
  · intro hpl; simp [hpl]; exact hg.handlingPlain hpl
  · intro i hi
    cases hpl : cfg.plain
    · simp [hpl] at hi
      have := hg.handlingPlain hpl
      simp_all
    · simp [hpl] at hi
      subst hi
      simp
  · intro hpl i c hc' hact
    simp only [hpl, if_true]
    have hnone : s.handling = none := by simpa [busy, hpl] using hbusy
    rw [List.getElem?_append] at hc'
    split at hc'
    · have := hg.activeHandled hpl i c hc' hact
      simp_all
    · rename_i hlt
      cases hi : i - s.conns.length with
      | zero => congr; omega
      | succ n => simp [hi] at hc'
  · intro hp; simp [hpool] at hp

private theorem get_set {cs : List Conn} {i j : Nat} {c c' x : Conn} (hc : cs[i]? = some c)
    (h : (cs.set i c')[j]? = some x) : (j = i ∧ x = c') ∨ (j ≠ i ∧ cs[j]? = some x) := by
  have hlt : i < cs.length := (List.getElem?_eq_some_iff.mp hc).1
  rw [List.getElem?_set] at h
  split at h
  · rename_i hij
    simp [hlt] at h
    exact Or.inl ⟨hij.symm, h.symm⟩
  · rename_i hij
    exact Or.inr ⟨fun e => hij e.symm, h⟩

private theorem set_get_self {cs : List Conn} {i : Nat} {c c' : Conn} (hc : cs[i]? = some c) :
    (cs.set i c')[i]? = some c' := by
  have hlt : i < cs.length := (List.getElem?_eq_some_iff.mp hc).1
  simp [hlt]

private theorem set_get_ne {cs : List Conn} {i j : Nat} {c' : Conn} (hij : j ≠ i) :
    (cs.set i c')[j]? = cs[j]? := by
  rw [List.getElem?_set]; simp [Ne.symm hij]

private theorem good_handlerStart (cfg : Cfg) (f : Nat → Nat → Nat) (s s' : State) (i : Nat)
    (hg : Good cfg f s) (hs : step? cfg f s (.handlerStart i) = some s') : Good cfg f s' := by
  simp only [step?] at hs
  cases hc : s.conns[i]? with
  | none => simp [hc] at hs
  | some c =>
    simp only [hc] at hs
    split at hs <;> simp at hs
    subst hs
    rename_i hcond
    obtain ⟨hpl, hq, hpool⟩ := hcond
    have hmem : c ∈ s.conns := List.mem_of_getElem? hc
    have hok := hg.conns c hmem
    apply good_conn_frame cfg f s _ hg <;> try rfl
    · intro x hx
      rcases mem_set hx with rfl | hx
      · have := hok.fresh (Or.inl hq)
        constructor <;> simp_all
      · exact hg.conns x hx
    · exact hg.dispConst
    · exact hg.handlingPlain
    · intro j hj
      have := hg.handlingPlain hpl
      simp_all
    · intro hp; simp [hpl] at hp
    · intro hp; simp [hpool] at hp

private theorem good_request (cfg : Cfg) (f : Nat → Nat → Nat) (s s' : State) (i : Nat)
    (hg : Good cfg f s) (hs : step? cfg f s (.request i) = some s') : Good cfg f s' := by
  simp only [step?] at hs
  cases hc : s.conns[i]? with
  | none => simp [hc] at hs
  | some c =>
    simp only [hc] at hs
    split at hs <;> simp at hs
    subst hs
    rename_i hcond
    obtain ⟨hmay, haw, hrep⟩ := hcond
    have hmem : c ∈ s.conns := List.mem_of_getElem? hc
    have hok := hg.conns c hmem
    apply good_conn_frame cfg f s _ hg <;> try rfl
    · intro x hx
      rcases mem_set hx with rfl | hx
      · have := hok.waiting haw hrep
        constructor <;> simp_all
      · exact hg.conns x hx
    · intro hw; simp [hw]; exact hg.dispConst hw
    · exact hg.handlingPlain
    · intro j hj
      obtain ⟨x, hx, hact⟩ := hg.handlingOk j hj
      by_cases hji : j = i
      · subst hji; exact ⟨_, set_get_self hc, Or.inr rfl⟩
      · exact ⟨x, by simpa [set_get_ne hji] using hx, hact⟩
    · intro hpl j x hx hact
      rcases get_set hc hx with ⟨rfl, rfl⟩ | ⟨hji, hx⟩
      · simpa [mayRun, hpl] using hmay
      · exact hg.activeHandled hpl j x hx hact
    · intro hp x hx
      have := hg.drained hp c hmem
      simp_all

private theorem execOf_le (k : Kind) : execOf k ≤ 1 := by cases k <;> simp [execOf]

private theorem good_clientClose (cfg : Cfg) (f : Nat → Nat → Nat) (s s' : State) (i : Nat)
    (hg : Good cfg f s) (hs : step? cfg f s (.clientClose i) = some s') : Good cfg f s' := by
  simp only [step?] at hs
  cases hc : s.conns[i]? with
  | none => simp [hc] at hs
  | some c =>
    simp only [hc] at hs
    split at hs <;> simp at hs
    subst hs
    rename_i hcond
    obtain ⟨hmay, haw⟩ := hcond
    have hmem : c ∈ s.conns := List.mem_of_getElem? hc
    have hok := hg.conns c hmem
    apply good_conn_frame cfg f s _ hg <;> try rfl
    · intro x hx
      rcases mem_set hx with rfl | hx
      · obtain ⟨a1, a2, a3, a4, a5, a6⟩ := hok
        constructor <;> simp_all
      · exact hg.conns x hx
    · exact hg.dispConst
    · intro _; rfl
    · intro j hj; simp at hj
    · intro hpl j x hx hact
      rcases get_set hc hx with ⟨rfl, rfl⟩ | ⟨hji, hx⟩
      · simp at hact
      · have h1 := hg.activeHandled hpl j x hx hact
        have h2 : s.handling = some i := by simpa [mayRun, hpl] using hmay
        rw [h1] at h2; exact absurd (Option.some.inj h2) hji
    · intro hp x hx
      have := hg.drained hp c hmem
      simp_all

private theorem good_handlerFinish (cfg : Cfg) (f : Nat → Nat → Nat) (s s' : State) (i : Nat)
    (hg : Good cfg f s) (hs : step? cfg f s (.handlerFinish i) = some s') : Good cfg f s' := by
  simp only [step?] at hs
  cases hc : s.conns[i]? with
  | none => simp [hc] at hs
  | some c =>
    simp only [hc] at hs
    split at hs
    · rename_i hcond
      obtain ⟨hmay, hrun⟩ := hcond
      have hmem : c ∈ s.conns := List.mem_of_getElem? hc
      have hok := hg.conns c hmem
      have hfresh := hok.fresh (Or.inr hrun)
      have hdr : s.poolStopped = true → False := by
        intro hp
        have := hg.drained hp c hmem
        simp_all
      split at hs
      · -- the reply (result or error) is written
        simp at hs; subst hs
        apply good_conn_frame cfg f s _ hg <;> try rfl
        · intro x hx
          rcases mem_set hx with rfl | hx
          · have hle := execOf_le c.kind
            have hd := hg.dispConst
            obtain ⟨a1, a2, a3, a4, a5, a6⟩ := hok
            constructor <;> simp_all
            all_goals (cases hka : c.keepAlive <;> simp_all)
          · exact hg.conns x hx
        · exact hg.dispConst
        · intro hpl; simp only []; have := hg.handlingPlain hpl; split <;> simp_all
        · intro j hj
          cases hka : c.keepAlive
          · simp [hka] at hj
          · simp [hka] at hj
            obtain ⟨x, hx, hact⟩ := hg.handlingOk j hj
            by_cases hji : j = i
            · subst hji; exact ⟨_, set_get_self hc, by simp [hka]⟩
            · exact ⟨x, by simpa [set_get_ne hji] using hx, hact⟩
        · intro hpl j x hx hact
          have h2 : s.handling = some i := by simpa [mayRun, hpl] using hmay
          rcases get_set hc hx with ⟨rfl, rfl⟩ | ⟨hji, hx⟩
          · cases hka : c.keepAlive
            · simp [hka] at hact
            · simpa [hka] using h2
          · have h1 := hg.activeHandled hpl j x hx hact
            rw [h1] at h2; exact absurd (Option.some.inj h2) hji
        · intro hp; exact absurd (hdr hp) id
      · -- (hypothetical code) the exception escapes
        simp at hs
        -- first the connection table, then the serving thread's pc
        have hmid : Good cfg f { s with conns := s.conns.set i { c with execs := c.execs + 1, phase := .closed },
                                        handling := none } := by
          apply good_conn_frame cfg f s _ hg <;> try rfl
          · intro x hx
            rcases mem_set hx with rfl | hx
            · obtain ⟨a1, a2, a3, a4, a5, a6⟩ := hok
              constructor <;> simp_all
            · exact hg.conns x hx
          · exact hg.dispConst
          · intro _; rfl
          · intro j hj; simp at hj
          · intro hpl j x hx hact
            have h2 : s.handling = some i := by simpa [mayRun, hpl] using hmay
            rcases get_set hc hx with ⟨rfl, rfl⟩ | ⟨hji, hx⟩
            · simp at hact
            · have h1 := hg.activeHandled hpl j x hx hact
              rw [h1] at h2; exact absurd (Option.some.inj h2) hji
          · intro hp; exact absurd (hdr hp) id
        subst hs
        cases hpl : cfg.plain
        · simpa [hpl] using hmid
        · have ⟨_, _, _, _, _, h2, h3, h4, h4d, h5, h6, h7, h8, h9, h10⟩ := hmid
          apply good_frame cfg f _ _ hmid <;> simp_all
    · simp at hs

theorem good_step (cfg : Cfg) (f : Nat → Nat → Nat) (s s' : State) (a : Action) (hg : Good cfg f s)
    (hs : step? cfg f s a = some s') : Good cfg f s' := by
  have ⟨_, _, _, _, _, h2, h3, h4, h4d, h5, h6, h7, h8, h9, h10⟩ := hg
  cases a with
  | startServe =>
    simp only [step?] at hs
    split at hs <;> simp at hs
    subst hs
    apply good_frame cfg f s _ hg <;> simp_all
  | serveStep =>
    simp only [step?] at hs
    cases hp : s.spc <;> simp only [hp] at hs
    all_goals (try (simp at hs))
    all_goals (try (split at hs))
    all_goals (try (simp at hs))
    all_goals (try (split at hs))
    all_goals (try (simp at hs))
    all_goals (try (obtain ⟨hcnd, hs⟩ := hs))
    all_goals (try (subst hs))
    all_goals (apply good_frame cfg f s _ hg <;> simp_all)
  | beginClose =>
    simp only [step?] at hs
    split at hs <;> simp at hs
    subst hs
    apply good_frame cfg f s _ hg <;> simp_all
    all_goals (cases hpl : cfg.plain <;> simp_all)
  | closeStep => exact good_closeStep cfg f s s' hg hs
  | beginShutdown =>
    simp only [step?] at hs
    split at hs <;> simp at hs
    subst hs
    apply good_frame cfg f s _ hg <;> simp_all
  | shutdownStep =>
    simp only [step?] at hs
    cases hp : s.dpc <;> simp only [hp] at hs
    all_goals (try (simp at hs))
    all_goals (try (split at hs))
    all_goals (try (simp at hs))
    all_goals (try (obtain ⟨hcnd, hs⟩ := hs))
    all_goals (try (subst hs))
    all_goals (apply good_frame cfg f s _ hg <;> simp_all)
  | accept b k ka => exact good_accept cfg f s s' b k ka hg hs
  | handlerStart i => exact good_handlerStart cfg f s s' i hg hs
  | request i => exact good_request cfg f s s' i hg hs
  | handlerFinish i => exact good_handlerFinish cfg f s s' i hg hs
  | clientClose i => exact good_clientClose cfg f s s' i hg hs

theorem good_of_reach (cfg : Cfg) (f : Nat → Nat → Nat) (s : State) (h : Reach cfg f s) : Good cfg f s := by
  induction h with
  | init => exact good_init cfg f
  | step a _ hs ih => exact good_step cfg f _ _ a ih hs

private theorem serve_clearEvent (cfg : Cfg) (f : Nat → Nat → Nat) (s : State) (hp : s.spc = .clearEvent) :
    step? cfg f s .serveStep = some (if s.socketOpen then { s with isShutDown := false, spc := .loop }
                                     else { s with isShutDown := false, spc := .exitResetReq }) := by
  simp only [step?, hp]; split <;> rfl

private theorem serve_loop_req (cfg : Cfg) (f : Nat → Nat → Nat) (s : State) (hp : s.spc = .loop)
    (hb : busy cfg s = false) (hr : s.shutdownReq = true) :
    step? cfg f s .serveStep = some { s with spc := .exitResetReq } := by
  simp [step?, hp, hr, hb]

private theorem serve_exitResetReq (cfg : Cfg) (f : Nat → Nat → Nat) (s : State) (hp : s.spc = .exitResetReq) :
    step? cfg f s .serveStep = some { s with shutdownReq := false, spc := .exitSetEvent } := by
  simp [step?, hp]

private theorem serve_exitSetEvent (cfg : Cfg) (f : Nat → Nat → Nat) (s : State) (hp : s.spc = .exitSetEvent) :
    step? cfg f s .serveStep = some { s with isShutDown := true, spc := .clearServing } := by
  simp [step?, hp]

/- ---------- isolation, executions ---------- -/

/-- Isolation: whatever the number of connections, the mix of requests and the interleaving, the reply written on
    a connection is the sequential dispatcher's reply to *that connection's* request, computed from the initial
    (never written) shared dispatcher state — provided the serve path does not store into shared state
    (`cfg.sharedWrites = false`: the extracted write footprint, `C12_gen_sharedWrites`).  The handler does read the
    shared cell (`handlerFinish` computes `replyOf f s.disp …`): without the hypothesis the statement is false, see
    the example below. -/
theorem C12_isolation (cfg : Cfg) (f : Nat → Nat → Nat) (hw : cfg.sharedWrites = false) (s : State)
    (h : Reach cfg f s) (i : Nat) (c : Conn) (hc : s.conns[i]? = some c) :
    s.disp = 0 ∧ (c.reply = none ∨ c.reply = some (replyOf f 0 c.kind c.body)) :=
  ⟨(good_of_reach cfg f s h).dispConst hw, ((good_of_reach cfg f s h).conns c (List.mem_of_getElem? hc)).reply hw⟩

/- The hypothesis is needed: with a store to shared dispatcher state on the serve path (the model's rendering of
   `self.current_id = request["id"]`), two overlapping requests cross: connection 0 is answered from the cell that
   connection 1 wrote.  (f d b = 100·d + b) -/
example : ((run { sharedWrites := true } (fun d b => 100 * d + b) init
    [.startServe, .serveStep, .serveStep, .accept 1 .good false, .accept 2 .good false, .handlerStart 0, .handlerStart 1,
     .request 0, .request 1, .handlerFinish 0]).map (fun s => s.conns.map (·.reply)))
      = some [some (.result 201), none] := by decide

/-- No lost or duplicated executions: in every reachable state the callable of a request has run at most once; once
    the connection is answered it has run exactly once (never for a malformed body; notifications included); a
    handler task that has begun cannot begin again, and an answered request is neither read nor finished again. -/
theorem C12_once (cfg : Cfg) (f : Nat → Nat → Nat) (s : State) (h : Reach cfg f s) (i : Nat) (c : Conn)
    (hc : s.conns[i]? = some c) :
    c.execs ≤ 1 ∧ (c.reply.isSome = true → c.execs = execOf c.kind) ∧
    (c.started = true → step? cfg f s (.handlerStart i) = none) ∧
    (c.reply.isSome = true → step? cfg f s (.request i) = none ∧ step? cfg f s (.handlerFinish i) = none) := by
  have hok := (good_of_reach cfg f s h).conns c (List.mem_of_getElem? hc)
  refine ⟨hok.execsLe, hok.execsReply, ?_, ?_⟩
  · intro hst
    simp only [step?, hc]
    cases hp : c.phase <;> simp_all [Conn.started]
  · intro hr
    have hfr := hok.fresh
    constructor
    · simp only [step?, hc]
      cases hrp : c.reply <;> simp_all
    · simp only [step?, hc]
      cases hp : c.phase <;> simp_all

/-- No lost requests: while the request pool is not stopped, the handler task of an accepted connection can begin
    (`handlerStart` is enabled); the only reachable states in which a queued task cannot begin are those where
    `server_close()` has returned (`pool.stop()` drops the tasks still queued — its documented semantics; the harness
    states that only *started* requests count as in flight).  On the plain server no connection is ever queued: it is
    accepted by the thread that runs its handler.  Then the handler can read the request as soon as it arrives. -/
theorem C12_accepted_is_started (cfg : Cfg) (f : Nat → Nat → Nat) (s : State) (h : Reach cfg f s) (i : Nat) (c : Conn)
    (hc : s.conns[i]? = some c) :
    (c.phase = .queued → cfg.plain = false ∧ ((step? cfg f s (.handlerStart i)).isSome = true ∨ s.cpc = .returned)) ∧
    (c.phase = .awaiting → c.reply = none → (step? cfg f s (.request i)).isSome = true) := by
  have g := good_of_reach cfg f s h
  have hmem := List.mem_of_getElem? hc
  have hok := g.conns c hmem
  constructor
  · intro hq
    have hpl : cfg.plain = false := by
      cases hpl : cfg.plain
      · rfl
      · exact absurd hq (hok.noQueue hpl)
    refine ⟨hpl, ?_⟩
    cases hps : s.poolStopped
    · left; simp [step?, hc, hq, hpl, hps]
    · right; exact (g.poolIff.mp hps).1
  · intro haw hr
    have hmay : mayRun cfg s i = true := by
      cases hpl : cfg.plain
      · simp [mayRun, hpl]
      · simp [mayRun, hpl, g.activeHandled hpl i c hc (Or.inl haw)]
    simp [step?, hc, haw, hr, hmay]

/- ---------- survival after failing / malformed requests ---------- -/

/-- The server is inside its serving loop and can accept: loop entered and not left, listening socket open, request
    pool not stopped, (plain) the serving thread is not inside a handler. -/
def Ready (cfg : Cfg) (s : State) : Prop :=
  s.spc = .loop ∧ s.socketOpen = true ∧ s.poolStopped = false ∧ busy cfg s = false

/-- The steps by which one more request (body `b`, kind `k`) is served on a fresh connection of index `n`. -/
def serveOne (cfg : Cfg) (n : Nat) (b : Nat) (k : Kind) : List Action :=
  [.accept b k false] ++ (if cfg.plain then [] else [.handlerStart n]) ++ [.request n, .handlerFinish n]

/-- A ready server serves the next request, whatever it is: the connection is accepted, its handler starts, reads
    the request and answers with the reply to that request; afterwards the server is ready again and the older
    connections are untouched.  (`catchAll`: the `except` clauses of the serve path are bare — `C12_gen_catchAll`.) -/
theorem C12_serves_next (cfg : Cfg) (f : Nat → Nat → Nat) (hcatch : cfg.catchAll = true) (s : State)
    (hr : Ready cfg s) (b : Nat) (k : Kind) :
    ∃ s', run cfg f s (serveOne cfg s.conns.length b k) = some s' ∧ Ready cfg s' ∧
      s'.conns = s.conns ++ [{ body := b, kind := k, phase := .closed, execs := execOf k,
                               reply := some (replyOf f (if cfg.sharedWrites then b else s.disp) k b) }] := by
  obtain ⟨h1, h2, h3, h4⟩ := hr
  cases hpl : cfg.plain
  · simp [serveOne, run, step?, h1, h2, h3, h4, hpl, hcatch, mayRun, Ready, busy]
  · have hnone : s.handling = none := by simpa [busy, hpl] using h4
    simp [serveOne, run, step?, h1, h2, h3, h4, hpl, hcatch, mayRun, Ready, busy, hnone]

/-- A request that fails — a method raising an ordinary exception or a `BaseException`, a malformed body — or
    succeeds is a matter of its own connection only: its handler can always finish, the reply (result or error
    object) to that very request is written, and nothing else changes: not the serving thread (which stays in its
    loop), not the flags, not the pool, not any other connection. -/
theorem C12_failure_is_local (cfg : Cfg) (f : Nat → Nat → Nat) (hcatch : cfg.catchAll = true) (s : State)
    (h : Reach cfg f s) (i : Nat) (c : Conn) (hc : s.conns[i]? = some c) (hrun : c.phase = .running) :
    ∃ s', step? cfg f s (.handlerFinish i) = some s' ∧
      s'.conns[i]? = some { c with reply := some (replyOf f s.disp c.kind c.body), execs := execOf c.kind,
                                   phase := if c.keepAlive then .awaiting else .closed } ∧
      (∀ j, j ≠ i → s'.conns[j]? = s.conns[j]?) ∧
      s'.spc = s.spc ∧ s'.serving = s.serving ∧ s'.shutdownReq = s.shutdownReq ∧ s'.isShutDown = s.isShutDown ∧
      s'.socketOpen = s.socketOpen ∧ s'.poolStopped = s.poolStopped ∧ s'.cpc = s.cpc ∧ s'.dpc = s.dpc ∧
      s'.disp = s.disp ∧ (c.keepAlive = false → busy cfg s' = false) := by
  have g := good_of_reach cfg f s h
  have hok := g.conns c (List.mem_of_getElem? hc)
  have hex : c.execs = 0 := (hok.fresh (Or.inr hrun)).2
  have hmay : mayRun cfg s i = true := by
    cases hpl : cfg.plain
    · simp [mayRun, hpl]
    · simp [mayRun, hpl, g.activeHandled hpl i c hc (Or.inr hrun)]
  refine ⟨{ s with conns := s.conns.set i { c with reply := some (replyOf f s.disp c.kind c.body),
                                                    execs := c.execs + execOf c.kind,
                                                    phase := if c.keepAlive then .awaiting else .closed },
                    handling := if c.keepAlive then s.handling else none },
    by simp only [step?, hc, hmay, hrun, hcatch, and_self, true_or, if_true], ?_, ?_, rfl, rfl, rfl, rfl, rfl, rfl,
    rfl, rfl, rfl, ?_⟩
  · simp [set_get_self hc, hex]
  · intro j hj; exact set_get_ne hj
  · intro hka; simp [busy, hka]

/-- **Survival.**  After a failing or malformed request — indeed after any reachable history, with any number of
    such requests on other connections — a serving server still serves: the request in flight on connection `i`
    (whatever its kind) is answered with its own reply (error object for a failing method, parse error for a
    malformed body), the server is ready again, and every later request `(b, k)` is accepted, started and answered
    with the reply to that request. -/
theorem C12_survives (cfg : Cfg) (f : Nat → Nat → Nat) (hcatch : cfg.catchAll = true) (s : State)
    (h : Reach cfg f s) (hloop : s.spc = .loop) (hopen : s.socketOpen = true) (hpool : s.poolStopped = false)
    (i : Nat) (c : Conn) (hc : s.conns[i]? = some c) (hrun : c.phase = .running) (hka : c.keepAlive = false) :
    ∃ s1, step? cfg f s (.handlerFinish i) = some s1 ∧
      (s1.conns[i]?).map (·.reply) = some (some (replyOf f s.disp c.kind c.body)) ∧
      (cfg.plain = true → Ready cfg s1) ∧
      (Ready cfg s1 → ∀ b k, ∃ s2, run cfg f s1 (serveOne cfg s1.conns.length b k) = some s2 ∧ Ready cfg s2 ∧
        (s2.conns[s1.conns.length]?).map (·.reply) = some (some (replyOf f (if cfg.sharedWrites then b else s1.disp) k b))) := by
  obtain ⟨s1, hs1, hci, _, e1, _, _, _, e2, e3, _, _, _, hb⟩ := C12_failure_is_local cfg f hcatch s h i c hc hrun
  refine ⟨s1, hs1, by simp [hci], ?_, ?_⟩
  · intro _
    exact ⟨by rw [e1, hloop], by rw [e2, hopen], by rw [e3, hpool], hb hka⟩
  · intro hr b k
    obtain ⟨s2, hs2, hr2, hconns⟩ := C12_serves_next cfg f hcatch s1 hr b k
    exact ⟨s2, hs2, hr2, by simp [hconns]⟩

/- Non-vacuity / the pooled case of `Ready`: on the pooled server the serving thread never runs a handler, so `Ready`
   only asks for the loop, the socket and the pool. -/
theorem C12_ready_pooled (cfg : Cfg) (hpl : cfg.plain = false) (s : State) (hloop : s.spc = .loop)
    (hopen : s.socketOpen = true) (hpool : s.poolStopped = false) : Ready cfg s :=
  ⟨hloop, hopen, hpool, by simp [busy, hpl]⟩

/- Non-vacuity of `C12_survives`: a plain server; a method raising SystemExit, a malformed body, a failing method, then
   a healthy call: every one answered with its own reply, the callable run once (not for the malformed body). -/
example : ((run { plain := true } (fun _ b => b + 1000) init
    ([.startServe, .serveStep, .serveStep] ++ serveOne { plain := true } 0 1 .fatal ++ serveOne { plain := true } 1 2 .malformed
      ++ serveOne { plain := true } 2 3 .failing ++ serveOne { plain := true } 3 4 .good)).map
      (fun s => (s.spc, s.conns.map (fun c => (c.reply, c.execs)))))
      = some (.loop, [(some (.error 1001), 1), (some .parseError, 0), (some (.error 1003), 1), (some (.result 1004), 1)]) := by
  decide

/- The hypothesis `catchAll` is needed: if the `except` clauses caught `Exception` only, a method raising SystemExit
   on the plain server would take the serving thread out of its loop — no later connection is accepted. -/
example : ((run { plain := true, catchAll := false } (fun _ b => b + 1000) init
    ([.startServe, .serveStep, .serveStep] ++ serveOne { plain := true } 0 1 .fatal)).map
      (fun s => (s.spc, s.conns.map (·.reply), step? { plain := true, catchAll := false } (fun _ b => b + 1000) s (.accept 2 .good false))))
      = some (.exitResetReq, [none], none) := by
  decide

/- ---------- stopping ---------- -/

private theorem mayRun_pooled (cfg : Cfg) (s : State) (i : Nat) (hpl : cfg.plain = false) : mayRun cfg s i = true := by
  simp [mayRun, hpl]

/-- A begun handler either has a request in flight — and then it can finish — or waits for one on an idle connection
    — and then the client's disconnection ends it. -/
private theorem active_can_end (cfg : Cfg) (f : Nat → Nat → Nat) (s : State) (i : Nat) (c : Conn)
    (hc : s.conns[i]? = some c) (hmay : mayRun cfg s i = true) (hact : c.phase = .awaiting ∨ c.phase = .running) :
    (c.phase = .running ∧ (step? cfg f s (.handlerFinish i)).isSome = true) ∨
    (c.phase = .awaiting ∧ (step? cfg f s (.clientClose i)).isSome = true) := by
  rcases hact with h | h
  · right; exact ⟨h, by simp [step?, hc, hmay, h]⟩
  · left; refine ⟨h, ?_⟩
    simp only [step?, hc, hmay, h, and_self, if_true]
    split <;> simp

/-- `server_close()` is never stuck — except behind in-flight connections: at every point of `server_close()` in
    every reachable state, either the closing thread has an enabled step; or it waits for `is_shut_down` and the serving
    thread has an enabled step that strictly decreases the number of steps left before it sets the event (so under fair
    scheduling the wait ends; in particular the closing thread never waits when the server never served); or it is in
    `pool.stop()` and some connection `i` is in flight: its request is being dispatched, and the handler can finish — or
    its handler waits for the request (idle connection), which ends when its client disconnects.
    (`C12_full_statement` packages this with `C12_shutdown_no_stuck`.) -/
theorem C12_close_no_stuck (cfg : Cfg) (f : Nat → Nat → Nat) (s : State) (h : Reach cfg f s)
    (hi : s.cpc ≠ .idle) (hr : s.cpc ≠ .returned) :
    (step? cfg f s .closeStep).isSome = true ∨
    (s.cpc = .waitEvent ∧
      ∃ s', step? cfg f s .serveStep = some s' ∧ serveRemaining s' < serveRemaining s ∧ s'.cpc = .waitEvent) ∨
    (s.cpc = .stopPool ∧ ∃ i c, s.conns[i]? = some c ∧
      ((c.phase = .running ∧ (step? cfg f s (.handlerFinish i)).isSome = true) ∨
       (c.phase = .awaiting ∧ (step? cfg f s (.clientClose i)).isSome = true))) := by
  have g := good_of_reach cfg f s h
  cases hcp : s.cpc with
  | idle => exact absurd hcp hi
  | returned => exact absurd hcp hr
  | readServing => left; simp [step?, hcp]
  | setReq => left; simp [step?, hcp]
  | closeSocket => left; simp [step?, hcp]
  | waitEvent =>
    have hpl : cfg.plain = false := by
      cases hpl : cfg.plain
      · rfl
      · have := g.plainCloser hpl; simp [hcp] at this
    have hb : busy cfg s = false := by simp [busy, hpl]
    have h3 := g.closerAfterServe (Or.inr hcp)
    cases hev : s.isShutDown
    · right; left; refine ⟨rfl, ?_⟩
      cases hp : s.spc with
      | notStarted => exact absurd hp h3.1
      | setServing => exact absurd hp h3.2
      | clearEvent =>
        refine ⟨_, serve_clearEvent cfg f s hp, ?_, ?_⟩ <;> split <;> simp [serveRemaining, hp, hcp]
      | loop =>
        have hreq := g.reqKept hcp (Or.inr hp)
        exact ⟨_, serve_loop_req cfg f s hp hb hreq, by simp [serveRemaining, hp], by simp [hcp]⟩
      | exitResetReq => exact ⟨_, serve_exitResetReq cfg f s hp, by simp [serveRemaining, hp], by simp [hcp]⟩
      | exitSetEvent => exact ⟨_, serve_exitSetEvent cfg f s hp, by simp [serveRemaining, hp], by simp [hcp]⟩
      | clearServing => have := g.eventSet (Or.inl hp); simp [hev] at this
      | finished => have := g.eventSet (Or.inr hp); simp [hev] at this
    · left; simp [step?, hcp, hev]
  | stopPool =>
    have hpl : cfg.plain = false := by
      cases hpl : cfg.plain
      · rfl
      · have := g.plainCloser hpl; simp [hcp] at this
    cases hany : s.conns.any (fun c => c.phase == .awaiting || c.phase == .running)
    · left
      have hall : ∀ c ∈ s.conns, c.phase ≠ .awaiting ∧ c.phase ≠ .running := by
        intro c hc
        have := List.any_eq_false.mp hany c hc
        cases hp : c.phase <;> simp_all
      simp [step?, hcp, drained_all hall]
    · right; right; refine ⟨rfl, ?_⟩
      obtain ⟨c, hmem, hact⟩ := List.any_eq_true.mp hany
      obtain ⟨i, hc⟩ := List.getElem?_of_mem hmem
      refine ⟨i, c, hc, active_can_end cfg f s i c hc (mayRun_pooled cfg s i hpl) ?_⟩
      cases hp : c.phase <;> simp_all

/-- The same for `shutdown()` issued while serving.  On the pooled server the serving thread never runs a handler, so
    `shutdown()` waits for the serving thread only; on the plain server the serving thread may be inside the handler
    of a connection in flight: dispatching its request, which can finish — or waiting for it (idle). -/
theorem C12_shutdown_no_stuck (cfg : Cfg) (f : Nat → Nat → Nat) (s : State) (h : Reach cfg f s) (hw : s.dpc = .waitEvent) :
    s.isShutDown = true ∨
    (∃ s', step? cfg f s .serveStep = some s' ∧ serveRemaining s' < serveRemaining s ∧ s'.dpc = .waitEvent) ∨
    (cfg.plain = true ∧ ∃ i c, s.handling = some i ∧ s.conns[i]? = some c ∧
      ((c.phase = .running ∧ (step? cfg f s (.handlerFinish i)).isSome = true) ∨
       (c.phase = .awaiting ∧ (step? cfg f s (.clientClose i)).isSome = true))) := by
  have g := good_of_reach cfg f s h
  have h3 := g.dAfterServe (Or.inr hw)
  cases hp : s.spc with
  | notStarted => exact absurd hp h3.1
  | setServing => exact absurd hp h3.2.1
  | clearEvent => exact absurd hp h3.2.2
  | loop =>
    right
    have hreq := g.reqKeptD hw (Or.inr hp)
    cases hb : busy cfg s
    · left; exact ⟨_, serve_loop_req cfg f s hp hb hreq, by simp [serveRemaining, hp], by simp [hw]⟩
    · right
      simp only [busy, Bool.and_eq_true] at hb
      obtain ⟨hpl, hh⟩ := hb
      cases hhd : s.handling with
      | none => simp [hhd] at hh
      | some i =>
        obtain ⟨c, hc, hact⟩ := g.handlingOk i hhd
        exact ⟨hpl, i, c, rfl, hc, active_can_end cfg f s i c hc (by simp [mayRun, hhd]) hact⟩
  | exitResetReq => right; left; exact ⟨_, serve_exitResetReq cfg f s hp, by simp [serveRemaining, hp], by simp [hw]⟩
  | exitSetEvent => right; left; exact ⟨_, serve_exitSetEvent cfg f s hp, by simp [serveRemaining, hp], by simp [hw]⟩
  | clearServing => left; exact g.eventSet (Or.inl hp)
  | finished => left; exact g.eventSet (Or.inr hp)

/-- The steps of `server_close()` other than the two waits are never blocked; `pool.stop()` goes through as soon as
    nothing is in flight (no begun, unfinished connection); a request being dispatched can always finish. -/
theorem C12_close_steps_enabled (cfg : Cfg) (f : Nat → Nat → Nat) (s : State) (h : Reach cfg f s) :
    (s.cpc = .readServing ∨ s.cpc = .setReq ∨ s.cpc = .closeSocket → (step? cfg f s .closeStep).isSome = true) ∧
    (s.cpc = .stopPool → inFlight s = false → (step? cfg f s .closeStep).isSome = true) ∧
    (∀ i c, s.conns[i]? = some c → c.phase = .running → (step? cfg f s (.handlerFinish i)).isSome = true) := by
  have g := good_of_reach cfg f s h
  refine ⟨?_, ?_, ?_⟩
  · rintro (h | h | h) <;> simp [step?, h]
  · intro hcp hin
    have hall : ∀ c ∈ s.conns, c.phase ≠ .awaiting ∧ c.phase ≠ .running := by
      intro c hc
      have := List.any_eq_false.mp hin c hc
      cases hp : c.phase <;> simp_all
    simp [step?, hcp, drained_all hall]
  · intro i c hc hrun
    have hmay : mayRun cfg s i = true := by
      cases hpl : cfg.plain
      · simp [mayRun, hpl]
      · simp [mayRun, hpl, g.activeHandled hpl i c hc (Or.inr hrun)]
    rcases active_can_end cfg f s i c hc hmay (Or.inr hrun) with ⟨_, h⟩ | ⟨h, _⟩
    · exact h
    · simp [hrun] at h

/-- After `server_close()` has returned: the listening socket is closed and nothing is accepted any more; on the
    pooled server the request pool is stopped, nothing is in flight (no handler holds a worker), and no handler task
    starts any more. -/
theorem C12_close_post (cfg : Cfg) (f : Nat → Nat → Nat) (s : State) (h : Reach cfg f s) (hr : s.cpc = .returned) :
    s.socketOpen = false ∧ (∀ b k ka, step? cfg f s (.accept b k ka) = none) ∧
    (cfg.plain = false → s.poolStopped = true ∧ inFlight s = false ∧
      (∀ i, step? cfg f s (.handlerStart i) = none)) := by
  have g := good_of_reach cfg f s h
  have hso := g.socketClosed (Or.inr hr)
  refine ⟨hso, ?_, ?_⟩
  · intro b k ka; simp [step?, hso]
  · intro hpl
    have hps := g.poolIff.mpr ⟨hr, hpl⟩
    have hd := g.drained hps
    refine ⟨hps, ?_, ?_⟩
    · simp only [inFlight, List.any_eq_false]
      intro c hc; rcases hd c hc with h | h <;> simp [h]
    · intro i
      simp only [step?]
      cases s.conns[i]? <;> simp [hps]

/-- Closing a server that never served goes straight through: no waiting (pooled: four steps, plain: two). -/
theorem C12_close_without_serving (f : Nat → Nat → Nat) :
    (run {} f init [.beginClose, .closeStep, .closeStep, .closeStep]).map (fun s => (s.cpc, s.socketOpen, s.poolStopped))
      = some (.returned, false, true) ∧
    (run { plain := true } f init [.beginClose, .closeStep]).map (fun s => (s.cpc, s.socketOpen))
      = some (.returned, false) := by
  constructor <;> simp [run, step?, init]

/- ---------- the stop clause, and idle connections ---------- -/

theorem life_reach_of_run (cfg : Cfg) (f : Nat → Nat → Nat) (s s' : State) (as : List Action) (h : Reach cfg f s)
    (hr : run cfg f s as = some s') : Reach cfg f s' := by
  induction as generalizing s with
  | nil => simp [run] at hr; subst hr; exact h
  | cons a rest ih =>
    simp only [run] at hr
    cases hst : step? cfg f s a with
    | none => simp [hst] at hr
    | some s1 => simp only [hst] at hr; exact ih s1 (Reach.step a h hst) hr

private theorem inFlight_of_active {s : State} {i : Nat} {c : Conn} (hc : s.conns[i]? = some c)
    (h : c.phase = .running ∨ c.phase = .awaiting) : inFlight s = true := by
  simp only [inFlight, List.any_eq_true]
  exact ⟨c, List.mem_of_getElem? hc, by rcases h with h | h <;> simp [h]⟩

/-- **The stop clause of the property** ("stopping … always terminates once in-flight requests complete"), with
    in flight = accepted, handler begun, not yet answered / disconnected.  In every reachable state of a plain or pooled
    server, whatever the requests and the interleaving:
    1. a `server_close()` under way either has an enabled step, or waits for the serving thread, which has an enabled
       step strictly decreasing the number of steps before it sets the event (never the case if the server never
       served), or sits in `pool.stop()` while something is in flight — nothing else ever holds it back;
    2. a `shutdown()` under way has been answered, or the serving thread has such a step, or (plain server only: the
       serving thread runs the handlers) something is in flight;
    3. every in-flight connection can complete: if its request is being dispatched, by a step of the server (the
       handler finishes and writes the reply, whatever the method does); if its handler waits for the request, by a
       step of its client — which can disconnect, and can send its request if it has not had its reply yet.
    So once the in-flight connections have completed, the stop operations terminate (under fair scheduling). -/
theorem C12_full_statement (cfg : Cfg) (f : Nat → Nat → Nat) (s : State) (h : Reach cfg f s) :
    (s.cpc ≠ .idle → s.cpc ≠ .returned →
      (step? cfg f s .closeStep).isSome = true ∨
      (s.cpc = .waitEvent ∧
        ∃ s', step? cfg f s .serveStep = some s' ∧ serveRemaining s' < serveRemaining s ∧ s'.cpc = .waitEvent) ∨
      (s.cpc = .stopPool ∧ inFlight s = true)) ∧
    (s.dpc = .waitEvent →
      s.isShutDown = true ∨
      (∃ s', step? cfg f s .serveStep = some s' ∧ serveRemaining s' < serveRemaining s ∧ s'.dpc = .waitEvent) ∨
      (cfg.plain = true ∧ inFlight s = true)) ∧
    (∀ i c, s.conns[i]? = some c → (c.phase = .running ∨ c.phase = .awaiting) →
      (c.phase = .running ∧ (step? cfg f s (.handlerFinish i)).isSome = true) ∨
      (c.phase = .awaiting ∧ (step? cfg f s (.clientClose i)).isSome = true ∧
        (c.reply = none → (step? cfg f s (.request i)).isSome = true))) := by
  have g := good_of_reach cfg f s h
  refine ⟨?_, ?_, ?_⟩
  · intro hi hr
    rcases C12_close_no_stuck cfg f s h hi hr with h1 | h2 | ⟨hcp, i, c, hc, hact⟩
    · exact Or.inl h1
    · exact Or.inr (Or.inl h2)
    · refine Or.inr (Or.inr ⟨hcp, inFlight_of_active hc ?_⟩)
      rcases hact with ⟨h, _⟩ | ⟨h, _⟩
      · exact Or.inl h
      · exact Or.inr h
  · intro hw
    rcases C12_shutdown_no_stuck cfg f s h hw with h1 | h2 | ⟨hpl, i, c, _, hc, hact⟩
    · exact Or.inl h1
    · exact Or.inr (Or.inl h2)
    · refine Or.inr (Or.inr ⟨hpl, inFlight_of_active hc ?_⟩)
      rcases hact with ⟨h, _⟩ | ⟨h, _⟩
      · exact Or.inl h
      · exact Or.inr h
  · intro i c hc hact
    have hmay : mayRun cfg s i = true := by
      cases hpl : cfg.plain
      · simp [mayRun, hpl]
      · simp [mayRun, hpl, g.activeHandled hpl i c hc (by rcases hact with h | h; exact Or.inr h; exact Or.inl h)]
    rcases active_can_end cfg f s i c hc hmay (by rcases hact with h | h; exact Or.inr h; exact Or.inl h) with h1 | ⟨haw, hcl⟩
    · exact Or.inl h1
    · refine Or.inr ⟨haw, hcl, fun hr => ?_⟩
      simp [step?, hc, hmay, haw, hr]

/-- Pooled server: serve; a client connects and its handler starts (it waits for a request that is never sent);
    `server_close()`: the serving loop is shut down, the listening socket closed, and then `pool.stop()`. -/
def idleHistoryPooled : List Action :=
  [.startServe, .serveStep, .serveStep, .accept 1 .good false, .handlerStart 0,
   .beginClose, .closeStep, .closeStep, .serveStep, .serveStep, .serveStep, .closeStep, .closeStep]

/-- Plain server: serve; a client connects (the serving thread is inside its handler, waiting for the request);
    `shutdown()` sets the request flag and waits for the event. -/
def idleHistoryPlain : List Action :=
  [.startServe, .serveStep, .serveStep, .accept 1 .good false, .beginShutdown, .shutdownStep]

/-- An idle connection holds the stop operations (concrete histories, `idleHistoryPooled` / `idleHistoryPlain`): no
    method is executing, yet the pooled server's `server_close()` sits in `pool.stop()` (its step is disabled) and the
    plain server's `shutdown()` waits for an event that the serving thread cannot set because it is inside the handler
    of the idle connection (its step is disabled too).  In both the operation goes through as soon as the client
    disconnects.  (Observed on the real servers: histories `idle` / `idleka` of harness/props/c12.py.) -/
theorem C12_idle_connection_holds_stop (f : Nat → Nat → Nat) :
    (∃ (history : List Action) (s : State), run {} f init history = some s ∧
      s.cpc = .stopPool ∧ executing s = false ∧ idleConn s = true ∧ inFlight s = true ∧ step? {} f s .closeStep = none ∧
      (run {} f s [.clientClose 0, .closeStep]).map (·.cpc) = some .returned) ∧
    (∃ (history : List Action) (s : State), run { plain := true } f init history = some s ∧
      s.dpc = .waitEvent ∧ executing s = false ∧ idleConn s = true ∧ inFlight s = true ∧ s.isShutDown = false ∧
      step? { plain := true } f s .shutdownStep = none ∧ step? { plain := true } f s .serveStep = none ∧
      (run { plain := true } f s [.clientClose 0, .serveStep, .serveStep, .serveStep, .shutdownStep]).map (·.dpc)
        = some .returned) := by
  constructor
  · refine ⟨idleHistoryPooled, _, rfl, ?_⟩
    simp [run, step?, init, inFlight, executing, idleConn, Conn.started, Conn.done, mayRun, busy]
  · refine ⟨idleHistoryPlain, _, rfl, ?_⟩
    simp [run, step?, init, inFlight, executing, idleConn, mayRun, busy]

/-- In general: while a connection's handler waits for its request, `pool.stop()` cannot return; the client's
    disconnection is enabled, and if that connection was the only one in flight, `pool.stop()` can return right after. -/
theorem C12_idle_released_by_client (cfg : Cfg) (f : Nat → Nat → Nat) (s : State) (h : Reach cfg f s)
    (hcp : s.cpc = .stopPool) (i : Nat) (c : Conn) (hc : s.conns[i]? = some c) (haw : c.phase = .awaiting)
    (honly : ∀ j cj, j ≠ i → s.conns[j]? = some cj → cj.phase ≠ .awaiting ∧ cj.phase ≠ .running) :
    step? cfg f s .closeStep = none ∧
    ∃ s1, step? cfg f s (.clientClose i) = some s1 ∧ inFlight s1 = false ∧ (step? cfg f s1 .closeStep).isSome = true := by
  have g := good_of_reach cfg f s h
  have hpl : cfg.plain = false := by
    cases hpl : cfg.plain
    · rfl
    · have := g.plainCloser hpl; simp [hcp] at this
  have hmem := List.mem_of_getElem? hc
  constructor
  · have : s.conns.all (fun c => !c.started || c.done) = false := by
      rw [List.all_eq_false]
      exact ⟨c, hmem, by simp [Conn.started, Conn.done, haw]⟩
    simp [step?, hcp, this]
  · have hall : ∀ x ∈ s.conns.set i { c with phase := .closed }, x.phase ≠ .awaiting ∧ x.phase ≠ .running := by
      intro x hx
      obtain ⟨j, hj⟩ := List.getElem?_of_mem hx
      rcases get_set hc hj with ⟨_, rfl⟩ | ⟨hji, hj⟩
      · simp
      · exact honly j x hji hj
    refine ⟨{ s with conns := s.conns.set i { c with phase := .closed }, handling := none },
      by simp [step?, hc, haw, mayRun, hpl], ?_, ?_⟩
    · simp only [inFlight, List.any_eq_false]
      intro x hx
      have := hall x hx
      cases hp : x.phase <;> simp_all
    · simp [step?, hcp, drained_all hall]

/-- An idle connection stays idle until its client sends a request or disconnects: no step of the server — serving
    thread, closing thread, shutdown caller, other handlers — changes that.  So a stop operation held by an idle
    connection can only be released by the client. -/
theorem C12_idle_persist (cfg : Cfg) (f : Nat → Nat → Nat) (s s' : State) (a : Action)
    (hs : step? cfg f s a = some s') (i : Nat) (c : Conn) (hc : s.conns[i]? = some c) (haw : c.phase = .awaiting)
    (ha1 : a ≠ .request i) (ha2 : a ≠ .clientClose i) : ∃ c', s'.conns[i]? = some c' ∧ c'.phase = .awaiting := by
  have keep : ∀ (j : Nat) (cj cj' : Conn), s.conns[j]? = some cj → (j = i → False) →
      ∃ c', (s.conns.set j cj')[i]? = some c' ∧ c'.phase = .awaiting := by
    intro j cj cj' _ hne
    exact ⟨c, by rw [set_get_ne (fun e => hne e.symm)]; exact hc, haw⟩
  cases a with
  | startServe => simp only [step?] at hs; split at hs <;> simp at hs; subst hs; exact ⟨c, hc, haw⟩
  | serveStep =>
    simp only [step?] at hs
    cases hp : s.spc <;> simp only [hp] at hs
    all_goals (try (simp at hs))
    all_goals (try (split at hs))
    all_goals (try (simp at hs))
    all_goals (try (split at hs))
    all_goals (try (simp at hs))
    all_goals (try (obtain ⟨hcnd, hs⟩ := hs))
    all_goals (try (subst hs))
    all_goals exact ⟨c, hc, haw⟩
  | accept b k ka =>
    simp only [step?] at hs
    split at hs <;> simp at hs
    subst hs
    have hlt : i < s.conns.length := (List.getElem?_eq_some_iff.mp hc).1
    exact ⟨c, by simp [List.getElem?_append_left hlt, hc], haw⟩
  | handlerStart j =>
    simp only [step?] at hs
    cases hcj : s.conns[j]? with
    | none => simp [hcj] at hs
    | some cj =>
      simp only [hcj] at hs
      split at hs <;> simp at hs
      subst hs
      rename_i hcond
      exact keep j cj _ hcj (fun e => by subst e; rw [hc] at hcj; cases hcj; simp [haw] at hcond)
  | request j =>
    simp only [step?] at hs
    cases hcj : s.conns[j]? with
    | none => simp [hcj] at hs
    | some cj =>
      simp only [hcj] at hs
      split at hs <;> simp at hs
      subst hs
      exact keep j cj _ hcj (fun e => ha1 (by rw [e]))
  | handlerFinish j =>
    simp only [step?] at hs
    cases hcj : s.conns[j]? with
    | none => simp [hcj] at hs
    | some cj =>
      simp only [hcj] at hs
      split at hs
      · rename_i hcond
        have hne : j = i → False := fun e => by subst e; rw [hc] at hcj; cases hcj; simp [haw] at hcond
        split at hs <;> simp at hs <;> subst hs <;> exact keep j cj _ hcj hne
      · simp at hs
  | clientClose j =>
    simp only [step?] at hs
    cases hcj : s.conns[j]? with
    | none => simp [hcj] at hs
    | some cj =>
      simp only [hcj] at hs
      split at hs <;> simp at hs
      subst hs
      exact keep j cj _ hcj (fun e => ha2 (by rw [e]))
  | beginClose => simp only [step?] at hs; split at hs <;> simp at hs; subst hs; exact ⟨c, hc, haw⟩
  | closeStep =>
    simp only [step?] at hs
    cases hp : s.cpc <;> simp only [hp] at hs
    all_goals (try (simp at hs))
    all_goals (try (split at hs))
    all_goals (try (simp at hs))
    all_goals (try (obtain ⟨hcnd, hs⟩ := hs))
    all_goals (try (subst hs))
    all_goals exact ⟨c, hc, haw⟩
  | beginShutdown => simp only [step?] at hs; split at hs <;> simp at hs; subst hs; exact ⟨c, hc, haw⟩
  | shutdownStep =>
    simp only [step?] at hs
    cases hp : s.dpc <;> simp only [hp] at hs
    all_goals (try (simp at hs))
    all_goals (try (split at hs))
    all_goals (try (simp at hs))
    all_goals (try (obtain ⟨hcnd, hs⟩ := hs))
    all_goals (try (subst hs))
    all_goals exact ⟨c, hc, haw⟩

/- ---------- the request pool of `JRV.Model.ServerLife` instantiated by `JRV.Model.Pool` ---------- -/

/-- What the life-cycle model looks at in the handler task of a connection: has it begun, has it ended. -/
structure TaskView where
  started : Bool
  done : Bool
deriving DecidableEq, Repr

def viewOfConn (c : Conn) : TaskView := ⟨c.started, c.done⟩

/-- The view of the pool task that carries the handler of a connection: the handler has begun iff the task body has
    been entered (`execCount = 1`), it has ended iff the task is finished. -/
def viewOfTask (tk : JRV.Pool.Task) : TaskView := ⟨tk.execCount == 1, decide (tk.phase = .finished)⟩

/-- What the life-cycle model's own steps do to the view of a connection: `handlerStart` needs ⟨not begun⟩ and makes it
    ⟨begun, not ended⟩; the two steps that end a handler (`handlerFinish` on a one-request connection, `clientClose`)
    need ⟨begun, not ended⟩ and make it ⟨begun, ended⟩; `stopPool` needs `!started || done` of every connection. -/
theorem C12_view_steps (cfg : Cfg) (f : Nat → Nat → Nat) (s s' : State) (i : Nat) (c : Conn) (hc : s.conns[i]? = some c) :
    (step? cfg f s (.handlerStart i) = some s' →
      viewOfConn c = ⟨false, false⟩ ∧ (s'.conns[i]?).map viewOfConn = some ⟨true, false⟩) ∧
    (step? cfg f s (.handlerFinish i) = some s' → c.keepAlive = false →
      viewOfConn c = ⟨true, false⟩ ∧ (s'.conns[i]?).map viewOfConn = some ⟨true, true⟩) ∧
    (step? cfg f s (.clientClose i) = some s' →
      viewOfConn c = ⟨true, false⟩ ∧ (s'.conns[i]?).map viewOfConn = some ⟨true, true⟩) := by
  refine ⟨?_, ?_, ?_⟩
  · intro hs
    simp only [step?, hc] at hs
    split at hs <;> simp at hs
    subst hs
    rename_i hcond
    simp [viewOfConn, Conn.started, Conn.done, hcond.2.1, set_get_self hc]
  · intro hs hka
    simp only [step?, hc] at hs
    split at hs
    · rename_i hcond
      split at hs <;> simp at hs <;> subst hs <;>
        simp [viewOfConn, Conn.started, Conn.done, hcond.2, set_get_self hc, hka]
    · simp at hs
  · intro hs
    simp only [step?, hc] at hs
    split at hs <;> simp at hs
    subst hs
    rename_i hcond
    simp [viewOfConn, Conn.started, Conn.done, hcond.2, set_get_self hc]

private theorem pool_begin_is_handlerStart (cfg : JRV.Pool.Config) (n : Nat) (ps ps' : JRV.Pool.State) (hr : JRV.Pool.Reach (JRV.Pool.init cfg n) ps)
    (j : Nat) (w : JRV.Pool.Worker) (hw : ps.workers[j]? = some w) (hpc : w.pc = .begin)
    (h : JRV.Pool.step? ps ⟨.worker j, .taskBegin, false⟩ = some ps') :
    ∃ t tk tk', w.held = some t ∧ ps.tasks[t]? = some tk ∧ ps'.tasks[t]? = some tk' ∧
      viewOfTask tk = ⟨false, false⟩ ∧ viewOfTask tk' = ⟨true, false⟩ := by
  obtain ⟨t, tk, hheld, htk, _, hph⟩ := (JRV.Pool.TaskInv_reach hr).wheld j w hw .held (by simp [JRV.Pool.phaseOfPc, hpc])
  have hex := (JRV.Pool.TaskInv_reach hr).exec t tk htk
  have hlt : t < ps.tasks.length := (List.getElem?_eq_some_iff.mp htk).1
  simp only [JRV.Pool.step?, hw, JRV.Pool.workerStep, hpc, hheld, hlt, if_true] at h
  injection h with h; subst h
  refine ⟨t, tk, { tk with phase := .running, execCount := tk.execCount + 1 }, hheld, htk, ?_, ?_, ?_⟩
  · simp only [JRV.Pool.setWorker, JRV.Pool.updTask]
    exact JRV.Pool.getElem?_modify_eq htk
  · simp [viewOfTask, hex, hph, JRV.Pool.execOf]
  · simp [viewOfTask, hex, hph, JRV.Pool.execOf]

private theorem pool_end_is_handlerFinish (cfg : JRV.Pool.Config) (n : Nat) (ps ps' : JRV.Pool.State) (hr : JRV.Pool.Reach (JRV.Pool.init cfg n) ps)
    (j : Nat) (w : JRV.Pool.Worker) (hw : ps.workers[j]? = some w) (hpc : w.pc = .body) (o : JRV.Pool.Outcome)
    (h : JRV.Pool.step? ps ⟨.worker j, .taskEnd o, false⟩ = some ps') :
    ∃ t tk tk', w.held = some t ∧ ps.tasks[t]? = some tk ∧ ps'.tasks[t]? = some tk' ∧
      viewOfTask tk = ⟨true, false⟩ ∧ viewOfTask tk' = ⟨true, true⟩ := by
  obtain ⟨t, tk, hheld, htk, _, hph⟩ := (JRV.Pool.TaskInv_reach hr).wheld j w hw .running (by simp [JRV.Pool.phaseOfPc, hpc])
  have hex := (JRV.Pool.TaskInv_reach hr).exec t tk htk
  have hlt : t < ps.tasks.length := (List.getElem?_eq_some_iff.mp htk).1
  simp only [JRV.Pool.step?, hw, JRV.Pool.workerStep, hpc, hheld, hlt, if_true] at h
  injection h with h; subst h
  refine ⟨t, tk, { tk with phase := .finished, outcome := some o }, hheld, htk, ?_, ?_, ?_⟩
  · simp only [JRV.Pool.setWorker, JRV.Pool.updTask]
    exact JRV.Pool.getElem?_modify_eq htk
  · simp [viewOfTask, hex, hph, JRV.Pool.execOf]
  · simp [viewOfTask, hex, hph, JRV.Pool.execOf]

/-- **What `JRV.Model.ServerLife` assumes of its request pool is what the pool model provides** (safety half).
    The life-cycle model abstracts the request pool to three things; each is matched, in every reachable state of
    `JRV.Model.Pool` (any pool size, any interleaving), through the map `viewOfTask`:
    (`viewOfTask`: begun = the task body has been entered, ended = the task is finished; the same view of a connection,
    `viewOfConn`, is all that `handlerStart`, the handler-ending steps and `stopPool` look at — `C12_view_steps`):
    1. `handlerStart i` needs ⟨not begun⟩ and makes it ⟨begun, not ended⟩: a `task.begin` step of a worker finds the view
       of its task not begun (the task is in phase `held`, never run: `C09_single_holder`, `C09_exec_count_phase`) and
       leaves it begun, not ended; and a task is never begun twice — `execCount ≤ 1` in every reachable state
       (`C09_at_most_once`);
    2. the steps that end a handler (`handlerFinish` of a one-request connection, `clientClose`) need ⟨begun, not ended⟩
       and make it ⟨begun, ended⟩: so does the `task.end` step (whatever the task's outcome — a handler that raised ends
       its task all the same);
    3. the `stopPool` step of `server_close()` (the return of `ThreadPool.stop()`) needs every begun handler to have ended,
       sets `poolStopped`, which disables `handlerStart`, and the property wants "every worker of the request pool it stops
       terminates": once `stop()` is past its loop joining the worker threads — in particular after it has returned — every
       worker thread is dead and no worker action, `task.begin` included, is enabled (`C09_none_after_stop`; single
       controlling thread, which is how a server uses its pool: only `server_close()` stops it); hence no task is held or
       running there, i.e. the view of every task satisfies `!started || done`.  (What makes `stop()` wait for the
       handlers that hold a worker — with a request in flight OR idle — is this join of the worker threads, not the
       `join()` it calls afterwards through `clear()`: the theorem does not depend on the shape of `join()`,
       `C11_join_true`.)
    Not instantiated here (liveness of `stop()`): that `stop()` does get past its join loop once the running handlers finish
    is `C11_stop_no_stuck` + `C11_stop_measure` (and `C11_workers_exit` restates clause 3 with the fresh-pool accounting); they
    are theorems about the same pool model, not imported into this file because C11.lean also carries the companion theorem
    of the `join()` shape, on which `server_close()` does not depend.  Stage 2 of harness/props/c12.py monitors the return of
    `server_close()` and the termination of the workers on the real code under the deterministic scheduler (`close-hang`,
    `workers-alive`).  That an accepted handler task is eventually begun while the pool runs is `C09_eventually_once` /
    `C09_eventually_begins` (with `C10_no_starvation`, `C10_progress_no_stuck`). -/
theorem C12_pool_instantiation (cfg : JRV.Pool.Config) (n : Nat) (ps : JRV.Pool.State) (hr : JRV.Pool.Reach (JRV.Pool.init cfg n) ps) :
    (∀ (t : Nat) (tk : JRV.Pool.Task), ps.tasks[t]? = some tk → tk.execCount ≤ 1) ∧
    (∀ j w ps', ps.workers[j]? = some w → w.pc = .begin → JRV.Pool.step? ps ⟨.worker j, .taskBegin, false⟩ = some ps' →
      ∃ t tk tk', w.held = some t ∧ ps.tasks[t]? = some tk ∧ ps'.tasks[t]? = some tk' ∧
        viewOfTask tk = ⟨false, false⟩ ∧ viewOfTask tk' = ⟨true, false⟩) ∧
    (∀ j w o ps', ps.workers[j]? = some w → w.pc = .body → JRV.Pool.step? ps ⟨.worker j, .taskEnd o, false⟩ = some ps' →
      ∃ t tk tk', w.held = some t ∧ ps.tasks[t]? = some tk ∧ ps'.tasks[t]? = some tk' ∧
        viewOfTask tk = ⟨true, false⟩ ∧ viewOfTask tk' = ⟨true, true⟩) ∧
    (cfg.singleCtl = true → ps.stop = true →
      (∀ c, ps.clients[0]? = some c → (match c.pc with
          | .stopAcq | .stopPut _ | .stopRel _ | .stopAlive _ | .stopJoin _ | .stopAlive2 _ => False | _ => True)) →
      (∀ (j : Nat) (w : JRV.Pool.Worker), ps.workers[j]? = some w → w.pc = .dead) ∧
      (∀ (j : Nat) (op : JRV.Pool.Op) (tmo : Bool), JRV.Pool.step? ps ⟨.worker j, op, tmo⟩ = none) ∧
      (∀ (t : Nat) (tk : JRV.Pool.Task), ps.tasks[t]? = some tk →
        (!(viewOfTask tk).started || (viewOfTask tk).done) = true)) := by
  refine ⟨fun t tk ht => C09_at_most_once cfg n ps hr t tk ht, ?_, ?_, ?_⟩
  · intro j w ps' hw hpc h
    exact pool_begin_is_handlerStart cfg n ps ps' hr j w hw hpc h
  · intro j w o ps' hw hpc h
    exact pool_end_is_handlerFinish cfg n ps ps' hr j w hw hpc o h
  · intro hctl hstop hpc
    obtain ⟨hdead, hnone⟩ := C09_none_after_stop cfg n ps hctl hr hstop hpc
    refine ⟨hdead, hnone, fun t tk ht => ?_⟩
    have hex := (JRV.Pool.TaskInv_reach hr).exec t tk ht
    have hown := (JRV.Pool.TaskInv2_reach hr).own t tk ht
    cases hph : tk.phase with
    | held =>
      obtain ⟨j, w, hw, _, hp⟩ := hown (Or.inl hph)
      rw [hdead j w hw] at hp; simp [JRV.Pool.phaseOfPc] at hp
    | running =>
      obtain ⟨j, w, hw, _, hp⟩ := hown (Or.inr hph)
      rw [hdead j w hw] at hp; simp [JRV.Pool.phaseOfPc] at hp
    | created => simp [viewOfTask, hex, hph, JRV.Pool.execOf]
    | queued => simp [viewOfTask, hex, hph, JRV.Pool.execOf]
    | finished => simp [viewOfTask, hex, hph, JRV.Pool.execOf]
    | dropped => simp [viewOfTask, hex, hph, JRV.Pool.execOf]

/- Non-vacuity: a started pool, one handler task enqueued (the accept loop is client 0), taken by worker 0 which stands at
   `task.begin` (hypotheses of clause 1); after `task.begin` and `task.end` the image is a connection that has replied. -/
example :
    (do let ps ← JRV.Pool.run (JRV.Pool.init { max := 1, min := 0, qbound := 0 } 1)
          [⟨.client 0, .callStart, false⟩, ⟨.client 0, .eventIsSet, false⟩, ⟨.client 0, .eventClear, false⟩,
           ⟨.client 0, .queueQsize, false⟩, ⟨.client 0, .callEnqueue, false⟩, ⟨.client 0, .lockAcquire, false⟩,
           ⟨.client 0, .queuePut, false⟩, ⟨.client 0, .lockAcquire, false⟩, ⟨.client 0, .eventIsSet, false⟩,
           ⟨.client 0, .lockRelease, false⟩, ⟨.client 0, .lockRelease, false⟩,
           ⟨.worker 0, .eventIsSet, false⟩, ⟨.worker 0, .queueGet, false⟩, ⟨.worker 0, .lockAcquire, false⟩,
           ⟨.worker 0, .lockRelease, false⟩]
        let ps1 ← JRV.Pool.step? ps ⟨.worker 0, .taskBegin, false⟩
        let ps2 ← JRV.Pool.step? ps1 ⟨.worker 0, .taskEnd .ok, false⟩
        pure (ps.workers.map (·.pc), ps.tasks.map (viewOfTask), ps1.tasks.map (viewOfTask),
              ps2.tasks.map (viewOfTask)))
      = some ([.begin], [⟨false, false⟩], [⟨true, false⟩], [⟨true, true⟩]) := by
  decide +kernel

/- Non-vacuity of clause 3: the handler task runs to its end, its worker retires (min_threads = 0), `stop()` is called and
   returns: flag set, controlling thread idle, the worker dead, the connection has replied. -/
example :
    (JRV.Pool.run (JRV.Pool.init { max := 1, min := 0, qbound := 0 } 1)
          [⟨.client 0, .callStart, false⟩, ⟨.client 0, .eventIsSet, false⟩, ⟨.client 0, .eventClear, false⟩,
           ⟨.client 0, .queueQsize, false⟩, ⟨.client 0, .callEnqueue, false⟩, ⟨.client 0, .lockAcquire, false⟩,
           ⟨.client 0, .queuePut, false⟩, ⟨.client 0, .lockAcquire, false⟩, ⟨.client 0, .eventIsSet, false⟩,
           ⟨.client 0, .lockRelease, false⟩, ⟨.client 0, .lockRelease, false⟩,
           ⟨.worker 0, .eventIsSet, false⟩, ⟨.worker 0, .queueGet, false⟩, ⟨.worker 0, .lockAcquire, false⟩,
           ⟨.worker 0, .lockRelease, false⟩, ⟨.worker 0, .taskBegin, false⟩, ⟨.worker 0, .taskEnd .ok, false⟩,
           ⟨.worker 0, .futSet, false⟩, ⟨.worker 0, .queueTaskDone, false⟩, ⟨.worker 0, .lockAcquire, false⟩,
           ⟨.worker 0, .lockRelease, false⟩, ⟨.worker 0, .lockAcquire, false⟩, ⟨.worker 0, .lockRelease, false⟩,
           ⟨.worker 0, .lockAcquire, false⟩, ⟨.worker 0, .lockRelease, false⟩,
           ⟨.client 0, .callStop, false⟩, ⟨.client 0, .eventIsSet, false⟩, ⟨.client 0, .eventSet, false⟩,
           ⟨.client 0, .lockAcquire, false⟩, ⟨.client 0, .lockRelease, false⟩, ⟨.client 0, .lockAcquire, false⟩,
           ⟨.client 0, .queueGetNowait, false⟩, ⟨.client 0, .queueJoin, false⟩, ⟨.client 0, .lockRelease, false⟩]).map
        (fun s => (s.cfg.singleCtl, s.stop, s.clients.map (·.pc), s.workers.map (·.pc), s.tasks.map (viewOfTask)))
      = some (true, true, [.idle], [.dead], [⟨true, true⟩]) := by
  rfl


/-- **A reused (user-supplied) request pool.**  The pool of a `PooledJSONRPCServer` may be a `ThreadPool` the user owns: it
    has served an earlier server, that server's `server_close()` — or the user — has stopped it (with requests in flight,
    queued, or none), the user has called `start()` again and hands it to this server (or the same server goes on with it).
    Such a pool is in a state `ps'` reachable from a state `ps` that the earlier life cycles have reached; the abstraction of
    the pool that `JRV.Model.ServerLife` uses (`C12_pool_instantiation`: a handler task begins at most once, `task.begin` /
    `task.end` are the `handlerStart` / handler-ending steps, after `stop()` no worker is alive and no handler can begin) holds
    in `ps'` exactly as in a pool constructed for this server — for any number of earlier stop/start cycles, any pool size,
    any interleaving.  With `C11_restart` (at the return of `stop()` flag, counters, `_threads`, queue and unfinished count are
    those of a new pool, no sentinel is left: the pool that `start()` then sees *is* a fresh one) this is why each life cycle
    of a reused pool is the life cycle of `ServerLife` from `init`; harness/props/c12.py runs such histories on the real
    code (`reuse` chains, `poolcycle`; stage 2: programs with `again`) and compares each life cycle with the model. -/
theorem C12_pool_reuse (cfg : JRV.Pool.Config) (n : Nat) (ps ps' : JRV.Pool.State)
    (hr : JRV.Pool.Reach (JRV.Pool.init cfg n) ps) (hr' : JRV.Pool.Reach ps ps') :
    JRV.Pool.Reach (JRV.Pool.init cfg n) ps' ∧
    (∀ (t : Nat) (tk : JRV.Pool.Task), ps'.tasks[t]? = some tk → tk.execCount ≤ 1) ∧
    (∀ j w ps'', ps'.workers[j]? = some w → w.pc = .begin → JRV.Pool.step? ps' ⟨.worker j, .taskBegin, false⟩ = some ps'' →
      ∃ t tk tk', w.held = some t ∧ ps'.tasks[t]? = some tk ∧ ps''.tasks[t]? = some tk' ∧
        viewOfTask tk = ⟨false, false⟩ ∧ viewOfTask tk' = ⟨true, false⟩) ∧
    (∀ j w o ps'', ps'.workers[j]? = some w → w.pc = .body → JRV.Pool.step? ps' ⟨.worker j, .taskEnd o, false⟩ = some ps'' →
      ∃ t tk tk', w.held = some t ∧ ps'.tasks[t]? = some tk ∧ ps''.tasks[t]? = some tk' ∧
        viewOfTask tk = ⟨true, false⟩ ∧ viewOfTask tk' = ⟨true, true⟩) ∧
    (cfg.singleCtl = true → ps'.stop = true →
      (∀ c, ps'.clients[0]? = some c → (match c.pc with
          | .stopAcq | .stopPut _ | .stopRel _ | .stopAlive _ | .stopJoin _ | .stopAlive2 _ => False | _ => True)) →
      (∀ (j : Nat) (w : JRV.Pool.Worker), ps'.workers[j]? = some w → w.pc = .dead) ∧
      (∀ (j : Nat) (op : JRV.Pool.Op) (tmo : Bool), JRV.Pool.step? ps' ⟨.worker j, op, tmo⟩ = none) ∧
      (∀ (t : Nat) (tk : JRV.Pool.Task), ps'.tasks[t]? = some tk →
        (!(viewOfTask tk).started || (viewOfTask tk).done) = true)) := by
  have hreach : JRV.Pool.Reach (JRV.Pool.init cfg n) ps' := by
    induction hr' with
    | refl => exact hr
    | step a _ hs ih => exact JRV.Pool.Reach.step a ih hs
  exact ⟨hreach, C12_pool_instantiation cfg n ps' hreach⟩

/- Non-vacuity: the pool (1, 0) of the example above — one handler task served, the worker retired, `stop()` returned —
   is started again (`start()`: flag cleared, empty queue, no worker since min_threads = 0) and handed a second handler task:
   `enqueue` starts worker 1 (the accounting is that of a new pool), which takes the task and stands at `task.begin`
   (hypotheses of clause 1 in the restarted pool); worker 0 stays dead, the first connection has replied. -/
example :
    (JRV.Pool.run (JRV.Pool.init { max := 1, min := 0, qbound := 0 } 1)
          [⟨.client 0, .callStart, false⟩, ⟨.client 0, .eventIsSet, false⟩, ⟨.client 0, .eventClear, false⟩,
           ⟨.client 0, .queueQsize, false⟩, ⟨.client 0, .callEnqueue, false⟩, ⟨.client 0, .lockAcquire, false⟩,
           ⟨.client 0, .queuePut, false⟩, ⟨.client 0, .lockAcquire, false⟩, ⟨.client 0, .eventIsSet, false⟩,
           ⟨.client 0, .lockRelease, false⟩, ⟨.client 0, .lockRelease, false⟩,
           ⟨.worker 0, .eventIsSet, false⟩, ⟨.worker 0, .queueGet, false⟩, ⟨.worker 0, .lockAcquire, false⟩,
           ⟨.worker 0, .lockRelease, false⟩, ⟨.worker 0, .taskBegin, false⟩, ⟨.worker 0, .taskEnd .ok, false⟩,
           ⟨.worker 0, .futSet, false⟩, ⟨.worker 0, .queueTaskDone, false⟩, ⟨.worker 0, .lockAcquire, false⟩,
           ⟨.worker 0, .lockRelease, false⟩, ⟨.worker 0, .lockAcquire, false⟩, ⟨.worker 0, .lockRelease, false⟩,
           ⟨.worker 0, .lockAcquire, false⟩, ⟨.worker 0, .lockRelease, false⟩,
           ⟨.client 0, .callStop, false⟩, ⟨.client 0, .eventIsSet, false⟩, ⟨.client 0, .eventSet, false⟩,
           ⟨.client 0, .lockAcquire, false⟩, ⟨.client 0, .lockRelease, false⟩, ⟨.client 0, .lockAcquire, false⟩,
           ⟨.client 0, .queueGetNowait, false⟩, ⟨.client 0, .queueJoin, false⟩, ⟨.client 0, .lockRelease, false⟩,
           -- the user starts the pool again; the next server hands it a handler task
           ⟨.client 0, .callStart, false⟩, ⟨.client 0, .eventIsSet, false⟩, ⟨.client 0, .eventClear, false⟩,
           ⟨.client 0, .queueQsize, false⟩, ⟨.client 0, .callEnqueue, false⟩, ⟨.client 0, .lockAcquire, false⟩,
           ⟨.client 0, .queuePut, false⟩, ⟨.client 0, .lockAcquire, false⟩, ⟨.client 0, .eventIsSet, false⟩,
           ⟨.client 0, .lockRelease, false⟩, ⟨.client 0, .lockRelease, false⟩,
           ⟨.worker 1, .eventIsSet, false⟩, ⟨.worker 1, .queueGet, false⟩, ⟨.worker 1, .lockAcquire, false⟩,
           ⟨.worker 1, .lockRelease, false⟩]).map
        (fun s => (s.stop, s.clients.map (·.pc), s.workers.map (·.pc), s.queue.length, s.tasks.map (viewOfTask)))
      = some (false, [.idle], [.dead, .begin], 0, [⟨true, true⟩, ⟨false, false⟩]) := by
  rfl


/- Non-vacuity: serve, accept two connections, close while one request is in flight (the other one still queued is
   dropped by `pool.stop()`). -/
example : ((run {} (fun _ b => b + 100) init
    [.startServe, .serveStep, .serveStep, .accept 1 .good false, .accept 2 .good false, .handlerStart 0, .request 0,
     .beginClose, .closeStep, .closeStep, .serveStep, .serveStep, .serveStep, .closeStep, .closeStep, .handlerFinish 0,
     .closeStep]).map
      (fun s => (s.cpc, s.conns.map (·.reply)))) = some (.returned, [some (.result 101), none]) := by decide

/- ====================================================================================================================
   The server and its ADDRESS (JRV.Model.ServerContend): a second server constructed on the busy address, a server
   constructed without binding, a socket file removed by the environment.  "Every lifecycle history over {construct,
   serve …, server_close}", "TCP and Unix-socket listeners": the statement for a server `A` must hold whatever other
   constructors run on its address.
   ==================================================================================================================== -/

/-- FRAME.  The constructor of a second server `B` on `A`'s busy address — socket, failed `bind`, `server_close()`
    of the failure path (close its own socket, stop its own pool), re-raise — changes nothing of `A`: not its state,
    not the resolution of the address to `A`'s listening socket (the socket file of a Unix listener included). -/
theorem C12_contender_frame (cfg : Cfg) (f : Nat → Nat → Nat) (w w' : World) (a : WAction) (hb : a.isB = true)
    (h : stepW cfg f w a = some w') :
    w'.a = w.a ∧ w'.bound = w.bound ∧ w'.unlinked = w.unlinked ∧ addrNamesA w' = addrNamesA w := by
  cases a with
  | srv x => simp [WAction.isB] at hb
  | envUnlink => simp [WAction.isB] at hb
  | bConstruct plain =>
    simp only [stepW] at h
    split at h
    · cases h; simp [addrNamesA]
    · cases h
  | bStep =>
    simp only [stepW] at h
    split at h <;> first | (cases h; simp [addrNamesA]) | cases h

/-- PROJECTION.  Whatever happens on the address, `A` makes steps of the single-server life cycle only: every theorem
    above (`C12_isolation`, `C12_once`, `C12_full_statement`, `C12_close_post`, …) holds for `w.a` in every reachable world. -/
theorem C12_world_projects (cfg : Cfg) (f : Nat → Nat → Nat) (bound : Bool) (w : World) (h : ReachW cfg f bound w) :
    Reach cfg f w.a := by
  induction h with
  | init => exact Reach.init
  | @step w w' a _ hst ih =>
    cases a with
    | srv x =>
      simp only [stepW] at hst
      split at hst
      · cases hst
      · cases hx : step? cfg f w.a x with
        | none => simp [hx] at hst
        | some a' =>
          simp only [hx, Option.map_some, Option.some.injEq] at hst
          subst hst
          exact Reach.step x ih hx
    | envUnlink => simp only [stepW, Option.some.injEq] at hst; subst hst; exact ih
    | bConstruct plain => rw [(C12_contender_frame cfg f w w' _ rfl hst).1]; exact ih
    | bStep => rw [(C12_contender_frame cfg f w w' _ rfl hst).1]; exact ih

/-- TRANSPARENCY.  As long as nobody removes the socket file, a bound server behaves exactly as if it were alone:
    each of its steps — accepting a connection included — is enabled in the world iff it is enabled for `A` by itself,
    with the same result, whatever the contender has done or is doing. -/
theorem C12_contention_transparent (cfg : Cfg) (f : Nat → Nat → Nat) (w : World) (hb : w.bound = true)
    (hu : w.unlinked = false) (x : Action) :
    stepW cfg f w (.srv x) = (step? cfg f w.a x).map fun a' => { w with a := a' } := by
  simp only [stepW]
  cases hacc : isAccept x
  · simp
  · cases hso : w.a.socketOpen
    · -- the listening socket is closed: `A` accepts nothing anyway
      cases x <;> simp [isAccept] at hacc
      simp [addrNamesA, hso, step?]
    · simp [addrNamesA, hb, hu, hso]

/-- STOPPING DOES NOT DEPEND ON THE ADDRESS.  Every step that is not the acceptance of a new connection — the serving
    thread, `shutdown()`, `server_close()`, the handlers of accepted connections, their clients — is the single-server
    step, also for a server that was never bound and after the socket file has been removed.  With
    `C12_world_projects`: `C12_full_statement` and `C12_close_post` are statements about `A` in every world. -/
theorem C12_stop_independent_of_address (cfg : Cfg) (f : Nat → Nat → Nat) (w : World) (x : Action)
    (hx : isAccept x = false) :
    stepW cfg f w (.srv x) = (step? cfg f w.a x).map fun a' => { w with a := a' } := by
  simp [stepW, hx]

/-- Invariant of the contender: its socket is open exactly between the failed `bind` and the first step of
    `server_close`; its pool is stopped once a pooled contender is through. -/
private structure BGood (w : World) : Prop where
  sock : w.bSocketOpen = true ↔ w.bpc = .bindFailed
  pool : w.bpc = .raised → w.bPlain = false → w.bPoolStopped = true

private theorem bgood_of_reach (cfg : Cfg) (f : Nat → Nat → Nat) (bound : Bool) (w : World) (h : ReachW cfg f bound w) :
    BGood w := by
  induction h with
  | init => exact ⟨by simp [initW], by simp [initW]⟩
  | @step w w' a _ hst ih =>
    cases a with
    | srv x =>
      simp only [stepW] at hst
      split at hst
      · cases hst
      · cases hx : step? cfg f w.a x with
        | none => simp [hx] at hst
        | some a' =>
          simp only [hx, Option.map_some, Option.some.injEq] at hst
          subst hst
          exact ⟨ih.sock, ih.pool⟩
    | envUnlink => simp only [stepW, Option.some.injEq] at hst; subst hst; exact ⟨ih.sock, ih.pool⟩
    | bConstruct plain =>
      simp only [stepW] at hst
      split at hst
      · cases hst; exact ⟨by simp, by simp⟩
      · cases hst
    | bStep =>
      simp only [stepW] at hst
      cases hpc : w.bpc <;> simp only [hpc] at hst
      · cases hst
      · cases hst
        cases hp : w.bPlain <;> exact ⟨by simp [hp], by simp [hp]⟩
      · cases hst
        refine ⟨?_, by simp⟩
        have hso : w.bSocketOpen = false := by
          cases hso : w.bSocketOpen
          · rfl
          · have := ih.sock.mp hso; rw [hpc] at this; cases this
        simp [hso]
      · cases hst

/-- THE CONTENDER ITSELF ("`server_close()` alone when it never served always terminates, after which its listening
    socket is closed and every worker of the request pool it stops terminates", on the failure path of a constructor):
    while `B`'s constructor is under way its next step is always enabled — nothing of `A` or of the address can hold
    it back — and strictly decreases the number of steps left; when it is over (`raised`), `B`'s socket is closed and,
    for a pooled `B`, its own pool is stopped. -/
theorem C12_contender_terminates (cfg : Cfg) (f : Nat → Nat → Nat) (bound : Bool) (w : World) (h : ReachW cfg f bound w) :
    ((w.bpc = .bindFailed ∨ w.bpc = .socketClosed) →
      ∃ w', stepW cfg f w .bStep = some w' ∧ bRemaining w' < bRemaining w) ∧
    (w.bpc = .raised → w.bSocketOpen = false ∧ (w.bPlain = false → w.bPoolStopped = true)) := by
  have g := bgood_of_reach cfg f bound w h
  refine ⟨?_, ?_⟩
  · rintro (hp | hp)
    · cases hpl : w.bPlain <;> simp [stepW, hp, bRemaining, hpl]
    · simp [stepW, hp, bRemaining]
  · intro hr
    refine ⟨?_, g.pool hr⟩
    cases hso : w.bSocketOpen
    · rfl
    · have := g.sock.mp hso; rw [hr] at this; cases this

/-- `runW` on `A`'s steps is `run` on `A`, as long as the server is bound and the file is there. -/
private theorem runW_srv (cfg : Cfg) (f : Nat → Nat → Nat) (xs : List Action) (w : World) (hb : w.bound = true)
    (hu : w.unlinked = false) :
    runW cfg f w (xs.map .srv) = (run cfg f w.a xs).map fun a' => { w with a := a' } := by
  induction xs generalizing w with
  | nil => simp [runW, run]
  | cons x rest ih =>
    simp only [List.map_cons, runW, run, C12_contention_transparent cfg f w hb hu x]
    cases hx : step? cfg f w.a x with
    | none => simp
    | some a' =>
      simp only [Option.map_some]
      rw [ih { w with a := a' } hb hu]

/-- SERVING AFTER CONTENTION.  A ready server on whose address a second server has been constructed (and has failed,
    or is still failing) serves the next request as if nothing had happened: the connection reaches it through the
    address, is accepted, handled and answered with the reply to that very request; afterwards the server is ready
    again.  (`C12_serves_next` in the world.) -/
theorem C12_serves_after_contention (cfg : Cfg) (f : Nat → Nat → Nat) (hcatch : cfg.catchAll = true) (w : World)
    (hb : w.bound = true) (hu : w.unlinked = false) (hr : Ready cfg w.a) (b : Nat) (k : Kind) :
    ∃ w', runW cfg f w ((serveOne cfg w.a.conns.length b k).map .srv) = some w' ∧ Ready cfg w'.a ∧
      w'.bpc = w.bpc ∧ addrNamesA w' = true ∧
      w'.a.conns = w.a.conns ++ [{ body := b, kind := k, phase := .closed, execs := execOf k,
                                   reply := some (replyOf f (if cfg.sharedWrites then b else w.a.disp) k b) }] := by
  obtain ⟨a', hrun, hready, hconns⟩ := C12_serves_next cfg f hcatch w.a hr b k
  refine ⟨{ w with a := a' }, ?_, hready, rfl, ?_, hconns⟩
  · rw [runW_srv cfg f _ w hb hu, hrun]; rfl
  · simp [addrNamesA, hb, hu, hready.2.1]

/- Non-vacuity.  Pooled `A` serves; a pooled `B` is constructed on its address and fails (three steps); `A` answers a
   request; `server_close()` of `A` goes through: socket closed, pool stopped; the contender's socket is closed and its
   pool stopped, the address names nobody. -/
example : ((runW {} (fun _ b => b + 100) (initW true)
    ([.srv .startServe, .srv .serveStep, .srv .serveStep, .bConstruct false, .bStep, .srv (.accept 1 .good false), .bStep,
      .srv (.handlerStart 0), .srv (.request 0), .srv (.handlerFinish 0),
      .srv .beginClose] ++ (List.replicate 2 (.srv .closeStep)) ++ (List.replicate 3 (.srv .serveStep)) ++
      (List.replicate 3 (.srv .closeStep)))).map
      (fun w => (w.a.cpc, w.a.socketOpen, w.a.poolStopped, w.a.conns.map (·.reply), w.bpc, w.bSocketOpen, w.bPoolStopped, addrNamesA w)))
    = some (.returned, false, true, [some (.result 101)], .raised, false, true, false) := by rfl

/- The contender needs a busy address: on an unbound server's address, or after the file is gone, `bind` does not fail
   (not described: `none`); a client cannot reach an unbound server, which closes all the same. -/
example : stepW {} (fun _ b => b) (initW false) (.bConstruct false) = none ∧
    (runW {} (fun _ b => b) (initW true) [.srv .startServe, .srv .serveStep, .srv .serveStep, .envUnlink,
      .srv (.accept 1 .good false)]) = none ∧
    ((runW {} (fun _ b => b) (initW false) [.srv .beginClose, .srv .closeStep, .srv .closeStep, .srv .closeStep]).map
      (fun w => (w.a.cpc, w.a.socketOpen, w.a.poolStopped))) = some (.returned, false, true) := by decide

end JRV.Props
