/-
  C12 — companion theorems of the facts extracted from the source (tools/extractors/serverlife.py, pool.py,
  footprint.py).  Built and audited separately from JRV.Properties.C12: a source edit that changes one fact fails
  that companion only (the property theorems stay discharged and the evidence says which fact no longer matches).
-/
import JRV.Model.ServerLife
import JRV.Model.Pool
import JRV.Properties.C12
import JRV.Generated

namespace JRV.Props
open JRV.SL

/-- Tie to the source: the body of PooledJSONRPCServer.server_close / serve_forever / process_request
    (`try: … finally: …` without handlers is read as the sequence it executes). -/
theorem C12_gen_serverClose : Generated.pooledServerClose = some ["if-serving:shutdown", "server_close", "pool.stop"] := by decide
theorem C12_gen_serveFlag : Generated.pooledServeForeverSetsFlag = some (true, true) := by decide
theorem C12_gen_processRequest : Generated.pooledProcessRequestEnqueues = some true := by decide

/-- Tie of `C12_pool_instantiation` to the source of the request pool: the facts of `ThreadPool` that the pool model's
    hand-off of tasks (growth, retirement, accounting, lock discipline) encodes — the same facts C09 is tied by. -/
theorem C12_gen_poolRetireRule : Generated.poolRetireRule = some JRV.Pool.retireRuleSpec := by decide
theorem C12_gen_poolGrowthRule : Generated.poolGrowthRule = some JRV.Pool.growthRuleSpec := by decide
theorem C12_gen_poolPendingStores : Generated.poolPendingStores = some JRV.Pool.pendingStoresSpec := by decide
theorem C12_gen_poolUnlockedAccesses : Generated.poolUnlockedAccesses = some JRV.Pool.unlockedAccessesSpec := by decide

/-- The shared dispatcher cell of the model is never written because the serve path of the source makes no store into
    shared state: the write footprint of every function reachable from `_marshaled_dispatch` (the fact C13 is built
    on) is empty. -/
theorem C12_gen_sharedWrites : Generated.servePathSharedWrites = some [] := by decide

/-- The `except` clause around the method call in `_dispatch` and the one around the whole exchange in `do_POST`
    catch every `BaseException` (they are bare) and do not re-raise: `Cfg.catchAll`. -/
theorem C12_gen_catchAll : Generated.servePathCatchAll = some (true, true) := by decide

/- ===== the server and its address (tools/extractors/serveraddr.py; model JRV.Model.ServerContend) ===== -/

/-- `SimpleJSONRPCServer.server_close` does nothing besides the base class's `server_close` — it closes the server's own
    listening socket (with `pooledServerClose`: the pooled one shuts its own loop down, closes its own socket, stops its own
    pool).  In particular nothing in it names the address: the `closeSocket` step of `A` and the `bStep`s of a failed
    contender (`stepW`) touch their own socket and pool only — `C12_contender_frame`. -/
theorem C12_gen_plainServerClose : Generated.plainServerCloseExtra = some [] := by decide

/-- The failure path of the constructor (`TCPServer.__init__`: `except: self.server_close(); raise`) finds the pool and the
    serving flag of a `PooledJSONRPCServer` in place: they are stored before the base constructor runs — `bStep` of a pooled
    contender reads `__serving` (false) and stops its own pool. -/
theorem C12_gen_failedConstructorCloses : Generated.pooledInitStoresBeforeBase = some true := by decide

/-- The model configuration that the extracted facts stand for. -/
def cfgOfFacts (plain : Bool) : Option Cfg := do
  let fp ← Generated.servePathSharedWrites
  let ca ← Generated.servePathCatchAll
  pure { plain := plain, sharedWrites := !fp.isEmpty, catchAll := ca.1 && ca.2 }

/-- … is the one the hypotheses of `C12_isolation` (`sharedWrites = false`) and `C12_survives` (`catchAll = true`) ask
    for, for the plain and for the pooled server. -/
theorem C12_gen_cfg (plain : Bool) :
    cfgOfFacts plain = some { plain := plain, sharedWrites := false, catchAll := true } := by
  cases plain <;> decide

/-- `C12_isolation` with its hypothesis discharged from the source. -/
theorem C12_gen_isolation (plain : Bool) (cfg : Cfg) (hcfg : cfgOfFacts plain = some cfg) (f : Nat → Nat → Nat)
    (s : State) (h : Reach cfg f s) (i : Nat) (c : Conn) (hc : s.conns[i]? = some c) :
    c.reply = none ∨ c.reply = some (replyOf f 0 c.kind c.body) := by
  rw [C12_gen_cfg] at hcfg
  cases hcfg
  exact (C12_isolation _ f rfl s h i c hc).2

/-- `C12_survives` with its hypothesis discharged from the source. -/
theorem C12_gen_survives (plain : Bool) (cfg : Cfg) (hcfg : cfgOfFacts plain = some cfg) (f : Nat → Nat → Nat)
    (s : State) (h : Reach cfg f s) (hloop : s.spc = .loop) (hopen : s.socketOpen = true) (hpool : s.poolStopped = false)
    (i : Nat) (c : Conn) (hc : s.conns[i]? = some c) (hrun : c.phase = .running) (hka : c.keepAlive = false) :
    ∃ s1, step? cfg f s (.handlerFinish i) = some s1 ∧
      (s1.conns[i]?).map (·.reply) = some (some (replyOf f 0 c.kind c.body)) ∧
      (Ready cfg s1 → ∀ b k, ∃ s2, run cfg f s1 (serveOne cfg s1.conns.length b k) = some s2 ∧ Ready cfg s2 ∧
        (s2.conns[s1.conns.length]?).map (·.reply) = some (some (replyOf f 0 k b))) := by
  rw [C12_gen_cfg] at hcfg
  cases hcfg
  have hd := (C12_isolation _ f rfl s h i c hc).1
  obtain ⟨s1, hs1, hrep, _, hnext⟩ := C12_survives _ f rfl s h hloop hopen hpool i c hc hrun hka
  have hd1 : s1.disp = 0 := by
    obtain ⟨s1', hs1', _, _, _, _, _, _, _, _, _, _, hdisp, _⟩ := C12_failure_is_local _ f rfl s h i c hc hrun
    rw [hs1] at hs1'; cases hs1'; rw [hdisp, hd]
  refine ⟨s1, hs1, by simpa [hd] using hrep, ?_⟩
  intro hr b k
  obtain ⟨s2, hs2, hr2, hrep2⟩ := hnext hr b k
  exact ⟨s2, hs2, hr2, by simpa [hd1] using hrep2⟩

end JRV.Props
