/-
  C13 — Replies depend only on the request: stateless per-request version adaptation.

  Model: JRV.Model.ConfigHeap — configurations as aliasable heap objects; the dispatcher's reply is an
  arbitrary function of the per-request configuration as observed and of the request, so every
  theorem holds for every dispatch behaviour, every history and every batch composition.
-/
import JRV.Model.ConfigHeap
import JRV.Generated

set_option linter.unusedSimpArgs false

namespace JRV.Props
open JRV JRV.CH

/- ---------- helper lemmas ---------- -/

private theorem view_some_bounds {h : Heap} {a : Nat} {v : CfgView} (hv : view h a = some v) :
    ∃ c, h.cfgs[a]? = some c ∧ c.classesRef < h.dicts.length ∧ c.handlersRef < h.dicts.length := by
  unfold view at hv
  cases hc : h.cfgs[a]? with
  | none => simp [hc] at hv
  | some c =>
    refine ⟨c, rfl, ?_, ?_⟩
    · cases h1 : h.dicts[c.classesRef]? with
      | none => simp [hc, h1] at hv
      | some _ => exact (List.getElem?_eq_some_iff.mp h1).1
    · cases h1 : h.dicts[c.classesRef]? with
      | none => simp [hc, h1] at hv
      | some _ =>
        cases h2 : h.dicts[c.handlersRef]? with
        | none => simp [hc, h1, h2] at hv
        | some _ => exact (List.getElem?_eq_some_iff.mp h2).1

/-- Appending objects to the heap does not change what existing addresses observe. -/
private theorem view_append (h : Heap) (cs : List CfgObj) (ds : List DictObj) (a : Nat) (v : CfgView)
    (hv : view h a = some v) :
    view { cfgs := h.cfgs ++ cs, dicts := h.dicts ++ ds } a = some v := by
  obtain ⟨c, hc, h1, h2⟩ := view_some_bounds hv
  have ha : a < h.cfgs.length := (List.getElem?_eq_some_iff.mp hc).1
  unfold view at hv ⊢
  simp only [List.getElem?_append_left ha, List.getElem?_append_left h1, List.getElem?_append_left h2, hc] at hv ⊢
  exact hv

/-- Storing a scalar into the object at `b` does not change what another address observes. -/
private theorem view_setVersion_ne (h : Heap) (a b : Nat) (n : Nat) (hne : a ≠ b) :
    view (applyMut h b (.setVersion n)) a = view h a := by
  unfold applyMut
  cases hb : h.cfgs[b]? with
  | none => rfl
  | some c =>
    simp only [view]
    rw [List.getElem?_set_ne (Ne.symm hne)]

/-- Storing a scalar into the object at `b` changes exactly that scalar in what `b` observes. -/
private theorem view_setVersion_self (h : Heap) (b : Nat) (n : Nat) (v : CfgView) (hv : view h b = some v) :
    view (applyMut h b (.setVersion n)) b = some { v with version := n } := by
  obtain ⟨c, hc, _, _⟩ := view_some_bounds hv
  have hb : b < h.cfgs.length := (List.getElem?_eq_some_iff.mp hc).1
  unfold view at hv ⊢
  unfold applyMut
  simp only [hc] at hv ⊢
  simp only [List.getElem?_set_self hb]
  cases hd1 : h.dicts[c.classesRef]? with
  | none => simp [hd1] at hv
  | some cl =>
    cases hd2 : h.dicts[c.handlersRef]? with
    | none => simp [hd1, hd2] at hv
    | some hd =>
      simp only [hd1, hd2, Option.some.injEq] at hv ⊢
      subst hv; rfl

/-- Separation: a mutation through `b` does not change what `a` observes when the two objects are
    different and share neither dictionary. -/
private theorem view_applyMut_sep (h : Heap) (a b : Nat) (m : Mut) (ca cb : CfgObj)
    (ha : h.cfgs[a]? = some ca) (hb : h.cfgs[b]? = some cb) (hne : a ≠ b)
    (h1 : cb.classesRef ≠ ca.classesRef) (h2 : cb.classesRef ≠ ca.handlersRef)
    (h3 : cb.handlersRef ≠ ca.classesRef) (h4 : cb.handlersRef ≠ ca.handlersRef) :
    view (applyMut h b m) a = view h a := by
  unfold applyMut
  simp only [hb]
  cases m with
  | classesSet k cl =>
    simp only []
    split
    · unfold view
      simp only [ha, List.getElem?_set_ne h1, List.getElem?_set_ne h2]
    · rfl
  | handlersSet t hd =>
    simp only []
    split
    · unfold view
      simp only [ha, List.getElem?_set_ne h3, List.getElem?_set_ne h4]
    · rfl
  | _ =>
    simp only [view]
    rw [List.getElem?_set_ne (Ne.symm hne)]

private theorem copy_spec (h : Heap) (a : Nat) (v : CfgView) (hv : view h a = some v) :
    ∃ c, h.cfgs[a]? = some c ∧
      copyCfg h a = some (copyHeap h c v.classes v.handlers, h.cfgs.length) := by
  obtain ⟨c, hc, h1, h2⟩ := view_some_bounds hv
  refine ⟨c, hc, ?_⟩
  unfold view at hv
  unfold copyCfg
  simp only [hc] at hv ⊢
  cases hd1 : h.dicts[c.classesRef]? with
  | none => exact absurd hd1 (by simp [List.getElem?_eq_none_iff]; omega)
  | some cl =>
    cases hd2 : h.dicts[c.handlersRef]? with
    | none => exact absurd hd2 (by simp [List.getElem?_eq_none_iff]; omega)
    | some hd =>
      simp only [hd1, hd2, Option.some.injEq] at hv ⊢
      subst hv
      rfl

/-- The copy observes exactly what the original observes. -/
private theorem view_copy (h : Heap) (a : Nat) (v : CfgView) (hv : view h a = some v)
    (h1 : Heap) (b : Nat) (hc : copyCfg h a = some (h1, b)) : view h1 b = some v := by
  obtain ⟨c, hca, hspec⟩ := copy_spec h a v hv
  rw [hspec] at hc
  simp only [Option.some.injEq, Prod.mk.injEq] at hc
  obtain ⟨rfl, rfl⟩ := hc
  unfold view at hv ⊢
  simp only [hca] at hv
  simp only [copyHeap, copyObj, List.getElem?_append_right (Nat.le_refl _), Nat.sub_self, List.getElem?_cons_zero,
    List.getElem?_append_right (Nat.le_refl _), List.getElem?_append_right (Nat.le_succ _)]
  cases hd1 : h.dicts[c.classesRef]? with
  | none => simp [hd1] at hv
  | some cl =>
    cases hd2 : h.dicts[c.handlersRef]? with
    | none => simp [hd1, hd2] at hv
    | some hd =>
      simp only [hd1, hd2, Option.some.injEq] at hv
      subst hv
      simp

/- ---------- property theorems ---------- -/

/-- Frame: serving one validated entry never changes what any existing configuration object —
    the server's, the shared default, anyone's — observes, and the reply is the history-free one. -/
theorem C13_frame_entry {Reply} (mkReply : CfgView → Req → Reply) (mkInvalid : CfgView → PyVal → Reply)
    (h : Heap) (srv : Nat) (sv : CfgView) (r : Req) (hs : view h srv = some sv) :
    ∃ h', serveEntry mkReply h srv r = some (h', specReply mkReply mkInvalid sv (.valid r)) ∧
      ∀ a v, view h a = some v → view h' a = some v := by
  unfold serveEntry specReply
  simp only [hs]
  by_cases hcond : (!r.hasJsonrpc && decide (sv.version ≥ 20)) = true
  · simp only [hcond, ↓reduceIte]
    obtain ⟨c, hca, hspec⟩ := copy_spec h srv sv hs
    rw [hspec]
    simp only
    have hcopyview := view_copy h srv sv hs _ _ hspec
    -- the new object after `version = 1.0`
    have hnew := view_setVersion_self _ h.cfgs.length 10 sv hcopyview
    refine ⟨_, by rw [hnew]; rfl, ?_⟩
    intro a v hav
    have ha : a < h.cfgs.length := by
      obtain ⟨_, hc', _⟩ := view_some_bounds hav
      exact (List.getElem?_eq_some_iff.mp hc').1
    rw [view_setVersion_ne _ a h.cfgs.length 10 (by omega)]
    exact view_append h _ _ a v hav
  · simp only [hcond, Bool.false_eq_true, ↓reduceIte]
    exact ⟨h, by simp, fun _ _ hv => hv⟩

/-- A whole request body (single entry or batch, valid and invalid entries in any order): every reply
    is the history-free reply of its own entry and every existing configuration is unchanged. -/
theorem C13_frame {Reply} (mkReply : CfgView → Req → Reply) (mkInvalid : CfgView → PyVal → Reply)
    (srv : Nat) (sv : CfgView) (body : List Entry) :
    ∀ h, view h srv = some sv →
    ∃ h', serveEntries mkReply mkInvalid srv h body = some (h', body.map (specReply mkReply mkInvalid sv)) ∧
      ∀ a v, view h a = some v → view h' a = some v := by
  induction body with
  | nil => intro h _; exact ⟨h, rfl, fun _ _ hv => hv⟩
  | cons e rest ih =>
    intro h hs
    cases e with
    | valid r =>
      obtain ⟨h1, he, hf1⟩ := C13_frame_entry mkReply mkInvalid h srv sv r hs
      obtain ⟨h2, hr, hf2⟩ := ih h1 (hf1 srv sv hs)
      refine ⟨h2, ?_, fun a v hv => hf2 a v (hf1 a v hv)⟩
      simp [serveEntries, he, hr]
    | invalid p =>
      obtain ⟨h2, hr, hf2⟩ := ih h hs
      refine ⟨h2, ?_, hf2⟩
      simp [serveEntries, hs, hr, specReply]

/-- History freedom: after any finite sequence of request bodies, each reply equals the reply the
    same entry gets from a fresh server with the same configuration, and the server's Config, the
    shared default Config and every other existing configuration observe exactly what they did. -/
theorem C13_history_free {Reply} (mkReply : CfgView → Req → Reply) (mkInvalid : CfgView → PyVal → Reply)
    (srv : Nat) (sv : CfgView) (history : List (List Entry)) :
    ∀ h, view h srv = some sv →
    ∃ h', serveHistory mkReply mkInvalid srv h history =
        some (h', history.map (List.map (specReply mkReply mkInvalid sv))) ∧
      ∀ a v, view h a = some v → view h' a = some v := by
  induction history with
  | nil => intro h _; exact ⟨h, rfl, fun _ _ hv => hv⟩
  | cons body rest ih =>
    intro h hs
    obtain ⟨h1, hb, hf1⟩ := C13_frame mkReply mkInvalid srv sv body h hs
    obtain ⟨h2, hr, hf2⟩ := ih h1 (hf1 srv sv hs)
    refine ⟨h2, ?_, fun a v hv => hf2 a v (hf1 a v hv)⟩
    simp [serveHistory, hb, hr]

/-- The form of a reply: a validated entry without "jsonrpc" is answered from a configuration in
    1.0 form (identical to the server's except for the version); one with it, and every invalid
    entry, from the server's own configuration. -/
theorem C13_form {Reply} (mkReply : CfgView → Req → Reply) (mkInvalid : CfgView → PyVal → Reply)
    (sv : CfgView) (r : Req) (p : PyVal) :
    (r.hasJsonrpc = false →
      ∃ v', specReply mkReply mkInvalid sv (.valid r) = mkReply v' r ∧ formOf v' = 10 ∧
        v' = { sv with version := v'.version }) ∧
    (r.hasJsonrpc = true → specReply mkReply mkInvalid sv (.valid r) = mkReply sv r) ∧
    specReply mkReply mkInvalid sv (.invalid p) = mkInvalid sv p := by
  refine ⟨?_, ?_, rfl⟩
  · intro hj
    by_cases hv : sv.version ≥ 20
    · exact ⟨{ sv with version := 10 }, by simp [specReply, hj, hv], by simp [formOf], rfl⟩
    · exact ⟨sv, by simp [specReply, hj, hv], by simp [formOf, hv], rfl⟩
  · intro hj; simp [specReply, hj]

/-- `Config.copy()`: the copy first observes what the original observes; afterwards any mutation of
    the copy (version, flags, names, classes[k] = c, handlers[t] = h) leaves the original's
    observation untouched, and any mutation of the original leaves the copy's untouched. -/
theorem C13_copy_independent (h : Heap) (a : Nat) (v : CfgView) (hv : view h a = some v)
    (h1 : Heap) (b : Nat) (hc : copyCfg h a = some (h1, b)) (m : Mut) :
    view h1 b = some v ∧ view h1 a = some v ∧
    view (applyMut h1 b m) a = some v ∧ view (applyMut h1 a m) b = some v := by
  have hb := view_copy h a v hv h1 b hc
  obtain ⟨c, hca, hspec⟩ := copy_spec h a v hv
  obtain ⟨_, _, hr1, hr2⟩ := view_some_bounds hv
  have hca' : h.cfgs[a]? = some c := hca
  have ha : a < h.cfgs.length := (List.getElem?_eq_some_iff.mp hca).1
  rw [hspec] at hc
  simp only [Option.some.injEq, Prod.mk.injEq] at hc
  obtain ⟨rfl, rfl⟩ := hc
  have hva : view (copyHeap h c v.classes v.handlers) a = some v := view_append h _ _ a v hv
  have hrefs : c.classesRef < h.dicts.length ∧ c.handlersRef < h.dicts.length := by
    obtain ⟨c', hc', x1, x2⟩ := view_some_bounds hv
    rw [hca] at hc'; cases hc'; exact ⟨x1, x2⟩
  have hnewobj : (copyHeap h c v.classes v.handlers).cfgs[h.cfgs.length]? = some (copyObj h c) := by
    simp [copyHeap]
  have holdobj : (copyHeap h c v.classes v.handlers).cfgs[a]? = some c := by
    simp [copyHeap, List.getElem?_append_left ha, hca]
  refine ⟨hb, hva, ?_, ?_⟩
  · rw [view_applyMut_sep _ a h.cfgs.length m c (copyObj h c) holdobj hnewobj (by omega)
      (by simp [copyObj]; omega) (by simp [copyObj]; omega) (by simp [copyObj]; omega) (by simp [copyObj]; omega)]
    exact hva
  · rw [view_applyMut_sep _ h.cfgs.length a m (copyObj h c) c hnewobj holdobj (by omega)
      (by simp [copyObj]; omega) (by simp [copyObj]; omega) (by simp [copyObj]; omega) (by simp [copyObj]; omega)]
    exact hb

/-- Tie to the source: nothing on the serve path writes to shared state, and the only configuration
    store is applied to the result of `copy()`; `Config.copy()` duplicates both dictionaries. -/
theorem C13_gen_sharedWrites : Generated.servePathSharedWrites = some [] := by decide
theorem C13_gen_versionStoreOnCopy : Generated.versionStoreOnCopy = some true := by decide
theorem C13_gen_copyDuplicates : Generated.configCopyDuplicates = some (true, true) := by decide

/- Non-vacuity: a server object and the shared default living in one heap. -/
example :
    let h : Heap := { cfgs := [⟨20, "ct", "ua", true, "_serialize", "_ignore", 0, 1⟩,
                               ⟨20, "ct", "ua", true, "_serialize", "_ignore", 2, 3⟩],
                      dicts := [[], [], [("K", "cls")], []] }
    (serveEntry (fun v (_ : Req) => formOf v) h 1 ⟨false, .none⟩).map (·.2) = some 10 ∧
    (serveEntry (fun v (_ : Req) => formOf v) h 1 ⟨true, .none⟩).map (·.2) = some 20 := by
  decide

end JRV.Props
