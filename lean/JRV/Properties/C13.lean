/-
  C13 — Replies depend only on the request: stateless per-request version adaptation.

  Model: JRV.Model.ConfigHeap — configurations as aliasable heap objects; the dispatcher's reply is an
  arbitrary function of the per-request configuration as observed and of the request, so every
  theorem holds for every dispatch behaviour, every history and every batch composition.
  `C13_form_reply`/`C13_form_wire` instantiate it with the reply dictionaries of JRV.Model.Payload.

  Companion theorems of the extracted facts (`C13_gen_*`) live in JRV/Properties/C13Gen.lean.
-/
import JRV.Model.ConfigHeap
import JRV.Model.ConfigHeapConc
import JRV.Model.Payload

set_option linter.unusedSimpArgs false

namespace JRV.Props
open JRV JRV.CH

/- ---------- helper lemmas ---------- -/

private theorem view_some_bounds {h : Heap} {a : Nat} {v : CfgView} (hv : view h a = some v) :
    ∃ c, h.cfgs[a]? = some c ∧ c.classesRef < h.dicts.length ∧ c.handlersRef < h.dicts.length := by
  unfold view at hv
  cases hc : h.cfgs[a]? with
  | none => simp [hc] at hv
  | some c =>
    refine ⟨c, rfl, ?_, ?_⟩
    · cases h1 : h.dicts[c.classesRef]? with
      | none => simp [hc, h1] at hv
      | some _ => exact (List.getElem?_eq_some_iff.mp h1).1
    · cases h1 : h.dicts[c.classesRef]? with
      | none => simp [hc, h1] at hv
      | some _ =>
        cases h2 : h.dicts[c.handlersRef]? with
        | none => simp [hc, h1, h2] at hv
        | some _ => exact (List.getElem?_eq_some_iff.mp h2).1

/-- Appending objects to the heap does not change what existing addresses observe. -/
private theorem view_append (h : Heap) (cs : List CfgObj) (ds : List DictObj) (a : Nat) (v : CfgView)
    (hv : view h a = some v) :
    view { cfgs := h.cfgs ++ cs, dicts := h.dicts ++ ds } a = some v := by
  obtain ⟨c, hc, h1, h2⟩ := view_some_bounds hv
  have ha : a < h.cfgs.length := (List.getElem?_eq_some_iff.mp hc).1
  unfold view at hv ⊢
  simp only [List.getElem?_append_left ha, List.getElem?_append_left h1, List.getElem?_append_left h2, hc] at hv ⊢
  exact hv

/-- Storing a scalar into the object at `b` does not change what another address observes. -/
private theorem view_setVersion_ne (h : Heap) (a b : Nat) (n : Nat) (hne : a ≠ b) :
    view (applyMut h b (.setVersion n)) a = view h a := by
  unfold applyMut
  cases hb : h.cfgs[b]? with
  | none => rfl
  | some c =>
    simp only [view]
    rw [List.getElem?_set_ne (Ne.symm hne)]

/-- Storing a scalar into the object at `b` changes exactly that scalar in what `b` observes. -/
private theorem view_setVersion_self (h : Heap) (b : Nat) (n : Nat) (v : CfgView) (hv : view h b = some v) :
    view (applyMut h b (.setVersion n)) b = some { v with version := n } := by
  obtain ⟨c, hc, _, _⟩ := view_some_bounds hv
  have hb : b < h.cfgs.length := (List.getElem?_eq_some_iff.mp hc).1
  unfold view at hv ⊢
  unfold applyMut
  simp only [hc] at hv ⊢
  simp only [List.getElem?_set_self hb]
  cases hd1 : h.dicts[c.classesRef]? with
  | none => simp [hd1] at hv
  | some cl =>
    cases hd2 : h.dicts[c.handlersRef]? with
    | none => simp [hd1, hd2] at hv
    | some hd =>
      simp only [hd1, hd2, Option.some.injEq] at hv ⊢
      subst hv; rfl

/-- Separation: a mutation through `b` does not change what `a` observes when the two objects are
    different and share neither dictionary. -/
private theorem view_applyMut_sep (h : Heap) (a b : Nat) (m : Mut) (ca cb : CfgObj)
    (ha : h.cfgs[a]? = some ca) (hb : h.cfgs[b]? = some cb) (hne : a ≠ b)
    (h1 : cb.classesRef ≠ ca.classesRef) (h2 : cb.classesRef ≠ ca.handlersRef)
    (h3 : cb.handlersRef ≠ ca.classesRef) (h4 : cb.handlersRef ≠ ca.handlersRef) :
    view (applyMut h b m) a = view h a := by
  unfold applyMut
  simp only [hb]
  cases m with
  | classesSet k cl =>
    simp only []
    split
    · unfold view
      simp only [ha, List.getElem?_set_ne h1, List.getElem?_set_ne h2]
    · rfl
  | handlersSet t hd =>
    simp only []
    split
    · unfold view
      simp only [ha, List.getElem?_set_ne h3, List.getElem?_set_ne h4]
    · rfl
  | _ =>
    simp only [view]
    rw [List.getElem?_set_ne (Ne.symm hne)]

private theorem copy_spec (h : Heap) (a : Nat) (v : CfgView) (hv : view h a = some v) :
    ∃ c, h.cfgs[a]? = some c ∧
      copyCfg h a = some (copyHeap h c v.classes v.handlers, h.cfgs.length) := by
  obtain ⟨c, hc, h1, h2⟩ := view_some_bounds hv
  refine ⟨c, hc, ?_⟩
  unfold view at hv
  unfold copyCfg
  simp only [hc] at hv ⊢
  cases hd1 : h.dicts[c.classesRef]? with
  | none => exact absurd hd1 (by simp [List.getElem?_eq_none_iff]; omega)
  | some cl =>
    cases hd2 : h.dicts[c.handlersRef]? with
    | none => exact absurd hd2 (by simp [List.getElem?_eq_none_iff]; omega)
    | some hd =>
      simp only [hd1, hd2, Option.some.injEq] at hv ⊢
      subst hv
      rfl

/-- The copy observes exactly what the original observes. -/
private theorem view_copy (h : Heap) (a : Nat) (v : CfgView) (hv : view h a = some v)
    (h1 : Heap) (b : Nat) (hc : copyCfg h a = some (h1, b)) : view h1 b = some v := by
  obtain ⟨c, hca, hspec⟩ := copy_spec h a v hv
  rw [hspec] at hc
  simp only [Option.some.injEq, Prod.mk.injEq] at hc
  obtain ⟨rfl, rfl⟩ := hc
  unfold view at hv ⊢
  simp only [hca] at hv
  simp only [copyHeap, copyObj, List.getElem?_append_right (Nat.le_refl _), Nat.sub_self, List.getElem?_cons_zero,
    List.getElem?_append_right (Nat.le_refl _), List.getElem?_append_right (Nat.le_succ _)]
  cases hd1 : h.dicts[c.classesRef]? with
  | none => simp [hd1] at hv
  | some cl =>
    cases hd2 : h.dicts[c.handlersRef]? with
    | none => simp [hd1, hd2] at hv
    | some hd =>
      simp only [hd1, hd2, Option.some.injEq] at hv
      subst hv
      simp

/- ---------- property theorems ---------- -/

/-- Frame: serving one validated entry never changes what any existing configuration object —
    the server's, the shared default, anyone's — observes, and the reply is the history-free one. -/
theorem C13_frame_entry {Reply} (mkReply : CfgView → Req → Reply) (mkInvalid : CfgView → PyVal → Reply)
    (h : Heap) (srv : Nat) (sv : CfgView) (r : Req) (hs : view h srv = some sv) :
    ∃ h', serveEntry mkReply h srv r = some (h', specReply mkReply mkInvalid sv (.valid r)) ∧
      ∀ a v, view h a = some v → view h' a = some v := by
  unfold serveEntry specReply
  simp only [hs]
  by_cases hcond : (!r.hasJsonrpc && decide (sv.version ≥ 20)) = true
  · simp only [hcond, ↓reduceIte]
    obtain ⟨c, hca, hspec⟩ := copy_spec h srv sv hs
    rw [hspec]
    simp only
    have hcopyview := view_copy h srv sv hs _ _ hspec
    -- the new object after `version = 1.0`
    have hnew := view_setVersion_self _ h.cfgs.length 10 sv hcopyview
    refine ⟨_, by rw [hnew]; rfl, ?_⟩
    intro a v hav
    have ha : a < h.cfgs.length := by
      obtain ⟨_, hc', _⟩ := view_some_bounds hav
      exact (List.getElem?_eq_some_iff.mp hc').1
    rw [view_setVersion_ne _ a h.cfgs.length 10 (by omega)]
    exact view_append h _ _ a v hav
  · simp only [hcond, Bool.false_eq_true, ↓reduceIte]
    exact ⟨h, by simp, fun _ _ hv => hv⟩

/-- A whole request body (single entry or batch, valid and invalid entries in any order): every reply
    is the history-free reply of its own entry and every existing configuration is unchanged. -/
theorem C13_frame {Reply} (mkReply : CfgView → Req → Reply) (mkInvalid : CfgView → PyVal → Reply)
    (srv : Nat) (sv : CfgView) (body : List Entry) :
    ∀ h, view h srv = some sv →
    ∃ h', serveEntries mkReply mkInvalid srv h body = some (h', body.map (specReply mkReply mkInvalid sv)) ∧
      ∀ a v, view h a = some v → view h' a = some v := by
  induction body with
  | nil => intro h _; exact ⟨h, rfl, fun _ _ hv => hv⟩
  | cons e rest ih =>
    intro h hs
    cases e with
    | valid r =>
      obtain ⟨h1, he, hf1⟩ := C13_frame_entry mkReply mkInvalid h srv sv r hs
      obtain ⟨h2, hr, hf2⟩ := ih h1 (hf1 srv sv hs)
      refine ⟨h2, ?_, fun a v hv => hf2 a v (hf1 a v hv)⟩
      simp [serveEntries, he, hr]
    | invalid p =>
      obtain ⟨h2, hr, hf2⟩ := ih h hs
      refine ⟨h2, ?_, hf2⟩
      simp [serveEntries, hs, hr, specReply]

/-- History freedom: after any finite sequence of request bodies, each reply equals the reply the
    same entry gets from a fresh server with the same configuration, and the server's Config, the
    shared default Config and every other existing configuration observe exactly what they did. -/
theorem C13_history_free {Reply} (mkReply : CfgView → Req → Reply) (mkInvalid : CfgView → PyVal → Reply)
    (srv : Nat) (sv : CfgView) (history : List (List Entry)) :
    ∀ h, view h srv = some sv →
    ∃ h', serveHistory mkReply mkInvalid srv h history =
        some (h', history.map (List.map (specReply mkReply mkInvalid sv))) ∧
      ∀ a v, view h a = some v → view h' a = some v := by
  induction history with
  | nil => intro h _; exact ⟨h, rfl, fun _ _ hv => hv⟩
  | cons body rest ih =>
    intro h hs
    obtain ⟨h1, hb, hf1⟩ := C13_frame mkReply mkInvalid srv sv body h hs
    obtain ⟨h2, hr, hf2⟩ := ih h1 (hf1 srv sv hs)
    refine ⟨h2, ?_, fun a v hv => hf2 a v (hf1 a v hv)⟩
    simp [serveHistory, hb, hr]

/-- The form of a reply: a validated entry without "jsonrpc" is answered from a configuration in
    1.0 form (identical to the server's except for the version); one with it, and every invalid
    entry, from the server's own configuration. -/
theorem C13_form {Reply} (mkReply : CfgView → Req → Reply) (mkInvalid : CfgView → PyVal → Reply)
    (sv : CfgView) (r : Req) (p : PyVal) :
    (r.hasJsonrpc = false →
      ∃ v', specReply mkReply mkInvalid sv (.valid r) = mkReply v' r ∧ formOf v' = 10 ∧
        v' = { sv with version := v'.version }) ∧
    (r.hasJsonrpc = true → specReply mkReply mkInvalid sv (.valid r) = mkReply sv r) ∧
    specReply mkReply mkInvalid sv (.invalid p) = mkInvalid sv p := by
  refine ⟨?_, ?_, rfl⟩
  · intro hj
    by_cases hv : sv.version ≥ 20
    · exact ⟨{ sv with version := 10 }, by simp [specReply, hj, hv], by simp [formOf], rfl⟩
    · exact ⟨sv, by simp [specReply, hj, hv], by simp [formOf, hv], rfl⟩
  · intro hj; simp [specReply, hj]

/-- `Config.copy()`: the copy first observes what the original observes; afterwards any mutation of
    the copy (version, flags, names, classes[k] = c, handlers[t] = h) leaves the original's
    observation untouched, and any mutation of the original leaves the copy's untouched. -/
theorem C13_copy_independent (h : Heap) (a : Nat) (v : CfgView) (hv : view h a = some v)
    (h1 : Heap) (b : Nat) (hc : copyCfg h a = some (h1, b)) (m : Mut) :
    view h1 b = some v ∧ view h1 a = some v ∧
    view (applyMut h1 b m) a = some v ∧ view (applyMut h1 a m) b = some v := by
  have hb := view_copy h a v hv h1 b hc
  obtain ⟨c, hca, hspec⟩ := copy_spec h a v hv
  obtain ⟨_, _, hr1, hr2⟩ := view_some_bounds hv
  have hca' : h.cfgs[a]? = some c := hca
  have ha : a < h.cfgs.length := (List.getElem?_eq_some_iff.mp hca).1
  rw [hspec] at hc
  simp only [Option.some.injEq, Prod.mk.injEq] at hc
  obtain ⟨rfl, rfl⟩ := hc
  have hva : view (copyHeap h c v.classes v.handlers) a = some v := view_append h _ _ a v hv
  have hrefs : c.classesRef < h.dicts.length ∧ c.handlersRef < h.dicts.length := by
    obtain ⟨c', hc', x1, x2⟩ := view_some_bounds hv
    rw [hca] at hc'; cases hc'; exact ⟨x1, x2⟩
  have hnewobj : (copyHeap h c v.classes v.handlers).cfgs[h.cfgs.length]? = some (copyObj h c) := by
    simp [copyHeap]
  have holdobj : (copyHeap h c v.classes v.handlers).cfgs[a]? = some c := by
    simp [copyHeap, List.getElem?_append_left ha, hca]
  refine ⟨hb, hva, ?_, ?_⟩
  · rw [view_applyMut_sep _ a h.cfgs.length m c (copyObj h c) holdobj hnewobj (by omega)
      (by simp [copyObj]; omega) (by simp [copyObj]; omega) (by simp [copyObj]; omega) (by simp [copyObj]; omega)]
    exact hva
  · rw [view_applyMut_sep _ h.cfgs.length a m (copyObj h c) c hnewobj holdobj (by omega)
      (by simp [copyObj]; omega) (by simp [copyObj]; omega) (by simp [copyObj]; omega) (by simp [copyObj]; omega)]
    exact hb

/-- The form of a reply dictionary as the property reads it: 2.0 form iff it has a "jsonrpc" member. -/
def replyForm (d : PyVal) : Nat :=
  match d with
  | .dict kvs => if PyVal.hasKeyStr "jsonrpc" kvs then 20 else 10
  | _ => 0

/-- What the dispatcher actually builds from the per-request configuration — `Payload.response` (a result,
    `jsonrpclib.dump(…, is_response=True, config=config)`) and `Payload.error` (every `Fault(…, config=config).dump()`)
    of JRV.Model.Payload — has exactly the form `formOf` assigns to that configuration: a "jsonrpc" member iff the
    version is at least 2.0.  This is what makes the abstract `mkReply` statements below statements about replies. -/
theorem C13_form_reply (v : CfgView) (rpcid result code message data : PyVal) :
    replyForm (Payload.response v.version rpcid result) = formOf v ∧
    replyForm (Payload.error v.version rpcid code message data) = formOf v := by
  by_cases hv : v.version ≥ 20
  · simp [replyForm, formOf, Payload.response, Payload.error, hv, PyVal.hasKeyStr, PyVal.lookupStr, PyVal.setStr, PyVal.delStr]
  · simp [replyForm, formOf, Payload.response, Payload.error, hv, PyVal.hasKeyStr, PyVal.lookupStr, PyVal.setStr, PyVal.delStr]

/-- The form claim of the property, per kind of entry, for EVERY reply builder that renders with the configuration
    it is handed (hypotheses `hm`, `hi`; `Payload.response`/`Payload.error` do, by `C13_form_reply`):
      * a validated entry without "jsonrpc" is answered in 1.0 form, whatever the server's version;
      * a validated entry with "jsonrpc" in the server's own form;
      * an invalid entry in the server's own form (the reading recorded in DESIGN.md section 5/C13: a request that
        fails validation never reaches the version adaptation — `{"id":4,"method":5}` on a 2.0 server gets a
        2.0-form error; the harness counts these entries in the evidence). -/
theorem C13_form_wire (mkReply : CfgView → Req → PyVal) (mkInvalid : CfgView → PyVal → PyVal)
    (hm : ∀ v r, replyForm (mkReply v r) = formOf v) (hi : ∀ v p, replyForm (mkInvalid v p) = formOf v)
    (sv : CfgView) (r : Req) (p : PyVal) :
    (r.hasJsonrpc = false → replyForm (specReply mkReply mkInvalid sv (.valid r)) = 10) ∧
    (r.hasJsonrpc = true → replyForm (specReply mkReply mkInvalid sv (.valid r)) = formOf sv) ∧
    replyForm (specReply mkReply mkInvalid sv (.invalid p)) = formOf sv := by
  refine ⟨?_, ?_, ?_⟩
  · intro hj
    by_cases hv : sv.version ≥ 20
    · simp [specReply, hj, hv, hm, formOf]
    · simp [specReply, hj, hv, hm, formOf]
  · intro hj; simp [specReply, hj, hm]
  · simp [specReply, hi]

/-- A reply builder that ignores the configuration it is handed and renders with the server's (the edit
    `config=self.json_config` in one Fault of `_marshaled_single_dispatch`) does NOT satisfy `hm`: on a 2.0 server a
    1.0 request would be answered in 2.0 form.  (Shows the hypothesis of `C13_form_wire` is what carries the claim;
    the extractor fact `replyConfigSites` checks it site by site in the source.) -/
theorem C13_form_wire_needs_request_config :
    let sv : CfgView := ⟨20, "ct", "ua", true, "_serialize", "_ignore", [], []⟩
    let bad : CfgView → Req → PyVal := fun _ _ => Payload.error sv.version (.int 1) (.int (-32603)) (.str "x") .none
    replyForm (specReply bad (fun v _ => Payload.error v.version .none (.int (-32600)) (.str "i") .none) sv
      (.valid ⟨false, .none⟩)) = 20 := by
  decide

/- Non-vacuity: a server object and the shared default living in one heap. -/
example :
    let h : Heap := { cfgs := [⟨20, "ct", "ua", true, "_serialize", "_ignore", 0, 1⟩,
                               ⟨20, "ct", "ua", true, "_serialize", "_ignore", 2, 3⟩],
                      dicts := [[], [], [("K", "cls")], []] }
    (serveEntry (fun v (_ : Req) => formOf v) h 1 ⟨false, .none⟩).map (·.2) = some 10 ∧
    (serveEntry (fun v (_ : Req) => formOf v) h 1 ⟨true, .none⟩).map (·.2) = some 20 := by
  decide

/- ---------- concurrent dispatcher threads (JRV.Model.ConfigHeapConc) ---------- -/

private theorem applyMut_setVersion_length (h : Heap) (a n : Nat) :
    (applyMut h a (.setVersion n)).cfgs.length = h.cfgs.length := by
  unfold applyMut
  cases h.cfgs[a]? <;> simp

private theorem view_lt {h : Heap} {a : Nat} {v : CfgView} (hv : view h a = some v) : a < h.cfgs.length := by
  obtain ⟨_, hc, _⟩ := view_some_bounds hv
  exact (List.getElem?_eq_some_iff.mp hc).1

/-- What is known of one thread, by program counter (`n0` = number of configuration objects of the
    initial heap; `sv` = what the server's object observes, initially and — by the invariant — always). -/
private def TInv {Reply} (mkReply : CfgView → Req → Reply) (mkInvalid : CfgView → PyVal → Reply)
    (n0 srv : Nat) (sv : CfgView) (h : Heap) (t : Thread Reply) : Prop :=
  match t.pc with
  | .decide => t.cfgAddr = none
  | .copy => needsCompat sv t.req = true ∧ t.cfgAddr = none
  | .store => needsCompat sv t.req = true ∧ ∃ a, t.cfgAddr = some a ∧ n0 ≤ a ∧ view h a = some sv
  | .reply =>
      (needsCompat sv t.req = true ∧ ∃ a, t.cfgAddr = some a ∧ n0 ≤ a ∧ view h a = some { sv with version := 10 })
      ∨ (needsCompat sv t.req = false ∧ t.cfgAddr = some srv)
  | .done => t.reply = some (specReply mkReply mkInvalid sv (.valid t.req))

/-- The inductive invariant of the interleaved system. -/
private structure CInv {Reply} (mkReply : CfgView → Req → Reply) (mkInvalid : CfgView → PyVal → Reply)
    (h0 : Heap) (srv : Nat) (sv : CfgView) (reqs : List Req) (s : Sys Reply) : Prop where
  /-- every object of the initial heap observes what it observed initially -/
  frame : ∀ a v, view h0 a = some v → view s.heap a = some v
  /-- the heap only grows -/
  size : h0.cfgs.length ≤ s.heap.cfgs.length
  /-- thread `i` still serves request `i` -/
  reqs : s.threads.map (·.req) = reqs
  loc : ∀ (i : Nat) (t : Thread Reply), s.threads[i]? = some t → TInv mkReply mkInvalid h0.cfgs.length srv sv s.heap t
  /-- a thread's `config` is bound to an allocated address -/
  bound : ∀ (i : Nat) (t : Thread Reply) (a : Nat), s.threads[i]? = some t → t.cfgAddr = some a → a < s.heap.cfgs.length
  /-- ownership: two threads are bound to the same address only if it is an initial one (the server's) -/
  distinct : ∀ (i j : Nat) (ti tj : Thread Reply) (a : Nat), i ≠ j → s.threads[i]? = some ti → s.threads[j]? = some tj →
      ti.cfgAddr = some a → tj.cfgAddr = some a → a < h0.cfgs.length

private theorem tinv_mono {Reply} (mkReply : CfgView → Req → Reply) (mkInvalid : CfgView → PyVal → Reply)
    (n0 srv : Nat) (sv : CfgView) (h h' : Heap) (t : Thread Reply)
    (hv : ∀ a v, t.cfgAddr = some a → view h a = some v → view h' a = some v)
    (ht : TInv mkReply mkInvalid n0 srv sv h t) : TInv mkReply mkInvalid n0 srv sv h' t := by
  unfold TInv at ht ⊢
  cases hpc : t.pc <;> simp only [hpc] at ht ⊢
  · exact ht
  · exact ht
  · obtain ⟨hc, a, ha, hn, hva⟩ := ht
    exact ⟨hc, a, ha, hn, hv a _ ha hva⟩
  · rcases ht with ⟨hc, a, ha, hn, hva⟩ | h2
    · exact Or.inl ⟨hc, a, ha, hn, hv a _ ha hva⟩
    · exact Or.inr h2
  · exact ht

private theorem map_req_set {Reply} (ts : List (Thread Reply)) (i : Nat) (t t1 : Thread Reply)
    (hti : ts[i]? = some t) (hreq : t1.req = t.req) : (ts.set i t1).map (·.req) = ts.map (·.req) := by
  apply List.ext_getElem?
  intro j
  simp only [List.getElem?_map, List.getElem?_set]
  by_cases hij : i = j
  · subst hij
    have : i < ts.length := (List.getElem?_eq_some_iff.mp hti).1
    simp only [this, hti, hreq, ↓reduceIte, Option.map_some]
  · simp [hij]

/-- Thread `i` replaces the heap by `h1` and itself by `t1`: what has to be shown. -/
private theorem cinv_update {Reply} (mkReply : CfgView → Req → Reply) (mkInvalid : CfgView → PyVal → Reply)
    (h0 : Heap) (srv : Nat) (sv : CfgView) (reqs : List Req) (s : Sys Reply) (i : Nat) (t t1 : Thread Reply) (h1 : Heap)
    (hinv : CInv mkReply mkInvalid h0 srv sv reqs s)
    (hti : s.threads[i]? = some t)
    (hreq : t1.req = t.req)
    (hlen : s.heap.cfgs.length ≤ h1.cfgs.length)
    (hframe : ∀ a v, (a < h0.cfgs.length ∨ ∃ (j : Nat) (tj : Thread Reply), j ≠ i ∧ s.threads[j]? = some tj ∧ tj.cfgAddr = some a) →
        view s.heap a = some v → view h1 a = some v)
    (hloc1 : TInv mkReply mkInvalid h0.cfgs.length srv sv h1 t1)
    (hbound1 : ∀ a, t1.cfgAddr = some a → a < h1.cfgs.length)
    (hdist1 : ∀ a, t1.cfgAddr = some a → t.cfgAddr = some a ∨ a < h0.cfgs.length ∨ s.heap.cfgs.length ≤ a) :
    CInv mkReply mkInvalid h0 srv sv reqs { heap := h1, threads := s.threads.set i t1 } := by
  have hilt : i < s.threads.length := (List.getElem?_eq_some_iff.mp hti).1
  have hget : ∀ (j : Nat) (tj : Thread Reply), (s.threads.set i t1)[j]? = some tj →
      (j = i ∧ tj = t1) ∨ (j ≠ i ∧ s.threads[j]? = some tj) := by
    intro j tj hj
    rw [List.getElem?_set] at hj
    by_cases hij : i = j
    · subst hij
      simp [hilt] at hj
      exact Or.inl ⟨rfl, hj.symm⟩
    · simp [hij] at hj
      exact Or.inr ⟨fun h => hij h.symm, hj⟩
  refine ⟨?_, ?_, ?_, ?_, ?_, ?_⟩
  · intro a v hav
    exact hframe a v (Or.inl (view_lt hav)) (hinv.frame a v hav)
  · exact Nat.le_trans hinv.size hlen
  · show (s.threads.set i t1).map (·.req) = reqs
    rw [map_req_set _ _ _ _ hti hreq]
    exact hinv.reqs
  · intro j tj hj
    rcases hget j tj hj with ⟨_, rfl⟩ | ⟨hne, hj'⟩
    · exact hloc1
    · exact tinv_mono mkReply mkInvalid _ srv sv s.heap h1 tj
        (fun a v ha hva => hframe a v (Or.inr ⟨j, tj, hne, hj', ha⟩) hva) (hinv.loc j tj hj')
  · intro j tj a hj ha
    rcases hget j tj hj with ⟨_, rfl⟩ | ⟨hne, hj'⟩
    · exact hbound1 a ha
    · exact Nat.lt_of_lt_of_le (hinv.bound j tj a hj' ha) hlen
  · intro j k tj tk a hjk hj hk haj hak
    rcases hget j tj hj with ⟨hji, htj⟩ | ⟨hnej, hj'⟩ <;> rcases hget k tk hk with ⟨hki, htk⟩ | ⟨hnek, hk'⟩
    · exact absurd (hji.trans hki.symm) hjk
    · subst htj
      rcases hdist1 a haj with h | h | h
      · exact hinv.distinct i k t tk a (fun e => hnek e.symm) hti hk' h hak
      · exact h
      · exact absurd (hinv.bound k tk a hk' hak) (by omega)
    · subst htk
      rcases hdist1 a hak with h | h | h
      · exact hinv.distinct i j t tj a (fun e => hnej e.symm) hti hj' h haj
      · exact h
      · exact absurd (hinv.bound j tj a hj' haj) (by omega)
    · exact hinv.distinct j k tj tk a hjk hj' hk' haj hak

private theorem cinv_init {Reply} (mkReply : CfgView → Req → Reply) (mkInvalid : CfgView → PyVal → Reply)
    (h0 : Heap) (srv : Nat) (sv : CfgView) (reqs : List Req) :
    CInv mkReply mkInvalid h0 srv sv reqs (initSys h0 reqs) := by
  have hget : ∀ (i : Nat) (t : Thread Reply), (initSys (Reply := Reply) h0 reqs).threads[i]? = some t →
      t.pc = .decide ∧ t.cfgAddr = none := by
    intro i t hi
    simp only [initSys, List.getElem?_map] at hi
    cases hr : reqs[i]? with
    | none => simp [hr] at hi
    | some r => simp [hr] at hi; subst hi; exact ⟨rfl, rfl⟩
  refine ⟨fun _ _ hv => hv, Nat.le_refl _, ?_, ?_, ?_, ?_⟩
  · simp [initSys, List.map_map, Function.comp_def]
  · intro i t hi
    obtain ⟨hpc, hca⟩ := hget i t hi
    simp only [TInv, hpc]
    exact hca
  · intro i t a hi ha
    rw [(hget i t hi).2] at ha
    cases ha
  · intro i j ti tj a _ hi _ ha _
    rw [(hget i ti hi).2] at ha
    cases ha

private theorem cinv_step {Reply} (mkReply : CfgView → Req → Reply) (mkInvalid : CfgView → PyVal → Reply)
    (h0 : Heap) (srv : Nat) (sv : CfgView) (reqs : List Req) (hs0 : view h0 srv = some sv)
    (s s1 : Sys Reply) (i : Nat)
    (hinv : CInv mkReply mkInvalid h0 srv sv reqs s) (hstep : step mkReply srv s i = some s1) :
    CInv mkReply mkInvalid h0 srv sv reqs s1 := by
  unfold step stepG at hstep
  cases hti : s.threads[i]? with
  | none => simp [hti] at hstep
  | some t =>
    simp only [hti] at hstep
    have hsrv : view s.heap srv = some sv := hinv.frame srv sv hs0
    have hsrvlt : srv < h0.cfgs.length := view_lt hs0
    have hloc := hinv.loc i t hti
    have hsize := hinv.size
    unfold TInv at hloc
    unfold stepThreadG at hstep
    cases hpc : t.pc with
    | decide =>
      simp only [hpc, hsrv] at hstep hloc
      by_cases hc : needsCompat sv t.req = true
      · simp only [hc, ↓reduceIte, Option.some.injEq] at hstep
        subst hstep
        refine cinv_update mkReply mkInvalid h0 srv sv reqs s i t _ s.heap hinv hti rfl (Nat.le_refl _)
          (fun _ _ _ hv => hv) ?_ ?_ ?_
        · simp only [TInv]; exact ⟨hc, hloc⟩
        · intro a ha; simp only [hloc] at ha; cases ha
        · intro a ha; exact Or.inl ha
      · simp only [hc, Bool.false_eq_true, ↓reduceIte, Option.some.injEq] at hstep
        subst hstep
        refine cinv_update mkReply mkInvalid h0 srv sv reqs s i t _ s.heap hinv hti rfl (Nat.le_refl _)
          (fun _ _ _ hv => hv) ?_ ?_ ?_
        · simp only [TInv]; exact Or.inr ⟨by simpa using hc, trivial⟩
        · intro a ha
          simp only [Option.some.injEq] at ha
          omega
        · intro a ha
          simp only [Option.some.injEq] at ha
          exact Or.inr (Or.inl (by omega))
    | copy =>
      simp only [hpc] at hstep hloc
      obtain ⟨c, hca, hspec⟩ := copy_spec s.heap srv sv hsrv
      have hcv := view_copy s.heap srv sv hsrv _ _ hspec
      rw [hspec] at hstep
      simp only [Option.some.injEq] at hstep
      subst hstep
      refine cinv_update mkReply mkInvalid h0 srv sv reqs s i t _ _ hinv hti rfl ?_ ?_ ?_ ?_ ?_
      · simp [copyHeap]
      · intro a v _ hv
        exact view_append s.heap _ _ a v hv
      · simp only [TInv]
        exact ⟨hloc.1, _, rfl, hsize, hcv⟩
      · intro a ha
        simp only [Option.some.injEq] at ha
        subst ha
        simp [copyHeap]
      · intro a ha
        simp only [Option.some.injEq] at ha
        exact Or.inr (Or.inr (by omega))
    | store =>
      simp only [hpc] at hstep hloc
      obtain ⟨hc, a, hca, hn, hva⟩ := hloc
      simp only [hca, Option.some.injEq] at hstep
      subst hstep
      refine cinv_update mkReply mkInvalid h0 srv sv reqs s i t _ _ hinv hti rfl ?_ ?_ ?_ ?_ ?_
      · rw [applyMut_setVersion_length]; exact Nat.le_refl _
      · intro a' v hown hv
        have hne : a' ≠ a := by
          rcases hown with hlt | ⟨j, tj, hji, hj, hja⟩
          · omega
          · intro e
            subst e
            have := hinv.distinct j i tj t a' hji hj hti hja hca
            omega
        rw [view_setVersion_ne _ a' a 10 hne]
        exact hv
      · simp only [TInv]
        exact Or.inl ⟨hc, a, rfl, hn, view_setVersion_self _ a 10 sv hva⟩
      · intro a' ha'
        rw [applyMut_setVersion_length]
        exact hinv.bound i t a' hti (hca.trans ha')
      · intro a' ha'
        exact Or.inl (hca.trans ha')
    | reply =>
      simp only [hpc] at hstep hloc
      rcases hloc with ⟨hc, a, hca, hn, hva⟩ | ⟨hc, hca⟩
      · simp only [hca, hva, Option.some.injEq] at hstep
        subst hstep
        refine cinv_update mkReply mkInvalid h0 srv sv reqs s i t _ s.heap hinv hti rfl (Nat.le_refl _)
          (fun _ _ _ hv => hv) ?_ ?_ ?_
        · simp only [TInv, specReply]
          simp only [needsCompat] at hc
          simp [hc]
        · intro a' ha'; exact hinv.bound i t a' hti (hca.trans ha')
        · intro a' ha'; exact Or.inl (hca.trans ha')
      · simp only [hca, hsrv, Option.some.injEq] at hstep
        subst hstep
        refine cinv_update mkReply mkInvalid h0 srv sv reqs s i t _ s.heap hinv hti rfl (Nat.le_refl _)
          (fun _ _ _ hv => hv) ?_ ?_ ?_
        · simp only [TInv, specReply]
          simp only [needsCompat] at hc
          simp [hc]
        · intro a' ha'; exact hinv.bound i t a' hti (hca.trans ha')
        · intro a' ha'; exact Or.inl (hca.trans ha')
    | done =>
      simp only [hpc] at hstep
      cases hstep

private theorem cinv_reach {Reply} (mkReply : CfgView → Req → Reply) (mkInvalid : CfgView → PyVal → Reply)
    (h0 : Heap) (srv : Nat) (sv : CfgView) (reqs : List Req) (hs0 : view h0 srv = some sv)
    (s : Sys Reply) (hr : Reach mkReply srv (initSys h0 reqs) s) :
    CInv mkReply mkInvalid h0 srv sv reqs s := by
  induction hr with
  | init => exact cinv_init mkReply mkInvalid h0 srv sv reqs
  | step i _ hstep ih => exact cinv_step mkReply mkInvalid h0 srv sv reqs hs0 _ _ i ih hstep

private theorem reach_of_run {Reply} (mkReply : CfgView → Req → Reply) (srv : Nat) (s0 : Sys Reply) (sched : List Nat) :
    ∀ s s1, Reach mkReply srv s0 s → run mkReply srv s sched = some s1 → Reach mkReply srv s0 s1 := by
  induction sched with
  | nil =>
    intro s s1 hr hrun
    simp only [run, runG, Option.some.injEq] at hrun
    subst hrun; exact hr
  | cons i rest ih =>
    intro s s1 hr hrun
    simp only [run, runG] at hrun
    cases hst : stepG copyCfg mkReply srv s i with
    | none => simp [hst] at hrun
    | some s2 =>
      simp only [hst] at hrun
      exact ih s2 s1 (Reach.step i hr hst) hrun

/-- **Concurrent serving.**  Any number of dispatcher threads serve any requests on one server object;
    their atomic steps (read-and-decide, `copy()`, `config.version = 1.0`, build the reply from `config`)
    are interleaved arbitrarily.  In every reachable state
    (a) every configuration object of the initial heap — the server's, the shared default, anyone's —
        observes exactly what it observed initially, and
    (b) thread `i` still serves request `i`, and once it has finished it holds exactly the reply that
        the sequential, history-free specification (`specReply`, as in `C13_history_free`) gives to its
        own request: no interleaving is distinguishable from serving the requests one by one. -/
theorem C13_concurrent {Reply} (mkReply : CfgView → Req → Reply) (mkInvalid : CfgView → PyVal → Reply)
    (h0 : Heap) (srv : Nat) (sv : CfgView) (reqs : List Req) (hs0 : view h0 srv = some sv)
    (s : Sys Reply) (hr : Reach mkReply srv (initSys h0 reqs) s) :
    (∀ a v, view h0 a = some v → view s.heap a = some v) ∧
    (∀ (i : Nat) (t : Thread Reply), s.threads[i]? = some t →
      reqs[i]? = some t.req ∧
      (t.pc = .done → t.reply = some (specReply mkReply mkInvalid sv (.valid t.req)))) := by
  have hinv := cinv_reach mkReply mkInvalid h0 srv sv reqs hs0 s hr
  refine ⟨hinv.frame, ?_⟩
  intro i t hti
  refine ⟨?_, ?_⟩
  · rw [← hinv.reqs, List.getElem?_map, hti]; rfl
  · intro hpc
    have := hinv.loc i t hti
    simpa only [TInv, hpc] using this

/-- The same for schedules: whatever sequence of thread indices is executed from the initial state. -/
theorem C13_concurrent_schedule {Reply} (mkReply : CfgView → Req → Reply) (mkInvalid : CfgView → PyVal → Reply)
    (h0 : Heap) (srv : Nat) (sv : CfgView) (reqs : List Req) (hs0 : view h0 srv = some sv)
    (sched : List Nat) (s : Sys Reply) (hrun : run mkReply srv (initSys h0 reqs) sched = some s) :
    (∀ a v, view h0 a = some v → view s.heap a = some v) ∧
    (∀ (i : Nat) (t : Thread Reply), s.threads[i]? = some t →
      reqs[i]? = some t.req ∧
      (t.pc = .done → t.reply = some (specReply mkReply mkInvalid sv (.valid t.req)))) :=
  C13_concurrent mkReply mkInvalid h0 srv sv reqs hs0 s
    (reach_of_run mkReply srv _ sched _ _ Reach.init hrun)

/-- No statement of a dispatcher thread can fail under any interleaving (no dangling `config`), so
    every unfinished thread can always take its next step: part (b) of `C13_concurrent` is not vacuous. -/
theorem C13_concurrent_progress {Reply} (mkReply : CfgView → Req → Reply)
    (h0 : Heap) (srv : Nat) (sv : CfgView) (reqs : List Req) (hs0 : view h0 srv = some sv)
    (s : Sys Reply) (hr : Reach mkReply srv (initSys h0 reqs) s)
    (i : Nat) (t : Thread Reply) (hti : s.threads[i]? = some t) (hpc : t.pc ≠ .done) :
    ∃ s1, step mkReply srv s i = some s1 := by
  have hinv := cinv_reach mkReply (fun _ _ => mkReply sv t.req) h0 srv sv reqs hs0 s hr
  have hsrv : view s.heap srv = some sv := hinv.frame srv sv hs0
  have hloc := hinv.loc i t hti
  unfold TInv at hloc
  unfold step stepG stepThreadG
  simp only [hti]
  cases hp : t.pc with
  | decide =>
    simp only [hp, hsrv]
    by_cases hc : needsCompat sv t.req = true
    · simp only [hc, ↓reduceIte]; exact ⟨_, rfl⟩
    · simp only [hc, Bool.false_eq_true, ↓reduceIte]; exact ⟨_, rfl⟩
  | copy =>
    obtain ⟨c, _, hspec⟩ := copy_spec s.heap srv sv hsrv
    simp only [hp, hspec]
    exact ⟨_, rfl⟩
  | store =>
    simp only [hp] at hloc ⊢
    obtain ⟨_, a, hca, _, _⟩ := hloc
    simp only [hca]
    exact ⟨_, rfl⟩
  | reply =>
    simp only [hp] at hloc ⊢
    rcases hloc with ⟨_, a, hca, _, hva⟩ | ⟨_, hca⟩
    · simp only [hca, hva]; exact ⟨_, rfl⟩
    · simp only [hca, hsrv]; exact ⟨_, rfl⟩
  | done => exact absurd hp hpc

/-- The witness heap of the concurrent examples: the server's object at address 0 (version 2.0) and the
    shared default at address 1, each with its own two dictionaries. -/
def c13ConcHeap : Heap :=
  { cfgs := [⟨20, "ct", "ua", true, "_serialize", "_ignore", 0, 1⟩,
             ⟨20, "ct", "ua", true, "_serialize", "_ignore", 2, 3⟩],
    dicts := [[("K", "cls")], [], [], []] }

/-- Thread 0 serves a request without "jsonrpc" (needs the 1.0 adaptation), thread 1 one with it. -/
def c13ConcReqs : List Req := [⟨false, .none⟩, ⟨true, .none⟩]

/- Non-vacuity of `C13_concurrent` (two threads, replies = form of the per-request configuration).
   Schedule: t0 decides, t0 copies (address 2), t1 decides, **t1 replies between t0's copy and t0's store**,
   t0 stores, t0 replies.  Both finish; replies are 1.0 / 2.0 form; server and default still observe 2.0;
   the copy (address 2) observes 1.0. -/
example :
    let r := run (fun v (_ : Req) => formOf v) 0 (initSys c13ConcHeap c13ConcReqs) [0, 0, 1, 1, 0, 0]
    r.map (fun s => s.threads.map (fun t => (t.pc, t.cfgAddr, t.reply)))
      = some [(.done, some 2, some 10), (.done, some 0, some 20)] ∧
    r.map (fun s => [0, 1, 2].map (fun a => (view s.heap a).map (·.version))) = some [some 20, some 20, some 10] := by
  decide

/- Two threads that both need the adaptation, the second thread's copy allocated between the first
   thread's copy and store: each owns its own copy (addresses 2 and 3), both reply in 1.0 form, the
   server's object still observes 2.0 with its class table. -/
example :
    let r := run (fun v (_ : Req) => formOf v) 0 (initSys c13ConcHeap [⟨false, .none⟩, ⟨false, .int 1⟩])
      [0, 1, 0, 1, 0, 1, 1, 0]
    r.map (fun s => s.threads.map (fun t => (t.pc, t.cfgAddr, t.reply)))
      = some [(.done, some 2, some 10), (.done, some 3, some 10)] ∧
    r.map (fun s => [0, 1, 2, 3].map (fun a => (view s.heap a).map (·.version)))
      = some [some 20, some 20, some 10, some 10] ∧
    r.map (fun s => (view s.heap 0).map (·.classes.length)) = some (some 1) := by
  decide

/- A finished thread cannot be scheduled again; an index outside the thread list cannot be scheduled. -/
example : (run (fun v (_ : Req) => formOf v) 0 (initSys c13ConcHeap c13ConcReqs) [1, 1, 1]).isNone = true := by decide
example : (run (fun v (_ : Req) => formOf v) 0 (initSys c13ConcHeap c13ConcReqs) [2]).isNone = true := by decide

/-- **Negative companion: the copy is what makes `C13_concurrent` true.**  In the variant whose step
    `copy` does not copy (`config = self.json_config; config.version = 1.0`, model `aliasCfg`), there is
    a two-thread schedule after which (a) fails — the server's own object observes version 1.0 instead
    of 2.0 — and (b) fails — the thread serving a request *with* "jsonrpc" has finished with the 1.0-form
    reply instead of the sequential 2.0-form one.  (A theorem about the variant, not about the code.) -/
theorem C13_concurrent_needs_copy :
    ∃ (sched : List Nat) (s : Sys Nat),
      runNoCopy (fun v (_ : Req) => formOf v) 0 (initSys c13ConcHeap c13ConcReqs) sched = some s ∧
      (view c13ConcHeap 0).map (·.version) = some 20 ∧
      (view s.heap 0).map (·.version) = some 10 ∧
      (∃ t, s.threads[1]? = some t ∧ t.pc = .done ∧ t.req.hasJsonrpc = true ∧ t.reply = some 10 ∧
        ∀ sv, view c13ConcHeap 0 = some sv →
          specReply (fun v (_ : Req) => formOf v) (fun _ _ => 0) sv (.valid t.req) = 20) := by
  refine ⟨[0, 0, 0, 1, 1], _, rfl, by decide, by decide, _, rfl, by decide, by decide, by decide, ?_⟩
  intro sv hsv
  have : sv.version = 20 := by
    have h := congrArg (Option.map (·.version)) hsv
    simpa using h.symm.trans (by decide : (view c13ConcHeap 0).map (·.version) = some 20)
  simp [specReply, formOf, this]

end JRV.Props
