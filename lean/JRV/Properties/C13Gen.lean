/-
  C13 — companion theorems of the facts extracted by tools/extractors/footprint.py.
  Built and audited separately from JRV.Properties.C13: a source edit that changes one of these facts fails this
  module only, the property theorems stay discharged.
-/
import JRV.Model.ConfigHeap
import JRV.Generated

namespace JRV.Props
open JRV JRV.CH

/-- Tie to the source: nothing reachable from `_marshaled_dispatch`, `do_POST` or `handle_jsonrpc` writes to shared
    state (receivers rooted at the dispatcher/server, module globals, parameters fed from them at some call site,
    `setattr`, `global`, caching decorators) — the model's `serveEntry` allocates and writes only the copy. -/
theorem C13_gen_sharedWrites : Generated.servePathSharedWrites = some [] := by decide

/-- The only configuration store on the serve path directly follows, in the same block, the binding of its receiver
    to a `.copy()` result (`applyMut h1 a (.setVersion 10)` on the address `copyCfg` returned). -/
theorem C13_gen_versionStoreOnCopy : Generated.versionStoreOnCopy = some true := by decide

/-- `Config.copy()` gives the copy new `classes` and `serialize_handlers` dictionaries (`copyObj`: fresh references). -/
theorem C13_gen_copyDuplicates : Generated.configCopyDuplicates = some (true, true) := by decide

/-- Every `Fault(…)`/`jsonrpclib.dump(…)` call of the dispatcher is handed the configuration the model renders it
    with: the per-request one on the path of a validated entry, the server's for body-level and validation faults. -/
theorem C13_gen_replyConfigSites : Generated.replyConfigSites = some replySites := by decide

/-- Every server class that is constructed with a configuration keeps THAT object in `self.json_config` — directly or through
    the base constructor it forwards it to (positional or keyword): the "server configuration" of the model is the one the
    caller configured, for the dispatcher, the CGI handler, the socket server and the pooled server alike
    (tools/extractors/jsonclass3.py `config_sinks`; the classes of jsonrpc.py are C08's). -/
theorem C13_gen_configSinks :
    Generated.configSinks.map (fun sinks => (sinks.filter (fun s => s.1 == "SimpleJSONRPCServer")).map (fun s => s.2))
      = some serverConfigSinks := by decide

end JRV.Props
