/-
  C14 — The message construction API emits exactly the members each version requires.

  Model: JRV.Model.Payload (Payload.request/notify/response/error, dump, dumps, load, loads, Fault),
  JRV.Model.Backend (abstract JSON codec with its laws as hypotheses).
  Versions are in tenths: 20 = 2.0, 10 = 1.0.  `fresh` is the id `uuid4` would generate;
  `conv` stands for `jsonclass.dump` and is arbitrary in every theorem.
-/
import JRV.Model.Payload
import JRV.Generated

set_option linter.unusedSimpArgs false

namespace JRV.Props
open JRV JRV.PyVal JRV.Payload

private theorem verStr_20 : verStr 20 = "2.0" := by decide

private theorem request_dict (ver : Nat) (rpcid : PyVal) (fresh m : String) (p : PyVal) :
    ∃ kvs, request ver rpcid fresh (.str m) p = .ok (.dict kvs) := by
  simp [request, isStr, pure, Except.pure]

/-- `params` is something `dump` accepts with a method name: list, tuple or dict. -/
def containerParams (p : PyVal) : Bool := p.isList || p.isTuple || p.isDict

/-- The id a request carries: the caller's id verbatim when it is a non-empty string or any
    number (0 and 0.0 included); a fresh one when it is `None` or `""`. -/
theorem C14_id_verbatim (rpcid : PyVal) (fresh : String) :
    ((rpcid.isNumeric = true ∨ (∃ s, rpcid = .str s ∧ s ≠ "")) → chooseId rpcid fresh = rpcid) ∧
    ((rpcid = .none ∨ rpcid = .str "") → chooseId rpcid fresh = .str fresh) := by
  constructor
  · rintro (h | ⟨s, rfl, hs⟩)
    · cases rpcid <;> simp_all [chooseId, isNumeric]
    · simp [chooseId, hs]
  · rintro (rfl | rfl) <;> simp [chooseId]

/-- Two calls that generate their id get different ids whenever the generator yields different values. -/
theorem C14_id_fresh_distinct (f₁ f₂ : String) (h : f₁ ≠ f₂) :
    chooseId .none f₁ ≠ chooseId .none f₂ := by
  simp [chooseId, h]

/-- A 2.0 request: exactly `id`, `method`, `params` only when non-empty, `jsonrpc: "2.0"`. -/
theorem C14_request_2 (rpcid : PyVal) (fresh : String) (m : String) (params : PyVal) :
    request 20 rpcid fresh (.str m) params = .ok (.dict (
      [(.str "id", chooseId rpcid fresh), (.str "method", .str m)] ++
      (if params.truthy then [(.str "params", params)] else []) ++
      [(.str "jsonrpc", .str "2.0")])) := by
  cases h : params.truthy <;> simp [request, isStr, h, verStr_20, pure, Except.pure]

/-- A 1.0 request: always `params` (an empty list when none were given), never `jsonrpc`. -/
theorem C14_request_1 (rpcid : PyVal) (fresh : String) (m : String) (params : PyVal) :
    request 10 rpcid fresh (.str m) params = .ok (.dict
      [(.str "id", chooseId rpcid fresh), (.str "method", .str m),
       (.str "params", if params.truthy then params else .list [])]) := by
  cases h : params.truthy <;> simp [request, isStr, h, pure, Except.pure]

/-- A 2.0 notification has no `id` member at all. -/
theorem C14_notify_2 (rpcid : PyVal) (fresh : String) (m : String) (params : PyVal) :
    notify 20 rpcid fresh (.str m) params = .ok (.dict (
      [(.str "method", .str m)] ++
      (if params.truthy then [(.str "params", params)] else []) ++
      [(.str "jsonrpc", .str "2.0")])) := by
  cases h : params.truthy <;>
    simp [notify, C14_request_2, h, bind, Except.bind, pure, Except.pure, delStr]

/-- A 1.0 notification has `id: null`. -/
theorem C14_notify_1 (rpcid : PyVal) (fresh : String) (m : String) (params : PyVal) :
    notify 10 rpcid fresh (.str m) params = .ok (.dict
      [(.str "id", .none), (.str "method", .str m),
       (.str "params", if params.truthy then params else .list [])]) := by
  simp [notify, C14_request_1, bind, Except.bind, pure, Except.pure, setStr]

/-- Result responses: 2.0 has `result`, `id`, `jsonrpc`; 1.0 has `result`, `id`, `error: null`. -/
theorem C14_response (rpcid result : PyVal) :
    response 20 rpcid result = .dict [(.str "result", result), (.str "id", rpcid), (.str "jsonrpc", .str "2.0")] ∧
    response 10 rpcid result = .dict [(.str "result", result), (.str "id", rpcid), (.str "error", .none)] := by
  constructor <;> simp [response, verStr_20]

/-- Error responses carry the Fault's code and message, and `data` exactly when it is not `None`;
    2.0 drops `result`, 1.0 keeps `result: null`. -/
theorem C14_error (rpcid code message data : PyVal) :
    let errObj := PyVal.dict ([(.str "code", code), (.str "message", message)] ++ dataEntry data)
    error 20 rpcid code message data =
        .dict [(.str "id", rpcid), (.str "jsonrpc", .str "2.0"), (.str "error", errObj)] ∧
    error 10 rpcid code message data =
        .dict [(.str "result", .none), (.str "id", rpcid), (.str "error", errObj)] := by
  constructor <;> simp [error, response, verStr_20, delStr, setStr]

/-- `data` is a member of the error object exactly when it is not `None`. -/
theorem C14_error_data (data : PyVal) :
    (data = .none → dataEntry data = []) ∧ (data ≠ .none → dataEntry data = [(.str "data", data)]) := by
  constructor
  · rintro rfl; rfl
  · intro h; cases data <;> simp_all [dataEntry]

/-- `dump` with a Fault ignores method name and flags and emits the error response. -/
theorem C14_dump_fault (cfg : Config) (conv : PyVal → PyM PyVal) (fresh : String)
    (code message data methodname rpcid : PyVal) (version : VerArg) (isResponse isNotify : Bool) :
    dump cfg conv fresh (.fault code message data) methodname rpcid version isResponse isNotify =
      .ok (error (resolveVersion cfg version) rpcid code message data) := by
  simp [dump, validParams, bind, Except.bind, pure, Except.pure]

/-- `dump` of a request / notification with container params goes through the converter and then
    `Payload.request` / `Payload.notify`; `None` params count as `[]`. -/
theorem C14_dump_request (cfg : Config) (conv : PyVal → PyM PyVal) (fresh : String)
    (p p' : PyVal) (m : String) (rpcid : PyVal) (version : VerArg) (isNotify : Bool)
    (hp : containerParams p = true) (hc : (if cfg.useJsonclass then conv p else pure p) = .ok p') :
    dump cfg conv fresh (.val p) (.str m) rpcid version false isNotify =
      (if isNotify then notify (resolveVersion cfg version) rpcid fresh (.str m) p'
       else request (resolveVersion cfg version) rpcid fresh (.str m) p') := by
  unfold dump
  by_cases hu : cfg.useJsonclass = true
  · simp only [hu, ↓reduceIte] at hc
    cases p <;>
      simp_all [containerParams, validParams, isList, isTuple, isDict, isStr, bind, Except.bind, pure, Except.pure]
  · simp only [hu] at hc
    cases p <;>
      simp_all [containerParams, validParams, isList, isTuple, isDict, isStr, bind, Except.bind, pure, Except.pure]

/-- Invalid argument combinations raise instead of emitting a message. -/
theorem C14_reject (cfg : Config) (conv : PyVal → PyM PyVal) (fresh : String)
    (p methodname rpcid : PyVal) (version : VerArg) (isResponse isNotify : Bool) :
    -- a method name with params that are neither list, tuple, dict (nor None for a response)
    (methodname.isStr = true → validParams isResponse (.val p) = false → p ≠ .none →
      ∃ e, dump cfg conv fresh (.val p) methodname rpcid version isResponse isNotify = .error e ∧ e.cls = "TypeError") ∧
    -- neither a request (no string method name) nor a response
    (methodname.isStr = false → isResponse = false →
      ∃ e, dump cfg conv fresh (.val p) methodname rpcid version isResponse isNotify = .error e ∧ e.cls = "ValueError") ∧
    -- a response without an id
    (methodname.isStr = false → isResponse = true → rpcid = .none →
      (if cfg.useJsonclass then conv p else pure p).isOk = true →
      ∃ e, dump cfg conv fresh (.val p) methodname rpcid version isResponse isNotify = .error e ∧ e.cls = "ValueError") := by
  refine ⟨?_, ?_, ?_⟩
  · intro hm hv hn
    refine ⟨⟨"TypeError", .str "Params must be a dict, list, tuple or Fault instance."⟩, ?_, rfl⟩
    unfold dump
    cases p <;> simp_all [bind, Except.bind, raise]
  · intro hm hr
    subst hr
    refine ⟨⟨"ValueError", .str "Method name must be a string, or is_response must be set to True."⟩, ?_, rfl⟩
    unfold dump
    cases p <;> simp_all [bind, Except.bind, raise, pure, Except.pure]
  · intro hm hr hid hc
    subst hr hid
    refine ⟨⟨"ValueError", .str "A method response must have an rpcid."⟩, ?_, rfl⟩
    unfold dump
    cases hcv : (if cfg.useJsonclass then conv p else pure p) with
    | error e => simp [hcv, Except.isOk, Except.toBool] at hc
    | ok p' =>
      by_cases hu : cfg.useJsonclass = true
      · simp only [hu, ↓reduceIte] at hcv
        cases p <;> simp_all [bind, Except.bind, raise, pure, Except.pure]
      · simp only [hu] at hcv
        cases p <;> simp_all [bind, Except.bind, raise, pure, Except.pure]

/-- … and the complement: a string method name with container params whose conversion succeeds is
    accepted (so the rejection theorem is not vacuous), as is a response with an id. -/
theorem C14_accepts (cfg : Config) (conv : PyVal → PyM PyVal) (fresh : String)
    (p p' : PyVal) (m : String) (rpcid : PyVal) (version : VerArg) (isNotify : Bool)
    (hp : containerParams p = true) (hc : (if cfg.useJsonclass then conv p else pure p) = .ok p') :
    (dump cfg conv fresh (.val p) (.str m) rpcid version false isNotify).isOk = true := by
  rw [C14_dump_request cfg conv fresh p p' m rpcid version isNotify hp hc]
  obtain ⟨kvs, hk⟩ := request_dict (resolveVersion cfg version) rpcid fresh m p'
  cases isNotify
  · simp [hk, Except.isOk, Except.toBool]
  · simp only [notify, hk, bind, Except.bind, ↓reduceIte]
    split <;> simp [Except.isOk, Except.toBool, pure, Except.pure]

theorem C14_dump_response (cfg : Config) (conv : PyVal → PyM PyVal) (fresh : String)
    (p p' methodname rpcid : PyVal) (version : VerArg) (isNotify : Bool)
    (hm : methodname.isStr = false) (hid : rpcid ≠ .none)
    (hc : (if cfg.useJsonclass then conv p else pure p) = .ok p') :
    dump cfg conv fresh (.val p) methodname rpcid version true isNotify =
      .ok (response (resolveVersion cfg version) rpcid p') := by
  unfold dump
  by_cases hu : cfg.useJsonclass = true
  · simp only [hu, ↓reduceIte] at hc
    cases p <;> cases rpcid <;> simp_all [bind, Except.bind, pure, Except.pure]
  · simp only [hu] at hc
    cases p <;> cases rpcid <;> simp_all [bind, Except.bind, pure, Except.pure]

/-- The version argument: `None` (or 0) takes the configuration's version, `1.0`/`2.0` and the
    strings `"1.0"`/`"2.0"` select that version. -/
theorem C14_version_args (cfg : Config) :
    resolveVersion cfg .none = cfg.version ∧
    resolveVersion cfg (.num 10) = 10 ∧ resolveVersion cfg (.num 20) = 20 ∧
    resolveVersion cfg (.str 10) = 10 ∧ resolveVersion cfg (.str 20) = 20 := by
  simp [resolveVersion]

/-- `loads("")` is `None`. -/
theorem C14_loads_empty (B : Backend) (cfg : Config) (unconv : PyVal → PyM PyVal) :
    loads B cfg unconv "" = .ok .none := by
  simp [loads, pure, Except.pure]

/-- `loads(dumps(x))` returns the emitted structure up to JSON normalisation, for every backend
    satisfying the codec law (class translation off, so that `load` is the identity). -/
theorem C14_roundtrip (B : Backend) (cfg : Config) (conv unconv : PyVal → PyM PyVal) (fresh : String)
    (params : Params) (methodname rpcid : PyVal) (version : VerArg) (isResponse isNotify : Bool)
    (d : PyVal) (hoff : cfg.useJsonclass = false)
    (hd : dump cfg conv fresh params methodname rpcid version isResponse isNotify = .ok d)
    (hwf : d.wfJson = true) (hdict : d.isDict = true) :
    ∃ s, dumps B cfg conv fresh params methodname rpcid version isResponse isNotify = .ok s ∧
      loads B cfg unconv s = .ok d.normalise := by
  obtain ⟨s, hr, hne, hp⟩ := B.roundtrip d hwf
  refine ⟨s, ?_, ?_⟩
  · simp [dumps, hd, hr, bind, Except.bind]
  · have : (s == "") = false := by simpa using hne
    cases d <;> simp_all [loads, load, normalise, isDict, pure, Except.pure]

/-- Tie to the source: the thresholds `< 1.1` and `>= 2` and the id test of `Payload.request`. -/
theorem C14_gen_thresholds :
    Generated.payloadThresholds = some (11, 20) := by decide

theorem C14_gen_idTest :
    Generated.payloadIdTest = some "none-or-empty-string" := by decide

/- Non-vacuity -/
example : containerParams (.list [.int 1]) = true := by decide
example : dump {} (fun v => pure v) "f" (.val (.tuple [.int 1, .str "a"])) (.str "m") (.int 0) .none false false
    = .ok (.dict [(.str "id", .int 0), (.str "method", .str "m"), (.str "params", .tuple [.int 1, .str "a"]),
                  (.str "jsonrpc", .str "2.0")]) := by decide +kernel
example : (dump {} (fun v => pure v) "f" (.val (.int 5)) (.str "m") .none .none false false).isOk = false := by
  decide +kernel

end JRV.Props
