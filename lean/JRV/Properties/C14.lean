/-
  C14 — The message construction API emits exactly the members each version requires.

  Model: JRV.Model.Payload (Payload.request/notify/response/error, dump, dumps, load, loads, Fault),
  JRV.Model.Backend (abstract JSON codec with its laws as hypotheses).
  Versions are in tenths: 20 = 2.0, 10 = 1.0.  `fresh` is the id `uuid4` would generate;
  `conv` stands for `jsonclass.dump` and is arbitrary in every theorem.

  Companion theorems of the extracted facts (`C14_gen_*`) live in JRV/Properties/C14Gen.lean.
-/
import JRV.Model.Payload

set_option linter.unusedSimpArgs false

namespace JRV.Props
open JRV JRV.PyVal JRV.Payload

private theorem verStr_20 : verStr 20 = "2.0" := by decide

private theorem request_dict (ver : Nat) (rpcid : PyVal) (fresh m : String) (p : PyVal) :
    ∃ kvs, request ver rpcid fresh (.str m) p = .ok (.dict kvs) := by
  simp [request, isStr, pure, Except.pure]

private theorem request_ok_dict (ver : Nat) (rpcid : PyVal) (fresh : String) (m p : PyVal) (d : PyVal)
    (h : request ver rpcid fresh m p = .ok d) : d.isDict = true := by
  unfold request at h
  split at h
  · simp [raise] at h
  · simp only [pure, Except.pure, Except.ok.injEq] at h
    subst h; rfl

private theorem notify_ok_dict (ver : Nat) (rpcid : PyVal) (fresh : String) (m p : PyVal) (d : PyVal)
    (h : notify ver rpcid fresh m p = .ok d) : d.isDict = true := by
  unfold notify at h
  cases hr : request ver rpcid fresh m p with
  | error e => simp [hr, bind, Except.bind] at h
  | ok r =>
    have hrd := request_ok_dict ver rpcid fresh m p r hr
    cases r <;> simp [isDict] at hrd
    simp only [hr, bind, Except.bind] at h
    split at h <;> (simp only [pure, Except.pure, Except.ok.injEq] at h; subst h; rfl)

private theorem error_isDict (ver : Nat) (rpcid c m dt : PyVal) : (error ver rpcid c m dt).isDict = true := by
  by_cases hv : ver ≥ 20 <;> simp [error, response, hv, isDict]

private theorem response_isDict (ver : Nat) (rpcid r : PyVal) : (response ver rpcid r).isDict = true := by
  by_cases hv : ver ≥ 20 <;> simp [response, hv, isDict]

/-- Whatever `dump` emits is a dictionary (every branch ends in `Payload.error/response/notify/request`). -/
theorem C14_dump_emits_dict (cfg : Config) (conv : PyVal → PyM PyVal) (fresh : String)
    (params : Params) (methodname rpcid : PyVal) (version : VerArg) (isResponse isNotify : Bool) (d : PyVal)
    (hd : dump cfg conv fresh params methodname rpcid version isResponse isNotify = .ok d) : d.isDict = true := by
  unfold dump at hd
  simp only [bind, Except.bind, pure, Except.pure] at hd
  repeat' split at hd
  all_goals first
    | (simp [raise] at hd; done)
    | (simp only [Except.ok.injEq] at hd; subst hd; first | exact error_isDict _ _ _ _ _ | exact response_isDict _ _ _)
    | exact notify_ok_dict _ _ _ _ _ _ hd
    | exact request_ok_dict _ _ _ _ _ _ hd

/-- `params` is something `dump` accepts with a method name: list, tuple or dict. -/
def containerParams (p : PyVal) : Bool := p.isList || p.isTuple || p.isDict

/-- The id a request carries: the caller's id verbatim when it is a non-empty string or any
    number (0 and 0.0 included); a fresh one when it is `None` or `""`. -/
theorem C14_id_verbatim (rpcid : PyVal) (fresh : String) :
    ((rpcid.isNumeric = true ∨ (∃ s, rpcid = .str s ∧ s ≠ "")) → chooseId rpcid fresh = rpcid) ∧
    ((rpcid = .none ∨ rpcid = .str "") → chooseId rpcid fresh = .str fresh) := by
  constructor
  · rintro (h | ⟨s, rfl, hs⟩)
    · cases rpcid <;> simp_all [chooseId, isNumeric]
    · simp [chooseId, hs]
  · rintro (rfl | rfl) <;> simp [chooseId]

/-- Two calls that generate their id get different ids whenever the generator yields different values. -/
theorem C14_id_fresh_distinct (f₁ f₂ : String) (h : f₁ ≠ f₂) :
    chooseId .none f₁ ≠ chooseId .none f₂ := by
  simp [chooseId, h]

/-- A 2.0 request: exactly `id`, `method`, `params` only when non-empty, `jsonrpc: "2.0"`. -/
theorem C14_request_2 (rpcid : PyVal) (fresh : String) (m : String) (params : PyVal) :
    request 20 rpcid fresh (.str m) params = .ok (.dict (
      [(.str "id", chooseId rpcid fresh), (.str "method", .str m)] ++
      (if params.truthy then [(.str "params", params)] else []) ++
      [(.str "jsonrpc", .str "2.0")])) := by
  cases h : params.truthy <;> simp [request, isStr, h, verStr_20, pure, Except.pure]

/-- A 1.0 request: always `params` (an empty list when none were given), never `jsonrpc`. -/
theorem C14_request_1 (rpcid : PyVal) (fresh : String) (m : String) (params : PyVal) :
    request 10 rpcid fresh (.str m) params = .ok (.dict
      [(.str "id", chooseId rpcid fresh), (.str "method", .str m),
       (.str "params", if params.truthy then params else .list [])]) := by
  cases h : params.truthy <;> simp [request, isStr, h, pure, Except.pure]

/-- A 2.0 notification has no `id` member at all. -/
theorem C14_notify_2 (rpcid : PyVal) (fresh : String) (m : String) (params : PyVal) :
    notify 20 rpcid fresh (.str m) params = .ok (.dict (
      [(.str "method", .str m)] ++
      (if params.truthy then [(.str "params", params)] else []) ++
      [(.str "jsonrpc", .str "2.0")])) := by
  cases h : params.truthy <;>
    simp [notify, C14_request_2, h, bind, Except.bind, pure, Except.pure, delStr]

/-- A 1.0 notification has `id: null`. -/
theorem C14_notify_1 (rpcid : PyVal) (fresh : String) (m : String) (params : PyVal) :
    notify 10 rpcid fresh (.str m) params = .ok (.dict
      [(.str "id", .none), (.str "method", .str m),
       (.str "params", if params.truthy then params else .list [])]) := by
  simp [notify, C14_request_1, bind, Except.bind, pure, Except.pure, setStr]

/-- Result responses: 2.0 has `result`, `id`, `jsonrpc`; 1.0 has `result`, `id`, `error: null`. -/
theorem C14_response (rpcid result : PyVal) :
    response 20 rpcid result = .dict [(.str "result", result), (.str "id", rpcid), (.str "jsonrpc", .str "2.0")] ∧
    response 10 rpcid result = .dict [(.str "result", result), (.str "id", rpcid), (.str "error", .none)] := by
  constructor <;> simp [response, verStr_20]

/-- Error responses carry the Fault's code and message, and `data` exactly when it is not `None`;
    2.0 drops `result`, 1.0 keeps `result: null`. -/
theorem C14_error (rpcid code message data : PyVal) :
    let errObj := PyVal.dict ([(.str "code", code), (.str "message", message)] ++ dataEntry data)
    error 20 rpcid code message data =
        .dict [(.str "id", rpcid), (.str "jsonrpc", .str "2.0"), (.str "error", errObj)] ∧
    error 10 rpcid code message data =
        .dict [(.str "result", .none), (.str "id", rpcid), (.str "error", errObj)] := by
  constructor <;> simp [error, response, verStr_20, delStr, setStr]

/-- `data` is a member of the error object exactly when it is not `None`. -/
theorem C14_error_data (data : PyVal) :
    (data = .none → dataEntry data = []) ∧ (data ≠ .none → dataEntry data = [(.str "data", data)]) := by
  constructor
  · rintro rfl; rfl
  · intro h; cases data <;> simp_all [dataEntry]

/-- `dump` with a Fault ignores method name and flags and emits the error response. -/
theorem C14_dump_fault (cfg : Config) (conv : PyVal → PyM PyVal) (fresh : String)
    (code message data methodname rpcid : PyVal) (version : VerArg) (isResponse isNotify : Bool) :
    dump cfg conv fresh (.fault code message data) methodname rpcid version isResponse isNotify =
      .ok (error (resolveVersion cfg version) rpcid code message data) := by
  simp [dump, validParams, bind, Except.bind, pure, Except.pure]

/-- `dump` of a request / notification with container params goes through the converter and then
    `Payload.request` / `Payload.notify`; `None` params count as `[]`. -/
theorem C14_dump_request (cfg : Config) (conv : PyVal → PyM PyVal) (fresh : String)
    (p p' : PyVal) (m : String) (rpcid : PyVal) (version : VerArg) (isNotify : Bool)
    (hp : containerParams p = true) (hc : (if cfg.useJsonclass then conv p else pure p) = .ok p') :
    dump cfg conv fresh (.val p) (.str m) rpcid version false isNotify =
      (if isNotify then notify (resolveVersion cfg version) rpcid fresh (.str m) p'
       else request (resolveVersion cfg version) rpcid fresh (.str m) p') := by
  unfold dump
  by_cases hu : cfg.useJsonclass = true
  · simp only [hu, ↓reduceIte] at hc
    cases p <;>
      simp_all [containerParams, validParams, isList, isTuple, isDict, isStr, bind, Except.bind, pure, Except.pure]
  · simp only [hu] at hc
    cases p <;>
      simp_all [containerParams, validParams, isList, isTuple, isDict, isStr, bind, Except.bind, pure, Except.pure]

/-- Invalid argument combinations raise instead of emitting a message. -/
theorem C14_reject (cfg : Config) (conv : PyVal → PyM PyVal) (fresh : String)
    (p methodname rpcid : PyVal) (version : VerArg) (isResponse isNotify : Bool) :
    -- a method name with params that are neither list, tuple, dict (nor None for a response)
    (methodname.isStr = true → validParams isResponse (.val p) = false → p ≠ .none →
      ∃ e, dump cfg conv fresh (.val p) methodname rpcid version isResponse isNotify = .error e ∧ e.cls = "TypeError") ∧
    -- neither a request (no string method name) nor a response
    (methodname.isStr = false → isResponse = false →
      ∃ e, dump cfg conv fresh (.val p) methodname rpcid version isResponse isNotify = .error e ∧ e.cls = "ValueError") ∧
    -- a response without an id
    (methodname.isStr = false → isResponse = true → rpcid = .none →
      (if cfg.useJsonclass then conv p else pure p).isOk = true →
      ∃ e, dump cfg conv fresh (.val p) methodname rpcid version isResponse isNotify = .error e ∧ e.cls = "ValueError") := by
  refine ⟨?_, ?_, ?_⟩
  · intro hm hv hn
    refine ⟨⟨"TypeError", .str "Params must be a dict, list, tuple or Fault instance."⟩, ?_, rfl⟩
    unfold dump
    cases p <;> simp_all [bind, Except.bind, raise]
  · intro hm hr
    subst hr
    refine ⟨⟨"ValueError", .str "Method name must be a string, or is_response must be set to True."⟩, ?_, rfl⟩
    unfold dump
    cases p <;> simp_all [bind, Except.bind, raise, pure, Except.pure]
  · intro hm hr hid hc
    subst hr hid
    refine ⟨⟨"ValueError", .str "A method response must have an rpcid."⟩, ?_, rfl⟩
    unfold dump
    cases hcv : (if cfg.useJsonclass then conv p else pure p) with
    | error e => simp [hcv, Except.isOk, Except.toBool] at hc
    | ok p' =>
      by_cases hu : cfg.useJsonclass = true
      · simp only [hu, ↓reduceIte] at hcv
        cases p <;> simp_all [bind, Except.bind, raise, pure, Except.pure]
      · simp only [hu] at hcv
        cases p <;> simp_all [bind, Except.bind, raise, pure, Except.pure]

/-- … and the complement: a string method name with container params whose conversion succeeds is
    accepted (so the rejection theorem is not vacuous), as is a response with an id. -/
theorem C14_accepts (cfg : Config) (conv : PyVal → PyM PyVal) (fresh : String)
    (p p' : PyVal) (m : String) (rpcid : PyVal) (version : VerArg) (isNotify : Bool)
    (hp : containerParams p = true) (hc : (if cfg.useJsonclass then conv p else pure p) = .ok p') :
    (dump cfg conv fresh (.val p) (.str m) rpcid version false isNotify).isOk = true := by
  rw [C14_dump_request cfg conv fresh p p' m rpcid version isNotify hp hc]
  obtain ⟨kvs, hk⟩ := request_dict (resolveVersion cfg version) rpcid fresh m p'
  cases isNotify
  · simp [hk, Except.isOk, Except.toBool]
  · simp only [notify, hk, bind, Except.bind, ↓reduceIte]
    split <;> simp [Except.isOk, Except.toBool, pure, Except.pure]

/-- A result response: whatever `methodname` is (a response may name its method or not), as long as the id is not
    `None` — and, when a method name IS given, the result is something `dump` accepts next to a method name (list,
    tuple, dict or `None`; otherwise the TypeError of `C14_reject` comes first) — `dump(…, is_response=True)` emits
    `Payload.response` of the converted result with the id verbatim. -/
theorem C14_dump_response (cfg : Config) (conv : PyVal → PyM PyVal) (fresh : String)
    (p p' methodname rpcid : PyVal) (version : VerArg) (isNotify : Bool)
    (hm : methodname.isStr = true → validParams true (.val p) = true) (hid : rpcid ≠ .none)
    (hc : (if cfg.useJsonclass then conv p else pure p) = .ok p') :
    dump cfg conv fresh (.val p) methodname rpcid version true isNotify =
      .ok (response (resolveVersion cfg version) rpcid p') := by
  unfold dump
  by_cases hs : methodname.isStr = true
  · have hv := hm hs
    by_cases hu : cfg.useJsonclass = true
    · simp only [hu, ↓reduceIte] at hc
      cases p <;> cases rpcid <;> simp_all [validParams, isList, isTuple, isDict, bind, Except.bind, pure, Except.pure]
    · simp only [hu] at hc
      cases p <;> cases rpcid <;> simp_all [validParams, isList, isTuple, isDict, bind, Except.bind, pure, Except.pure]
  · have hs' : methodname.isStr = false := by simpa using hs
    by_cases hu : cfg.useJsonclass = true
    · simp only [hu, ↓reduceIte] at hc
      cases p <;> cases rpcid <;> simp_all [bind, Except.bind, pure, Except.pure]
    · simp only [hu] at hc
      cases p <;> cases rpcid <;> simp_all [bind, Except.bind, pure, Except.pure]

/-- The version argument: `None` (or 0) takes the configuration's version, `1.0`/`2.0` and the
    strings `"1.0"`/`"2.0"` select that version. -/
theorem C14_version_args (cfg : Config) :
    resolveVersion cfg .none = cfg.version ∧
    resolveVersion cfg (.num 10) = 10 ∧ resolveVersion cfg (.num 20) = 20 ∧
    resolveVersion cfg (.str 10) = 10 ∧ resolveVersion cfg (.str 20) = 20 := by
  simp [resolveVersion]

/-- `loads("")` is `None`. -/
theorem C14_loads_empty (B : Backend) (cfg : Config) (unconv : PyVal → PyM PyVal) :
    loads B cfg unconv "" = .ok .none := by
  simp [loads, pure, Except.pure]

mutual
  /-- "Plain payload": no dictionary anywhere in the value has a `"__jsonclass__"` key and there is no instance in it
      (the same predicate as `jcFree` of JRV.Model.EndToEnd, restated here so that C14 does not depend on that model). -/
  def c14Plain : PyVal → Bool
    | .list xs => c14PlainList xs
    | .tuple xs => c14PlainList xs
    | .set xs => c14PlainList xs
    | .frozenset xs => c14PlainList xs
    | .dict kvs => c14PlainKVs kvs
    | .obj _ _ => false
    | _ => true
  def c14PlainList : List PyVal → Bool
    | [] => true
    | x :: xs => c14Plain x && c14PlainList xs
  def c14PlainKVs : List (PyVal × PyVal) → Bool
    | [] => true
    | (k, v) :: rest => k != .str "__jsonclass__" && c14Plain v && c14PlainKVs rest
end

mutual
  private theorem c14Plain_normalise : ∀ v : PyVal, c14Plain v = true → c14Plain v.normalise = true
    | .none, _ => rfl | .bool _, _ => rfl | .int _, _ => rfl | .float _, _ => rfl | .str _, _ => rfl
    | .list xs, h => by simp only [c14Plain] at h; simp [normalise, c14Plain, c14PlainList_normalise xs h]
    | .tuple xs, h => by simp only [c14Plain] at h; simp [normalise, c14Plain, c14PlainList_normalise xs h]
    | .set xs, h => by simp only [c14Plain] at h; simp [normalise, c14Plain, c14PlainList_normalise xs h]
    | .frozenset xs, h => by simp only [c14Plain] at h; simp [normalise, c14Plain, c14PlainList_normalise xs h]
    | .dict kvs, h => by simp only [c14Plain] at h; simp [normalise, c14Plain, c14PlainKVs_normalise kvs h]
    | .obj _ _, h => by simp [c14Plain] at h
  private theorem c14PlainList_normalise : ∀ xs : List PyVal, c14PlainList xs = true → c14PlainList (normaliseList xs) = true
    | [], _ => rfl
    | x :: xs, h => by
      simp only [c14PlainList, Bool.and_eq_true] at h
      simp [normaliseList, c14PlainList, c14Plain_normalise x h.1, c14PlainList_normalise xs h.2]
  private theorem c14PlainKVs_normalise : ∀ kvs : List (PyVal × PyVal), c14PlainKVs kvs = true → c14PlainKVs (normaliseKVs kvs) = true
    | [], _ => rfl
    | (k, v) :: xs, h => by
      simp only [c14PlainKVs, Bool.and_eq_true] at h
      simp [normaliseKVs, c14PlainKVs, h.1.1, c14Plain_normalise v h.1.2, c14PlainKVs_normalise xs h.2]
end

/-- What C15 proves of the real class translator on plain data, taken as a hypothesis on the abstract `conv`/`unconv`
    (the `Transparent` of C01, restated locally): on JSON-able plain values `jsonclass.dump` is JSON normalisation
    (tuples become lists) and `jsonclass.load` is the identity. -/
structure PlainTransparent (conv unconv : PyVal → PyM PyVal) : Prop where
  conv_ok : ∀ v, v.wfJson = true → c14Plain v = true → conv v = .ok v.normalise
  unconv_ok : ∀ v, c14Plain v = true → unconv v = .ok v

/-- `loads(dumps(x))` returns the emitted structure up to JSON normalisation, for every backend satisfying the codec
    law — with class translation OFF (then `load` is the identity, nothing is asked of `unconv`) and with class
    translation ON, which is the default `Config`, for plain payloads and a translator that is transparent on them.
    That the emitted message is a dictionary is not a hypothesis: `C14_dump_emits_dict`. -/
theorem C14_roundtrip (B : Backend) (cfg : Config) (conv unconv : PyVal → PyM PyVal) (fresh : String)
    (params : Params) (methodname rpcid : PyVal) (version : VerArg) (isResponse isNotify : Bool)
    (d : PyVal)
    (hd : dump cfg conv fresh params methodname rpcid version isResponse isNotify = .ok d)
    (hwf : d.wfJson = true)
    (hon : cfg.useJsonclass = true → PlainTransparent conv unconv ∧ c14Plain d = true) :
    ∃ s, dumps B cfg conv fresh params methodname rpcid version isResponse isNotify = .ok s ∧
      loads B cfg unconv s = .ok d.normalise := by
  obtain ⟨s, hr, hne, hp⟩ := B.roundtrip d hwf
  have hdict := C14_dump_emits_dict cfg conv fresh params methodname rpcid version isResponse isNotify d hd
  refine ⟨s, ?_, ?_⟩
  · simp [dumps, hd, hr, bind, Except.bind]
  · have hs : (s == "") = false := by simpa using hne
    by_cases hu : cfg.useJsonclass = true
    · obtain ⟨T, hpl⟩ := hon hu
      have hun := T.unconv_ok d.normalise (c14Plain_normalise d hpl)
      cases d <;> simp_all [loads, load, normalise, isDict, pure, Except.pure]
    · cases d <;> simp_all [loads, load, normalise, isDict, pure, Except.pure]

/-- The round trip of a request built from plain container params under the DEFAULT configuration kind
    (`use_jsonclass` on) and a transparent translator: the text parses back to the request dictionary that
    `Payload.request`/`notify` builds from the normalised params. -/
theorem C14_roundtrip_request_on (B : Backend) (cfg : Config) (conv unconv : PyVal → PyM PyVal) (fresh : String)
    (p : PyVal) (m : String) (rpcid : PyVal) (version : VerArg) (isNotify : Bool) (d : PyVal)
    (hu : cfg.useJsonclass = true) (T : PlainTransparent conv unconv)
    (hp : containerParams p = true) (hpw : p.wfJson = true) (hpp : c14Plain p = true)
    (hd : (if isNotify then notify (resolveVersion cfg version) rpcid fresh (.str m) p.normalise
           else request (resolveVersion cfg version) rpcid fresh (.str m) p.normalise) = .ok d)
    (hwf : d.wfJson = true) (hpl : c14Plain d = true) :
    ∃ s, dumps B cfg conv fresh (.val p) (.str m) rpcid version false isNotify = .ok s ∧
      loads B cfg unconv s = .ok d.normalise := by
  have hc : (if cfg.useJsonclass then conv p else pure p) = .ok p.normalise := by
    simp [hu, T.conv_ok p hpw hpp]
  have hdump := C14_dump_request cfg conv fresh p p.normalise m rpcid version isNotify hp hc
  exact C14_roundtrip B cfg conv unconv fresh (.val p) (.str m) rpcid version false isNotify d
    (by rw [hdump]; exact hd) hwf (fun _ => ⟨T, hpl⟩)

/-- Fault.dump(rpcid=…, version=…): a forced id that is not None replaces the Fault's own id (and is stored on
    the Fault: a later dump() uses it); None keeps it. -/
theorem C14_fault_dump_forced (cfg : Config) (f : Fault) (rpcid : PyVal) (version : VerArg) :
    (rpcid ≠ .none →
      faultDumpWith cfg f rpcid version =
        (error (resolveVersion cfg version) rpcid f.code f.message f.data, { f with rpcid := rpcid })) ∧
    faultDumpWith cfg f .none version =
        (error (resolveVersion cfg version) f.rpcid f.code f.message f.data, f) ∧
    faultDumpWith cfg f .none .none = (faultDump cfg f, f) := by
  refine ⟨?_, ?_, ?_⟩
  · intro h; cases rpcid <;> simp_all [faultDumpWith]
  · simp [faultDumpWith]
  · simp [faultDumpWith, faultDump, resolveVersion]

/-- Falsy forced ids are applied like any other: 0, 0.0, "", False, [], {} replace the Fault's own id
    (only None means "not forced"). -/
theorem C14_fault_dump_forced_falsy (cfg : Config) (f : Fault) (version : VerArg) :
    ∀ rid ∈ [PyVal.int 0, .float ⟨false, 0, 0⟩, .str "", .bool false, .list [], .dict []],
      (faultDumpWith cfg f rid version).2 = { f with rpcid := rid } := by
  intro rid h
  simp only [List.mem_cons, List.mem_nil_iff, or_false] at h
  rcases h with rfl | rfl | rfl | rfl | rfl | rfl <;> simp [faultDumpWith]

/- Non-vacuity -/
example : containerParams (.list [.int 1]) = true := by decide
example : dump {} (fun v => pure v) "f" (.val (.tuple [.int 1, .str "a"])) (.str "m") (.int 0) .none false false
    = .ok (.dict [(.str "id", .int 0), (.str "method", .str "m"), (.str "params", .tuple [.int 1, .str "a"]),
                  (.str "jsonrpc", .str "2.0")]) := by decide +kernel
example : (dump {} (fun v => pure v) "f" (.val (.int 5)) (.str "m") .none .none false false).isOk = false := by
  decide +kernel

/- `C14_roundtrip` with class translation ON: the default Config, a transparent translator (normalisation / identity),
   a request with tuple params — all hypotheses hold. -/
example : c14Plain (.dict [(.str "id", .int 0), (.str "method", .str "m"), (.str "params", .list [.int 1, .str "a"]),
    (.str "jsonrpc", .str "2.0")]) = true := by decide +kernel
example : PlainTransparent (fun v => pure v.normalise) (fun v => pure v) :=
  ⟨fun _ _ _ => rfl, fun _ _ => rfl⟩
example : (faultDumpWith {} { code := .int 1, message := .str "m", rpcid := .str "built" } (.int 0) (.num 10)).1
    = .dict [(.str "result", .none), (.str "id", .int 0),
             (.str "error", .dict [(.str "code", .int 1), (.str "message", .str "m")])] := by decide +kernel
example : dump {} (fun v => pure v) "f" (.val (.list [])) (.str "named") (.int 0) .none true false
    = .ok (.dict [(.str "result", .list []), (.str "id", .int 0), (.str "jsonrpc", .str "2.0")]) := by decide +kernel

end JRV.Props

