/-
  C14 — companion theorems of the facts extracted from jsonrpclib/jsonrpc.py (tools/extractors/payload.py).
  Built and audited separately from JRV.Properties.C14: a source edit that changes one of these facts fails this
  module only, the property theorems stay discharged.
-/
import JRV.Model.Payload
import JRV.Generated

namespace JRV.Props
open JRV

/-- Tie to the source: the thresholds `< 1.1` and `>= 2` of `Payload.request` (model: `ver < 11`, `ver ≥ 20`). -/
theorem C14_gen_thresholds :
    Generated.payloadThresholds = some (11, 20) := by decide

/-- The id is generated exactly when the supplied one is `None` or `""` (model: `chooseId`), by a call into the
    `uuid` module (any of its generators: the model only assumes the value is fresh). -/
theorem C14_gen_idTest :
    Generated.payloadIdTest = some "none-or-empty-string" := by decide

/-- `Fault.dump` / `Fault.response` apply the forced id under a truthiness test (model: `faultDumpWith`). -/
theorem C14_gen_faultForcedId :
    Generated.faultForcedIdTest = some ("not-none", "not-none") := by decide

/-- `Payload.response` stores its `result` parameter as it is (model: `response`). -/
theorem C14_gen_responseResult :
    Generated.payloadResponseResult = some "parameter" := by decide

end JRV.Props
