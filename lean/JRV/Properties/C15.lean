/-
  C15 — jsonclass round-trips plain data and is side-effect free.

  Model: JRV.Model.JsonClass (`dump`, `load` with effect log and final state of the argument).

  Domain of the round trip (`plain v = true`): every finite nesting of lists, tuples, sets, frozensets, dicts
  (any keys) and primitives, in which no dict has the key "__jsonclass__" (such a dict is a class descriptor
  for `load`, not plain data).  No serialisation handler is configured (`noHandlers`): a handler registered
  for a built-in type replaces the built-in treatment (that is C20).

  Purity of `load` is a statement about the final state of the argument that the model returns next to the
  result: `canonJc final = canonJc original`, where `canonJc` lists, in every dict, the entries other than
  "__jsonclass__" first and the "__jsonclass__" entry last — i.e. the two are equal as Python dicts.  Guard
  `jcOnce`: the key "__jsonclass__" occurs at most once per dict (always true of a Python dict).
-/
import JRV.Model.JsonClass
import JRV.Lemmas.JsonClass

set_option linter.unusedSimpArgs false
set_option linter.unusedVariables false
set_option linter.unusedSectionVars false

namespace JRV.Props
open JRV JRV.PyVal JRV.JsonClass

/- ---------- predicates ---------- -/

mutual
  /-- Plain data: nestings of the four iterable kinds, dicts without a "__jsonclass__" key, primitives. -/
  def plain : PyVal → Bool
    | .none => true | .bool _ => true | .int _ => true | .float _ => true | .str _ => true
    | .list xs => plainList xs
    | .tuple xs => plainList xs
    | .set xs => plainList xs
    | .frozenset xs => plainList xs
    | .dict kvs => plainKVs kvs
    | .obj _ _ => false
  def plainList : List PyVal → Bool
    | [] => true
    | x :: xs => plain x && plainList xs
  def plainKVs : List (PyVal × PyVal) → Bool
    | [] => true
    | (k, v) :: xs => !isJcKey k && plain v && plainKVs xs
end

mutual
  /-- Made only of dict, list and primitive nodes. -/
  def jsonNodes : PyVal → Bool
    | .none => true | .bool _ => true | .int _ => true | .float _ => true | .str _ => true
    | .list xs => jsonNodesList xs
    | .dict kvs => jsonNodesKVs kvs
    | _ => false
  def jsonNodesList : List PyVal → Bool
    | [] => true
    | x :: xs => jsonNodes x && jsonNodesList xs
  def jsonNodesKVs : List (PyVal × PyVal) → Bool
    | [] => true
    | (_, v) :: xs => jsonNodes v && jsonNodesKVs xs
end

mutual
  /-- Every dict key, at every depth, is a string. -/
  def strKeys : PyVal → Bool
    | .list xs => strKeysList xs
    | .tuple xs => strKeysList xs
    | .set xs => strKeysList xs
    | .frozenset xs => strKeysList xs
    | .dict kvs => strKeysKVs kvs
    | _ => true
  def strKeysList : List PyVal → Bool
    | [] => true
    | x :: xs => strKeys x && strKeysList xs
  def strKeysKVs : List (PyVal × PyVal) → Bool
    | [] => true
    | (k, v) :: xs => k.isStr && strKeys v && strKeysKVs xs
end

mutual
  /-- Every dict key, at every depth, is a primitive (`None`, a bool, a number or a string). -/
  def primKeys : PyVal → Bool
    | .list xs => primKeysList xs
    | .tuple xs => primKeysList xs
    | .set xs => primKeysList xs
    | .frozenset xs => primKeysList xs
    | .dict kvs => primKeysKVs kvs
    | _ => true
  def primKeysList : List PyVal → Bool
    | [] => true
    | x :: xs => primKeys x && primKeysList xs
  def primKeysKVs : List (PyVal × PyVal) → Bool
    | [] => true
    | (k, v) :: xs => k.isPrimitive && primKeys v && primKeysKVs xs
end

private theorem lookupStr_none_of_plainKVs_keys {kvs ys : List (PyVal × PyVal)}
    (hk : ys.map (·.1) = kvs.map (·.1)) (hp : ∀ k ∈ kvs.map (·.1), isJcKey k = false) :
    lookupStr jcKey ys = Option.none := by
  induction ys generalizing kvs with
  | nil => simp [lookupStr]
  | cons y ys ih =>
    cases kvs with
    | nil => simp at hk
    | cons x xs =>
      obtain ⟨k, v⟩ := y
      simp only [List.map_cons, List.cons.injEq] at hk
      have hk1 : isJcKey k = false := by
        have := hp x.1 (by simp)
        rw [← hk.1] at this; exact this
      have ih' := ih hk.2 (fun k hk' => hp k (by simp at hk' ⊢; exact Or.inr hk'))
      cases k <;> simp_all [lookupStr, isJcKey]

private theorem plainKVs_keys {kvs : List (PyVal × PyVal)} (h : plainKVs kvs = true) :
    ∀ k ∈ kvs.map (·.1), isJcKey k = false := by
  induction kvs with
  | nil => simp
  | cons x xs ih =>
    obtain ⟨k, v⟩ := x
    simp only [plainKVs, Bool.and_eq_true, Bool.not_eq_true'] at h
    intro k' hk'
    simp only [List.map_cons, List.mem_cons] at hk'
    rcases hk' with rfl | hk'
    · exact h.1.1
    · exact ih h.2 k' hk'

/-- What the induction proves about the dump `d` of a plain value `v`. -/
private def Good (W : World) (cl : List (String × String)) (v d : PyVal) : Prop :=
  jsonNodes d = true ∧ (load W cl d).res = .ok (normalise v) ∧ (load W cl d).log = [] ∧ (load W cl d).arg = d ∧
  (strKeys v = true → isJson d = true) ∧ (primKeys v = true → primKeys d = true)

section core
variable (X : DumpCtx) (sm ia : String) (ig : List PyVal) (W : World) (cl : List (String × String))
variable (hH : noHandlers X.cfg = true)
include hH

private theorem iter_case (xs : List PyVal) (v : PyVal)
    (hv : dump X sm ia ig v = (do let ys ← dumpList X sm ia ig xs; pure (.list ys)))
    (hn : normalise v = .list (normaliseList xs)) (hs : strKeys v = strKeysList xs) (hp : primKeys v = primKeysList xs)
    (ih : ∃ ys, dumpList X sm ia ig xs = .ok ys ∧ jsonNodesList ys = true ∧
      (loadList W cl ys).res = .ok (normaliseList xs) ∧ (loadList W cl ys).log = [] ∧ (loadList W cl ys).args = ys ∧
      (strKeysList xs = true → isJsonList ys = true) ∧ (primKeysList xs = true → primKeysList ys = true)) :
    ∃ d, dump X sm ia ig v = .ok d ∧ Good W cl v d := by
  obtain ⟨ys, h1, h2, h3, h4, h5, h6, h7⟩ := ih
  refine ⟨.list ys, ?_, ?_⟩
  · rw [hv, h1]; rfl
  · refine ⟨by simpa [jsonNodes] using h2, ?_, ?_, ?_, ?_, ?_⟩
    · simp [load, h3, hn, Except.map]
    · simp [load, h4]
    · simp [load, h5]
    · intro h; rw [hs] at h; simpa [isJson] using h6 h
    · intro h; rw [hp] at h; simpa [primKeys] using h7 h

mutual
  private theorem core : ∀ (v : PyVal), plain v = true → ∃ d, dump X sm ia ig v = .ok d ∧ Good W cl v d
    | .none, _ => ⟨.none, by simp [dump, handlerFor_none hH, pure, Except.pure], by simp [Good, jsonNodes, load, normalise, isJson, primKeys]⟩
    | .bool b, _ => ⟨.bool b, by simp [dump, handlerFor_none hH, pure, Except.pure], by simp [Good, jsonNodes, load, normalise, isJson, primKeys]⟩
    | .int i, _ => ⟨.int i, by simp [dump, handlerFor_none hH, pure, Except.pure], by simp [Good, jsonNodes, load, normalise, isJson, primKeys]⟩
    | .float f, _ => ⟨.float f, by simp [dump, handlerFor_none hH, pure, Except.pure], by simp [Good, jsonNodes, load, normalise, isJson, primKeys]⟩
    | .str s, _ => ⟨.str s, by simp [dump, handlerFor_none hH, pure, Except.pure], by simp [Good, jsonNodes, load, normalise, isJson, primKeys]⟩
    | .list xs, h => iter_case X sm ia ig W cl hH xs (.list xs) (by simp [dump, handlerFor_none hH]) (by simp [normalise])
        (by simp [strKeys]) (by simp [primKeys]) (coreList xs (by simpa [plain] using h))
    | .tuple xs, h => iter_case X sm ia ig W cl hH xs (.tuple xs) (by simp [dump, handlerFor_none hH]) (by simp [normalise])
        (by simp [strKeys]) (by simp [primKeys]) (coreList xs (by simpa [plain] using h))
    | .set xs, h => iter_case X sm ia ig W cl hH xs (.set xs) (by simp [dump, handlerFor_none hH]) (by simp [normalise])
        (by simp [strKeys]) (by simp [primKeys]) (coreList xs (by simpa [plain] using h))
    | .frozenset xs, h => iter_case X sm ia ig W cl hH xs (.frozenset xs) (by simp [dump, handlerFor_none hH]) (by simp [normalise])
        (by simp [strKeys]) (by simp [primKeys]) (coreList xs (by simpa [plain] using h))
    | .dict kvs, h => by
      have hp : plainKVs kvs = true := by simpa [plain] using h
      obtain ⟨ys, h1, h2, h3, h4, h5, h6, h7, h8⟩ := coreKVs kvs hp
      have hno : lookupStr jcKey ys = Option.none := lookupStr_none_of_plainKVs_keys h7 (plainKVs_keys hp)
      refine ⟨.dict ys, ?_, ?_⟩
      · simp [dump, handlerFor_none hH, h1, bind, Except.bind, pure, Except.pure]
      · refine ⟨by simpa [jsonNodes] using h2, ?_, ?_, ?_, ?_, ?_⟩
        · simp [load, hno, h3, normalise, Except.map]
        · simp [load, hno, h4]
        · simp [load, hno, h5]
        · intro hs; simpa [isJson] using h6 (by simpa [strKeys] using hs)
        · intro hs; simpa [primKeys] using h8 (by simpa [primKeys] using hs)
    | .obj _ _, h => by simp [plain] at h
  private theorem coreList : ∀ (xs : List PyVal), plainList xs = true →
      ∃ ys, dumpList X sm ia ig xs = .ok ys ∧ jsonNodesList ys = true ∧
        (loadList W cl ys).res = .ok (normaliseList xs) ∧ (loadList W cl ys).log = [] ∧ (loadList W cl ys).args = ys ∧
        (strKeysList xs = true → isJsonList ys = true) ∧ (primKeysList xs = true → primKeysList ys = true)
    | [], _ => ⟨[], by simp [dumpList, pure, Except.pure], by simp [jsonNodesList, loadList, normaliseList, isJsonList, primKeysList]⟩
    | x :: xs, h => by
      simp only [plainList, Bool.and_eq_true] at h
      obtain ⟨d, hd, g1, g2, g3, g4, g5, g6⟩ := core x h.1
      obtain ⟨ys, h1, h2, h3, h4, h5, h6, h7⟩ := coreList xs h.2
      refine ⟨d :: ys, ?_, ?_, ?_, ?_, ?_, ?_, ?_⟩
      · simp [dumpList, hd, h1, bind, Except.bind, pure, Except.pure]
      · simp [jsonNodesList, g1, h2]
      · simp [loadList, g2, h3, normaliseList, Except.map]
      · simp [loadList, g2, g3, h4]
      · simp [loadList, g2, g4, h5]
      · intro hs
        simp only [strKeysList, Bool.and_eq_true] at hs
        simp [isJsonList, g5 hs.1, h6 hs.2]
      · intro hs
        simp only [primKeysList, Bool.and_eq_true] at hs
        simp [primKeysList, g6 hs.1, h7 hs.2]
  private theorem coreKVs : ∀ (kvs : List (PyVal × PyVal)), plainKVs kvs = true →
      ∃ ys, dumpKVs X sm ia ig kvs = .ok ys ∧ jsonNodesKVs ys = true ∧
        (loadKVs W cl ys).res = .ok (normaliseKVs kvs) ∧ (loadKVs W cl ys).log = [] ∧ (loadKVs W cl ys).args = ys ∧
        (strKeysKVs kvs = true → isJsonKVs ys = true) ∧ ys.map (·.1) = kvs.map (·.1) ∧
        (primKeysKVs kvs = true → primKeysKVs ys = true)
    | [], _ => ⟨[], by simp [dumpKVs, pure, Except.pure], by simp [jsonNodesKVs, loadKVs, normaliseKVs, isJsonKVs, primKeysKVs]⟩
    | (k, x) :: xs, h => by
      simp only [plainKVs, Bool.and_eq_true] at h
      obtain ⟨d, hd, g1, g2, g3, g4, g5, g6⟩ := core x h.1.2
      obtain ⟨ys, h1, h2, h3, h4, h5, h6, h7, h8⟩ := coreKVs xs h.2
      refine ⟨(k, d) :: ys, ?_, ?_, ?_, ?_, ?_, ?_, ?_, ?_⟩
      · simp [dumpKVs, hd, h1, bind, Except.bind, pure, Except.pure]
      · simp [jsonNodesKVs, g1, h2]
      · simp [loadKVs, g2, h3, normaliseKVs, Except.map]
      · simp [loadKVs, g2, g3, h4]
      · simp [loadKVs, g2, g4, h5]
      · intro hs
        simp only [strKeysKVs, Bool.and_eq_true] at hs
        simp [isJsonKVs, hs.1.1, g5 hs.1.2, h6 hs.2]
      · simp [h7]
      · intro hs
        simp only [primKeysKVs, Bool.and_eq_true] at hs
        simp [primKeysKVs, hs.1.1, g6 hs.1.2, h8 hs.2]
end

end core

/- ---------- the property theorems: shape, round trip, JSON-ability ---------- -/

/-- For every nesting of lists, tuples, sets, frozensets, dicts and primitives, `dump` succeeds and its
    result is made only of dict, list and primitive nodes. -/
theorem C15_shape (X : DumpCtx) (sm ia : Option String) (ig : Option (List PyVal)) (v : PyVal)
    (hH : noHandlers X.cfg = true) (hp : plain v = true) :
    ∃ d, dumpTop X sm ia ig v = .ok d ∧ jsonNodes d = true := by
  obtain ⟨d, h1, h2, _⟩ := core X _ _ _ ⟨[], []⟩ [] hH v hp
  exact ⟨d, h1, h2⟩

/-- … dict keys included: when every dict key of the value (at every depth) is a primitive — a string, a number, a
    bool or `None` — so is every dict key of the dump (`dump` keeps keys as they are; a key that is itself a tuple
    or a frozenset has no JSON form and stays what it is). -/
theorem C15_shape_keys (X : DumpCtx) (sm ia : Option String) (ig : Option (List PyVal)) (v : PyVal)
    (hH : noHandlers X.cfg = true) (hp : plain v = true) (hk : primKeys v = true) :
    ∃ d, dumpTop X sm ia ig v = .ok d ∧ jsonNodes d = true ∧ primKeys d = true := by
  obtain ⟨d, h1, h2, _, _, _, _, h7⟩ := core X _ _ _ ⟨[], []⟩ [] hH v hp
  exact ⟨d, h1, h2, h7 hk⟩

/-- `load(dump(v))` is `v` up to container normalisation (tuples, sets, frozensets become lists, dict keys
    and every primitive leaf are untouched — `normalise` is the identity on primitives, see
    `C15_primitive_exact`), for every class table and importable world; nothing is imported or constructed,
    and `load` leaves the dumped structure as it was. -/
theorem C15_roundtrip (X : DumpCtx) (sm ia : Option String) (ig : Option (List PyVal)) (W : World)
    (cl : List (String × String)) (v : PyVal) (hH : noHandlers X.cfg = true) (hp : plain v = true) :
    ∃ d, dumpTop X sm ia ig v = .ok d ∧ (load W cl d).res = .ok (normalise v) ∧ (load W cl d).log = [] ∧
      (load W cl d).arg = d := by
  obtain ⟨d, h1, _, h3, h4, h5, _, _⟩ := core X _ _ _ W cl hH v hp
  exact ⟨d, h1, h3, h4, h5⟩

/-- Exact type and value of every primitive: `bool` stays `bool`, `int` stays `int`, … through `dump`,
    through `load` and in `normalise`. -/
theorem C15_primitive_exact (X : DumpCtx) (sm ia : Option String) (ig : Option (List PyVal)) (W : World)
    (cl : List (String × String)) (v : PyVal) (hH : noHandlers X.cfg = true) (hp : v.isPrimitive = true) :
    dumpTop X sm ia ig v = .ok v ∧ (load W cl v).res = .ok v ∧ normalise v = v := by
  cases v <;> simp_all [isPrimitive, dumpTop, dump, handlerFor_none hH, load, normalise, pure, Except.pure]

/-- With string keys the dump is a value the JSON backend serialises (`PyVal.isJson`). -/
theorem C15_jsonable (X : DumpCtx) (sm ia : Option String) (ig : Option (List PyVal)) (v : PyVal)
    (hH : noHandlers X.cfg = true) (hp : plain v = true) (hk : strKeys v = true) :
    ∃ d, dumpTop X sm ia ig v = .ok d ∧ isJson d = true := by
  obtain ⟨d, h1, _, _, _, _, h6, _⟩ := core X _ _ _ ⟨[], []⟩ [] hH v hp
  exact ⟨d, h1, h6 hk⟩

/-- Non-vacuity: a tuple holding a set, a dict with a non-string key and a frozenset of extreme leaves. -/
example : plain (.tuple [.set [.bool false, .int 0], .dict [(.int 1, .list [.none]), (.str "k", .frozenset [.str ""])]]) = true := by
  decide
example : strKeys (.tuple [.set [.bool false], .dict [(.str "k", .frozenset [.str ""])]]) = true := by decide
example : primKeys (.tuple [.dict [(.int 1, .list [.none]), (.none, .dict [(.bool false, .str "")])]]) = true ∧
    primKeys (.dict [(.tuple [.int 1], .none)]) = false := by decide
example : noHandlers {} = true := by decide

/- ---------- purity ---------- -/

mutual
  /-- Canonical entry order: in every dict the entries other than "__jsonclass__" first, that entry last. -/
  def canonJc : PyVal → PyVal
    | .list xs => .list (canonList xs)
    | .tuple xs => .tuple (canonList xs)
    | .set xs => .set (canonList xs)
    | .frozenset xs => .frozenset (canonList xs)
    | .dict kvs => .dict (canonRest kvs ++ canonJcE kvs)
    | v => v
  def canonList : List PyVal → List PyVal
    | [] => []
    | x :: xs => canonJc x :: canonList xs
  def canonRest : List (PyVal × PyVal) → List (PyVal × PyVal)
    | [] => []
    | (k, v) :: xs => if isJcKey k then canonRest xs else (k, canonJc v) :: canonRest xs
  def canonJcE : List (PyVal × PyVal) → List (PyVal × PyVal)
    | [] => []
    | (k, v) :: xs => if isJcKey k then (k, canonJc v) :: canonJcE xs else canonJcE xs
end

def jcCount : List (PyVal × PyVal) → Nat
  | [] => 0
  | (k, _) :: xs => (if isJcKey k then 1 else 0) + jcCount xs

mutual
  /-- The key "__jsonclass__" occurs at most once in every dict (true of every Python dict). -/
  def jcOnce : PyVal → Bool
    | .list xs => jcOnceList xs
    | .tuple xs => jcOnceList xs
    | .set xs => jcOnceList xs
    | .frozenset xs => jcOnceList xs
    | .dict kvs => decide (jcCount kvs ≤ 1) && jcOnceKVs kvs
    | _ => true
  def jcOnceList : List PyVal → Bool
    | [] => true
    | x :: xs => jcOnce x && jcOnceList xs
  def jcOnceKVs : List (PyVal × PyVal) → Bool
    | [] => true
    | (_, v) :: xs => jcOnce v && jcOnceKVs xs
end

private theorem canonRest_append (a b : List (PyVal × PyVal)) : canonRest (a ++ b) = canonRest a ++ canonRest b := by
  induction a with
  | nil => simp [canonRest]
  | cons x xs ih => obtain ⟨k, v⟩ := x; simp only [List.cons_append, canonRest, ih]; split <;> simp

private theorem canonJcE_append (a b : List (PyVal × PyVal)) : canonJcE (a ++ b) = canonJcE a ++ canonJcE b := by
  induction a with
  | nil => simp [canonJcE]
  | cons x xs ih => obtain ⟨k, v⟩ := x; simp only [List.cons_append, canonJcE, ih]; split <;> simp

private theorem canonRest_filter (xs : List (PyVal × PyVal)) :
    canonRest (xs.filter (fun e => !isJcKey e.1)) = canonRest xs := by
  induction xs with
  | nil => simp [canonRest]
  | cons x xs ih =>
    obtain ⟨k, v⟩ := x
    cases hk : isJcKey k <;> simp [List.filter, hk, canonRest, ih]

private theorem canonJcE_filter (xs : List (PyVal × PyVal)) :
    canonJcE (xs.filter (fun e => !isJcKey e.1)) = [] := by
  induction xs with
  | nil => simp [canonJcE]
  | cons x xs ih =>
    obtain ⟨k, v⟩ := x
    cases hk : isJcKey k <;> simp [List.filter, hk, canonJcE, ih]

private theorem canonJcE_of_count_zero (xs : List (PyVal × PyVal)) (h : jcCount xs = 0) : canonJcE xs = [] := by
  induction xs with
  | nil => simp [canonJcE]
  | cons x xs ih =>
    obtain ⟨k, v⟩ := x
    cases hk : isJcKey k <;> simp_all [jcCount, canonJcE]

private theorem lookupStr_none_of_count_zero (xs : List (PyVal × PyVal)) (h : lookupStr jcKey xs = Option.none) :
    jcCount xs = 0 := by
  induction xs with
  | nil => simp [jcCount]
  | cons x xs ih =>
    obtain ⟨k, v⟩ := x
    cases k <;> simp_all [lookupStr, jcCount, isJcKey]
    all_goals (split at h <;> simp_all)

private theorem canonJcE_single (xs : List (PyVal × PyVal)) (d : PyVal) (h : lookupStr jcKey xs = some d)
    (hc : jcCount xs ≤ 1) : canonJcE xs = [(.str jcKey, canonJc d)] := by
  induction xs with
  | nil => simp [lookupStr] at h
  | cons x xs ih =>
    obtain ⟨k, v⟩ := x
    cases k with
    | str s =>
      simp only [lookupStr] at h
      by_cases hs : s = jcKey
      · subst hs
        simp only [beq_self_eq_true, ↓reduceIte, Option.some.injEq] at h
        subst h
        have h0 : jcCount xs = 0 := by simp [jcCount, isJcKey] at hc; omega
        simp [canonJcE, isJcKey, canonJcE_of_count_zero xs h0]
      · have hb : (s == jcKey) = false := by simpa using hs
        simp only [hb, Bool.false_eq_true, ↓reduceIte] at h
        have hc' : jcCount xs ≤ 1 := by simp [jcCount, isJcKey, hb] at hc; exact hc
        simp [canonJcE, isJcKey, hb, ih h hc']
    | _ =>
      all_goals
        simp only [lookupStr] at h
        have hc' : jcCount xs ≤ 1 := by simpa [jcCount, isJcKey] using hc
        simp [canonJcE, isJcKey, ih h hc']

section pure
variable (W : World) (cl : List (String × String))

mutual
  private theorem pureV : ∀ (v : PyVal), jcOnce v = true → canonJc (load W cl v).arg = canonJc v
    | .none, _ => by simp [load]
    | .bool _, _ => by simp [load]
    | .int _, _ => by simp [load]
    | .float _, _ => by simp [load]
    | .str _, _ => by simp [load]
    | .obj _ _, _ => by simp [load]
    | .list xs, h => by simp [load, canonJc, pureL xs (by simpa [jcOnce] using h)]
    | .tuple xs, h => by simp [load, canonJc, pureL xs (by simpa [jcOnce] using h)]
    | .set xs, h => by simp [load, canonJc, pureL xs (by simpa [jcOnce] using h)]
    | .frozenset xs, h => by simp [load, canonJc, pureL xs (by simpa [jcOnce] using h)]
    | .dict kvs, h => by
      simp only [jcOnce, Bool.and_eq_true, decide_eq_true_eq] at h
      simp only [load]
      cases hl : lookupStr jcKey kvs with
      | none =>
        have := pureKV kvs h.2
        simp [canonJc, this.1, this.2]
      | some d =>
        simp only []
        rcases hi : instantiate W cl d with ⟨r, lg⟩
        cases r with
        | error e => simp
        | ok o =>
          have := pureA o kvs h.2
          simp [canonJc, canonRest_append, canonJcE_append, this.1, this.2, canonRest, canonJcE, isJcKey,
            canonJcE_single kvs d hl h.1]
  private theorem pureL : ∀ (xs : List PyVal), jcOnceList xs = true → canonList (loadList W cl xs).args = canonList xs
    | [], _ => by simp [loadList]
    | x :: xs, h => by
      simp only [jcOnceList, Bool.and_eq_true] at h
      simp only [loadList]
      split
      · simp [canonList, pureV x h.1]
      · simp [canonList, pureV x h.1, pureL xs h.2]
  private theorem pureKV : ∀ (kvs : List (PyVal × PyVal)), jcOnceKVs kvs = true →
      canonRest (loadKVs W cl kvs).args = canonRest kvs ∧ canonJcE (loadKVs W cl kvs).args = canonJcE kvs
    | [], _ => by simp [loadKVs]
    | (k, x) :: xs, h => by
      simp only [jcOnceKVs, Bool.and_eq_true] at h
      simp only [loadKVs]
      split
      · simp [canonRest, canonJcE, pureV x h.1]
      · have := pureKV xs h.2
        simp [canonRest, canonJcE, pureV x h.1, this.1, this.2]
  private theorem pureA : ∀ (o : PyVal) (kvs : List (PyVal × PyVal)), jcOnceKVs kvs = true →
      canonRest (loadAttrs W cl o kvs).args = canonRest kvs ∧ canonJcE (loadAttrs W cl o kvs).args = []
    | o, [], _ => by simp [loadAttrs, canonRest, canonJcE]
    | o, (k, x) :: xs, h => by
      simp only [jcOnceKVs, Bool.and_eq_true] at h
      simp only [loadAttrs]
      cases hk : isJcKey k with
      | true =>
        have := pureA o xs h.2
        simp [canonRest, hk, this.1, this.2]
      | false =>
        simp only [Bool.false_eq_true, ↓reduceIte]
        split
        · simp [canonRest, canonJcE, hk, pureV x h.1, canonRest_filter, canonJcE_filter]
        · split
          · simp [canonRest, canonJcE, hk, pureV x h.1, canonRest_filter, canonJcE_filter]
          · rename_i o' _
            have := pureA o' xs h.2
            simp [canonRest, canonJcE, hk, pureV x h.1, this.1, this.2]
end

end pure

/-- `load` does not modify the object it is given: whatever the outcome (success, or failure at any point —
    malformed descriptor, invalid name, failed import, constructor error, `setattr` raising on a slotted
    class, a failure deep inside a nested descriptor), the final state of the argument equals the original
    as a Python value (dict entries up to order: the restored "__jsonclass__" entry is listed last). -/
theorem C15_pure_load (W : World) (cl : List (String × String)) (v : PyVal) (h : jcOnce v = true) :
    canonJc (load W cl v).arg = canonJc v := pureV W cl v h

theorem C15_pure_load_ok (W : World) (cl : List (String × String)) (v r : PyVal) (h : jcOnce v = true)
    (_hok : (load W cl v).res = .ok r) : canonJc (load W cl v).arg = canonJc v := pureV W cl v h

theorem C15_pure_load_fail (W : World) (cl : List (String × String)) (v : PyVal) (e : PyErr) (h : jcOnce v = true)
    (_herr : (load W cl v).res = .error e) : canonJc (load W cl v).arg = canonJc v := pureV W cl v h

/-- Non-vacuity of the failure case: `setattr` raises on a slotted class; the caller's dict ends with the
    "__jsonclass__" entry moved last — equal to the original as a Python dict. -/
private def exEnv : ClassEnv :=
  [("S", { module := "m", name := "SlotBean", ownSlots := some ["a"], kind := .bean [("a", .int 1)] })]
private def exArg : PyVal :=
  .list [.dict [(.str "__jsonclass__", .list [.str "m.SlotBean", .list []]), (.str "a", .tuple [.int 2]), (.str "nosuch", .int 1)]]
example : (load ⟨exEnv, []⟩ [] exArg).res = .error ⟨"AttributeError", .none⟩ := by decide +kernel
example : (load ⟨exEnv, []⟩ [] exArg).arg =
    .list [.dict [(.str "a", .tuple [.int 2]), (.str "nosuch", .int 1), (.str "__jsonclass__", .list [.str "m.SlotBean", .list []])]] := by
  decide +kernel
example : jcOnce exArg = true := by decide +kernel
example : (load ⟨exEnv, []⟩ [] exArg).log = [.imp "m", .construct "S" (.list []), .setattr "S" "a"] := by rfl

/-- The model's `isinstance` tests are the extracted tables (on the built-in kinds of the universe). -/
theorem C15_typeTables_model (v : PyVal) (hv : ∀ c fs, v ≠ .obj c fs) :
    v.isIterable = iterableTypeNames.contains v.typeName ∧ v.isPrimitive = primitiveTypeNames.contains v.typeName ∧
    supportedTypeNames.contains v.typeName = true := by
  cases v <;> first | (exfalso; exact hv _ _ rfl) | (refine ⟨?_, ?_, ?_⟩ <;> rfl)

end JRV.Props
