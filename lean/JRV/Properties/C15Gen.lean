/-
  C15 — companion theorems of the facts extracted from jsonrpclib/jsonclass.py and utils.py
  (tools/extractors/jsonclass.py), built and audited separately from JRV.Properties.C15 (harness/README.md).
-/
import JRV.Model.JsonClass
import JRV.Generated

namespace JRV.Props
open JRV JRV.JsonClass

/-- `dump` writes to no object it is given.  The model of `dump` is a function of the value *because* the
    source contains no in-place write whose root is a parameter or anything reachable from one: every
    subscript/attribute store, augmented assignment, delete and mutating method call of `jsonclass.dump` is
    rooted at a local bound to a fresh container (`return_obj`, `fields`, `attrs` today).  This is a fact about
    the source, re-extracted on every run; the semantic side — deep snapshots and identity maps of the argument,
    of the `ignore` list and of the objects' ignore lists before and after, on small and on large containers — is
    the monitor of the check. -/
theorem C15_gen_pure_dump : Generated.dumpNonFreshWrites = some [] := by decide

theorem C15_gen_dumpNonFreshWrites : Generated.dumpNonFreshWrites = some dumpNonFreshWrites := by decide

/-- `load` puts back, in a `finally`, the very object it popped from the caller's dict (the model's `load` returns
    `r.args ++ [(jcKey, d)]` with the descriptor value `d` it found). -/
theorem C15_gen_loadRestores : Generated.loadRestoresInFinally = some restoresInFinally := by decide

/-- `utils.ITERABLE_TYPES`, `utils.PRIMITIVE_TYPES` and `jsonclass.SUPPORTED_TYPES` hold exactly the type names of
    the model's tables.  The tables are only ever handed to `isinstance` (and added to one another), for which the
    order of the members has no meaning: the comparison is up to permutation (`List.isPerm` — same members, same
    multiplicities), so that reordering a tuple in the source is not an alarm while adding, dropping or replacing
    a member still is. -/
theorem C15_gen_typeTables :
    Generated.typeTables.map (fun t => t.1.isPerm iterableTypeNames && t.2.1.isPerm primitiveTypeNames
      && t.2.2.isPerm supportedTypeNames) = some true := by decide

end JRV.Props
