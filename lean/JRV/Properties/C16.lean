/-
  C16 — Future completion protocol: done / result / callback exactly once.

  Model: JRV.Model.Future (line-granular LTS of one FutureResult + EventData; any number of registrar and
  observer threads, one executor; the environment picks the task's outcome, every callback's behaviour and the
  moment a timed wait gives up).  Every theorem quantifies over ALL reachable states (`Reach s`): every client
  program, every interleaving, no bound on threads or steps.  Helper invariants: JRV.Lemmas.Future.

  Vocabulary.  `s.ex.pc.idx` is the executor's position (4 = it has executed `self.__event.set()`, 9 = it has
  left its critical section, 13 = `execute` has finished).  Registration `i` is the i-th `set_callback` call;
  `(s.regs i).completed` is the value of `__completed` it read under the lock (`true` = registered after
  completion).  `s.attempts` is the log of callback invocations (the attempt, for a wrong-arity callable).
  `s.ex.capFrom` (ghost) is the last registration whose critical section was entered before the executor's own:
  the registration "in force when the task completes".

  Reading of "exactly once per registration" (`set_callback` is a setter): the registration in force at
  completion is invoked exactly once, by the executor; every registration made after completion is invoked
  exactly once, by its own registrar, inside its `set_callback` call; a registration replaced before completion
  is never invoked; each invocation receives the task's own outcome and the `extra` of THAT registration.
-/
import JRV.Lemmas.Future

set_option linter.unusedVariables false
set_option linter.unusedSimpArgs false

namespace JRV.Props
open JRV JRV.Future

/-- What `result()` does for a stored outcome: return the value / raise the exception. -/
def Outcome.toRes : Outcome → ORes
  | .ret v => .val v
  | .raise e => .raised e

/-- Number of invocations of registration `r` in the log. -/
def invocations (s : State) (r : Nat) : Nat := (s.attempts.map (·.rid)).count r

/-! ### done() -/

/-- The event flag is up exactly when the executor has passed `self.__event.set()`; a `done()` call returns
    precisely that, whenever it is scheduled (it is never blocked). -/
theorem C16_done_iff {s : State} (h : Reach s) :
    (s.flag = true ↔ 4 ≤ s.ex.pc.idx) ∧
    ∀ j, (s.obs j).pc = .readFlag →
      ∃ s', step? s (.obs j) = some s' ∧ (s'.obs j).pc = .fin ∧
        (s'.obs j).res = .bool (decide (4 ≤ s.ex.pc.idx)) := by
  have hi := (finv_of_reach h).i1
  refine ⟨hi.flag, fun j hj => ?_⟩
  refine ⟨setObs s j { s.obs j with pc := .fin, res := .bool s.flag }, by simp [step?, stepObs, hj],
    by simp [setObs], ?_⟩
  have := hi.flag
  by_cases hf : s.flag = true <;> simp_all [setObs]

/-- `done()` is never True before the outcome is stored: once the flag is up, `__data` / `__exception` hold the
    task's own outcome (they are written before `event.set()` and never again). -/
theorem C16_done_after_stored {s : State} (h : Reach s) (hf : s.flag = true) :
    ∃ o, s.ex.outcome = some o ∧ s.data = o.data ∧ s.exc = o.exc := by
  have hi := (finv_of_reach h).i1
  have h4 := hi.flag.mp hf
  obtain ⟨o, ho⟩ := hi.outcome (by omega)
  exact ⟨o, ho, hi.data1 (by omega) o ho, hi.exc1 (by omega) o ho⟩

/-- A `done()` that returned True: the flag is up in every later state (so later `done()` calls return True and
    later `result()` calls do not wait). -/
theorem C16_done_stable {s : State} (h : Reach s) (j : Nat) (hpc : (s.obs j).pc = .fin)
    (hres : (s.obs j).res = .bool true) : s.flag = true :=
  ((finv_of_reach h).i5.resBool j true hpc hres).1 rfl

/-- Until the task has finished (the executor is still in the task call) the flag is down. -/
theorem C16_not_done_before {s : State} (h : Reach s) (hpc : s.ex.pc = .call) : s.flag = false := by
  have hi := (finv_of_reach h).i1
  cases hf : s.flag with
  | false => rfl
  | true => have := hi.flag.mp hf; simp [hpc, EPc.idx] at this

/-! ### result(timeout) -/

/-- The two branches of `self.__event.wait(timeout)`: it returns True (at once) exactly when the flag is up; the
    timeout branch is enabled exactly while the flag is down (and a finite timeout was given). -/
theorem C16_wait_branches (s : State) (j : Nat) (hpc : (s.obs j).pc = .wait) :
    (∀ s', step? s (.obs j) = some s' → s.flag = true ∧ (s'.obs j).w = true ∧ (s'.obs j).pc = .readExc1) ∧
    (s.flag = true → ∃ s', step? s (.obs j) = some s') ∧
    (∀ s', step? s (.obsTimeout j) = some s' → s.flag = false ∧ (s'.obs j).w = false ∧ (s'.obs j).pc = .readExc1) ∧
    (s.flag = false → (s.obs j).kind = .result true → ∃ s', step? s (.obsTimeout j) = some s') := by
  refine ⟨?_, ?_, ?_, ?_⟩
  · intro s' hs
    simp only [step?, stepObs, hpc] at hs
    split at hs
    · cases hs; simp_all [setObs]
    · cases hs
  · intro hf; simp [step?, stepObs, hpc, hf]
  · intro s' hs
    simp only [step?, stepObsTimeout, hpc] at hs
    split at hs
    · cases hs; simp_all [setObs]
    · cases hs
  · intro hf hk; simp [step?, stepObsTimeout, hpc, hf, hk]

/-- Every finished `result()` call: if its wait saw the event set (in particular whenever it was called after
    completion) it returned the stored value / raised the stored exception — the task's own outcome, so the
    same every time; if its wait timed out it raised `OSError`, whatever the executor stored meanwhile. -/
theorem C16_result_consistent {s : State} (h : Reach s) (j : Nat) (t : Bool)
    (hpc : (s.obs j).pc = .fin) (hk : (s.obs j).kind = .result t) :
    ((s.obs j).w = true →
        s.flag = true ∧ ∃ o, s.ex.outcome = some o ∧ (s.obs j).res = Outcome.toRes o) ∧
    ((s.obs j).w = false → (s.obs j).res = .osError) := by
  have hi := (finv_of_reach h).i5
  have hres := hi.resKind j hpc t hk
  constructor
  · intro hw
    refine ⟨hi.wFlag j hw, ?_⟩
    rcases hres with ho | ⟨v, hv⟩ | ⟨e, he⟩
    · have := (hi.resOs j hpc ho).1; simp_all
    · exact ⟨_, (hi.resVal j v hpc hv).1, by simp [hv, Outcome.toRes]⟩
    · exact ⟨_, (hi.resRaised j e hpc he).1, by simp [he, Outcome.toRes]⟩
  · intro hw
    rcases hres with ho | ⟨v, hv⟩ | ⟨e, he⟩
    · exact ho
    · have := (hi.resVal j v hpc hv).2; simp_all
    · have := (hi.resRaised j e hpc he).2; simp_all

/-- Two `result()` calls that did not time out agree. -/
theorem C16_result_same {s : State} (h : Reach s) (j j' : Nat) (t t' : Bool)
    (hpc : (s.obs j).pc = .fin) (hk : (s.obs j).kind = .result t) (hw : (s.obs j).w = true)
    (hpc' : (s.obs j').pc = .fin) (hk' : (s.obs j').kind = .result t') (hw' : (s.obs j').w = true) :
    (s.obs j).res = (s.obs j').res := by
  obtain ⟨_, o, ho, hr⟩ := (C16_result_consistent h j t hpc hk).1 hw
  obtain ⟨_, o', ho', hr'⟩ := (C16_result_consistent h j' t' hpc' hk').1 hw'
  rw [ho] at ho'; cases ho'; rw [hr, hr']

/-- Before completion (flag down) every `result()` call that has finished raised `OSError`: only the timeout
    branch was ever enabled for it. -/
theorem C16_result_before_completion {s : State} (h : Reach s) (hf : s.flag = false) (j : Nat) (t : Bool)
    (hpc : (s.obs j).pc = .fin) (hk : (s.obs j).kind = .result t) : (s.obs j).res = .osError := by
  have hi := (finv_of_reach h).i5
  apply (C16_result_consistent h j t hpc hk).2
  cases hw : (s.obs j).w with
  | false => rfl
  | true => have := hi.wFlag j hw; simp_all

/-! ### callbacks -/

/-- No registration is ever invoked twice. -/
theorem C16_callback_once {s : State} (h : Reach s) (r : Nat) : invocations s r ≤ 1 :=
  count_rid_le_one (finv_of_reach h).i4.once r

/-- Every invocation passes the task's own outcome and the `extra` (and callable) of the registration invoked. -/
theorem C16_callback_args {s : State} (h : Reach s) (a : Attempt) (ha : a ∈ s.attempts) :
    a.extra = (s.regs a.rid).extra ∧ (s.regs a.rid).method = some a.kind ∧
    ∃ o, s.ex.outcome = some o ∧ a.data = o.data ∧ a.exc = o.exc := by
  obtain ⟨h1, h2, _, h4, _⟩ := finv_of_reach h
  rcases h4.shape a ha with ⟨_, hpc, hc, hm, hx⟩ | ⟨_, hpc, ⟨c, hcb, hr, hk⟩, hx⟩
  · have := h2.regCompleted a.rid hc
    obtain ⟨o, ho⟩ := h1.outcome (by omega)
    exact ⟨hx, hm, o, ho, h4.args a ha o ho⟩
  · obtain ⟨o, ho⟩ := h1.outcome (by omega)
    have hcb' := h2.exCb (by omega) c hcb
    have hex := h2.exExtra (by omega) c hcb
    rw [hr] at hcb' hex
    exact ⟨by rw [hx, hex], by rw [hcb'.2.2, hk], o, ho, h4.args a ha o ho⟩

/-- The registration in force at completion: what the executor captured under the lock is the callable of the
    last registration whose critical section preceded the executor's; once `execute` has finished it has been
    invoked exactly once, by the executor. -/
theorem C16_callback_in_force {s : State} (h : Reach s) (hfin : s.ex.pc = .fin) :
    s.ex.cb = (match s.ex.capFrom with | none => none | some i => (s.regs i).cb i) ∧
    ∀ c, s.ex.cb = some c →
      invocations s c.rid = 1 ∧ ∃ a ∈ s.attempts, a.rid = c.rid ∧ a.caller = .exec := by
  obtain ⟨_, _, h3, h4, _⟩ := finv_of_reach h
  have hidx : s.ex.pc.idx = 13 := by simp [hfin, EPc.idx]
  refine ⟨h3.exCbCap (by omega), fun c hc => ?_⟩
  have hm := h4.exDone (by omega) c hc
  have hle := count_rid_le_one h4.once c.rid
  have hpos : 0 < (s.attempts.map (·.rid)).count c.rid :=
    List.count_pos_iff.mpr (List.mem_map.mpr ⟨_, hm, rfl⟩)
  exact ⟨by unfold invocations; omega, _, hm, rfl, rfl⟩

/-- A registration made after completion (it read `__completed = True`): the executor had already left its
    critical section, and once the `set_callback` call has finished the callable has been invoked exactly once,
    by the registrar itself (i.e. immediately, inside that call). -/
theorem C16_callback_after_completion {s : State} (h : Reach s) (i : Nat) (k : CbKind)
    (hc : (s.regs i).completed = true) (hm : (s.regs i).method = some k) :
    9 ≤ s.ex.pc.idx ∧
    ((s.regs i).pc = .fin → invocations s i = 1 ∧ ∃ a ∈ s.attempts, a.rid = i ∧ a.caller = .reg i) := by
  obtain ⟨_, h2, _, h4, _⟩ := finv_of_reach h
  refine ⟨h2.regCompleted i hc, fun hfin => ?_⟩
  have hidx : (s.regs i).pc.idx = 10 := by simp [hfin, RPc.idx]
  have hmem := h4.regDone i k (by omega) hc hm
  have hle := count_rid_le_one h4.once i
  have hpos : 0 < (s.attempts.map (·.rid)).count i :=
    List.count_pos_iff.mpr (List.mem_map.mpr ⟨_, hmem, rfl⟩)
  exact ⟨by unfold invocations; omega, _, hmem, rfl, rfl⟩

/-- A registration made before completion (it read `__completed = False`) is only ever invoked by the executor;
    if the executor captured another registration (it was replaced before completion) it is never invoked —
    in this state and, the statement holding in every reachable state, in all later ones. -/
theorem C16_callback_replaced_never {s : State} (h : Reach s) (i : Nat)
    (hpc : 6 ≤ (s.regs i).pc.idx) (hc : (s.regs i).completed = false) :
    (∀ a ∈ s.attempts, a.rid = i → a.caller = .exec) ∧
    (7 ≤ s.ex.pc.idx → (∀ c, s.ex.cb = some c → c.rid ≠ i) → invocations s i = 0) := by
  obtain ⟨_, _, _, h4, _⟩ := finv_of_reach h
  have key : ∀ a ∈ s.attempts, a.rid = i → a.caller = .exec ∧ ∃ c, s.ex.cb = some c ∧ c.rid = i := by
    intro a ha hr
    rcases h4.shape a ha with ⟨_, _, hc', _, _⟩ | ⟨hcal, _, ⟨c, hcb, hcr, _⟩, _⟩
    · rw [hr] at hc'; simp_all
    · exact ⟨hcal, c, hcb, by omega⟩
  refine ⟨fun a ha hr => (key a ha hr).1, fun _ hne => ?_⟩
  unfold invocations
  rw [List.count_eq_zero, List.mem_map]
  rintro ⟨a, ha, hr⟩
  obtain ⟨_, c, hcb, hcr⟩ := key a ha hr
  exact hne c hcb hcr

/-- What a registrar reads under the lock is exactly "the executor has executed `self.__completed = True`". -/
theorem C16_registration_sees_completion {s s' : State} (h : Reach s) (i : Nat)
    (hpc : (s.regs i).pc = .readCompleted) (hs : step? s (.reg i) = some s') :
    (s'.regs i).completed = decide (6 ≤ s.ex.pc.idx) := by
  have hi := (finv_of_reach h).i1
  simp only [step?, stepReg, hpc] at hs
  cases hs
  have := hi.completed
  by_cases hc : s.completed = true <;> simp_all [setReg]

/-! ### containment -/

/-- Shared attributes of the future and of its event. -/
def shared (s : State) : Option Cb × Obj × Bool × Option Tid × Bool × Obj × Obj :=
  (s.callback, s.extra, s.completed, s.lock, s.flag, s.data, s.exc)

/-- Calling the callback (whatever it does: return, raise, wrong arity) and logging its failure change no shared
    attribute, nothing of any other thread and not the executor's record of the task's outcome; the caller's
    next line is `logErr` or the end of its method. -/
theorem C16_contained (s s' : State) :
    ((s.ex.pc = .invoke ∨ s.ex.pc = .logErr) → step? s .exec = some s' →
        shared s' = shared s ∧ s'.regs = s.regs ∧ s'.obs = s.obs ∧ s'.ex.outcome = s.ex.outcome ∧
        (s'.ex.pc = .logErr ∨ s'.ex.pc = .fin)) ∧
    (∀ i, ((s.regs i).pc = .invoke ∨ (s.regs i).pc = .logErr) → step? s (.reg i) = some s' →
        shared s' = shared s ∧ s'.ex = s.ex ∧ s'.obs = s.obs ∧ (∀ j, j ≠ i → s'.regs j = s.regs j) ∧
        ((s'.regs i).pc = .logErr ∨ (s'.regs i).pc = .fin)) := by
  constructor
  · rintro (hpc | hpc) hs <;> simp only [step?, stepExec, hpc] at hs <;> split at hs <;> cases hs <;>
      (simp [shared]; try grind)
  · rintro i (hpc | hpc) hs <;> simp only [step?, stepReg, hpc] at hs <;> (try split at hs) <;> cases hs <;>
      (simp [shared, setReg]; try grind)

/-- Progress: in every reachable state a thread that is about to call the callback, or to log its failure, can
    take that step (it is never stuck, whatever the callable does), and the executor that has finished has
    published the task's own outcome and marked the future completed. -/
theorem C16_contained_progress {s : State} (h : Reach s) :
    ((s.ex.pc = .invoke ∨ s.ex.pc = .logErr) → ∃ s', step? s .exec = some s') ∧
    (∀ i, ((s.regs i).pc = .invoke ∨ (s.regs i).pc = .logErr) → ∃ s', step? s (.reg i) = some s') ∧
    (s.ex.pc = .fin → s.flag = true ∧ s.completed = true ∧ s.lock ≠ some .exec ∧
        ∃ o, s.ex.outcome = some o ∧ s.data = o.data ∧ s.exc = o.exc) := by
  obtain ⟨h1, h2, _, _, _⟩ := finv_of_reach h
  refine ⟨?_, ?_, ?_⟩
  · rintro (hpc | hpc)
    all_goals
      have hne := h2.exNotify (by simp [hpc, EPc.idx]) (by simp [hpc, EPc.idx])
      cases hcb : s.ex.cb with
      | none => exact absurd hcb hne
      | some c => simp [step?, stepExec, hpc, hcb]
  · rintro i (hpc | hpc)
    · have hne := (h2.regNotify i (by simp [hpc, RPc.idx]) (by simp [hpc, RPc.idx])).2
      cases hm : (s.regs i).method with
      | none => exact absurd hm hne
      | some k => simp [step?, stepReg, hpc, hm]
    · simp [step?, stepReg, hpc]
  · intro hfin
    have hidx : s.ex.pc.idx = 13 := by simp [hfin, EPc.idx]
    have hf : s.flag = true := h1.flag.mpr (by omega)
    refine ⟨hf, h1.completed.mpr (by omega), ?_, C16_done_after_stored h hf⟩
    intro hl
    have := h1.lockExec.mp hl
    omega

/-! ### non-vacuity: concrete schedules -/

set_option synthInstance.maxSize 4096

/-- Registration 0 (raising callback, extra 100) before completion, task returns object 7; registration 1
    (wrong arity) after completion; an observer times out, another one gets the value. -/
def demoSchedule : List Action :=
  [.regCall 0 (some .raises) (some 100), .reg 0, .reg 0, .reg 0, .reg 0, .reg 0,
   .obsCall 0 (.result true), .obsTimeout 0, .obs 0,
   .execCall (.ret (some 7)), .exec, .exec, .exec, .exec, .exec, .exec, .exec, .exec, .exec, .exec, .exec, .exec,
   .regCall 1 (some .wrongArity) none, .reg 1, .reg 1, .reg 1, .reg 1, .reg 1, .reg 1, .reg 1, .reg 1, .reg 1,
   .obsCall 1 (.result false), .obs 1, .obs 1, .obs 1, .obsCall 2 .done, .obs 2]

example : (run init demoSchedule).map (fun s =>
      (s.ex.pc, s.ex.cb, s.ex.capFrom, (s.regs 0).completed, (s.regs 1).completed, (s.regs 1).pc)) =
    some (.fin, some ⟨0, .raises⟩, some 0, false, true, .fin) := by decide

example : (run init demoSchedule).map (fun s => s.attempts.map (fun a => (a.rid, a.caller, a.data, a.exc, a.extra))) =
    some [(0, .exec, some 7, none, some 100), (1, .reg 1, some 7, none, none)] := by decide

example : (run init demoSchedule).map (fun s => (s.errs, (s.obs 0).res, (s.obs 1).res, (s.obs 2).res)) =
    some ([(0, false), (1, true)], .osError, .val (some 7), .bool true) := by decide

/-- The demo state is reachable, so the hypotheses of the theorems above are satisfiable together. -/
example : ∃ s, Reach s ∧ s.ex.pc = .fin ∧ (s.regs 1).pc = .fin ∧ (s.regs 1).completed = true ∧
    (s.regs 0).completed = false ∧ 6 ≤ (s.regs 0).pc.idx ∧ (s.obs 1).pc = .fin ∧ (s.obs 1).w = true := by
  cases hrun : run init demoSchedule with
  | none => exact absurd hrun (by decide)
  | some s =>
    refine ⟨s, reach_run _ Reach.init hrun, ?_⟩
    have h : (run init demoSchedule).map (fun s => (s.ex.pc, (s.regs 1).pc, (s.regs 1).completed,
        (s.regs 0).completed, decide (6 ≤ (s.regs 0).pc.idx), (s.obs 1).pc, (s.obs 1).w)) =
        some (.fin, .fin, true, false, true, .fin, true) := by decide
    simp only [hrun, Option.map_some, Option.some.injEq, Prod.mk.injEq, decide_eq_true_eq] at h
    exact h

/-- A registration replaced before completion (0 by 1): never invoked, 1 is. -/
example : (run init [.regCall 0 (some .returns) (some 100), .reg 0, .reg 0, .reg 0, .reg 0, .reg 0,
      .regCall 1 (some .returns) (some 101), .reg 1, .reg 1, .reg 1, .reg 1, .reg 1,
      .execCall (.raise 9), .exec, .exec, .exec, .exec, .exec, .exec, .exec, .exec, .exec, .exec, .exec]).map
      (fun s => (s.ex.pc, s.attempts.map (fun a => (a.rid, a.data, a.exc, a.extra)))) =
    some (.fin, [(1, none, some 9, some 101)]) := by decide

/-! ### the model's step table, as the extracted facts are compared with it (companions: JRV.Properties.C16Gen) -/

/-- `regCsLabels` / `execCsLabels` are exactly the lines of the model's programs at which the lock is held
    (`Inv1.lockReg` / `Inv1.lockExec`: lock held ⇔ 2 ≤ idx ≤ 5, resp. 5 ≤ idx ≤ 8; the last one is the release). -/
theorem C16_cs_labels :
    (∀ pc ∈ regProgram, (pc.label ∈ regCsLabels ↔ (2 ≤ pc.idx ∧ pc.idx ≤ 4))) ∧
    (∀ pc ∈ execProgram, (pc.label ∈ execCsLabels ↔ (5 ≤ pc.idx ∧ pc.idx ≤ 7))) := by
  constructor <;> decide

/-- The guard of `__notify` in the model is identity with `None` and nothing else (`notifyGuardShape`): leaving
    its critical section the executor goes on to call the callable it captured exactly when it captured one; a
    registrar exactly when it read `__completed = True` and was given a callable.  Nothing about the callable
    itself is consulted (not its behaviour `kind`; a truth value does not even exist in the model), so a falsy
    callable instance is called — once, by `C16_callback_in_force` / `C16_callback_after_completion` — like any
    other, and `set_callback(None)` calls nothing. -/
theorem C16_notify_guard (s s' : State) :
    (s.ex.pc = .rel → step? s .exec = some s' →
        (s'.ex.pc = .readData ↔ s.ex.cb ≠ none) ∧ (s'.ex.pc = .fin ↔ s.ex.cb = none)) ∧
    (∀ i, (s.regs i).pc = .rel → step? s (.reg i) = some s' →
        ((s'.regs i).pc = .readData ↔ ((s.regs i).completed = true ∧ (s.regs i).method ≠ none)) ∧
        ((s'.regs i).pc = .fin ↔ ¬ ((s.regs i).completed = true ∧ (s.regs i).method ≠ none))) := by
  constructor
  · intro hpc hs
    simp only [step?, stepExec, hpc] at hs
    cases hs
    by_cases h : s.ex.cb = none <;> simp [h]
  · intro i hpc hs
    simp only [step?, stepReg, hpc] at hs
    cases hs
    by_cases h : (s.regs i).completed = true ∧ (s.regs i).method ≠ none <;> simp [setReg, h]

/-- Non-vacuity of the guard: `set_callback(None)` after completion calls nothing; a callable registered after
    completion is called whatever it is. -/
example : (run init [.execCall (.ret (some 50)), .exec, .exec, .exec, .exec, .exec, .exec, .exec, .exec,
      .regCall 0 none (some 50), .reg 0, .reg 0, .reg 0, .reg 0, .reg 0,
      .regCall 1 (some .returns) (some 50), .reg 1, .reg 1, .reg 1, .reg 1, .reg 1, .reg 1, .reg 1, .reg 1]).map
      (fun s => ((s.regs 0).pc, (s.regs 1).pc, s.attempts.map (fun a => (a.rid, a.data, a.exc, a.extra)))) =
    some (.fin, .fin, [(1, some 50, none, some 50)]) := by decide

end JRV.Props
