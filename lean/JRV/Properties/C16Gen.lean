/-
  C16 — companion theorems of the facts extracted from jsonrpclib/threadpool.py (tools/extractors/future.py),
  against the constants and the step table of JRV.Model.Future.
  Built and audited separately from JRV.Properties.C16: a source edit that changes one of these facts fails this
  module only, the property theorems stay discharged.
-/
import JRV.Model.Future
import JRV.Lemmas.Future
import JRV.Generated

namespace JRV.Props
open JRV JRV.Future

/-- The statements inside `with self.__lock` of `set_callback` and of the `finally` of `execute` are the lines the
    model executes while holding the lock (`C16_cs_labels`); nothing touches the protected attributes outside. -/
theorem C16_gen_futLockDiscipline :
    Generated.futLockDiscipline =
      some [("set_callback", regCsLabels, []), ("execute.finally", execCsLabels, [])] := by decide

/-- The model's notify steps come after the release and use the registrar's own `(method, extra)`, resp. the
    pair the executor captured under the lock (`stepReg .invoke`, `stepExec .invoke`). -/
theorem C16_gen_futNotifyOutsideLock :
    Generated.futNotifyOutsideLock = some [("set_callback", true, true), ("execute.finally", true, true)] := by
  decide

/-- `sData`, `sExc` precede `sEvt` in the model's executor program, as in both EventData methods. -/
theorem C16_gen_eventStoreOrder :
    Generated.eventStoreOrder = some [("set", ["sData", "sExc"], []), ("raise_exception", ["sData", "sExc"], [])] ∧
    EPc.sData.idx < EPc.sEvt.idx ∧ EPc.sExc.idx < EPc.sEvt.idx := by decide

/-- `__notify` catches `Exception`, logs, does not re-raise: the model's `invoke` continues at `logErr`/`fin`. -/
theorem C16_gen_notifyContains : Generated.notifyContains = some ("Exception", true, true) := by decide

/-- The guard of `__notify` is `callback is not None` — identity, not truthiness — as in the model's `rel` steps
    (`C16_notify_guard`). -/
theorem C16_gen_notifyGuard : Generated.notifyGuard = some notifyGuardShape := by decide

/-- Shape of `execute`: the outcome is stored in the except / else arms, the task's exception is re-raised,
    the lock + notify part sits in `finally` (so it runs for both outcomes, as in `stepExec`). -/
theorem C16_gen_executeShape :
    Generated.executeShape =
      some ["try:call", "except Exception:raise_exception,raise", "else:set", "finally:lock,notify"] := by decide

/-- `EventData.wait` short-circuits on a timed-out wait (model: `readExc1` with `w = false` reads nothing). -/
theorem C16_gen_waitGuard : Generated.waitGuard = some true := by decide

/-- `result(timeout)` and `EventData.wait(timeout)` forward the caller's timeout unchanged (a zero timeout stays a
    timeout: `stepObsTimeout` is enabled for every `OKind.result true`). -/
theorem C16_gen_waitTimeoutForwarded : Generated.waitTimeoutForwarded = some waitTimeoutForwarded := by decide

/-- The handler of `__notify` hands the callback's exception to the logger as a lazy argument and evaluates nothing of
    it: the model's `logErr` step cannot fail whatever the exception object is (`C16_contained`,
    `C16_contained_progress` treat the callback's error as an opaque event). -/
theorem C16_gen_futNotifyLogsExcOpaque : Generated.futNotifyLogsExcOpaque = some true := by decide

end JRV.Props
