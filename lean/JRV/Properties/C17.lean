/-
  C17 — Wire framing is exact; reassembly is independent of chunking.

  Model: JRV.Model.Wire (+ Headers.sendContent for the client's header lines).
  UTF-8 is Lean core's verified codec.  gzip and `urlparse` are outside the model (parameters:
  the theorems start from the decompressed byte stream and from a parsed URL record).
  The companion theorems of the extracted facts (`C17_gen_*`) are in JRV/Properties/C17Gen.lean.
-/
import JRV.Model.Wire
import JRV.Model.WireSession
import JRV.Lemmas.ByteBody

set_option linter.unusedSimpArgs false

namespace JRV.Props
open JRV JRV.Wire

/- ---------- helper lemmas ---------- -/

private theorem toBytes_toByteArray (s : String) : (toBytes s).toByteArray = s.toByteArray := by
  apply ByteArray.ext
  simp [toBytes, List.data_toByteArray]

private theorem toBytes_length (s : String) : (toBytes s).length = s.utf8ByteSize := by
  show s.toByteArray.data.toList.length = _
  rw [Array.length_toList]
  rfl

private theorem fromBytes_toBytes (s : String) : fromBytes (toBytes s) = .ok s := by
  unfold fromBytes
  rw [toBytes_toByteArray]
  have hv : s.toByteArray.IsValidUTF8 := s.isValidUTF8
  simp only [String.fromUTF8?, hv, ↓reduceDIte, pure, Except.pure]
  rfl

private theorem readLoop_flatten (m : Nat) : ∀ (reads : List Nat) (remaining : Nat) (stream : Bytes),
    (readLoop m remaining stream reads).flatten = stream.take (readTotal m remaining stream reads) := by
  intro reads
  induction reads with
  | nil => intro r s; simp [readLoop, readTotal]
  | cons r rs ih =>
    intro remaining stream
    simp only [readLoop, readTotal]
    split
    · simp
    · rename_i hgot
      simp only [List.flatten_cons, ih]
      rw [List.take_add]

private theorem readTotal_le (m : Nat) : ∀ (reads : List Nat) (remaining : Nat) (stream : Bytes),
    readTotal m remaining stream reads ≤ remaining ∧ readTotal m remaining stream reads ≤ stream.length := by
  intro reads
  induction reads with
  | nil => intro r s; simp [readTotal]
  | cons r rs ih =>
    intro remaining stream
    simp only [readTotal]
    split
    · simp
    · have := ih (remaining - min (min r (min remaining m)) stream.length)
        (stream.drop (min (min r (min remaining m)) stream.length))
      simp only [List.length_drop] at this
      omega

/- ---------- property theorems ---------- -/

/-- Every message declares a Content-Length equal to the UTF-8 byte length of its body and the
    configured content type: client request, HTTP server reply (a text, or `None` sent as ""), CGI
    reply of the default (UTF-8) handler. -/
theorem C17_content_length (strOf : PyVal → String) (ct ua body : String)
    (extra : Headers.HDict) (stack : List Headers.HDict) (response : Option String) :
    (clientHeaders strOf ct ua body extra stack).take 2 =
      [("Content-Type", ct), ("Content-Length", toString body.utf8ByteSize)] ∧
    (serverReply ct response).1 =
      [("Content-type", ct), ("Content-length", toString (response.getD "").utf8ByteSize)] ∧
    (serverReply ct response).2.length = (response.getD "").utf8ByteSize ∧
    (serverReply ct none).1 = [("Content-type", ct), ("Content-length", "0")] ∧ (serverReply ct none).2 = [] ∧
    cgiReply "UTF-8" ct body =
      .ok ([("Content-Type", ct), ("Content-Length", toString body.utf8ByteSize)], toBytes body) ∧
    (toBytes body).length = body.utf8ByteSize := by
  have hl := toBytes_length body
  have hr := toBytes_length (response.getD "")
  have hu : cgiEncode "UTF-8" body = .ok (toBytes body) := by
    have : (lowerName "UTF-8" == "utf-8") = true := by decide
    simp [cgiEncode, this, pure, Except.pure]
  refine ⟨?_, ?_, ?_, ?_, ?_, ?_, hl⟩
  · simp [clientHeaders, Headers.sendContent, hl]
  · simp [serverReply, hr]
  · simp [serverReply, hr]
  · have h0 : toBytes "" = [] := by decide
    simp [serverReply, h0]
    decide
  · have h0 : toBytes "" = [] := by decide
    simp [serverReply, h0]
  · simp [cgiReply, hu, hl, bind, Except.bind, pure, Except.pure]

/-- Whatever way the `try` block of `do_POST` ends — bad Content-Length header, short or undecodable
    body, dispatcher returning a text / "" / `None`, dispatcher raising — the reply carries exactly the
    configured content type and a Content-length equal to the number of body bytes written; the
    status is 200 when the dispatcher returned and 500 otherwise. -/
theorem C17_do_post_framing (m : Nat) (ct faultText : String) (cl : Option Nat) (stream : Bytes)
    (reads : List Nat) (dispatch : String → TryOutcome) :
    (doPost m ct faultText cl stream reads dispatch).2.1 =
      [("Content-type", ct), ("Content-length",
        toString (doPost m ct faultText cl stream reads dispatch).2.2.length)] ∧
    (((doPost m ct faultText cl stream reads dispatch).1 = 200 ∧
        ∃ n data resp, cl = some n ∧ serverBody m n stream reads = .ok data ∧
          dispatch data = .returned resp ∧
          (doPost m ct faultText cl stream reads dispatch).2.2 = toBytes (resp.getD "")) ∨
     ((doPost m ct faultText cl stream reads dispatch).1 = 500 ∧
        (doPost m ct faultText cl stream reads dispatch).2.2 = toBytes faultText)) := by
  unfold doPost
  cases cl with
  | none => simp [doPostReply, serverReply]
  | some n =>
    cases hb : serverBody m n stream reads with
    | error e => simp [hb, doPostReply, serverReply]
    | ok data =>
      cases hd : dispatch data with
      | raised => simp [hb, hd, doPostReply, serverReply]
      | returned resp => simp [hb, hd, doPostReply, serverReply]

/-- CGI handler with any modelled codec: when the encode succeeds the declared Content-Length is
    the length of the bytes written and the content type is the configured one; when it raises
    nothing is emitted (the result is the error, no header list exists). -/
theorem C17_cgi_length (enc ct body : String) (h : List (String × String)) (b : Bytes)
    (hok : cgiReply enc ct body = .ok (h, b)) :
    h = [("Content-Type", ct), ("Content-Length", toString b.length)] ∧ cgiEncode enc body = .ok b := by
  unfold cgiReply at hok
  cases he : cgiEncode enc body with
  | error e => simp [he, bind, Except.bind] at hok
  | ok b' =>
    simp only [he, bind, Except.bind, pure, Except.pure, Except.ok.injEq, Prod.mk.injEq] at hok
    obtain ⟨h1, h2⟩ := hok
    subst h2
    exact ⟨h1.symm, rfl⟩

/-- The one-byte codecs: the bytes written are the code points of the text, one per character. -/
theorem C17_cgi_single_byte (body : String) (b : Bytes)
    (hok : cgiEncode "latin-1" body = .ok b ∨ cgiEncode "ascii" body = .ok b) :
    b.length = body.length ∧ b.map (·.toNat) = body.toList.map (·.toNat) := by
  have key : ∀ (l : List Char), l.all (fun c => decide (c.toNat < 256)) = true →
      (l.map fun c => UInt8.ofNat c.toNat).map (·.toNat) = l.map (·.toNat) := by
    intro l hl
    induction l with
    | nil => rfl
    | cons c cs ih =>
      simp only [List.all_cons, Bool.and_eq_true, decide_eq_true_eq] at hl
      simp only [List.map_cons, List.cons.injEq]
      refine ⟨?_, ih hl.2⟩
      show (UInt8.ofNat c.toNat).toNat = c.toNat
      simp only [UInt8.toNat_ofNat']
      omega
  have weaken : ∀ (l : List Char), l.all (fun c => decide (c.toNat < 128)) = true →
      l.all (fun c => decide (c.toNat < 256)) = true := by
    intro l hl
    simp only [List.all_eq_true, decide_eq_true_eq] at hl ⊢
    intro c hc
    have := hl c hc
    omega
  rcases hok with hok | hok
  · have e1 : (lowerName "latin-1" == "utf-8" || lowerName "latin-1" == "utf8" || lowerName "latin-1" == "utf_8") = false := by decide
    have e2 : (lowerName "latin-1" == "ascii" || lowerName "latin-1" == "us-ascii") = false := by decide
    have e3 : (lowerName "latin-1" == "latin-1" || lowerName "latin-1" == "latin1" || lowerName "latin-1" == "iso-8859-1") = true := by decide
    simp only [cgiEncode, e1, e2, e3] at hok
    by_cases hall : body.toList.all (fun c => decide (c.toNat < 256)) = true
    · simp only [hall, Bool.false_eq_true, ↓reduceIte, pure, Except.pure, Except.ok.injEq] at hok
      subst hok
      exact ⟨by simp [String.length_toList], key _ hall⟩
    · simp [hall, raise] at hok
  · have e1 : (lowerName "ascii" == "utf-8" || lowerName "ascii" == "utf8" || lowerName "ascii" == "utf_8") = false := by decide
    have e2 : (lowerName "ascii" == "ascii" || lowerName "ascii" == "us-ascii") = true := by decide
    simp only [cgiEncode, e1, e2] at hok
    by_cases hall : body.toList.all (fun c => decide (c.toNat < 128)) = true
    · simp only [hall, Bool.false_eq_true, ↓reduceIte, pure, Except.pure, Except.ok.injEq] at hok
      subst hok
      exact ⟨by simp [String.length_toList], key _ (weaken _ hall)⟩
    · simp [hall, raise] at hok

/-- The emitted bytes decode back to the body (so the declared length is the length of what is
    sent): a returned text, `None` (sent as the empty body), the fault text of the 500 reply, the
    CGI reply. -/
theorem C17_body_bytes (ct body faultText : String) (response : Option String) :
    fromBytes (serverReply ct response).2 = .ok (response.getD "") ∧
    fromBytes (serverReply ct none).2 = .ok "" ∧
    fromBytes (doPostReply ct faultText .raised).2.2 = .ok faultText ∧
    fromBytes (doPostReply ct faultText (.returned response)).2.2 = .ok (response.getD "") ∧
    (∀ h b, cgiReply "UTF-8" ct body = .ok (h, b) → fromBytes b = .ok body) := by
  refine ⟨?_, ?_, ?_, ?_, ?_⟩
  · simp [serverReply, fromBytes_toBytes]
  · simpa [serverReply] using fromBytes_toBytes ""
  · simp [doPostReply, serverReply, fromBytes_toBytes]
  · simp [doPostReply, serverReply, fromBytes_toBytes]
  · intro h b hok
    have hu : cgiEncode "UTF-8" body = .ok (toBytes body) := by
      have : (lowerName "UTF-8" == "utf-8") = true := by decide
      simp [cgiEncode, this, pure, Except.pure]
    simp only [cgiReply, hu, bind, Except.bind, pure, Except.pure, Except.ok.injEq, Prod.mk.injEq] at hok
    rw [← hok.2]
    exact fromBytes_toBytes body

/-- The byte length is not the character count: a non-ASCII body shows the difference the
    conversion order protects against. -/
theorem C17_bytes_not_chars : (toBytes "é").length = 2 ∧ "é".length = 1 := by
  constructor <;> decide +kernel

/-- Client side: whatever the split of the response bytes into `feed` calls, `close` decodes the
    concatenation — for every valid UTF-8 body and every chunking the text is the body. -/
theorem C17_reassembly_client (body : String) (chunks : List Bytes) (hne : chunks ≠ [])
    (h : chunks.flatten = toBytes body) : clientClose chunks = .text body := by
  have : chunks.isEmpty = false := by cases chunks <;> simp_all
  simp [clientClose, this, h, fromBytes_toBytes]

theorem C17_reassembly_client_empty : clientClose [] = .text "" := by
  simp [clientClose]

/-- Server side: the chunks collected by the read loop always concatenate to a prefix of the
    stream, whatever the sizes of the individual reads … -/
theorem C17_server_prefix (m contentLength : Nat) (stream : Bytes) (reads : List Nat) :
    (readLoop m contentLength stream reads).flatten = stream.take (readTotal m contentLength stream reads) ∧
    readTotal m contentLength stream reads ≤ contentLength :=
  ⟨readLoop_flatten m reads contentLength stream, (readTotal_le m reads contentLength stream).1⟩

/-- … so for every valid UTF-8 body and every read schedule that delivers the announced number of
    bytes, the text handed to the dispatcher is the body: reassembly is independent of the chunking. -/
theorem C17_reassembly_server (m : Nat) (body : String) (rest : Bytes) (reads : List Nat)
    (hcomplete : readTotal m (toBytes body).length (toBytes body ++ rest) reads = (toBytes body).length) :
    serverBody m (toBytes body).length (toBytes body ++ rest) reads = .ok body := by
  unfold serverBody
  rw [readLoop_flatten, hcomplete]
  simp [fromBytes_toBytes]

/-- Two read schedules that both deliver the whole body give the same text. -/
theorem C17_chunking_independent (m : Nat) (body : String) (rest : Bytes) (reads₁ reads₂ : List Nat)
    (h₁ : readTotal m (toBytes body).length (toBytes body ++ rest) reads₁ = (toBytes body).length)
    (h₂ : readTotal m (toBytes body).length (toBytes body ++ rest) reads₂ = (toBytes body).length) :
    serverBody m (toBytes body).length (toBytes body ++ rest) reads₁ =
    serverBody m (toBytes body).length (toBytes body ++ rest) reads₂ := by
  rw [C17_reassembly_server m body rest reads₁ h₁, C17_reassembly_server m body rest reads₂ h₂]

/-- Why the order matters: decoding chunk by chunk is NOT independent of the chunking — the two-byte
    body "é" split between its bytes fails chunk-wise although the whole decodes. -/
theorem C17_chunkwise_not_independent :
    (decodeChunkwise [[0xC3], [0xA9]]).isOk = false ∧ clientClose [[0xC3], [0xA9]] = .text "é" ∧
    decodeChunkwise [[0xC3, 0xA9]] = .ok "é" := by
  decide +kernel

/-- Decoding is exact.  Whenever the text layer of the server (or of the client) decodes received bytes,
    the text re-encodes to the very bytes received: no byte is dropped, replaced or normalised — a leading
    EF BB BF stays the character U+FEFF — and two different byte strings never give the same text.  So the
    dispatcher receives exactly the decoding of the bytes that were sent, and only when they have one. -/
theorem C17_decode_exact (m n : Nat) (stream : Bytes) (reads : List Nat) (text : String)
    (h : serverBody m n stream reads = .ok text) :
    toBytes text = (readLoop m n stream reads).flatten ∧
    toBytes text = stream.take (readTotal m n stream reads) ∧
    (∀ b : Bytes, fromBytes b = .ok text → b = (readLoop m n stream reads).flatten) := by
  unfold serverBody at h
  have he := ByteBody.decode_exact _ _ h
  refine ⟨he, ?_, fun b hb => ByteBody.decode_injective _ _ _ hb h⟩
  rw [he, readLoop_flatten]

/-- Client side of the same statement: `close()` returns either the text whose encoding is the joined
    chunks, or (undecodable) the joined chunks themselves. -/
theorem C17_decode_exact_client (chunks : List Bytes) :
    (∃ s, clientClose chunks = .text s ∧ toBytes s = chunks.flatten) ∨ clientClose chunks = .raw chunks.flatten := by
  unfold clientClose
  by_cases he : chunks.isEmpty = true
  · left
    refine ⟨"", by simp [he], ?_⟩
    have : chunks = [] := by simpa using he
    subst this; decide
  · simp only [he, Bool.false_eq_true, ↓reduceIte]
    cases hd : fromBytes chunks.flatten with
    | ok s => left; exact ⟨s, rfl, ByteBody.decode_exact _ _ hd⟩
    | error e => right; rfl

/-- A byte-order mark is part of the body: a body `EF BB BF ++ rest` read in any complete schedule is handed
    to the dispatcher as `"\uFEFF" ++ t` (never as `t`). -/
theorem C17_bom_kept (m : Nat) (t : String) (rest : Bytes) (reads : List Nat)
    (hcomplete : readTotal m (toBytes ("\uFEFF" ++ t)).length (toBytes ("\uFEFF" ++ t) ++ rest) reads
      = (toBytes ("\uFEFF" ++ t)).length) :
    serverBody m (toBytes ("\uFEFF" ++ t)).length (toBytes ("\uFEFF" ++ t) ++ rest) reads = .ok ("\uFEFF" ++ t) ∧
    ("\uFEFF" ++ t).toList = Char.ofNat 0xFEFF :: t.toList ∧
    (toBytes ("\uFEFF" ++ t)).take 3 = [0xEF, 0xBB, 0xBF] := by
  refine ⟨C17_reassembly_server m _ rest reads hcomplete, by rw [String.toList_append]; rfl, ?_⟩
  have h3 : toBytes "\uFEFF" = [0xEF, 0xBB, 0xBF] := by decide +kernel
  have ha : toBytes ("\uFEFF" ++ t) = toBytes "\uFEFF" ++ toBytes t := by
    simp [toBytes, String.toUTF8, String.toByteArray_append, ByteArray.data_append]
  rw [ha, h3]; rfl

/-- Request target: path plus query unchanged, "/" for an empty path, always "/" (plus query) for
    unix+http URLs. -/
theorem C17_target (netloc path query : String) :
    let withQuery := fun (h : String) => if query == "" then h else h ++ "?" ++ query
    requestTarget ⟨"http", netloc, path, query⟩ = .ok (withQuery (if path == "" then "/" else path)) ∧
    requestTarget ⟨"https", netloc, path, query⟩ = .ok (withQuery (if path == "" then "/" else path)) ∧
    requestTarget ⟨"unix+http", netloc, path, query⟩ = .ok (withQuery "/") := by
  have h1 : splitUnix "http" = (false, "http") := by decide
  have h2 : splitUnix "https" = (false, "https") := by decide
  have h3 : splitUnix "unix+http" = (true, "http") := by decide
  refine ⟨?_, ?_, ?_⟩
  · by_cases hp : path = "" <;> by_cases hq : query = "" <;>
      simp [requestTarget, proxyInit, h1, hp, hq, bind, Except.bind, pure, Except.pure, String.append_assoc]
  · by_cases hp : path = "" <;> by_cases hq : query = "" <;>
      simp [requestTarget, proxyInit, h2, hp, hq, bind, Except.bind, pure, Except.pure, String.append_assoc]
  · by_cases hq : query = "" <;>
      simp [requestTarget, proxyInit, h3, hq, bind, Except.bind, pure, Except.pure, String.append_assoc]

private theorem splitUnix_spec (s : String) :
    (∃ r, s = "unix+" ++ r ∧ splitUnix s = (true, r)) ∨ splitUnix s = (false, s) := by
  unfold splitUnix
  split
  · rename_i rest h
    left
    refine ⟨String.ofList rest, ?_, rfl⟩
    apply String.toList_inj.mp
    simp [h, String.toList_append]
  · right; rfl

/-- Construction succeeds exactly for the schemes http, https and unix+http. -/
theorem C17_scheme (u : Url) :
    (proxyInit u).isOk = true ↔ (u.scheme = "http" ∨ u.scheme = "https" ∨ u.scheme = "unix+http") := by
  constructor
  · intro h
    rcases splitUnix_spec u.scheme with ⟨r, hs, hsp⟩ | hsp
    · simp only [proxyInit, hsp] at h
      by_cases h1 : r = "http"
      · right; right; rw [hs, h1]; decide
      · by_cases h2 : r = "https"
        · subst h2; simp [raise, Except.isOk, Except.toBool] at h
        · simp [h1, h2, raise, Except.isOk, Except.toBool] at h
    · simp only [proxyInit, hsp] at h
      by_cases h1 : u.scheme = "http"
      · left; exact h1
      · by_cases h2 : u.scheme = "https"
        · right; left; exact h2
        · simp [h1, h2, raise, Except.isOk, Except.toBool] at h
  · rintro (h | h | h) <;> simp only [proxyInit, h]
    · have : splitUnix "http" = (false, "http") := by decide
      simp [this, Except.isOk, Except.toBool, pure, Except.pure]
    · have : splitUnix "https" = (false, "https") := by decide
      simp [this, Except.isOk, Except.toBool, pure, Except.pure]
    · have : splitUnix "unix+http" = (true, "http") := by decide
      simp [this, Except.isOk, Except.toBool, pure, Except.pure]

/- Non-vacuity of `C17_decode_exact` / `C17_bom_kept`: the five bytes EF BB BF 7B 7D read one, then four. -/
example : serverBody 10 5 [0xEF, 0xBB, 0xBF, 0x7B, 0x7D] [1, 4] = .ok "\uFEFF{}" := by decide +kernel
example : readTotal 10 (toBytes ("\uFEFF" ++ "{}")).length (toBytes ("\uFEFF" ++ "{}") ++ []) [1, 4] = (toBytes ("\uFEFF" ++ "{}")).length := by
  decide +kernel
example : clientClose [[0xEF, 0xBB], [0xBF, 0x7B, 0x7D]] = .text "\uFEFF{}" ∧ clientClose [[0xFF, 0xFE]] = .raw [0xFF, 0xFE] := by
  decide +kernel
/- Non-vacuity: a schedule of short reads that delivers a 2-byte body one byte at a time. -/
example : readTotal 10 2 [0xC3, 0xA9] [1, 1] = 2 := by decide
example : readLoop 10 2 [0xC3, 0xA9] [1, 1] = [[0xC3], [0xA9]] := by decide
/- Non-vacuity of `C17_cgi_length` / `C17_cgi_single_byte`: "é" is one byte in latin-1, and is rejected by ascii. -/
example : cgiReply "latin-1" "application/json" "é" =
    .ok ([("Content-Type", "application/json"), ("Content-Length", "1")], [0xE9]) := by decide +kernel
example : cgiEncode "latin-1" "é" = .ok [0xE9] ∧ (cgiEncode "ascii" "é").isOk = false ∧ cgiEncode "ascii" "a" = .ok [0x61] := by
  decide +kernel
/- Both branches of `C17_do_post_framing` are inhabited: an echoing dispatcher on a body read in two
   pieces (200), and the same body cut short (undecodable prefix → 500 with the fault text). -/
example : doPost 10 "t" "F" (some 2) [0xC3, 0xA9] [1, 1] (fun d => .returned (some d)) =
    (200, [("Content-type", "t"), ("Content-length", "2")], [0xC3, 0xA9]) := by decide +kernel
example : doPost 10 "t" "F" (some 2) [0xC3, 0xA9] [1] (fun d => .returned (some d)) =
    (500, [("Content-type", "t"), ("Content-length", "1")], [0x46]) := by decide +kernel
example : doPost 10 "t" "F" (some 2) [0xC3, 0xA9] [2] (fun _ => .returned none) =
    (200, [("Content-type", "t"), ("Content-length", "0")], []) := by decide +kernel

/- ====================================================================================================================
   ONE transport object, a SEQUENCE of responses (JRV.Model.WireSession): "received bodies are reassembled independently
   of how the bytes are split into reads" for the response that is being read — whatever came through the same transport
   before it, and however that ended.
   ==================================================================================================================== -/

/-- INDEPENDENCE OF THE HISTORY.  A transport whose `getparser()` builds a new target for every response, each with a
    buffer of its own (`C17_gen_getparserFresh`, `C17_gen_targetOwnBuffer`), gives every response of a sequence the
    outcome it would have had on a transport that never parsed anything: earlier responses — read to their end, or
    abandoned by a read that raised after any number of chunks had been fed — leave nothing behind. -/
theorem C17_session_independent (cfg : SessionCfg) (hf : cfg.freshParser = true) (ho : cfg.ownBuffer = true)
    (st : TState) (rs : List Resp) :
    session cfg st rs = rs.map parseAlone := by
  induction rs generalizing st with
  | nil => rfl
  | cons r rest ih =>
    simp only [session, List.map_cons, ih]
    congr 1
    simp only [parseStep, startBuffer, hf, ho, Bool.and_self, ↓reduceIte, List.nil_append, parseAlone]
    cases r.ending <;> rfl

/-- REASSEMBLY IN A SEQUENCE.  The `k`-th response of any sequence, if it is read to its end and its bytes are the
    UTF-8 encoding of `body`, is returned as `body` — for every chunking of it, every number and kind of responses before
    and after it, every point at which an earlier one failed. -/
theorem C17_session_reassembly (cfg : SessionCfg) (hf : cfg.freshParser = true) (ho : cfg.ownBuffer = true)
    (st : TState) (rs : List Resp) (k : Nat) (r : Resp) (hk : rs[k]? = some r) (hend : r.ending = .eof)
    (body : String) (hb : r.bytes = toBytes body) :
    (session cfg st rs)[k]? = some (.ok (.text body)) := by
  rw [C17_session_independent cfg hf ho, List.getElem?_map, hk]
  simp only [Option.map_some, parseAlone, hend]
  cases hc : r.chunks with
  | nil =>
    have : toBytes body = [] := by rw [← hb, Resp.bytes, hc]; rfl
    have hbody : body = "" := by
      have h1 := fromBytes_toBytes body
      rw [this] at h1
      have h2 : fromBytes [] = .ok "" := by decide
      rw [h2] at h1
      injection h1 with h1; exact h1.symm
    rw [hbody, C17_reassembly_client_empty]
  | cons c cs =>
    rw [← hc, C17_reassembly_client body r.chunks (by rw [hc]; simp) (by rw [← hb]; rfl)]

/-- A response whose read raises is reported as that error: no text is made up from what had been read, then or later. -/
theorem C17_session_error_reported (cfg : SessionCfg) (hf : cfg.freshParser = true) (ho : cfg.ownBuffer = true)
    (st : TState) (rs : List Resp) (k : Nat) (r : Resp) (hk : rs[k]? = some r) (cls : String)
    (hend : r.ending = .error cls) :
    (session cfg st rs)[k]? = some (raise cls) := by
  rw [C17_session_independent cfg hf ho, List.getElem?_map, hk]
  simp [parseAlone, hend]

/-- Why the two facts matter: a transport that REUSES its target and empties the buffer only in `close()` — or whose
    targets share one class-level buffer — prepends the bytes of a response that failed in the middle of its body to the
    next one: `{"a"` read, then the connection is reset; the healthy `{}` that follows is returned as `{"a"{}`. -/
theorem C17_reused_parser_not_independent :
    session { freshParser := false, closeResets := true } {}
        [{ chunks := [toBytes "{\"a\""], ending := .error "ConnectionResetError" }, { chunks := [toBytes "{}"] }]
      = [raise "ConnectionResetError", .ok (.text "{\"a\"{}")] ∧
    session { ownBuffer := false, closeResets := true } {}
        [{ chunks := [toBytes "{\"a\""], ending := .error "ConnectionResetError" }, { chunks := [toBytes "{}"] }]
      = [raise "ConnectionResetError", .ok (.text "{\"a\"{}")] ∧
    session {} {}
        [{ chunks := [toBytes "{\"a\""], ending := .error "ConnectionResetError" }, { chunks := [toBytes "{}"] }]
      = [raise "ConnectionResetError", .ok (.text "{}")] := by
  decide +kernel

/- Non-vacuity of `C17_session_reassembly`: third response of four, "é" cut inside the character, after a response that
   failed with two chunks fed and one that was read to its end. -/
example : ([{ chunks := [[0x7B], [0x22]], ending := .error "IncompleteRead" }, { chunks := [toBytes "[]"] },
            { chunks := [[0xC3], [0xA9]] }, { chunks := [], ending := .error "timeout" }] : List Resp)[2]? =
      some { chunks := [[0xC3], [0xA9]] } ∧
    ({ chunks := [[0xC3], [0xA9]] } : Resp).bytes = toBytes "é" := by
  decide +kernel

end JRV.Props
