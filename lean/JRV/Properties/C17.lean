/-
  C17 — Wire framing is exact; reassembly is independent of chunking.

  Model: JRV.Model.Wire (+ Headers.sendContent for the client's header lines).
  UTF-8 is Lean core's verified codec.  gzip and `urlparse` are outside the model (parameters:
  the theorems start from the decompressed byte stream and from a parsed URL record).
-/
import JRV.Model.Wire
import JRV.Generated

set_option linter.unusedSimpArgs false

namespace JRV.Props
open JRV JRV.Wire

/- ---------- helper lemmas ---------- -/

private theorem toBytes_toByteArray (s : String) : (toBytes s).toByteArray = s.toByteArray := by
  apply ByteArray.ext
  simp [toBytes, List.data_toByteArray]

private theorem toBytes_length (s : String) : (toBytes s).length = s.utf8ByteSize := by
  show s.toByteArray.data.toList.length = _
  rw [Array.length_toList]
  rfl

private theorem fromBytes_toBytes (s : String) : fromBytes (toBytes s) = .ok s := by
  unfold fromBytes
  rw [toBytes_toByteArray]
  have hv : s.toByteArray.IsValidUTF8 := s.isValidUTF8
  simp only [String.fromUTF8?, hv, ↓reduceDIte, pure, Except.pure]
  rfl

private theorem readLoop_flatten (m : Nat) : ∀ (reads : List Nat) (remaining : Nat) (stream : Bytes),
    (readLoop m remaining stream reads).flatten = stream.take (readTotal m remaining stream reads) := by
  intro reads
  induction reads with
  | nil => intro r s; simp [readLoop, readTotal]
  | cons r rs ih =>
    intro remaining stream
    simp only [readLoop, readTotal]
    split
    · simp
    · rename_i hgot
      simp only [List.flatten_cons, ih]
      rw [List.take_add]

private theorem readTotal_le (m : Nat) : ∀ (reads : List Nat) (remaining : Nat) (stream : Bytes),
    readTotal m remaining stream reads ≤ remaining ∧ readTotal m remaining stream reads ≤ stream.length := by
  intro reads
  induction reads with
  | nil => intro r s; simp [readTotal]
  | cons r rs ih =>
    intro remaining stream
    simp only [readTotal]
    split
    · simp
    · have := ih (remaining - min (min r (min remaining m)) stream.length)
        (stream.drop (min (min r (min remaining m)) stream.length))
      simp only [List.length_drop] at this
      omega

/- ---------- property theorems ---------- -/

/-- Every message declares a Content-Length equal to the UTF-8 byte length of its body and the
    configured content type: client request, HTTP server reply, CGI reply. -/
theorem C17_content_length (strOf : PyVal → String) (ct ua body : String)
    (extra : Headers.HDict) (stack : List Headers.HDict) :
    (clientHeaders strOf ct ua body extra stack).take 2 =
      [("Content-Type", ct), ("Content-Length", toString body.utf8ByteSize)] ∧
    (serverReply ct body).1 = [("Content-type", ct), ("Content-length", toString body.utf8ByteSize)] ∧
    (serverReply ct body).2.length = body.utf8ByteSize ∧
    (cgiReply ct body).1 = [("Content-Type", ct), ("Content-Length", toString body.utf8ByteSize)] ∧
    (cgiReply ct body).2.length = body.utf8ByteSize := by
  have hl := toBytes_length body
  simp [clientHeaders, Headers.sendContent, serverReply, cgiReply, hl]

/-- The emitted bytes decode back to the body (so the declared length is the length of what is sent). -/
theorem C17_body_bytes (ct body : String) :
    fromBytes (serverReply ct body).2 = .ok body ∧ fromBytes (cgiReply ct body).2 = .ok body := by
  simp [serverReply, cgiReply, fromBytes_toBytes]

/-- The byte length is not the character count: a non-ASCII body shows the difference the
    conversion order protects against. -/
theorem C17_bytes_not_chars : (toBytes "é").length = 2 ∧ "é".length = 1 := by
  constructor <;> decide +kernel

/-- Client side: whatever the split of the response bytes into `feed` calls, `close` decodes the
    concatenation — for every valid UTF-8 body and every chunking the text is the body. -/
theorem C17_reassembly_client (body : String) (chunks : List Bytes) (hne : chunks ≠ [])
    (h : chunks.flatten = toBytes body) : clientClose chunks = .text body := by
  have : chunks.isEmpty = false := by cases chunks <;> simp_all
  simp [clientClose, this, h, fromBytes_toBytes]

theorem C17_reassembly_client_empty : clientClose [] = .text "" := by
  simp [clientClose]

/-- Server side: the chunks collected by the read loop always concatenate to a prefix of the
    stream, whatever the sizes of the individual reads … -/
theorem C17_server_prefix (m contentLength : Nat) (stream : Bytes) (reads : List Nat) :
    (readLoop m contentLength stream reads).flatten = stream.take (readTotal m contentLength stream reads) ∧
    readTotal m contentLength stream reads ≤ contentLength :=
  ⟨readLoop_flatten m reads contentLength stream, (readTotal_le m reads contentLength stream).1⟩

/-- … so for every valid UTF-8 body and every read schedule that delivers the announced number of
    bytes, the text handed to the dispatcher is the body: reassembly is independent of the chunking. -/
theorem C17_reassembly_server (m : Nat) (body : String) (rest : Bytes) (reads : List Nat)
    (hcomplete : readTotal m (toBytes body).length (toBytes body ++ rest) reads = (toBytes body).length) :
    serverBody m (toBytes body).length (toBytes body ++ rest) reads = .ok body := by
  unfold serverBody
  rw [readLoop_flatten, hcomplete]
  simp [fromBytes_toBytes]

/-- Two read schedules that both deliver the whole body give the same text. -/
theorem C17_chunking_independent (m : Nat) (body : String) (rest : Bytes) (reads₁ reads₂ : List Nat)
    (h₁ : readTotal m (toBytes body).length (toBytes body ++ rest) reads₁ = (toBytes body).length)
    (h₂ : readTotal m (toBytes body).length (toBytes body ++ rest) reads₂ = (toBytes body).length) :
    serverBody m (toBytes body).length (toBytes body ++ rest) reads₁ =
    serverBody m (toBytes body).length (toBytes body ++ rest) reads₂ := by
  rw [C17_reassembly_server m body rest reads₁ h₁, C17_reassembly_server m body rest reads₂ h₂]

/-- Why the order matters: decoding chunk by chunk is NOT independent of the chunking — the two-byte
    body "é" split between its bytes fails chunk-wise although the whole decodes. -/
theorem C17_chunkwise_not_independent :
    (decodeChunkwise [[0xC3], [0xA9]]).isOk = false ∧ clientClose [[0xC3], [0xA9]] = .text "é" ∧
    decodeChunkwise [[0xC3, 0xA9]] = .ok "é" := by
  decide +kernel

/-- Request target: path plus query unchanged, "/" for an empty path, always "/" (plus query) for
    unix+http URLs. -/
theorem C17_target (netloc path query : String) :
    let withQuery := fun (h : String) => if query == "" then h else h ++ "?" ++ query
    requestTarget ⟨"http", netloc, path, query⟩ = .ok (withQuery (if path == "" then "/" else path)) ∧
    requestTarget ⟨"https", netloc, path, query⟩ = .ok (withQuery (if path == "" then "/" else path)) ∧
    requestTarget ⟨"unix+http", netloc, path, query⟩ = .ok (withQuery "/") := by
  have h1 : splitUnix "http" = (false, "http") := by decide
  have h2 : splitUnix "https" = (false, "https") := by decide
  have h3 : splitUnix "unix+http" = (true, "http") := by decide
  refine ⟨?_, ?_, ?_⟩
  · by_cases hp : path = "" <;> by_cases hq : query = "" <;>
      simp [requestTarget, proxyInit, h1, hp, hq, bind, Except.bind, pure, Except.pure, String.append_assoc]
  · by_cases hp : path = "" <;> by_cases hq : query = "" <;>
      simp [requestTarget, proxyInit, h2, hp, hq, bind, Except.bind, pure, Except.pure, String.append_assoc]
  · by_cases hq : query = "" <;>
      simp [requestTarget, proxyInit, h3, hq, bind, Except.bind, pure, Except.pure, String.append_assoc]

private theorem splitUnix_spec (s : String) :
    (∃ r, s = "unix+" ++ r ∧ splitUnix s = (true, r)) ∨ splitUnix s = (false, s) := by
  unfold splitUnix
  split
  · rename_i rest h
    left
    refine ⟨String.ofList rest, ?_, rfl⟩
    apply String.toList_inj.mp
    simp [h, String.toList_append]
  · right; rfl

/-- Construction succeeds exactly for the schemes http, https and unix+http. -/
theorem C17_scheme (u : Url) :
    (proxyInit u).isOk = true ↔ (u.scheme = "http" ∨ u.scheme = "https" ∨ u.scheme = "unix+http") := by
  constructor
  · intro h
    rcases splitUnix_spec u.scheme with ⟨r, hs, hsp⟩ | hsp
    · simp only [proxyInit, hsp] at h
      by_cases h1 : r = "http"
      · right; right; rw [hs, h1]; decide
      · by_cases h2 : r = "https"
        · subst h2; simp [raise, Except.isOk, Except.toBool] at h
        · simp [h1, h2, raise, Except.isOk, Except.toBool] at h
    · simp only [proxyInit, hsp] at h
      by_cases h1 : u.scheme = "http"
      · left; exact h1
      · by_cases h2 : u.scheme = "https"
        · right; left; exact h2
        · simp [h1, h2, raise, Except.isOk, Except.toBool] at h
  · rintro (h | h | h) <;> simp only [proxyInit, h]
    · have : splitUnix "http" = (false, "http") := by decide
      simp [this, Except.isOk, Except.toBool, pure, Except.pure]
    · have : splitUnix "https" = (false, "https") := by decide
      simp [this, Except.isOk, Except.toBool, pure, Except.pure]
    · have : splitUnix "unix+http" = (true, "http") := by decide
      simp [this, Except.isOk, Except.toBool, pure, Except.pure]

/-- Tie to the source. -/
theorem C17_gen_lenAfterToBytes : Generated.lenAfterToBytes = some (true, true, true) := by decide
theorem C17_gen_serverDecodesAfterJoin : Generated.serverDecodesAfterJoin = some true := by decide
theorem C17_gen_clientDecodesAfterJoin : Generated.clientDecodesAfterJoin = some true := by decide
theorem C17_gen_maxChunk : Generated.maxChunkSize = some maxChunkSize := by decide
theorem C17_gen_contentTypeFromConfig : Generated.contentTypeFromConfig = some (true, true, true) := by decide
theorem C17_gen_schemes : Generated.acceptedSchemes = some (["http", "https"], "unix+") := by decide

/- Non-vacuity: a schedule of short reads that delivers a 2-byte body one byte at a time. -/
example : readTotal 10 2 [0xC3, 0xA9] [1, 1] = 2 := by decide
example : readLoop 10 2 [0xC3, 0xA9] [1, 1] = [[0xC3], [0xA9]] := by decide

end JRV.Props
