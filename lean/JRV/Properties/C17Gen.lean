/-
  C17 — companion theorems of the facts extracted from the source (tools/extractors/wire.py).
  Kept apart from JRV/Properties/C17.lean so that a source edit that changes one extracted fact
  fails its companion only; the property theorems (about the model) stay discharged.
-/
import JRV.Model.Wire
import JRV.Model.WireSession
import JRV.Properties.C17
import JRV.Generated

namespace JRV.Props
open JRV JRV.Wire

/-- Content-Length is `len()` of the converted bytes (client `send_content`, server `do_POST`, CGI):
    the model's `clientHeaders`/`serverReply`/`cgiReply` take the length after `toBytes`/`cgiEncode`. -/
theorem C17_gen_lenAfterToBytes : Generated.lenAfterToBytes = some (true, true, true) := by decide
/-- `do_POST` decodes the joined chunks once, outside the read loop (`serverBody` = `fromBytes ∘ flatten`). -/
theorem C17_gen_serverDecodesAfterJoin : Generated.serverDecodesAfterJoin = some true := by decide
/-- `JSONTarget.feed` buffers raw chunks, `close` joins and decodes once (`clientClose`). -/
theorem C17_gen_clientDecodesAfterJoin : Generated.clientDecodesAfterJoin = some true := by decide
theorem C17_gen_maxChunk : Generated.maxChunkSize = some maxChunkSize := by decide
theorem C17_gen_contentTypeFromConfig : Generated.contentTypeFromConfig = some (true, true, true) := by decide
theorem C17_gen_schemes : Generated.acceptedSchemes = some (["http", "https"], "unix+") := by decide
/-- `ServerProxy.__init__` takes the handler from `su.path` and the query string from `su.query`
    with no call applied (`proxyInit`/`requestTarget` use `u.path` and `u.query` verbatim). -/
theorem C17_gen_handlerFromUrl : Generated.handlerFromUrl = some (true, true) := by decide
/-- `single_request` hands its `handler` unchanged to `send_request`, which passes it unchanged as the
    second argument of every `putrequest` call (the model's target is what reaches the request line). -/
theorem C17_gen_targetForwarded : Generated.targetForwarded = some (true, true) := by decide

/- ===== byte layer (tools/extractors/bytelayer.py) — section added for the byte-level input classes ===== -/

/-- `utils.from_bytes` decodes with the strict UTF-8 codec, one call on the argument itself: the model's
    `Wire.fromBytes` (`String.fromUTF8?`), for which `C17_decode_exact` holds.  `utf-8-sig` (drops a leading
    EF BB BF) or an `errors=` handler (replaces / ignores undecodable bytes) is another function. -/
theorem C17_gen_fromBytesCodec : Generated.fromBytesCodec = some ("utf-8", false) := by decide
/-- `utils.to_bytes` encodes with the strict UTF-8 codec: the model's `Wire.toBytes` (`String.toUTF8`). -/
theorem C17_gen_toBytesCodec : Generated.toBytesCodec = some ("utf-8", false) := by decide

/- ===== one transport, a sequence of responses (tools/extractors/wiresession.py; model JRV.Model.WireSession) ===== -/

/-- `TransportMixIn.getparser` builds a new `JSONTarget()` on every call and returns `(JSONParser(it), it)`: the model's
    `SessionCfg.freshParser`. -/
theorem C17_gen_getparserFresh : Generated.getparserFresh = some true := by decide
/-- `JSONTarget.__init__` gives every instance a buffer of its own (`self.data = []`): `SessionCfg.ownBuffer`. -/
theorem C17_gen_targetOwnBuffer : Generated.targetOwnBuffer = some true := by decide

/-- The session configuration the extracted facts stand for … -/
def sessionCfgOfFacts : Option SessionCfg := do
  let f ← Generated.getparserFresh
  let o ← Generated.targetOwnBuffer
  pure { freshParser := f, ownBuffer := o }

/-- … is the one `C17_session_independent` asks for: with its hypotheses discharged from the source, every response of
    every sequence through one transport has the outcome it would have on a transport that never parsed anything. -/
theorem C17_gen_session_independent (cfg : SessionCfg) (h : sessionCfgOfFacts = some cfg) (st : TState) (rs : List Resp) :
    session cfg st rs = rs.map parseAlone := by
  have hc : sessionCfgOfFacts = some {} := by decide
  rw [hc] at h
  cases h
  exact C17_session_independent _ rfl rfl st rs

end JRV.Props
