/-
  C18 — Custom headers compose by recency and are restored after a block.

  Model: JRV.Model.Headers.  Theorems hold for every conversion function `strOf` (Python's `str`),
  every `_extra_headers` list, every stack of dictionaries of any depth (the property lists 0–4),
  every header name and every block tree, whatever the class of the exception that leaves a block
  (`Exception` subclass, direct `BaseException` subclass, `GeneratorExit`, `SystemExit`).

  The companion theorems of the extracted facts (`C18_gen_*`) are in JRV/Properties/C18Gen.lean.
-/
import JRV.Model.Headers

set_option linter.unusedSimpArgs false

namespace JRV.Props
open JRV JRV.Headers

/- ---------- helper lemmas (not property statements) ---------- -/

private theorem assocGet_assocSet (d : List (String × String)) (k x n : String) :
    assocGet (assocSet d k x) n = if k == n then some x else assocGet d n := by
  induction d with
  | nil => simp [assocSet, assocGet]
  | cons hd tl ih =>
    obtain ⟨k', v'⟩ := hd
    simp only [assocSet]
    by_cases h : (k' == k) = true
    · have hk : k' = k := by simpa using h
      subst hk
      by_cases hn : (k' == n) = true <;> simp [assocGet, hn]
    · simp only [h, Bool.false_eq_true, ↓reduceIte, assocGet, ih]
      by_cases hn : (k' == n) = true
      · have : k' = n := by simpa using hn
        subst this
        have : (k == k') = false := by
          have : k' ≠ k := by simpa using h
          simpa using fun e => this e.symm
        simp [this]
      · simp [hn]

/-- keys of the dict, in order -/
private def keys (d : List (String × String)) : List String := d.map (·.1)

private theorem keys_assocSet (d : List (String × String)) (k x : String) :
    keys (assocSet d k x) = if k ∈ keys d then keys d else keys d ++ [k] := by
  induction d with
  | nil => simp [assocSet, keys]
  | cons hd tl ih =>
    obtain ⟨k', v'⟩ := hd
    simp only [assocSet]
    by_cases h : (k' == k) = true
    · have hk : k' = k := by simpa using h
      subst hk
      simp [keys]
    · have hne : k' ≠ k := by simpa using h
      have hne' : k ≠ k' := fun e => hne e.symm
      simp only [h, Bool.false_eq_true, ↓reduceIte]
      simp only [keys, List.map_cons, List.mem_cons, hne', false_or] at ih ⊢
      rw [ih]
      split <;> simp_all

private theorem nodup_assocSet (d : List (String × String)) (k x : String) (h : (keys d).Nodup) :
    (keys (assocSet d k x)).Nodup := by
  rw [keys_assocSet]
  split
  · exact h
  · rename_i hk
    exact List.nodup_append.mpr ⟨h, by simp, by
      intro a ha b hb
      simp only [List.mem_singleton] at hb
      subst hb
      intro e; subst e; exact hk ha⟩

private theorem nodup_mergeInto (strOf : PyVal → String) (items : HDict) :
    ∀ acc, (keys acc).Nodup → (keys (mergeInto strOf acc items)).Nodup := by
  induction items with
  | nil => intro acc h; simpa [mergeInto] using h
  | cons hd tl ih =>
    intro acc h
    simp only [mergeInto, List.foldl_cons]
    exact ih _ (nodup_assocSet _ _ _ h)

private theorem merged_eq (strOf : PyVal → String) (stack : List HDict) :
    ∀ acc, stack.foldl (mergeInto strOf) acc = mergeInto strOf acc stack.flatten := by
  induction stack with
  | nil => intro acc; simp [mergeInto]
  | cons h t ih =>
    intro acc
    simp only [List.foldl_cons, List.flatten_cons, ih]
    simp [mergeInto, List.foldl_append]

private theorem merged_all (strOf : PyVal → String) (extra : HDict) (stack : List HDict) :
    merged strOf extra stack = mergeInto strOf [] (allItems extra stack) := by
  simp [merged, merged_eq, allItems, mergeInto, List.foldl_append]

private theorem lastDef_cons (kv : String × PyVal) (rest : HDict) (n : String) :
    lastDef (kv :: rest) n =
      match lastDef rest n with
      | some v => some v
      | none => if kv.1.toLower == n then some kv.2 else none := by
  simp only [lastDef, List.reverse_cons, List.find?_append]
  cases h : rest.reverse.find? (fun kv => kv.1.toLower == n) with
  | some x => simp
  | none => by_cases hk : (kv.1.toLower == n) = true <;> simp [List.find?, hk]

private theorem assocGet_mergeInto (strOf : PyVal → String) (items : HDict) (n : String) :
    ∀ acc, assocGet (mergeInto strOf acc items) n =
      match lastDef items n with
      | some v => some (strOf v)
      | none => assocGet acc n := by
  induction items with
  | nil => intro acc; simp [mergeInto, lastDef]
  | cons hd tl ih =>
    intro acc
    have := ih (assocSet acc hd.1.toLower (strOf hd.2))
    simp only [mergeInto, List.foldl_cons] at this ⊢
    rw [this, lastDef_cons, assocGet_assocSet]
    cases lastDef tl n <;> simp
    split <;> simp_all

private theorem filter_key_of_nodup (d : List (String × String)) (n : String) (h : (keys d).Nodup) :
    d.filter (fun kv => kv.1 == n) =
      match assocGet d n with
      | some x => [(n, x)]
      | none => [] := by
  induction d with
  | nil => simp [assocGet]
  | cons hd tl ih =>
    obtain ⟨k, v⟩ := hd
    simp only [keys, List.map_cons, List.nodup_cons] at h
    have ih' := ih h.2
    by_cases hk : (k == n) = true
    · have : k = n := by simpa using hk
      subst this
      have hnot : assocGet tl k = none := by
        -- k is not a key of tl
        have : k ∉ tl.map (·.1) := h.1
        clear ih ih' h
        induction tl with
        | nil => simp [assocGet]
        | cons hd2 tl2 ih2 =>
          obtain ⟨k2, v2⟩ := hd2
          simp only [List.map_cons, List.mem_cons, not_or] at this
          have hne : (k2 == k) = false := by simpa using fun e => this.1 e.symm
          simp [assocGet, hne, ih2 this.2]
      simp only [List.filter_cons, hk, ↓reduceIte, assocGet, ih', hnot]
    · simp only [List.filter_cons, hk, Bool.false_eq_true, ↓reduceIte, assocGet, ih']

private theorem assocGet_filter (d : List (String × String)) (p : String → Bool) (n : String) (hp : p n = true) :
    assocGet (d.filter fun kv => p kv.1) n = assocGet d n := by
  induction d with
  | nil => simp [assocGet]
  | cons hd tl ih =>
    obtain ⟨k, v⟩ := hd
    by_cases hk : (k == n) = true
    · have : k = n := by simpa using hk
      subst this
      simp [List.filter_cons, hp, assocGet]
    · by_cases hpk : p k = true <;> simp [List.filter_cons, hpk, assocGet, hk, ih]

private theorem keys_filter_nodup (d : List (String × String)) (p : String × String → Bool) (h : (keys d).Nodup) :
    (keys (d.filter p)).Nodup := by
  simp only [keys] at h ⊢
  exact List.Nodup.sublist (List.Sublist.map _ List.filter_sublist) h

/- ---------- property theorems ---------- -/

/-- The value the request carries for a (lower-cased) custom header name is the `str()` of the value
    from the most recently pushed dictionary that defines it — exactly once, never a superseded
    value — and a name nobody defines is not sent. -/
theorem C18_recency (strOf : PyVal → String) (extra : HDict) (stack : List HDict) (n : String)
    (hn : readonly.contains n = false) :
    (additional strOf extra stack).filter (fun kv => kv.1 == n) =
      match lastDef (allItems extra stack) n with
      | some v => [(n, strOf v)]
      | none => [] := by
  have hnd : (keys (merged strOf extra stack)).Nodup := by
    rw [merged_all]; exact nodup_mergeInto _ _ _ (by simp [keys])
  have hnd' := keys_filter_nodup (merged strOf extra stack) (fun kv => !readonly.contains kv.1) hnd
  unfold additional
  rw [filter_key_of_nodup _ _ hnd']
  rw [assocGet_filter (merged strOf extra stack) (fun k => !readonly.contains k) n (by rw [hn]; rfl)]
  rw [merged_all, assocGet_mergeInto]
  cases lastDef (allItems extra stack) n <;> simp [assocGet]

/-- Content-Length and Content-Type can never be overridden: they are emitted first with the fixed
    values, and no custom header line carries either name (custom names are emitted lower-cased). -/
theorem C18_protected (strOf : PyVal → String) (contentType : String) (bodyLen : Nat) (ua : String)
    (extra : HDict) (stack : List HDict) :
    (sendContent strOf contentType bodyLen ua extra stack).take 2 =
        [("Content-Type", contentType), ("Content-Length", toString bodyLen)] ∧
    (∀ kv ∈ additional strOf extra stack, kv.1 ≠ "content-length" ∧ kv.1 ≠ "content-type") ∧
    (sendContent strOf contentType bodyLen ua extra stack).drop 2 =
        additional strOf extra stack ++
          (if (assocGet (additional strOf extra stack) "user-agent").isSome then [] else [("User-Agent", ua)]) := by
  refine ⟨by simp [sendContent], ?_, by simp [sendContent]⟩
  intro kv hkv
  simp only [additional, List.mem_filter, readonly] at hkv
  have := hkv.2
  constructor <;> intro e <;> simp [e] at this

/-- User-Agent is the configured one unless some pushed dictionary overrides it, in which case the
    most recent override is sent and the default is not. -/
theorem C18_user_agent (strOf : PyVal → String) (contentType : String) (bodyLen : Nat) (ua : String)
    (extra : HDict) (stack : List HDict) :
    match lastDef (allItems extra stack) "user-agent" with
    | some v =>
        (additional strOf extra stack).filter (fun kv => kv.1 == "user-agent") = [("user-agent", strOf v)] ∧
        (sendContent strOf contentType bodyLen ua extra stack).drop 2 = additional strOf extra stack
    | none =>
        (additional strOf extra stack).filter (fun kv => kv.1 == "user-agent") = [] ∧
        (sendContent strOf contentType bodyLen ua extra stack).drop 2 =
          additional strOf extra stack ++ [("User-Agent", ua)] := by
  have hrec := C18_recency strOf extra stack "user-agent" (by decide)
  have hget : assocGet (additional strOf extra stack) "user-agent" =
      (lastDef (allItems extra stack) "user-agent").map strOf := by
    unfold additional
    rw [assocGet_filter (merged strOf extra stack) (fun k => !readonly.contains k) "user-agent" (by decide)]
    rw [merged_all, assocGet_mergeInto]
    cases lastDef (allItems extra stack) "user-agent" <;> simp [assocGet]
  cases h : lastDef (allItems extra stack) "user-agent" with
  | some v => simp only [h] at hrec hget; simp [hrec, sendContent, hget]
  | none => simp only [h] at hrec hget; simp [hrec, sendContent, hget]

/- ---------- "User-Agent is the configured one": from `Config(user_agent=…)` to the header line ---------- -/

/-- Specification side: the value the program configured LAST — the constructor argument, or the value of the latest
    `cfg.user_agent = v` (copies configure nothing). -/
def lastConfigured (arg : PyVal) : List CfgStep → PyVal
  | [] => arg
  | .copy :: rest => lastConfigured arg rest
  | .store v :: rest => lastConfigured v rest

/-- No step stores `None` into the attribute (the way to ask for the default is the constructor's `None`; what a
    `None` stored afterwards means is not said by the property: `copy()` would turn it into the default, a transport
    built directly from the object would hand `None` to `putheader`). -/
def noNoneStore : List CfgStep → Bool
  | [] => true
  | .copy :: rest => noNoneStore rest
  | .store .none :: _ => false
  | .store _ :: rest => noNoneStore rest

private theorem configInit_idem (dflt a : PyVal) : configInit dflt (configInit dflt a) = configInit dflt a := by
  cases a <;> simp [configInit]
  cases dflt <;> simp [configInit]

private theorem configInit_of_ne (dflt v : PyVal) (h : v ≠ .none) : configInit dflt v = v := by
  cases v <;> simp_all [configInit]

private theorem foldl_cfgStep (dflt : PyVal) : ∀ (steps : List CfgStep) (a : PyVal), noNoneStore steps = true →
    steps.foldl (cfgStep dflt) (configInit dflt a) = configInit dflt (lastConfigured a steps)
  | [], a, _ => by simp [lastConfigured]
  | .copy :: rest, a, h => by
    simp only [List.foldl_cons, cfgStep, configInit_idem, lastConfigured]
    exact foldl_cfgStep dflt rest a (by simpa [noNoneStore] using h)
  | .store v :: rest, a, h => by
    have hv : v ≠ .none := by intro e; subst e; simp [noNoneStore] at h
    have hr : noNoneStore rest = true := by cases v <;> simp_all [noNoneStore]
    simp only [List.foldl_cons, cfgStep, lastConfigured]
    have := foldl_cfgStep dflt rest v hr
    rwa [configInit_of_ne dflt v hv] at this

/-- The `user_agent` a transport takes from the configuration is the value configured last, VERBATIM — whatever it is
    (an empty string, blanks, `0`, …) — and the process default exactly when that value is `None`; through any number of
    `copy()` calls and attribute stores, for `Transport`, `SafeTransport` and `UnixTransport` alike. -/
theorem C18_configured_agent (dflt arg : PyVal) (steps : List CfgStep) (h : noNoneStore steps = true) :
    transportAgent (configAgent dflt arg steps) =
      match lastConfigured arg steps with
      | .none => dflt
      | v => v := by
  simp only [transportAgent, configAgent, foldl_cfgStep dflt steps arg h]
  cases lastConfigured arg steps <;> simp [configInit]

/-- … and this is what the request carries: a configured string `s` — every string, the empty one included — is sent
    as the one `User-Agent` line unless a pushed dictionary defines the name, in which case no `User-Agent` line of the
    configuration is sent (`C18_user_agent` says the most recent override is). -/
theorem C18_user_agent_configured (strOf : PyVal → String) (contentType : String) (bodyLen : Nat) (dflt : String)
    (arg : PyVal) (steps : List CfgStep) (extra : HDict) (stack : List HDict) (h : noNoneStore steps = true)
    (s : String) (hs : (match lastConfigured arg steps with | .none => PyVal.str dflt | v => v) = .str s) :
    ∃ lines, sendContentCfg strOf contentType bodyLen (configAgent (.str dflt) arg steps) extra stack = some lines ∧
      lines.take 2 = [("Content-Type", contentType), ("Content-Length", toString bodyLen)] ∧
      lines.drop 2 = additional strOf extra stack ++
        (match lastDef (allItems extra stack) "user-agent" with
         | some _ => []
         | none => [("User-Agent", s)]) := by
  have hag := C18_configured_agent (.str dflt) arg steps h
  rw [hs] at hag
  refine ⟨sendContent strOf contentType bodyLen s extra stack, by simp [sendContentCfg, hag], by simp [sendContent], ?_⟩
  have hua := C18_user_agent strOf contentType bodyLen s extra stack
  cases hl : lastDef (allItems extra stack) "user-agent" with
  | some v => simp only [hl] at hua; simpa using hua.2
  | none => simp only [hl] at hua; simpa using hua.2

/- Non-vacuity of `C18_user_agent_configured` / the case of the seeded defect: `Config(user_agent="")`, copied, no
   override: the request carries `User-Agent:` with the empty value, not the library default. -/
example : sendContentCfg (fun _ => "?") "application/json-rpc" 2 (configAgent (.str "jsonrpclib/x (Python y)") (.str "") [.copy])
      [] [[]] =
    some [("Content-Type", "application/json-rpc"), ("Content-Length", toString 2), ("User-Agent", "")] := by
  simp [sendContentCfg, transportAgent, configAgent, cfgStep, configInit, sendContent, additional, merged, mergeInto, assocGet]

/- `None` asks for the default; a later store wins over the constructor argument; hypotheses satisfiable. -/
example : configAgent (.str "D") .none [.copy, .copy] = .str "D" ∧
    configAgent (.str "D") (.str "a") [.copy, .store (.str " "), .copy] = .str " " ∧
    noNoneStore [.copy, .store (.str " "), .copy] = true ∧
    lastConfigured (.str "a") [.copy, .store (.str " "), .copy] = .str " " := by
  simp [configAgent, cfgStep, configInit, noNoneStore, lastConfigured]

private theorem popHeaders_push (stack : List HDict) (h : HDict) : popHeaders (stack ++ [h]) h = some stack := by
  simp only [popHeaders, List.reverse_append, List.reverse_cons, List.reverse_nil, List.nil_append,
    List.singleton_append, List.reverse_reverse]
  have : (h.zip h).all (fun p => p.1.1 == p.2.1 && p.1.2 == p.2.2) = true := by
    induction h with
    | nil => simp
    | cons hd tl ih => simp [List.zip_cons_cons, ih]
  simp [this]

mutual
  private theorem runBlock_restores : ∀ (b : Block) (stack : List HDict),
      (runBlock stack b).stack = stack ∧ (runBlock stack b).assertFailed = false
    | .call, stack => by simp [runBlock]
    | .raise k, stack => by simp [runBlock]
    | .nest h body, stack => by
      have ih := runBody_restores body (stack ++ [h])
      simp only [runBlock, ih.1, popHeaders_push]
      exact ⟨trivial, ih.2⟩
  private theorem runBody_restores : ∀ (bs : List Block) (stack : List HDict),
      (runBody stack bs).stack = stack ∧ (runBody stack bs).assertFailed = false
    | [], stack => by simp [runBody]
    | b :: rest, stack => by
      have h1 := runBlock_restores b stack
      simp only [runBody]
      split
      · exact h1
      · have h2 := runBody_restores rest (runBlock stack b).stack
        rw [h1.1] at h2
        simp only [h1.1]
        exact h2
end

/-- On leaving an `_additional_headers` block — normally or through an exception of any kind raised
    at any depth — the header stack is exactly the one in force before entering it, and
    `pop_headers`' assertion never fails; for every block tree. -/
theorem C18_restore (b : Block) (stack : List HDict) :
    (runBlock stack b).stack = stack ∧ (runBlock stack b).assertFailed = false :=
  runBlock_restores b stack

/-- The same for a whole statement list (the code of a program using one proxy). -/
theorem C18_restore_body (bs : List Block) (stack : List HDict) :
    (runBody stack bs).stack = stack ∧ (runBody stack bs).assertFailed = false :=
  runBody_restores bs stack

mutual
  /-- The first `raise` reached in program order (specification side: read off the block tree). -/
  def firstRaise : Block → Option ExcKind
    | .call => none
    | .raise k => some k
    | .nest _ body => firstRaiseL body
  def firstRaiseL : List Block → Option ExcKind
    | [] => none
    | b :: rest =>
      match firstRaise b with
      | some k => some k
      | none => firstRaiseL rest
end

mutual
  private theorem runBlock_exit : ∀ (b : Block) (stack : List HDict), (runBlock stack b).raised = firstRaise b
    | .call, stack => by simp [runBlock, firstRaise]
    | .raise k, stack => by simp [runBlock, firstRaise]
    | .nest h body, stack => by
      have ih := runBody_exit body (stack ++ [h])
      have hr := runBody_restores body (stack ++ [h])
      simp only [runBlock, hr.1, popHeaders_push, firstRaise]
      exact ih
  private theorem runBody_exit : ∀ (bs : List Block) (stack : List HDict), (runBody stack bs).raised = firstRaiseL bs
    | [], stack => by simp [runBody, firstRaiseL]
    | b :: rest, stack => by
      have h1 := runBlock_exit b stack
      have h2 := runBody_exit rest (runBlock stack b).stack
      simp only [runBody, firstRaiseL]
      cases hb : firstRaise b with
      | some k => simp [h1, hb]
      | none => simp [h1, hb, h2]
end

/-- The exception that comes out of a block is the first one raised inside it, of whatever kind: the
    block neither swallows nor replaces it (and with `C18_restore` the stack is restored while it
    propagates).  In particular a block without a `raise` ends normally. -/
theorem C18_exit_kind (b : Block) (stack : List HDict) : (runBlock stack b).raised = firstRaise b :=
  runBlock_exit b stack

/-- … and inside the block the requests see the stack extended by the block's dictionary; a request
    after a block left through an exception of kind `k` is not reached, and `k` propagates. -/
theorem C18_block_scope (h : HDict) (stack : List HDict) (k : ExcKind) :
    (runBlock stack (.nest h [.call])).seen = [stack ++ [h]] ∧
    (runBody stack [.nest h [.raise k], .call]).raised = some k ∧
    (runBody stack [.nest h [.raise k], .call]).seen = [] ∧
    (runBody stack [.nest h [.call], .call]).seen = [stack ++ [h], stack] ∧
    (runBody stack [.nest h [.call], .nest h [.call], .call]).seen = [stack ++ [h], stack ++ [h], stack] := by
  simp [runBlock, runBody, popHeaders_push]

/- Non-vacuity of `C18_exit_kind` / `C18_restore`: a `SystemExit` raised two blocks deep comes out, with
   the stack restored and the request before it seen with both dictionaries. -/
example :
    (runBlock [[("a", .str "0")]] (.nest [("X", .str "1")] [.nest [("Y", .str "2")] [.call, .raise .systemExit], .call])).raised
        = some .systemExit ∧
    (runBlock [[("a", .str "0")]] (.nest [("X", .str "1")] [.nest [("Y", .str "2")] [.call, .raise .systemExit], .call])).stack
        = [[("a", .str "0")]] ∧
    (runBlock [[("a", .str "0")]] (.nest [("X", .str "1")] [.nest [("Y", .str "2")] [.call, .raise .systemExit], .call])).seen
        = [[[("a", .str "0")], [("X", .str "1")], [("Y", .str "2")]]] := by
  refine ⟨by simp [C18_exit_kind, firstRaise, firstRaiseL], (C18_restore _ _).1, ?_⟩
  have h1 := popHeaders_push [[("a", PyVal.str "0")], [("X", .str "1")]] [("Y", .str "2")]
  have h2 := popHeaders_push [[("a", PyVal.str "0")]] [("X", .str "1")]
  simp only [List.cons_append, List.nil_append] at h1 h2
  simp [runBlock, runBody, h1, h2]

/- Non-vacuity: the stack of the original defect. -/
example : additional (fun v => match v with | .str s => s | _ => "?") []
    [[("x-test", .str "1")], [("X-Test", .str "2")], [("x-test", .str "3")]] = [("x-test", "3")] := by
  have e1 : "X-Test".toLower = "x-test" := by decide +kernel
  have e2 : "x-test".toLower = "x-test" := by decide +kernel
  simp [additional, merged, mergeInto, assocSet, readonly, e1, e2]

/- Non-vacuity of the hypothesis of `C18_recency`: a custom name is not read-only; the read-only ones are excluded
   there and covered by `C18_protected`. -/
example : readonly.contains "x-test" = false ∧ readonly.contains "user-agent" = false ∧
    readonly.contains "content-length" = true := by decide +kernel

end JRV.Props
