/-
  C18 — companion theorems of the facts extracted from jsonrpclib/jsonrpc.py (tools/extractors/headers.py).

  Kept apart from JRV/Properties/C18.lean so that a source edit which changes one extracted fact fails
  this module only: the property theorems (about the model) stay discharged and the evidence names the
  fact that no longer matches.
-/
import JRV.Model.Headers
import JRV.Generated

namespace JRV.Props
open JRV JRV.Headers

/-- `TransportMixIn.readonly_headers` is the list the model filters out (`Headers.readonly`). -/
theorem C18_gen_readonly : Generated.readonlyHeaders = some readonly := by decide

/-- Every store into the merged dictionary made while iterating over the pushed dictionaries uses a
    lower-cased key (`Headers.mergeInto` lower-cases while merging). -/
theorem C18_gen_mergeLowercases : Generated.headerMergeLowercasesKeys = some true := by decide

/-- `ServerProxy._additional_headers` pops in a `finally` around its `yield` (`Headers.runBlock` pops
    whatever the kind of the propagating exception). -/
theorem C18_gen_blockFinally : Generated.headersBlockPopInFinally = some true := by decide

end JRV.Props
