/-
  C18 — companion theorems of the facts extracted from jsonrpclib/jsonrpc.py (tools/extractors/headers.py).

  Kept apart from JRV/Properties/C18.lean so that a source edit which changes one extracted fact fails
  this module only: the property theorems (about the model) stay discharged and the evidence names the
  fact that no longer matches.
-/
import JRV.Model.Headers
import JRV.Generated

namespace JRV.Props
open JRV JRV.Headers

/-- `TransportMixIn.readonly_headers` is the list the model filters out (`Headers.readonly`). -/
theorem C18_gen_readonly : Generated.readonlyHeaders = some readonly := by decide

/-- Every store into the merged dictionary made while iterating over the pushed dictionaries uses a
    lower-cased key (`Headers.mergeInto` lower-cases while merging). -/
theorem C18_gen_mergeLowercases : Generated.headerMergeLowercasesKeys = some true := by decide

/-- `ServerProxy._additional_headers` pops in a `finally` around its `yield` (`Headers.runBlock` pops
    whatever the kind of the propagating exception). -/
theorem C18_gen_blockFinally : Generated.headersBlockPopInFinally = some true := by decide

/- ====================================================================================================
   Section added for "User-Agent is the configured one": facts of tools/extractors/headers2.py
   (jsonrpclib/config.py `Config.__init__` / `Config.copy`; jsonrpclib/jsonrpc.py `TransportMixIn.__init__`,
   `send_content`, the transports' constructors, `ServerProxy.__init__`).
   ==================================================================================================== -/

/-- What `Config.__init__` does with its `user_agent` argument is what `Headers.configInit` does: the argument is stored
    as it is, and replaced by the default exactly when it is `None` (not when it is merely falsy). -/
theorem C18_gen_configAgentDefaulting :
    ∃ r, Generated.configAgentDefaulting = some r ∧ ∀ dflt v, applyRule r dflt v = some (configInit dflt v) :=
  ⟨"is-none", by decide, by intro dflt v; cases v <;> simp [applyRule, configInit]⟩

/-- `Config.copy` hands `self.user_agent`, unconverted, to the constructor's `user_agent` parameter
    (`Headers.cfgStep … .copy` = `configInit` of the attribute). -/
theorem C18_gen_configCopyAgent :
    ∃ r, Generated.configCopyAgent = some r ∧
      ∀ dflt attr, (applyRule r dflt attr).map (configInit dflt) = some (cfgStep dflt attr .copy) :=
  ⟨"verbatim", by decide, by intro dflt attr; simp [applyRule, cfgStep]⟩

/-- `TransportMixIn.__init__` stores `config.user_agent` as it is (`Headers.transportAgent`). -/
theorem C18_gen_transportAgent :
    ∃ r, Generated.transportAgentFromConfig = some r ∧ ∀ dflt v, applyRule r dflt v = some (transportAgent v) :=
  ⟨"verbatim", by decide, by intro dflt v; simp [applyRule, transportAgent]⟩

/-- The `User-Agent` line of `send_content` carries the transport's `user_agent` attribute, unconverted
    (`Headers.sendContentCfg` passes `transportAgent …` on). -/
theorem C18_gen_sendsTransportAgent : Generated.sendContentSendsTransportAgent = some true := by decide

/-- `Transport`, `SafeTransport` and `UnixTransport` give their `config` to `TransportMixIn.__init__`. -/
theorem C18_gen_transportsForwardConfig :
    Generated.transportsForwardConfig = some (transports.map fun t => (t, true)) := by decide

/-- Every transport `ServerProxy.__init__` builds gets the proxy's own `config`. -/
theorem C18_gen_proxyTransportsGetConfig :
    Generated.proxyTransportsGetConfig = some (transports.map fun t => (t, true)) := by decide

end JRV.Props
