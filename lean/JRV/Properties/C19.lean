/-
  C19 — Transport faults are contained: no foreign results, and the proxy recovers.

  Model: JRV.Model.Transport.  The theorems are about the library's logic (two attempts on
  disconnect-class errors, close-on-error, drain-when-length, empty body ⇒ None) *given* the environment
  model of http.client and the peer stated in the model file; that environment model is what the scripted
  raw-socket correspondence validates.  Labelled partial for that reason (kernel RST/FIN timing).
-/
import JRV.Model.Transport
import JRV.Generated

set_option linter.unusedSimpArgs false

namespace JRV.Props
open JRV.Transport

/- ---------- helpers ---------- -/

private theorem exchange_spec (c : Conn) (tok : Nat) (b : Beh) (hc : c.inbound = []) :
    (∀ o c', exchange c tok b = .done o c' → Cache.clean c' = true ∧ (∀ t, o = .result t → t = tok)) := by
  intro o c' h
  cases b <;> simp_all [exchange, Cache.clean]
  all_goals (try (obtain ⟨rfl, rfl⟩ := h; simp [Cache.clean, hc]))

private theorem attempt_spec (cache : Cache) (tok : Nat) (bs : List Beh) (hc : Cache.clean cache = true) :
    ∀ o c' bs', attempt cache tok bs = (.done o c', bs') →
      Cache.clean c' = true ∧ (∀ t, o = .result t → t = tok) := by
  intro o c' bs' h
  cases cache with
  | none =>
    cases bs with
    | nil =>
      simp only [attempt, Prod.mk.injEq] at h
      exact exchange_spec {} tok .okKeep rfl o c' h.1
    | cons b rest =>
      cases b <;> simp only [attempt, Prod.mk.injEq] at h
      all_goals first
        | exact exchange_spec {} tok _ rfl o c' h.1
        | (obtain ⟨h1, _⟩ := h; cases h1; simp [Cache.clean])
  | some c =>
    have hin : c.inbound = [] := by simpa [Cache.clean] using hc
    simp only [attempt] at h
    split at h
    · simp at h
    · split at h
      · simp only [Prod.mk.injEq] at h; obtain ⟨h1, _⟩ := h; cases h1; simp [Cache.clean]
      · cases bs with
        | nil => simp only [Prod.mk.injEq] at h; exact exchange_spec c tok .okKeep hin o c' h.1
        | cons b rest => simp only [Prod.mk.injEq] at h; exact exchange_spec c tok b hin o c' h.1

private theorem clean_map_stale (cache : Cache) (h : Cache.clean cache = true) :
    Cache.clean (cache.map fun c => { c with stale := true }) = true := by
  cases cache <;> simp_all [Cache.clean]

/- ---------- property theorems ---------- -/

/-- Each call either returns the result of its *own* request (its own token) or raises; and it leaves no
    unread reply behind, so the next call starts from a clean connection — for every script. -/
theorem C19_own_or_raise (cache : Cache) (tok : Nat) (bs : List Beh) (hc : Cache.clean cache = true) :
    Cache.clean (call cache tok bs).2 = true ∧ ∀ t, (call cache tok bs).1 = .result t → t = tok := by
  unfold call
  simp only
  have hc' : Cache.clean (if bs.head? = some Beh.down then cache.map (fun c => { c with stale := true }) else cache) = true := by
    split
    · exact clean_map_stale cache hc
    · exact hc
  generalize (if bs.head? = some Beh.down then cache.map (fun c => { c with stale := true }) else cache) = cache' at hc'
  cases h1 : attempt cache' tok bs with
  | mk a bs' =>
    cases a with
    | done o c => exact attempt_spec cache' tok bs hc' o c bs' h1
    | retryable =>
      simp only
      cases h2 : attempt none tok bs' with
      | mk a2 bs'' =>
        cases a2 with
        | done o c => exact attempt_spec none tok bs' rfl o c bs'' h2
        | retryable => simp [Cache.clean]

/-- Over a whole session (any fault script, any number of calls): the i-th call never returns anything but
    the result of the i-th request — a fault never makes a later call return a stale or foreign response. -/
theorem C19_session_own : ∀ (scripts : List (List Beh)) (cache : Cache) (tok : Nat), Cache.clean cache = true →
    ∀ i t, (session cache tok scripts).1[i]? = some (.result t) → t = tok + i := by
  intro scripts
  induction scripts with
  | nil => intro cache tok _ i t h; simp [session] at h
  | cons bs rest ih =>
    intro cache tok hc i t h
    have hcall := C19_own_or_raise cache tok bs hc
    simp only [session] at h
    cases i with
    | zero =>
      simp only [List.getElem?_cons_zero, Option.some.injEq] at h
      simpa using hcall.2 t h
    | succ j =>
      simp only [List.getElem?_cons_succ] at h
      have := ih (call cache tok bs).2 (tok + 1) hcall.1 j t h
      omega

/-- A non-200 reply surfaces as `TransportError` carrying that status, on a new or a healthy cached connection. -/
theorem C19_transport_error (tok code : Nat) (rest : List Beh) (c : Conn)
    (hs : c.stale = false) (hp : c.pending = false) :
    (call none tok (.statusLen code :: rest)).1 = .transportError code ∧
    (call none tok (.statusNoLenClose code :: rest)).1 = .transportError code ∧
    (call none tok (.bodiless code :: rest)).1 = .transportError code ∧
    (call (some c) tok (.statusLen code :: rest)).1 = .transportError code ∧
    (call (some c) tok (.statusNoLenClose code :: rest)).1 = .transportError code ∧
    (call (some c) tok (.bodiless code :: rest)).1 = .transportError code := by
  simp [call, attempt, exchange, hs, hp]

/-- Recovery: once faults stop (healthy scripts), from *every* clean cache state at most one further call
    fails before a call succeeds — and from then on every healthy call succeeds. -/
theorem C19_recovery (cache : Cache) (tok : Nat) (hc : Cache.clean cache = true) :
    (call cache tok []).1 = .result tok ∨
    (call (call cache tok []).2 (tok + 1) []).1 = .result (tok + 1) := by
  cases cache with
  | none => left; simp [call, attempt, exchange]
  | some c =>
    have hin : c.inbound = [] := by simpa [Cache.clean] using hc
    by_cases hs : c.stale = true
    · left; simp [call, attempt, exchange, hs]
    · by_cases hp : c.pending = true
      · right; simp [call, attempt, exchange, hp, hs]
      · left; simp [call, attempt, exchange, hp, hs, hin]

theorem C19_healthy_stays (cache : Cache) (tok : Nat) (hc : Cache.clean cache = true)
    (hok : (call cache tok []).1 = .result tok) :
    (call (call cache tok []).2 (tok + 1) []).1 = .result (tok + 1) := by
  cases cache with
  | none => simp [call, attempt, exchange]
  | some c =>
    have hin : c.inbound = [] := by simpa [Cache.clean] using hc
    by_cases hs : c.stale = true
    · simp [call, attempt, exchange, hs]
    · by_cases hp : c.pending = true
      · simp [call, attempt, exchange, hp, hs] at hok
      · simp [call, attempt, exchange, hp, hs, hin]

/-- The bound is tight: after a bodiless status the next healthy call does fail once. -/
theorem C19_recovery_tight :
    (session none 0 [[.bodiless 204], [], []]).1 = [.transportError 204, .other "http-state", .result 2] := by
  decide

/-- Tie to the source. -/
theorem C19_gen_closeOnError : Generated.singleRequestClosesOnError = some true := by decide
theorem C19_gen_drainWhenLength : Generated.singleRequestDrainsWhenLength = some true := by decide
theorem C19_gen_emptyBodyNone : Generated.runRequestEmptyBodyNone = some true := by decide

/- Non-vacuity -/
example : (session none 7 [[.okClose], [.closeBeforeReply, .okKeep], [.statusLen 500], [.truncated], []]).1 =
    [.result 7, .other "disconnected", .transportError 500, .other "decode", .result 11] := by decide

end JRV.Props
