/-
  C19 — Transport faults are contained: no foreign results, and the proxy recovers.

  Model: JRV.Model.Transport.  The theorems are about the library's logic (two attempts on disconnect-class
  errors, close-on-error, the `status == 200` test, drain-when-length, empty body ⇒ None) *given* the environment
  model of http.client, the peer and the kernel stated in the model file; that environment model is what the
  scripted raw-socket correspondence validates (harness/props/c19.py).  They hold for every value of the two
  `Lib` switches (draining or not, closing or not when no length is announced).

  What carries which claim:
    * "TransportError carrying the status for every non-200 reply" (`C19_transport_error`) and the recovery
      bound (`C19_recovery*`) are library logic: the `== 200` test, close-on-error, the retry of `request`.
    * "never a stale or foreign result" is, for the faults of the property's alphabet, carried by the environment:
      http.client frames replies by Content-Length, discards read-ahead with the response and refuses to read a
      new response while one is unread.  The library adds one thing, visible in the model: unread bytes that do not
      parse make the next use fail and close-on-error then drops *everything* unread with the connection — so a
      complete foreign reply hidden behind such bytes (`statusLongLate _ (some k)`) is never returned.  Those
      theorems are therefore named `_partial`, and `C19_full_statement` says what is not true of the library:
      it does not compare reply ids, so a peer that breaks HTTP framing by sending a complete unsolicited reply
      after the answer (`okThenLate`, outside the property's fault alphabet) makes the next call on that
      connection return it (`C19_unsolicited_reply_is_returned`, reproduced on real sockets by the harness).
    * Replies delivered in pieces (`Beh.scripted`: informational responses first, pauses after the status line / the
      header block / inside the body / before surplus bytes, a body as long as, longer or shorter than announced) are
      framed behaviours: the `_partial` and recovery theorems quantify over them too.  `C19_split_*` say what each
      shape surfaces as; `C19_split_cut_short_raises_incomplete` is the one place where a non-200 reply does not
      surface as `TransportError` (its body is also truncated: `IncompleteRead`).  The source-level fact these rest on
      — a response that is not read is left open (`pending`), never closed unread — is `C19_gen_responseNotClosedUnread`.
-/
import JRV.Model.Transport

set_option linter.unusedSimpArgs false

namespace JRV.Props
open JRV.Transport

/- ---------- helpers ---------- -/

private theorem safe_parts (c : Conn) (h : c.safe = true) :
    c.desync = false ∧ (c.inbound = [] ∨ ∃ rest, c.inbound = .junk :: rest) := by
  unfold Conn.safe at h
  cases hd : c.desync <;> simp [hd] at h
  cases hi : c.inbound with
  | nil => simp
  | cons x rest => cases x <;> simp_all

private theorem afterLength_safe (lib : Lib) (c : Conn) (h : c.safe = true) : Cache.safe (afterLength lib c) = true := by
  unfold afterLength
  cases lib.drain <;> simpa [Cache.safe, Conn.safe] using h

private theorem surplusLeft_safe (late : Bool) (c : Conn) (h : c.safe = true) : (surplusLeft late c).safe = true := by
  obtain ⟨hd, _⟩ := safe_parts c h
  unfold surplusLeft
  cases late <;> simp [Conn.safe, hd, h]
  simpa [Conn.safe, hd] using h

private theorem afterLength_map_surplus_safe (lib : Lib) (late : Bool) (c : Conn) (h : c.safe = true) :
    Cache.safe ((afterLength lib c).map (surplusLeft late)) = true := by
  obtain ⟨hd, _⟩ := safe_parts c h
  unfold afterLength surplusLeft
  cases lib.drain <;> cases late <;> simp [Cache.safe, Conn.safe, hd] <;> simpa [Conn.safe, hd] using h

private theorem afterOk_safe (fr : Framing) (c : Conn) (h : c.safe = true) : Cache.safe (afterOk fr c) = true := by
  cases fr <;> simp [afterOk, Framing.keeps, Cache.safe, h]

/-- A reply delivered in pieces, whatever its pieces: own token or an exception, nothing left that could be taken for
    an answer. -/
private theorem deliver_spec (lib : Lib) (c : Conn) (tok : Nat) (r : Reply) (hc : c.safe = true) :
    ∀ o c', deliver lib c tok r = .done o c' →
      Cache.safe c' = true ∧ (∀ t, o = .result t → t = tok) ∧ o ≠ .other "Unmodelled" := by
  intro o c' h
  obtain ⟨hd, _⟩ := safe_parts c hc
  have hal := afterLength_safe lib c hc
  have hcs : Cache.safe (some c) = true := hc
  have hst : Cache.safe (some { c with stale := true }) = true := by simpa [Cache.safe, Conn.safe] using hc
  have hpd : Cache.safe (some { c with pending := true }) = true := by simpa [Cache.safe, Conn.safe] using hc
  have hps : Cache.safe (some { c with pending := true, stale := true }) = true := by simpa [Cache.safe, Conn.safe] using hc
  have hnl : Cache.safe (if lib.closeNoLen then none else some { c with pending := true }) = true := by
    cases lib.closeNoLen
    · exact hpd
    · rfl
  have hnl' : ∀ st, Cache.safe (if lib.closeNoLen then none else some { c with pending := true, stale := st }) = true := by
    intro st
    cases lib.closeNoLen
    · simpa [Cache.safe, Conn.safe] using hc
    · rfl
  unfold deliver at h
  split at h
  · simp only [Att.done.injEq] at h; obtain ⟨rfl, rfl⟩ := h
    exact ⟨hnl' _, by simp, by simp⟩
  · split at h
    all_goals try (simp only [Att.done.injEq] at h; obtain ⟨rfl, rfl⟩ := h)
    · exact ⟨hcs, by simp, by simp⟩
    · exact ⟨surplusLeft_safe _ c hc, by simp, by simp⟩
    · exact ⟨hst, by simp, by simp⟩
    · exact ⟨rfl, by simp, by simp⟩
    · exact ⟨hal, by simp, by simp⟩
    · exact ⟨afterLength_map_surplus_safe lib _ c hc, by simp, by simp⟩
    · split at h <;> (simp only [Att.done.injEq] at h; obtain ⟨rfl, rfl⟩ := h)
      · exact ⟨hst, by simp, by simp⟩
      · exact ⟨hps, by simp, by simp⟩
    · exact ⟨hal, by simp, by simp⟩
    · exact ⟨hnl, by simp, by simp⟩

private theorem exchange_spec (lib : Lib) (c : Conn) (tok : Nat) (b : Beh) (hc : c.safe = true) (hb : b.framed = true) :
    ∀ o c', exchange lib c tok b = .done o c' →
      Cache.safe c' = true ∧ (∀ t, o = .result t → t = tok) ∧ o ≠ .other "Unmodelled" := by
  intro o c' h
  obtain ⟨hd, hi⟩ := safe_parts c hc
  rcases hi with hi | ⟨rest, hi⟩
  · have hal := afterLength_safe lib c hc
    have hcs : Cache.safe (some c) = true := hc
    have hst : Cache.safe (some { c with stale := true }) = true := by simpa [Cache.safe, Conn.safe] using hc
    cases b <;> simp only [exchange, hi] at h
    case okThenLate => simp [Beh.framed] at hb
    case scripted r => exact deliver_spec lib c tok r hc o c' h
    case status code len body =>
      cases len <;> simp only [Att.done.injEq] at h <;> obtain ⟨rfl, rfl⟩ := h
      · exact ⟨rfl, by simp, by simp⟩
      · exact ⟨hal, by simp, by simp⟩
    case bodiless nm len =>
      cases len <;> simp only [Att.done.injEq] at h <;> obtain ⟨rfl, rfl⟩ := h
      · refine ⟨?_, by simp, by simp⟩
        cases lib.closeNoLen <;> simp [Cache.safe, Conn.safe, hd, hi]
      · exact ⟨hal, by simp, by simp⟩
    case statusLongNow code =>
      simp only [Att.done.injEq] at h
      obtain ⟨rfl, rfl⟩ := h
      exact ⟨hal, by simp, by simp⟩
    case statusChunked code body =>
      simp only [Att.done.injEq] at h
      obtain ⟨rfl, rfl⟩ := h
      refine ⟨?_, by simp, by simp⟩
      cases lib.closeNoLen <;> simp [Cache.safe, Conn.safe, hd, hi]
    case okBody t fr =>
      simp only [Att.done.injEq] at h
      obtain ⟨rfl, rfl⟩ := h
      exact ⟨afterOk_safe fr c hc, by simp, by simp⟩
    case badBody200 t fr =>
      simp only [Att.done.injEq] at h
      obtain ⟨rfl, rfl⟩ := h
      exact ⟨afterOk_safe fr c hc, by simp, by simp⟩
    case statusLongLate code r =>
      simp only [Att.done.injEq] at h
      obtain ⟨rfl, rfl⟩ := h
      refine ⟨?_, by simp, by simp⟩
      unfold afterLength
      cases lib.drain <;> simp [Cache.safe, Conn.safe, hd]
    all_goals first
      | (simp at h; done)
      | (simp only [Att.done.injEq] at h; obtain ⟨rfl, rfl⟩ := h
         first
           | exact ⟨hcs, by simp, by simp⟩
           | exact ⟨hst, by simp, by simp⟩
           | (refine ⟨?_, by simp, by simp⟩; simp [Cache.safe, Conn.safe, hd]))
  · simp only [exchange, hi, Att.done.injEq] at h
    obtain ⟨rfl, rfl⟩ := h
    simp [Cache.safe]

private theorem fresh_safe : Conn.safe {} = true := by decide

private theorem attempt_spec (lib : Lib) (cache : Cache) (tok : Nat) (bs : List Beh)
    (hc : Cache.safe cache = true) (hbs : bs.all Beh.framed = true) :
    ∀ o c' bs', attempt lib cache tok bs = (.done o c', bs') →
      Cache.safe c' = true ∧ (∀ t, o = .result t → t = tok) ∧ o ≠ .other "Unmodelled" := by
  intro o c' bs' h
  cases cache with
  | none =>
    cases bs with
    | nil =>
      simp only [attempt, Prod.mk.injEq] at h
      exact exchange_spec lib {} tok .okKeep fresh_safe rfl o c' h.1
    | cons b rest =>
      have hb : b.framed = true := by simp only [List.all_cons, Bool.and_eq_true] at hbs; exact hbs.1
      cases b <;> simp only [attempt, Prod.mk.injEq] at h
      case down => obtain ⟨h1, _⟩ := h; cases h1; simp [Cache.safe]
      all_goals exact exchange_spec lib {} tok _ fresh_safe hb o c' h.1
  | some c =>
    have hcs : c.safe = true := hc
    obtain ⟨hd, _⟩ := safe_parts c hcs
    simp only [attempt, hd, Bool.false_eq_true, ↓reduceIte] at h
    split at h
    · simp at h
    · split at h
      · simp only [Prod.mk.injEq] at h; obtain ⟨h1, _⟩ := h; cases h1; simp [Cache.safe]
      · cases bs with
        | nil => simp only [Prod.mk.injEq] at h; exact exchange_spec lib c tok .okKeep hcs rfl o c' h.1
        | cons b rest =>
          have hb : b.framed = true := by simp only [List.all_cons, Bool.and_eq_true] at hbs; exact hbs.1
          simp only [Prod.mk.injEq] at h; exact exchange_spec lib c tok b hcs hb o c' h.1

/-- the behaviours an attempt leaves unconsumed are a suffix of the script -/
private theorem attempt_rest_framed (lib : Lib) (cache : Cache) (tok : Nat) (bs : List Beh)
    (hbs : bs.all Beh.framed = true) : (attempt lib cache tok bs).2.all Beh.framed = true := by
  cases cache with
  | none =>
    cases bs with
    | nil => simp [attempt]
    | cons b rest =>
      simp only [List.all_cons, Bool.and_eq_true] at hbs
      cases b <;> simp [attempt, hbs.2]
  | some c =>
    simp only [attempt]
    split
    · simp
    · split
      · exact hbs
      · split
        · simp
        · cases bs with
          | nil => simp
          | cons b rest => simp only [List.all_cons, Bool.and_eq_true] at hbs; simp [hbs.2]

private theorem safe_map_stale (cache : Cache) (h : Cache.safe cache = true) :
    Cache.safe (cache.map fun c => { c with stale := true }) = true := by
  cases cache with
  | none => simp [Cache.safe]
  | some c => simpa [Cache.safe, Conn.safe] using h

/- ---------- no foreign results ---------- -/

/-- Each call either returns the result of its *own* request (its own token) or raises; it leaves the cached
    connection in a state from which no foreign reply can be returned, and the model describes it
    (never "Unmodelled") — for every script of a peer that never sends a complete unsolicited reply
    (`Beh.framed`: every fault of the property's alphabet, surplus bytes and hidden replies included). -/
theorem C19_own_or_raise_partial (lib : Lib) (cache : Cache) (tok : Nat) (bs : List Beh)
    (hc : Cache.safe cache = true) (hbs : bs.all Beh.framed = true) :
    Cache.safe (call lib cache tok bs).2 = true ∧ (∀ t, (call lib cache tok bs).1 = .result t → t = tok) ∧
    (call lib cache tok bs).1 ≠ .other "Unmodelled" := by
  unfold call
  simp only
  have hc' : Cache.safe (if bs.head? = some Beh.down then cache.map (fun c => { c with stale := true }) else cache) = true := by
    split
    · exact safe_map_stale cache hc
    · exact hc
  generalize (if bs.head? = some Beh.down then cache.map (fun c => { c with stale := true }) else cache) = cache' at hc'
  cases h1 : attempt lib cache' tok bs with
  | mk a bs' =>
    cases a with
    | done o c => exact attempt_spec lib cache' tok bs hc' hbs o c bs' h1
    | retryable =>
      simp only
      have hbs' : bs'.all Beh.framed = true := by
        have := attempt_rest_framed lib cache' tok bs hbs
        rw [h1] at this
        exact this
      cases h2 : attempt lib none tok bs' with
      | mk a2 bs'' =>
        cases a2 with
        | done o c => exact attempt_spec lib none tok bs' rfl hbs' o c bs'' h2
        | retryable => simp [Cache.safe]

/-- Over a whole session (any fault script of framed behaviours, any number of calls): the i-th call never returns
    anything but the result of the i-th request — a fault never makes a later call return a stale or foreign
    response. -/
theorem C19_session_own_partial (lib : Lib) : ∀ (scripts : List (List Beh)) (cache : Cache) (tok : Nat),
    Cache.safe cache = true → scripts.all (fun bs => bs.all Beh.framed) = true →
    ∀ i t, (session lib cache tok scripts).1[i]? = some (.result t) → t = tok + i := by
  intro scripts
  induction scripts with
  | nil => intro cache tok _ _ i t h; simp [session] at h
  | cons bs rest ih =>
    intro cache tok hc hall i t h
    simp only [List.all_cons, Bool.and_eq_true] at hall
    have hcall := C19_own_or_raise_partial lib cache tok bs hc hall.1
    simp only [session] at h
    cases i with
    | zero =>
      simp only [List.getElem?_cons_zero, Option.some.injEq] at h
      simpa using hcall.2.1 t h
    | succ j =>
      simp only [List.getElem?_cons_succ] at h
      have := ih (call lib cache tok bs).2 (tok + 1) hcall.1 hall.2 j t h
      omega

/-- The statement at full strength — every behaviour a peer can show, `okThenLate` included.  It is FALSE for the
    library (`C19_unsolicited_reply_is_returned`): `_request` does not compare the id of the reply with the id it
    sent, so a complete unsolicited reply left on a kept-alive connection is returned by the next call.  The
    property's fault alphabet does not contain that behaviour; the `_partial` theorems above cover the alphabet
    (and more), relative to the environment model. -/
def C19_full_statement : Prop :=
  ∀ (lib : Lib) (scripts : List (List Beh)) (cache : Cache) (tok : Nat), Cache.safe cache = true →
    ∀ i t, (session lib cache tok scripts).1[i]? = some (.result t) → t = tok + i

/-- The boundary of the claim, exactly: after an unsolicited complete reply carrying `k`, the next call returns `k`. -/
theorem C19_unsolicited_reply_is_returned (lib : Lib) (k : Nat) :
    (session lib none 0 [[.okThenLate k], []]).1 = [.result 0, .result k] := by
  simp [session, call, attempt, exchange]

/-- … whereas the same reply hidden behind surplus bytes of an over-long body is dropped with the connection
    (close-on-error): the next call fails once, the one after succeeds with its own result. -/
theorem C19_hidden_reply_is_dropped (lib : Lib) (code : ErrCode) (k : Nat) :
    (session lib none 0 [[.statusLongLate code (some k)], [], []]).1 =
      [.transportError code.n, .other (if lib.drain then "http-garbage" else "http-state"), .result 2] := by
  cases lib with
  | mk d c => cases d <;> simp [session, call, attempt, exchange, afterLength]

/- ---------- non-200 replies ---------- -/

/-- A reply with a status other than 200 — whatever its code, whether or not a length is announced, whatever
    its body looks like (plain text, a JSON-RPC result for this very call, for another call, an error
    object), bodiless, or longer than announced — surfaces as `TransportError` carrying that status; on a new
    connection and on every cached connection on which nothing is unread (a stale one included: the request
    is re-sent on a new connection). -/
theorem C19_transport_error (lib : Lib) (cache : Cache) (tok : Nat) (rest : List Beh) (hg : Cache.good cache = true)
    (code : ErrCode) (len : Bool) (body : Body) (nm : Bool) (r : Option Nat) :
    (call lib cache tok (.status code len body :: rest)).1 = .transportError code.n ∧
    (call lib cache tok (.bodiless nm len :: rest)).1 = .transportError (bodilessCode nm) ∧
    (call lib cache tok (.statusLongNow code :: rest)).1 = .transportError code.n ∧
    (call lib cache tok (.statusLongLate code r :: rest)).1 = .transportError code.n := by
  cases cache with
  | none => cases len <;> simp [call, attempt, exchange]
  | some c =>
    simp only [Cache.good, Bool.and_eq_true, Bool.not_eq_true', List.isEmpty_iff] at hg
    obtain ⟨⟨hd, hi⟩, hp⟩ := hg
    cases hs : c.stale <;> cases len <;> simp [call, attempt, exchange, hd, hi, hp, hs]

/-- The codes are not 200 (and the success test of the code is `== 200`, see C19Gen). -/
theorem C19_error_codes_not_success (code : ErrCode) (nm : Bool) :
    code.n ≠ successStatus ∧ bodilessCode nm ≠ successStatus := by
  have h := code.h
  simp only [bodyStatus, Bool.and_eq_true, bne_iff_ne, ne_eq] at h
  refine ⟨h.1.1.1, ?_⟩
  cases nm <;> decide

/- ---------- replies delivered in pieces ---------- -/

/-- `100 Continue` responses in front of the final one are skipped. -/
def onlyContinue (infos : List Info) : Bool := (firstOther infos).isNone

/-- A non-200 reply delivered in pieces — any number of `100 Continue` responses first, pauses after the status line,
    after the header block (so that the body reaches the connection after the headers were parsed), inside the body;
    a length announced or not, a body of the announced length or longer (the surplus at once or after a pause),
    whatever the body looks like (a complete HTTP reply for another token included) — surfaces as `TransportError`
    carrying its status, on a new connection and on every cached one with nothing unread. -/
theorem C19_split_transport_error (lib : Lib) (cache : Cache) (tok : Nat) (rest : List Beh) (hg : Cache.good cache = true)
    (infos : List Info) (hi : onlyContinue infos = true) (cuts : Cuts)
    (code : ErrCode) (body : Body) (late : Bool) (nm len : Bool) :
    (call lib cache tok (.scripted ⟨infos, .status code body none, cuts⟩ :: rest)).1 = .transportError code.n ∧
    (call lib cache tok (.scripted ⟨infos, .status code body (some .exact), cuts⟩ :: rest)).1 = .transportError code.n ∧
    (call lib cache tok (.scripted ⟨infos, .status code body (some (.long late)), cuts⟩ :: rest)).1 = .transportError code.n ∧
    (call lib cache tok (.scripted ⟨infos, .bodiless nm len, cuts⟩ :: rest)).1 = .transportError (bodilessCode nm) := by
  simp only [onlyContinue, Option.isNone_iff_eq_none] at hi
  cases cache with
  | none => cases len <;> simp [call, attempt, exchange, deliver, hi]
  | some c =>
    simp only [Cache.good, Bool.and_eq_true, Bool.not_eq_true', List.isEmpty_iff] at hg
    obtain ⟨⟨hd, hin⟩, hp⟩ := hg
    cases hs : c.stale <;> cases len <;> simp [call, attempt, exchange, deliver, hi, hd, hin, hp, hs]

/-- An informational response other than `100 Continue` (102, 103) is what the client is shown: `TransportError` with
    that status (not 200), whatever final response follows it, at once or after a pause. -/
theorem C19_split_informational (lib : Lib) (cache : Cache) (tok : Nat) (rest : List Beh) (hg : Cache.good cache = true)
    (r : Reply) (code : Nat) (hi : firstOther r.infos = some code) :
    (call lib cache tok (.scripted r :: rest)).1 = .transportError code ∧ (code = 102 ∨ code = 103) := by
  have hcode : code = 102 ∨ code = 103 := by
    have : ∀ (l : List Info), firstOther l = some code → code = 102 ∨ code = 103 := by
      intro l
      induction l with
      | nil => simp [firstOther]
      | cons x xs ih =>
        cases x with
        | continue100 cut => simpa [firstOther] using ih
        | other early cut => cases early <;> simp [firstOther, infoCode] <;> omega
    exact this _ hi
  refine ⟨?_, hcode⟩
  cases cache with
  | none => simp [call, attempt, exchange, deliver, hi]
  | some c =>
    simp only [Cache.good, Bool.and_eq_true, Bool.not_eq_true', List.isEmpty_iff] at hg
    obtain ⟨⟨hd, hin⟩, hp⟩ := hg
    cases hs : c.stale <;> simp [call, attempt, exchange, deliver, hi, hd, hin, hp, hs]

/-- The boundary of "TransportError for a non-200 reply": when the body of a non-200 reply ends BEFORE the announced
    length because the peer closes (a non-200 reply that is also a truncated one), draining raises `IncompleteRead`
    — an exception, as the property demands of a truncated body, but not `TransportError`; the call after it succeeds. -/
theorem C19_split_cut_short_raises_incomplete (closeNoLen : Bool) (code : ErrCode) (body : Body) (cuts : Cuts) :
    (session ⟨true, closeNoLen⟩ none 0 [[.scripted ⟨[], .status code body (some .short), cuts⟩], [], []]).1 =
      [.other "incomplete", .result 1, .result 2] := by
  simp [session, call, attempt, exchange, deliver, firstOther]

/-- The draining `single_request` consumes the body of a non-200 reply even when it arrives after the headers were
    parsed and looks like a complete reply for another token: no later call fails, none returns it. -/
theorem C19_split_late_body_is_consumed (closeNoLen : Bool) (code : ErrCode) (cuts : Cuts) (infos : List Info)
    (hi : onlyContinue infos = true) :
    (session ⟨true, closeNoLen⟩ none 0 [[.scripted ⟨infos, .status code .httpReply (some .exact), cuts⟩], [], []]).1 =
      [.transportError code.n, .result 1, .result 2] := by
  simp only [onlyContinue, Option.isNone_iff_eq_none] at hi
  simp [session, call, attempt, exchange, deliver, hi, afterLength]

/-- `103 Early Hints`, then (at once or after a pause) the final 200 of the same request: the unread response makes
    the next call fail once (the connection is dropped with whatever arrived on it), the one after succeeds. -/
theorem C19_split_early_hints_then_final (drain cut late : Bool) (cuts : Cuts) :
    (session ⟨drain, false⟩ none 0 [[.scripted ⟨[.other true cut], .ok .exact, cuts⟩], [], []]).1 =
      [.transportError 103, .other "http-state", .result 2] ∧
    (session ⟨drain, false⟩ none 0 [[.scripted ⟨[.other true cut], .ok (.long late), cuts⟩], [], []]).1 =
      [.transportError 103, .other "http-state", .result 2] := by
  simp [session, call, attempt, exchange, deliver, firstOther, infoCode, Final.closes]

/-- Replies delivered in one piece are the behaviours of the alphabet: the new constructor extends the old ones. -/
theorem C19_split_extends (lib : Lib) (c : Conn) (tok : Nat) (code : ErrCode) (body : Body) (nm len : Bool) :
    exchange lib c tok (.scripted ⟨[], .ok .exact, ⟨false, false, false⟩⟩) = exchange lib c tok .okKeep ∧
    exchange lib c tok (.scripted ⟨[], .ok .short, ⟨false, false, false⟩⟩) = exchange lib c tok .truncated ∧
    exchange lib c tok (.scripted ⟨[], .status code body (some .exact), ⟨false, false, false⟩⟩) = exchange lib c tok (.status code true body) ∧
    exchange lib c tok (.scripted ⟨[], .status code body none, ⟨false, false, false⟩⟩) = exchange lib c tok (.status code false body) ∧
    exchange lib c tok (.scripted ⟨[], .bodiless nm len, ⟨false, false, false⟩⟩) = exchange lib c tok (.bodiless nm len) ∧
    exchange lib c tok (.scripted ⟨[], .status code body (some (.long false)), ⟨false, false, false⟩⟩) = exchange lib c tok (.statusLongNow code) := by
  unfold exchange
  cases len <;> split <;> simp [deliver, firstOther, afterLength] <;> cases lib.drain <;> simp [surplusLeft]

/- ---------- recovery ---------- -/

private theorem healthy_cases (b : Beh) (h : b.healthy = true) :
    b = .okKeep ∨ b = .okClose ∨ (∃ t fr, b = .okBody t fr) ∨ ∃ r, b = .scripted r ∧ r.healthy = true := by
  cases b <;> simp_all [Beh.healthy]

/-- A healthy exchange delivered in pieces ends like one delivered at once. -/
private theorem deliver_healthy (lib : Lib) (c : Conn) (tok : Nat) (r : Reply) (h : r.healthy = true) :
    deliver lib c tok r = .done (.result tok) (some c) := by
  unfold Reply.healthy at h
  simp only [Bool.and_eq_true, Option.isNone_iff_eq_none] at h
  obtain ⟨h1, h2⟩ := h
  unfold deliver
  rw [h1]
  split at h2 <;> simp_all

private theorem exchange_scripted_healthy (lib : Lib) (c : Conn) (tok : Nat) (r : Reply) (h : r.healthy = true) :
    exchange lib c tok (.scripted r) = exchange lib c tok .okKeep := by
  unfold exchange
  split <;> simp [deliver_healthy lib c tok r h]

private theorem call_scripted_healthy (lib : Lib) (cache : Cache) (tok : Nat) (r : Reply) (rest : List Beh)
    (h : r.healthy = true) : call lib cache tok (.scripted r :: rest) = call lib cache tok (.okKeep :: rest) := by
  cases cache with
  | none => simp [call, attempt, exchange_scripted_healthy lib _ tok r h]
  | some c =>
    cases hd : c.desync <;> cases hs : c.stale <;> cases hp : c.pending <;>
      simp [call, attempt, hd, hs, hp, exchange_scripted_healthy lib _ tok r h]

/-- The head of a healthy script: nothing, a plain healthy exchange, or one delivered in pieces. -/
private def basicShape (bs : List Beh) : Prop :=
  bs = [] ∨ (∃ r, bs = .okKeep :: r) ∨ (∃ r, bs = .okClose :: r) ∨ (∃ t fr r, bs = .okBody t fr :: r)

private theorem healthy_shape (bs : List Beh) (hh : bs.all Beh.healthy = true) :
    basicShape bs ∨ ∃ r rest, bs = .scripted r :: rest ∧ r.healthy = true := by
  cases bs with
  | nil => exact Or.inl (Or.inl rfl)
  | cons b r =>
    simp only [List.all_cons, Bool.and_eq_true] at hh
    rcases healthy_cases b hh.1 with rfl | rfl | ⟨t, fr, rfl⟩ | ⟨r', rfl, hr⟩
    · exact Or.inl (Or.inr (Or.inl ⟨r, rfl⟩))
    · exact Or.inl (Or.inr (Or.inr (Or.inl ⟨r, rfl⟩)))
    · exact Or.inl (Or.inr (Or.inr (Or.inr ⟨t, fr, r, rfl⟩)))
    · exact Or.inr ⟨r', r, rfl, hr⟩

private theorem healthy_stays_basic (lib : Lib) (cache : Cache) (tok : Nat) (bs : List Beh)
    (hg : Cache.good cache = true) (hh : basicShape bs) :
    (call lib cache tok bs).1 = .result tok ∧ Cache.good (call lib cache tok bs).2 = true := by
  cases cache with
  | none =>
    rcases hh with rfl | ⟨r, rfl⟩ | ⟨r, rfl⟩ | ⟨t, fr, r, rfl⟩ <;> simp [call, attempt, exchange, Cache.good]
    cases fr <;> simp [afterOk, Framing.keeps]
  | some c =>
    simp only [Cache.good, Bool.and_eq_true, Bool.not_eq_true', List.isEmpty_iff] at hg
    obtain ⟨⟨hd, hi⟩, hp⟩ := hg
    rcases hh with rfl | ⟨r, rfl⟩ | ⟨r, rfl⟩ | ⟨t, fr, r, rfl⟩
    case inr.inr.inr =>
      cases hs : c.stale <;> cases fr <;>
        simp [call, attempt, exchange, Cache.good, afterOk, Framing.keeps, hd, hi, hp, hs]
    all_goals cases hs : c.stale <;> simp [call, attempt, exchange, Cache.good, hd, hi, hp, hs]

/-- From a connection state with nothing unread, a healthy exchange (delivered at once or in pieces) succeeds with its
    own result and leaves such a state. -/
theorem C19_healthy_stays (lib : Lib) (cache : Cache) (tok : Nat) (bs : List Beh)
    (hg : Cache.good cache = true) (hh : bs.all Beh.healthy = true) :
    (call lib cache tok bs).1 = .result tok ∧ Cache.good (call lib cache tok bs).2 = true := by
  rcases healthy_shape bs hh with hb | ⟨r, rest, rfl, hr⟩
  · exact healthy_stays_basic lib cache tok bs hg hb
  · rw [call_scripted_healthy lib cache tok r rest hr]
    exact healthy_stays_basic lib cache tok _ hg (Or.inr (Or.inl ⟨rest, rfl⟩))

private theorem first_after_faults_basic (lib : Lib) (c : Conn) (tok : Nat) (bs : List Beh)
    (hc : c.safe = true) (hh : basicShape bs) :
    ((call lib (some c) tok bs).1 = .result tok ∨ ∃ k, (call lib (some c) tok bs).1 = .other k) ∧
    Cache.good (call lib (some c) tok bs).2 = true := by
  obtain ⟨hd, hi⟩ := safe_parts c hc
  rcases hh with rfl | ⟨r, rfl⟩ | ⟨r, rfl⟩ | ⟨t, fr, r, rfl⟩
  case inr.inr.inr =>
    cases hs : c.stale <;> cases hp : c.pending <;> cases fr <;> rcases hi with hi | ⟨rest, hi⟩ <;>
      simp [call, attempt, exchange, Cache.good, afterOk, Framing.keeps, hd, hs, hp, hi]
  all_goals
    cases hs : c.stale <;> cases hp : c.pending <;> rcases hi with hi | ⟨rest, hi⟩ <;>
      simp [call, attempt, exchange, Cache.good, hd, hs, hp, hi]

/-- The first healthy exchange after faults: it succeeds with its own result or fails, and in both cases nothing
    unread is left — from *every* state a fault sequence can leave behind (`Cache.safe`). -/
theorem C19_first_after_faults (lib : Lib) (cache : Cache) (tok : Nat) (bs : List Beh)
    (hc : Cache.safe cache = true) (hh : bs.all Beh.healthy = true) :
    ((call lib cache tok bs).1 = .result tok ∨ ∃ k, (call lib cache tok bs).1 = .other k) ∧
    Cache.good (call lib cache tok bs).2 = true := by
  cases cache with
  | none => exact ⟨Or.inl (C19_healthy_stays lib none tok bs rfl hh).1, (C19_healthy_stays lib none tok bs rfl hh).2⟩
  | some c =>
    rcases healthy_shape bs hh with hb | ⟨r, rest, rfl, hr⟩
    · exact first_after_faults_basic lib c tok bs hc hb
    · rw [call_scripted_healthy lib (some c) tok r rest hr]
      exact first_after_faults_basic lib c tok _ hc (Or.inr (Or.inl ⟨rest, rfl⟩))

private theorem session_healthy (lib : Lib) : ∀ (tail : List (List Beh)) (cache : Cache) (tok : Nat),
    Cache.good cache = true → tail.all (fun bs => bs.all Beh.healthy) = true →
    ∀ i, i < tail.length → (session lib cache tok tail).1[i]? = some (.result (tok + i)) := by
  intro tail
  induction tail with
  | nil => intro _ _ _ _ i hi; simp at hi
  | cons bs rest ih =>
    intro cache tok hg hall i hi
    simp only [List.all_cons, Bool.and_eq_true] at hall
    have h1 := C19_healthy_stays lib cache tok bs hg hall.1
    simp only [session]
    cases i with
    | zero => simp [h1.1]
    | succ j =>
      simp only [List.getElem?_cons_succ]
      have := ih (call lib cache tok bs).2 (tok + 1) h1.2 hall.2 j (by simpa using hi)
      rw [this]; congr 2; omega

/-- Recovery: once faults stop, whatever state they left behind, at most one further call fails — the first —
    before healthy exchanges (keep-alive or closing ones, in any order, any number) succeed; every later one
    returns its own result. -/
theorem C19_recovery (lib : Lib) (cache : Cache) (tok : Nat) (tail : List (List Beh))
    (hc : Cache.safe cache = true) (hall : tail.all (fun bs => bs.all Beh.healthy) = true) :
    ∀ i, 1 ≤ i → i < tail.length → (session lib cache tok tail).1[i]? = some (.result (tok + i)) := by
  intro i h1 hi
  cases tail with
  | nil => simp at hi
  | cons bs rest =>
    simp only [List.all_cons, Bool.and_eq_true] at hall
    have hf := C19_first_after_faults lib cache tok bs hc hall.1
    simp only [session]
    cases i with
    | zero => omega
    | succ j =>
      simp only [List.getElem?_cons_succ]
      have := session_healthy lib rest (call lib cache tok bs).2 (tok + 1) hf.2 hall.2 j (by simpa using hi)
      rw [this]; congr 2; omega

private theorem session_append (lib : Lib) : ∀ (a b : List (List Beh)) (cache : Cache) (tok : Nat),
    (session lib cache tok (a ++ b)).1 =
      (session lib cache tok a).1 ++ (session lib (session lib cache tok a).2 (tok + a.length) b).1 := by
  intro a
  induction a with
  | nil => intro b cache tok; simp [session]
  | cons bs rest ih =>
    intro b cache tok
    simp only [List.cons_append, session, List.length_cons]
    rw [ih]
    have : tok + 1 + rest.length = tok + (rest.length + 1) := by omega
    rw [this]

private theorem session_length (lib : Lib) : ∀ (a : List (List Beh)) (cache : Cache) (tok : Nat),
    (session lib cache tok a).1.length = a.length := by
  intro a
  induction a with
  | nil => intro _ _; simp [session]
  | cons bs rest ih => intro cache tok; simp [session, ih]

private theorem session_safe (lib : Lib) : ∀ (a : List (List Beh)) (cache : Cache) (tok : Nat),
    Cache.safe cache = true → a.all (fun bs => bs.all Beh.framed) = true →
    Cache.safe (session lib cache tok a).2 = true := by
  intro a
  induction a with
  | nil => intro cache tok h _; simpa [session] using h
  | cons bs rest ih =>
    intro cache tok h hall
    simp only [List.all_cons, Bool.and_eq_true] at hall
    simp only [session]
    exact ih _ _ (C19_own_or_raise_partial lib cache tok bs h hall.1).1 hall.2

/-- Recovery after ANY finite fault sequence: a new proxy goes through arbitrary fault scripts (of framed
    behaviours), then faults stop; of the healthy calls that follow at most the first fails, all later ones
    return their own results. -/
theorem C19_recovery_after_faults_partial (lib : Lib) (faults tail : List (List Beh))
    (hf : faults.all (fun bs => bs.all Beh.framed) = true)
    (hall : tail.all (fun bs => bs.all Beh.healthy) = true) :
    ∀ i, 1 ≤ i → i < tail.length →
      (session lib none 0 (faults ++ tail)).1[faults.length + i]? = some (.result (faults.length + i)) := by
  intro i h1 hi
  rw [session_append]
  have hlen := session_length lib faults none 0
  rw [List.getElem?_append_right (by omega)]
  have hs := session_safe lib faults none 0 rfl hf
  have := C19_recovery lib (session lib none 0 faults).2 (0 + faults.length) tail hs hall i h1 hi
  simp only [hlen, Nat.add_sub_cancel_left]
  simpa using this

/-- The bound is tight: after a bodiless status (no length header, the code as it stands) the next healthy call does fail once. -/
theorem C19_recovery_tight :
    (session ⟨true, false⟩ none 0 [[.bodiless false false], [], []]).1 =
      [.transportError 204, .other "http-state", .result 2] := by
  decide

/- ---------- what the body of a non-200 reply holds, and how it is framed ---------- -/

/-- A non-200 reply surfaces as `TransportError` carrying its status WHATEVER ITS BODY HOLDS — nothing, tens of KiB, an
    HTML page in UTF-8 or in ISO-8859-1, gzip-compressed bytes with or without `Content-Encoding`, arbitrary bytes,
    text cut inside a character, UTF-16, JSON-RPC look-alikes — and however it is framed: a Content-Length (keep-alive
    or `Connection: close`), no length and a close, chunked transfer encoding. -/
theorem C19_error_body_transport_error (lib : Lib) (cache : Cache) (tok : Nat) (rest : List Beh) (hg : Cache.good cache = true)
    (code : ErrCode) (len : Bool) (body : Body) :
    (call lib cache tok (.status code len body :: rest)).1 = .transportError code.n ∧
    (call lib cache tok (.statusChunked code body :: rest)).1 = .transportError code.n ∧
    (call lib cache tok (.statusLenClose code body :: rest)).1 = .transportError code.n := by
  cases cache with
  | none => cases len <;> simp [call, attempt, exchange]
  | some c =>
    simp only [Cache.good, Bool.and_eq_true, Bool.not_eq_true', List.isEmpty_iff] at hg
    obtain ⟨⟨hd, hi⟩, hp⟩ := hg
    cases hs : c.stale <;> cases len <;> simp [call, attempt, exchange, hd, hi, hp, hs]

private theorem deliver_eraseBody (lib : Lib) (c : Conn) (tok : Nat) (r : Reply) :
    deliver lib c tok { r with final := r.final.eraseBody } = deliver lib c tok r := by
  obtain ⟨infos, final, cuts⟩ := r
  cases final with
  | status code body len =>
    have hcl : ∀ b, (Final.status code b len).closes = (Final.status code body len).closes := by
      intro b; cases len with
      | none => rfl
      | some d => cases d <;> rfl
    unfold deliver
    simp only [Final.eraseBody, hcl]
    cases firstOther infos with
    | some k => rfl
    | none =>
      cases len with
      | none => rfl
      | some d => cases d <;> rfl
  | ok d => rfl
  | bodiless nm len => rfl

private theorem exchange_eraseBody (lib : Lib) (c : Conn) (tok : Nat) (b : Beh) :
    exchange lib c tok b.eraseBody = exchange lib c tok b := by
  unfold exchange
  cases hi : c.inbound with
  | cons x rest => cases x <;> rfl
  | nil =>
    cases b <;> simp only [Beh.eraseBody]
    case status code len body => cases len <;> rfl
    case scripted r => exact deliver_eraseBody lib c tok r

private theorem eraseBody_down (b : Beh) : b.eraseBody = .down ↔ b = .down := by
  cases b <;> simp [Beh.eraseBody]

private theorem attempt_eraseBody (lib : Lib) (cache : Cache) (tok : Nat) (bs : List Beh) :
    attempt lib cache tok (bs.map Beh.eraseBody) =
      ((attempt lib cache tok bs).1, (attempt lib cache tok bs).2.map Beh.eraseBody) := by
  cases cache with
  | some c =>
    unfold attempt
    simp only
    split
    · simp
    · split
      · simp
      · split
        · simp
        · cases bs with
          | nil => simp
          | cons b rest => simp [exchange_eraseBody]
  | none =>
    cases bs with
    | nil => simp [attempt]
    | cons b rest =>
      by_cases hdn : b = .down
      · subst hdn; simp [attempt, Beh.eraseBody]
      · have hne : b.eraseBody ≠ .down := fun h => hdn ((eraseBody_down b).mp h)
        have h1 : attempt lib none tok (b.eraseBody :: rest.map Beh.eraseBody)
            = (exchange lib {} tok b.eraseBody, rest.map Beh.eraseBody) := by
          cases hb : b.eraseBody <;> simp_all [attempt]
        have h2 : attempt lib none tok (b :: rest) = (exchange lib {} tok b, rest) := by
          cases b <;> simp_all [attempt]
        simp only [List.map_cons, h1, h2, exchange_eraseBody]

private theorem call_eraseBody (lib : Lib) (cache : Cache) (tok : Nat) (bs : List Beh) :
    call lib cache tok (bs.map Beh.eraseBody) = call lib cache tok bs := by
  have hhd : ((bs.map Beh.eraseBody).head? = some Beh.down) = (bs.head? = some Beh.down) := by
    cases bs with
    | nil => simp
    | cons b rest => simp [eraseBody_down]
  unfold call
  simp only [hhd]
  generalize (if bs.head? = some Beh.down then cache.map (fun c => { c with stale := true }) else cache) = cache'
  rw [attempt_eraseBody]
  cases h1 : attempt lib cache' tok bs with
  | mk a bs' =>
    cases a with
    | done o c => rfl
    | retryable =>
      simp only
      rw [attempt_eraseBody]
      cases attempt lib none tok bs' with
      | mk a2 bs'' => cases a2 <;> rfl

/-- THE BODY OF A NON-200 REPLY IS IRRELEVANT: a whole session — every outcome of every call and the connection left
    behind — is the one in which every such body is plain text.  (The code never looks at the bytes: it drains them
    when a length is announced, `C19_gen_errorBodyUnused`.)  In particular no content of an error body can make a call
    raise anything but `TransportError`, return anything, or disturb a later call. -/
theorem C19_error_body_irrelevant (lib : Lib) : ∀ (scripts : List (List Beh)) (cache : Cache) (tok : Nat),
    session lib cache tok (scripts.map (·.map Beh.eraseBody)) = session lib cache tok scripts := by
  intro scripts
  induction scripts with
  | nil => intro cache tok; rfl
  | cons bs rest ih =>
    intro cache tok
    simp only [List.map_cons, session, call_eraseBody, ih]

/-- Error replies of every framing followed by healthy calls, for the code as it stands (drains when a length is
    announced, does not close otherwise): every later call returns its own result — except after a chunked error
    body, which nothing reads: the one next call fails (`ResponseNotReady`), the one after succeeds. -/
theorem C19_error_body_recovery (code : ErrCode) (body : Body) (len : Bool) :
    (session ⟨true, false⟩ none 0 [[.status code len body], [], []]).1 = [.transportError code.n, .result 1, .result 2] ∧
    (session ⟨true, false⟩ none 0 [[.statusLenClose code body], [], []]).1 = [.transportError code.n, .result 1, .result 2] ∧
    (session ⟨true, false⟩ none 0 [[.statusChunked code body], [], []]).1 =
      [.transportError code.n, .other "http-state", .result 2] := by
  cases len <;> simp [session, call, attempt, exchange, afterLength]

/- ---------- what the body of a 200 reply holds ---------- -/

/-- A HEALTHY reply returns the call's own result WHATEVER ITS JSON TEXT LOOKS LIKE — 7-bit only, raw multi-byte UTF-8
    (its length in bytes differs from its length in characters), `\u` escapes, both, indented, tens of KiB read in many
    pieces, gzip-coded — and however it is framed (Content-Length, no length and a close, chunked, `Connection: close`):
    on a new connection and on every cached one with nothing unread; and it leaves such a state. -/
theorem C19_ok_body_own_result (lib : Lib) (cache : Cache) (tok : Nat) (rest : List Beh) (hg : Cache.good cache = true)
    (t : OkText) (fr : Framing) :
    (call lib cache tok (.okBody t fr :: rest)).1 = .result tok ∧
    Cache.good (call lib cache tok (.okBody t fr :: rest)).2 = true :=
  healthy_stays_basic lib cache tok _ hg (Or.inr (Or.inr (Or.inr ⟨t, fr, rest, rfl⟩)))

/-- The spelling, size and content coding of a healthy reply are irrelevant: the exchange is the one with a 7-bit
    document in the same framing; framed by a Content-Length it is the plain healthy keep-alive exchange. -/
theorem C19_ok_body_irrelevant (lib : Lib) (c : Conn) (tok : Nat) (t : OkText) (fr : Framing) :
    exchange lib c tok (.okBody t fr) = exchange lib c tok (.okBody .ascii fr) ∧
    exchange lib c tok (.okBody t .length) = exchange lib c tok .okKeep := by
  unfold exchange
  constructor <;> split <;> simp [afterOk, Framing.keeps]

/-- A 200 reply whose body is not JSON text — an HTML page, a document in ISO-8859-1, a character cut in half, a lone
    continuation byte, an over-long encoding, arbitrary bytes, undeclared gzip, bytes behind the document — in every
    framing: the call RAISES (`ValueError` family); it never returns a value.  Nothing unread is left. -/
theorem C19_bad_body_raises (lib : Lib) (cache : Cache) (tok : Nat) (rest : List Beh) (hg : Cache.good cache = true)
    (t : BadText) (fr : Framing) :
    (call lib cache tok (.badBody200 t fr :: rest)).1 = .other "decode" ∧
    (∀ v, (call lib cache tok (.badBody200 t fr :: rest)).1 ≠ .result v) ∧
    Cache.good (call lib cache tok (.badBody200 t fr :: rest)).2 = true := by
  cases cache with
  | none => cases fr <;> simp [call, attempt, exchange, Cache.good, afterOk, Framing.keeps]
  | some c =>
    simp only [Cache.good, Bool.and_eq_true, Bool.not_eq_true', List.isEmpty_iff] at hg
    obtain ⟨⟨hd, hi⟩, hp⟩ := hg
    cases hs : c.stale <;> cases fr <;>
      simp [call, attempt, exchange, Cache.good, afterOk, Framing.keeps, hd, hi, hp, hs]

/-- … and the calls after it succeed at once, whatever their (healthy) replies look like. -/
theorem C19_bad_body_recovery (lib : Lib) (t : BadText) (fr fr1 fr2 : Framing) (t1 t2 : OkText) :
    (session lib none 0 [[.badBody200 t fr], [.okBody t1 fr1], [.okBody t2 fr2]]).1 =
      [.other "decode", .result 1, .result 2] := by
  cases fr <;> cases fr1 <;> simp [session, call, attempt, exchange, afterOk, Framing.keeps]

/-- The alphabet's `non-JSON 200` is one of them. -/
theorem C19_bad_body_extends (lib : Lib) (c : Conn) (tok : Nat) :
    exchange lib c tok .nonJson200 = exchange lib c tok (.badBody200 .html .length) := by
  unfold exchange
  split <;> simp [afterOk, Framing.keeps]

/- Non-vacuity -/
example : (session ⟨true, false⟩ none 0 [[.okBody .rawUtf8 .length], [.status ⟨500, by decide⟩ true .text], [.okBody .huge .chunked],
      [.badBody200 .latin1 .length], [.okBody .gzip .noLength], [.badBody200 .cutChar .lengthClose], [.okBody .mixed .lengthClose], []]).1 =
    [.result 0, .transportError 500, .result 2, .other "decode", .result 4, .other "decode", .result 6, .result 7] := by decide
example : ([[Beh.okBody .rawUtf8 .length], [.okBody .gzip .chunked, .okBody .escaped .noLength]] : List (List Beh)).all
    (fun bs => bs.all Beh.healthy) = true := by decide
example : ([[Beh.badBody200 .latin1 .length], [.badBody200 .gzipBare .chunked]] : List (List Beh)).all
    (fun bs => bs.all Beh.framed) = true := by decide
example : (session ⟨true, false⟩ none 0 [[.okKeep], [.status ⟨503, by decide⟩ true .latin1], [], [.statusChunked ⟨502, by decide⟩ .gzipDeclared],
      [], [.statusLenClose ⟨500, by decide⟩ .binary], []]).1 =
    [.result 0, .transportError 503, .result 2, .transportError 502, .other "http-state", .transportError 500, .result 6] := by decide
example : ([[Beh.statusChunked ⟨502, by decide⟩ .gzipBare], [.statusLenClose ⟨404, by decide⟩ .huge]] : List (List Beh)).all
    (fun bs => bs.all Beh.framed) = true := by decide
example : (session ⟨true, false⟩ none 7 [[.okClose], [.closeBeforeReply, .okKeep],
      [.status ⟨500, by decide⟩ true .own], [.truncated], []]).1 =
    [.result 7, .other "disconnected", .transportError 500, .other "decode", .result 11] := by decide

/-- the hypotheses of the `_partial` theorems are met by a script that leaves unread data behind -/
example : ([[Beh.statusLongLate ⟨503, by decide⟩ (some 9)], [.okExtraNow 4], [.okClose]] : List (List Beh)).all
    (fun bs => bs.all Beh.framed) = true := by decide
example : (session ⟨true, false⟩ none 0 [[.statusLongLate ⟨503, by decide⟩ (some 9)]]).2 =
    some { inbound := [.junk, .reply 9] } := by decide
example : Cache.safe (some { inbound := [.junk, .reply 9] }) = true ∧ Cache.good (some { inbound := [.junk, .reply 9] }) = false := by decide
example : ([[Beh.okClose], [], [.okKeep, .okClose]] : List (List Beh)).all (fun bs => bs.all Beh.healthy) = true := by decide

/-- replies delivered in pieces meet the hypotheses of the `_partial` theorems (framed) and of the recovery theorems (healthy) -/
example : ([[Beh.scripted ⟨[.continue100 true, .other true true], .ok .exact, ⟨true, true, true⟩⟩],
            [.scripted ⟨[], .status ⟨500, by decide⟩ .httpReply (some (.long true)), ⟨false, true, false⟩⟩]] : List (List Beh)).all
    (fun bs => bs.all Beh.framed) = true := by decide
example : ([[Beh.scripted ⟨[.continue100 true], .ok .exact, ⟨true, false, true⟩⟩], [.okClose]] : List (List Beh)).all
    (fun bs => bs.all Beh.healthy) = true := by decide
example : onlyContinue [.continue100 true, .continue100 false] = true := by decide
example : (session ⟨true, false⟩ none 0 [[.scripted ⟨[.continue100 true], .status ⟨503, by decide⟩ .httpReply (some (.long true)), ⟨true, true, true⟩⟩],
      [.scripted ⟨[], .ok .exact, ⟨false, true, false⟩⟩], []]).1 = [.transportError 503, .other "http-garbage", .result 2] := by decide

end JRV.Props

