/-
  C19 — companion theorems of the facts extracted from the source (tools/extractors/transport.py).
  Built and audited separately from JRV.Properties.C19: a source edit that changes one fact fails that
  companion only.
-/
import JRV.Model.Transport
import JRV.Generated

namespace JRV.Props
open JRV.Transport

/-- `single_request` wraps send + getresponse + parse in a handler that calls `self.close()` and re-raises:
    the `none` cache after every `.done (.other _)`/`.retryable` of the model. -/
theorem C19_gen_closeOnError : Generated.singleRequestClosesOnError = some true := by decide

/-- The success test of `single_request` is `response.status == 200`: exactly the model's `successStatus`, the one
    status excluded from `ErrCode` (every other status is answered by `TransportError`). -/
theorem C19_gen_successStatus : Generated.singleRequestSuccessStatuses = some [successStatus] := by decide

/-- Every other status ends in `raise TransportError(host + handler, response.status, …)`. -/
theorem C19_gen_raisesTransportError : Generated.singleRequestRaisesTransportError = some true := by decide

/-- The two switches of the model (`Lib.drain`, `Lib.closeNoLen`) are recognised in the source; the theorems of
    C19 hold for every value of them, the correspondence runs the model with the extracted values. -/
theorem C19_gen_libSwitches :
    Generated.singleRequestDrainsWhenLength.isSome = true ∧ Generated.singleRequestClosesWhenNoLength.isSome = true := by
  decide

/-- The non-200 path never closes the response object unread: a response that is not read to its announced length stays
    open, which is the model's `pending` flag (http.client refuses the next `getresponse`, close-on-error then drops the
    connection with everything that arrived on it); there is no transition of the model in which a connection is
    reused while bytes of an earlier exchange can still arrive on it. -/
theorem C19_gen_responseNotClosedUnread : Generated.singleRequestClosesResponseUnread = some false := by decide

/-- The bytes of an error body are dropped where they are read: no constructor of `Transport.Body` is ever inspected by
    `exchange`/`deliver` (`C19_error_body_irrelevant`) because the code hands those bytes to nothing — no decoding, no
    parser, no exception argument. -/
theorem C19_gen_errorBodyUnused : Generated.singleRequestErrorBodyUnused = some true := by decide

/-- The bytes of a 200 reply are decoded strictly (no `errors="replace"`/`"ignore"` anywhere between the socket and the
    JSON parser): `Beh.badBody200` — a body that is not valid UTF-8 — ends in `.other "decode"`, never in a result
    (`C19_bad_body_raises`). -/
theorem C19_gen_replyDecodingStrict : Generated.replyDecodingStrict = some true := by decide

/-- The 200 branch returns what `parse_response` returned and raises nothing itself: the model's `.okBody _ fr` ends in
    `.result tok` for EVERY `OkText` (`C19_ok_body_own_result`) — there is no test on the text (its length in characters
    against the Content-Length in bytes, …) that could refuse a healthy reply. -/
theorem C19_gen_successReturnsParsed : Generated.singleRequestSuccessReturnsParsed = some true := by decide

theorem C19_gen_emptyBodyNone : Generated.runRequestEmptyBodyNone = some true := by decide

end JRV.Props
